(* Model of image.go (resizeImage, the Resize/Draw paths of the four image kinds, samePlacement)
   and of the placement diffing at the top of Vaxis.render (vaxis.go).  Executable definitions
   only; proofs are in proofs/ImageProofs.v, statements in props/C20.v.

   float64: resizeImage computes  int(float64(w)/float64(columns) * float64(wPix)).  The three
   operations (conversion from int, division, multiplication) are modelled by an integer-only implementation of IEEE-754
   binary64 round-to-nearest-even on non-negative fractions ([rn]); a float is carried as the
   exact fraction n/d it denotes (d a power of two).  Exponent range (overflow, subnormals) is
   not modelled: the values that occur for int64 operands lie in [2^-63, 2^127]. *)
From Vx Require Import base.Prelude.

(* ------------------------------------------------------------------ binary64, RNE *)

Definition fl := (Z * Z)%type.          (* n/d, 0 <= n, 0 < d *)

(* p/q divided by 2^e, as a fraction with both parts integral *)
Definition scaleP (p e : Z) : Z := p * 2 ^ Z.max (- e) 0.
Definition scaleQ (q e : Z) : Z := q * 2 ^ Z.max e 0.

(* the exponent e of the unit in the last place: 2^52 <= (p/q)/2^e < 2^53 *)
Definition rn_exp (p q : Z) : Z :=
  let e0 := Z.log2 p - Z.log2 q - 52 in
  if scaleP p e0 <? 2 ^ 52 * scaleQ q e0 then e0 - 1 else e0.

(* nearest integer to P/Q, ties to even *)
Definition round_half_even (P Q : Z) : Z :=
  let m := P / Q in
  let r := P mod Q in
  if 2 * r <? Q then m
  else if Q <? 2 * r then m + 1
  else if Z.even m then m else m + 1.

(* the binary64 nearest to p/q  (0 <= p, 0 < q) *)
Definition rn (p q : Z) : fl :=
  if p =? 0 then (0, 1)
  else
    let e := rn_exp p q in
    let m := round_half_even (scaleP p e) (scaleQ q e) in
    (m * 2 ^ Z.max e 0, 2 ^ Z.max (- e) 0).

Definition f_of_int (n : Z) : fl := rn n 1.                                   (* float64(n) *)
Definition f_div (a b : fl) : fl := rn (fst a * snd b) (snd a * fst b).       (* a / b, b <> 0 *)
Definition f_mul (a b : fl) : fl := rn (fst a * fst b) (snd a * snd b).       (* a * b *)
Definition f_leb (a b : fl) : bool := fst a * snd b <=? fst b * snd a.        (* a <= b *)
Definition f_eqb (a b : fl) : bool := fst a * snd b =? fst b * snd a.         (* a == b *)
Definition f_trunc (a : fl) : Z := fst a / snd a.                             (* int(a), a >= 0 *)

(* ------------------------------------------------------------------ resizeImage *)

(* a / b rounded up, the way image.go writes it (quotient, +1 when the remainder is not 0) *)
Definition ceil_div (a b : Z) : Z := a / b + (if a mod b =? 0 then 0 else 1).

Inductive rres :=
| RPanic                      (* integer division by zero: a cell geometry of 0 *)
| RUnmodelled                 (* negative operand or empty image: Inf/NaN/negative floats *)
| RDims (nw nh : Z).          (* Bounds().Max of the returned image *)

(* resizeImage(img, w, h, cellPixW, cellPixH) with img.Bounds() = (0,0)-(wPix,hPix):
   the pixel size of the image that is returned *)
Definition resize_dims (wPix hPix w h cw ch : Z) : rres :=
  if (cw =? 0) || (ch =? 0) then RPanic
  else if (wPix <=? 0) || (hPix <=? 0) || (w <? 0) || (h <? 0) || (cw <? 0) || (ch <? 0) then RUnmodelled
  else
    let columns := ceil_div wPix cw in
    let lines := ceil_div hPix ch in
    if (columns <=? w) && (lines <=? h) then RDims wPix hPix
    else
      let sfX := f_div (f_of_int w) (f_of_int columns) in
      let sfY := f_div (f_of_int h) (f_of_int lines) in
      (* switch { case sfX <= sfY: ...sfX...; case sfX > sfY: ...sfY... } *)
      let sf := if f_leb sfX sfY then sfX else sfY in
      RDims (f_trunc (f_mul sf (f_of_int wPix))) (f_trunc (f_mul sf (f_of_int hPix))).

(* cell size stored by KittyImage.Resize / Sixel.Resize for an image of nw x nh pixels *)
Definition pix_cells (nw nh cw ch : Z) : Z * Z := (ceil_div nw cw, ceil_div nh ch).

(* cell size stored by HalfBlockImage.Resize / FullBlockImage.Resize (geometry 1 x 2) *)
Definition block_cells (nw nh : Z) : Z * Z :=
  (nw, (if nh mod 2 =? 0 then nh else nh + 1) / 2).

Definition kitty_cell_size (wPix hPix w h cw ch : Z) : option (Z * Z) :=
  match resize_dims wPix hPix w h cw ch with
  | RDims nw nh => Some (pix_cells nw nh cw ch)
  | _ => None
  end.

Definition block_cell_size (wPix hPix w h : Z) : option (Z * Z) :=
  match resize_dims wPix hPix w h 1 2 with
  | RDims nw nh => Some (block_cells nw nh)
  | _ => None
  end.

(* ------------------------------------------------------------------ pixels *)

(* a pixel as color.Color.RGBA() returns it: alpha-premultiplied r g b a in 0..65535 *)
Definition px := (Z * Z * Z * Z)%type.
Definition px0 : px := (0, 0, 0, 0).

(* an image with Bounds() = (0,0)-(W,H); At outside the bounds is the zero colour
   (image.RGBA, image.NRGBA and the other standard library image types) *)
Record image := { iw : Z; ih : Z; irows : list (list px) }.

Definition img_at (im : image) (x y : Z) : px :=
  if (0 <=? x) && (x <? iw im) && (0 <=? y) && (y <? ih im) then
    match zget (irows im) y with
    | Some row => match zget row x with Some p => p | None => px0 end
    | None => px0
    end
  else px0.

(* [0; 1; ...; n-1] *)
Definition zseq (n : Z) : list Z := map Z.of_nat (seq 0 (Z.to_nat n)).

(* x/image/draw NearestNeighbor.Scale of [src] into a zeroed image.RGBA of nw x nh (op Over):
   destination pixel (x,y) samples source pixel ((2x+1)*sw/(2nw), (2y+1)*sh/(2nh)) and keeps the
   high byte of each channel; RGBA() of an image.RGBA pixel widens v to v*0x101. *)
Definition to8 (p : px) : px :=
  let '(r, g, b, a) := p in ((r / 256) * 257, (g / 256) * 257, (b / 256) * 257, (a / 256) * 257).
Definition nn_src (n s i : Z) : Z := (2 * i + 1) * s / (2 * n).
Definition nn_scale (src : image) (nw nh : Z) : image :=
  {| iw := nw; ih := nh;
     irows := map (fun y => map (fun x => to8 (img_at src (nn_src nw (iw src) x) (nn_src nh (ih src) y)))
                                (zseq nw)) (zseq nh) |}.

(* the image resizeImage returns *)
Definition resize_image (src : image) (w h cw ch : Z) : option image :=
  match resize_dims (iw src) (ih src) w h cw ch with
  | RDims nw nh => if (nw =? iw src) && (nh =? ih src) then Some src else Some (nn_scale src nw nh)
  | _ => None
  end.

Definition transparent_enough : Z := 50.
Definition tag_rgb : Z := 33554432.                                   (* 1 << 25 *)
Definition rgb_color (r g b : Z) : Z := tag_rgb + (r * 65536 + g * 256 + b).   (* RGBColor, r g b < 256 *)

(* toRGB: undo the premultiplication, 8 bits per channel *)
Definition to_rgb (p : px) : Z * Z * Z * Z :=
  let '(pr, pg, pb, pa) := p in
  if pa =? 0 then (u8 pr, u8 pg, u8 pb, 0)
  else (u8 (u32 (pr * 255) / pa), u8 (u32 (pg * 255) / pa), u8 (u32 (pb * 255) / pa), u8 (pa / 256)).

(* averageColor(top, bot) *)
Definition average2 (p q : px) : Z * Z * Z * Z :=
  let '(r1, g1, b1, a1) := to_rgb p in
  let '(r2, g2, b2, a2) := to_rgb q in
  (u8 ((r1 + r2) / 2), u8 ((g1 + g2) / 2), u8 ((b1 + b2) / 2), u8 ((a1 + a2) / 2)).

(* a cell of a block image: grapheme (one code point), foreground, background; Width is 1 and
   every other style field is zero *)
Definition icell := (Z * Z * Z)%type.
Definition g_space : Z := 32.
Definition g_upper : Z := 9600.    (* U+2580 upper half block *)
Definition g_lower : Z := 9604.    (* U+2584 lower half block *)

Definition hb_cell (t b : px) : icell :=
  let '(tr, tg, tb, ta) := to_rgb t in
  let '(br, bg, bb, ba) := to_rgb b in
  if (ta <? transparent_enough) && (ba <? transparent_enough) then (g_space, 0, 0)
  else if ta <? transparent_enough then (g_lower, rgb_color br bg bb, 0)
  else if ba <? transparent_enough then (g_upper, rgb_color tr tg tb, 0)
  else (g_upper, rgb_color tr tg tb, rgb_color br bg bb).

Definition fb_cell (t b : px) : icell :=
  let '(r, g, bl, a) := average2 t b in
  if a <? 50 then (g_space, 0, 0) else (g_space, 0, rgb_color r g bl).

(* the loop of HalfBlockImage.Resize / FullBlockImage.Resize over the resized image *)
Definition block_encode (cell : px -> px -> icell) (im : image) : list icell :=
  let width := fst (block_cells (iw im) (ih im)) in
  let height := snd (block_cells (iw im) (ih im)) in
  map (fun i => let y := i / width in
                let x := i - y * width in
                cell (img_at im x (y * 2)) (img_at im x (y * 2 + 1)))
      (zseq (height * width)).

Definition half_block (src : image) (w h : Z) : option (Z * Z * list icell) :=
  match resize_image src w h 1 2 with
  | Some im => Some (block_cells (iw im) (ih im), block_encode hb_cell im)
  | None => None
  end.

Definition full_block (src : image) (w h : Z) : option (Z * Z * list icell) :=
  match resize_image src w h 1 2 with
  | Some im => Some (block_cells (iw im) (ih im), block_encode fb_cell im)
  | None => None
  end.

(* HalfBlockImage.Draw / FullBlockImage.Draw: the Window.SetCell calls (col, row, cell), in order *)
Fixpoint draw_from (width : Z) (i : Z) (cells : list icell) : list (Z * Z * icell) :=
  match cells with
  | [] => []
  | c :: t => let y := i / width in (i - y * width, y, c) :: draw_from width (i + 1) t
  end.
Definition block_draw (width : Z) (cells : list icell) : list (Z * Z * icell) := draw_from width 0 cells.

(* Sixel.Draw: nothing when the image is larger than the window, else every cell of the image
   rectangle is marked through Window.SetCell, row by row *)
Definition sixel_draw (sw sh winw winh : Z) : list (Z * Z) :=
  if (winw <? sw) || (winh <? sh) then []
  else flat_map (fun y => map (fun x => (x, y)) (zseq sw)) (zseq sh).

(* ------------------------------------------------------------------ placements *)

Record placement := { p_id : Z; p_col : Z; p_row : Z; p_w : Z; p_h : Z }.

Definition same_placement (a b : placement) : bool :=
  if negb (p_id a =? p_id b) then false
  else if negb (p_col a =? p_col b) then false
  else if negb (p_row a =? p_row b) then false
  else if negb (p_w a =? p_w b) then false
  else if negb (p_h a =? p_h b) then false
  else true.

(* "for _, p2 := range l { if samePlacement(p1, p2) { continue outer } }": found? *)
Fixpoint has_same (p1 : placement) (l : list placement) : bool :=
  match l with
  | [] => false
  | p2 :: t => if same_placement p1 p2 then true else has_same p1 t
  end.

Inductive gevent :=
| GDelete (p : placement)      (* p.deleteFn(vx.tw) *)
| GWrite (p : placement).      (* cup(p.row+1, p.col+1); p.writeTo(vx.tw) *)

(* first loop of render: delete placements we do not have this round *)
Fixpoint delete_loop (refresh : bool) (gnext : list placement) (glast : list placement) : list gevent :=
  match glast with
  | [] => []
  | p1 :: t =>
      if refresh then GDelete p1 :: delete_loop refresh gnext t
      else if has_same p1 gnext then delete_loop refresh gnext t
      else GDelete p1 :: delete_loop refresh gnext t
  end.

(* second loop: draw new placements *)
Fixpoint write_loop (glast : list placement) (gnext : list placement) : list gevent :=
  match gnext with
  | [] => []
  | p1 :: t => if has_same p1 glast then write_loop glast t else GWrite p1 :: write_loop glast t
  end.

(* the graphics part of one render(): events written, and the new graphicsLast *)
Definition render_graphics (refresh : bool) (glast gnext : list placement) : list gevent * list placement :=
  let dels := delete_loop refresh gnext glast in
  let glast' := if refresh then [] else glast in
  (dels ++ write_loop glast' gnext, gnext).

(* what an application does between and at frames *)
Inductive gop :=
| OClear                    (* Window.Clear: graphicsNext = [] *)
| ODraw (p : placement) (winw winh : Z)
                            (* KittyImage.Draw / Sixel.Draw (of an image that has been encoded, not
                               empty) into a window of winw x winh cells: append to graphicsNext
                               unless the image is larger than the window *)
| ORender                   (* Vaxis.Render *)
| ORefresh                  (* Vaxis.Refresh: render with vx.refresh set *)
| OResize (id : Z)          (* Resize of image id has finished: a new encoding waits to be sent *)
| OTermResize.              (* the TERMINAL changed size (columns or rows) and Vaxis.Render / Refresh was
                               called: the size-changed branch of Render resizes the two screens, sets
                               vx.refresh and returns without drawing.  graphicsLast and graphicsNext
                               stay as they are; the next render() is a full refresh *)

Definition draw_fits (p : placement) (winw winh : Z) : bool := negb ((winw <? p_w p) || (winh <? p_h p)).
Definition draw_into (gnext : list placement) (p : placement) (winw winh : Z) : list placement :=
  if draw_fits p winw winh then gnext ++ [p] else gnext.

(* g_refresh = vx.refresh between calls: set by the size-changed branch of Render, cleared at the
   end of every Render that draws *)
Record gstate := { g_last : list placement; g_next : list placement; g_refresh : bool }.
Definition g_init : gstate := {| g_last := []; g_next := []; g_refresh := false |}.
Definition g_set_next (s : gstate) (l : list placement) : gstate :=
  {| g_last := g_last s; g_next := l; g_refresh := g_refresh s |}.
(* after a render(): graphicsLast = graphicsNext, vx.refresh = false *)
Definition g_rendered (s : gstate) : gstate :=
  {| g_last := g_next s; g_next := g_next s; g_refresh := false |}.
(* after the size-changed branch of Render *)
Definition g_term_resized (s : gstate) : gstate :=
  {| g_last := g_last s; g_next := g_next s; g_refresh := true |}.

(* run a history; the result has one list of events per ORender/ORefresh that draws *)
Fixpoint run_ops (s : gstate) (ops : list gop) : list (list gevent) :=
  match ops with
  | [] => []
  | OClear :: t => run_ops (g_set_next s []) t
  | ODraw p ww wh :: t => run_ops (g_set_next s (draw_into (g_next s) p ww wh)) t
  | ORender :: t =>
      fst (render_graphics (g_refresh s) (g_last s) (g_next s)) :: run_ops (g_rendered s) t
  | ORefresh :: t =>
      fst (render_graphics true (g_last s) (g_next s)) :: run_ops (g_rendered s) t
  | OResize _ :: t => run_ops s t
  | OTermResize :: t => run_ops (g_term_resized s) t
  end.

(* Image data (kitty).  KittyImage.Resize leaves the new encoding in k.buf and clears k.uploaded;
   the placement's writeTo sends the buffer (event tag 2) before the a=p sequence and sets
   k.uploaded.  [pending] = ids of the images whose newest encoding has not been sent.
   Wire events are (tag, id, col, row): 0 delete, 1 put, 2 image data. *)
Definition wire := (Z * Z * Z * Z)%type.
Definition mem_id (i : Z) (l : list Z) : bool := existsb (Z.eqb i) l.
Definition remove_id (i : Z) (l : list Z) : list Z := filter (fun j => negb (j =? i)) l.

Fixpoint send_events (pending : list Z) (evs : list gevent) : list wire :=
  match evs with
  | [] => []
  | GDelete p :: t => (0, p_id p, p_col p, p_row p) :: send_events pending t
  | GWrite p :: t =>
      if mem_id (p_id p) pending
      then (2, p_id p, 0, 0) :: (1, p_id p, p_col p, p_row p) :: send_events (remove_id (p_id p) pending) t
      else (1, p_id p, p_col p, p_row p) :: send_events pending t
  end.

Definition upload_ids (ev : list wire) : list Z :=
  flat_map (fun e : wire => let '(t, i, _, _) := e in if t =? 2 then [i] else []) ev.
Definition after_uploads (pending : list Z) (ev : list wire) : list Z :=
  filter (fun i => negb (mem_id i (upload_ids ev))) pending.

(* the frames of a history as they appear on the wire: (graphicsNext, events) per render *)
Fixpoint kitty_frames (s : gstate) (pending : list Z) (ops : list gop) : list (list placement * list wire) :=
  match ops with
  | [] => []
  | OClear :: t => kitty_frames (g_set_next s []) pending t
  | ODraw p ww wh :: t => kitty_frames (g_set_next s (draw_into (g_next s) p ww wh)) pending t
  | ORender :: t =>
      let ev := send_events pending (fst (render_graphics (g_refresh s) (g_last s) (g_next s))) in
      (g_next s, ev) :: kitty_frames (g_rendered s) (after_uploads pending ev) t
  | ORefresh :: t =>
      let ev := send_events pending (fst (render_graphics true (g_last s) (g_next s))) in
      (g_next s, ev) :: kitty_frames (g_rendered s) (after_uploads pending ev) t
  | OResize i :: t => kitty_frames s (i :: pending) t
  | OTermResize :: t => kitty_frames (g_term_resized s) pending t
  end.

(* ------------------------------------------------------------------ property predicates
   (decidable statements on one observation, independent of how the model computes) *)

(* resize: the observed pixel size (nw, nh) for (wPix hPix w h cw ch), all positive *)
Definition fits_ok (w h cw ch nw nh : Z) : bool :=
  (ceil_div nw cw <=? w) && (ceil_div nh ch <=? h).

Definition no_upscale_ok (wPix hPix nw nh : Z) : bool :=
  (0 <=? nw) && (nw <=? wPix) && (0 <=? nh) && (nh <=? hPix).

(* n is within one pixel below the exact a/b-scaling of v:   a*v/b - 1 <= n <= a*v/b *)
Definition scaled_within_one (a b v n : Z) : bool := (n * b <=? a * v) && (a * v <=? (n + 1) * b).

(* unchanged when it already fits; otherwise both sides are the exact common scale
   s = min(w/columns, h/lines) of the original, rounded down by at most one pixel (<= one cell) *)
Definition aspect_ok (wPix hPix w h cw ch nw nh : Z) : bool :=
  let columns := ceil_div wPix cw in
  let lines := ceil_div hPix ch in
  if (columns <=? w) && (lines <=? h) then (nw =? wPix) && (nh =? hPix)
  else if w * lines <=? h * columns
       then scaled_within_one w columns wPix nw && scaled_within_one w columns hPix nh
       else scaled_within_one h lines wPix nw && scaled_within_one h lines hPix nh.

Definition resize_ok (wPix hPix w h cw ch nw nh : Z) : bool :=
  fits_ok w h cw ch nw nh && no_upscale_ok wPix hPix nw nh && aspect_ok wPix hPix w h cw ch nw nh.

(* what a block cell shows in its upper and lower half: 0 = the terminal's default colour *)
Definition shown_top (c : icell) : Z :=
  let '(g, fg, bg) := c in if g =? g_upper then fg else bg.
Definition shown_bottom (c : icell) : Z :=
  let '(g, fg, bg) := c in if g =? g_lower then fg else bg.

(* the colour a pixel stands for: default when transparent enough, else its RGB value *)
Definition px_colour (p : px) : Z :=
  let '(r, g, b, a) := to_rgb p in if a <? transparent_enough then 0 else rgb_color r g b.

Definition glyph_ok (c : icell) : bool :=
  let '(g, _, _) := c in (g =? g_space) || (g =? g_upper) || (g =? g_lower).

(* half-block observation: [cells] for the (resized) image [im] *)
Definition half_cells_ok (im : image) (cw chh : Z) (cells : list icell) : bool :=
  (cw =? iw im) && (chh =? (ih im + 1) / 2) && (zlen cells =? cw * chh) &&
  forallb (fun y => forallb (fun x =>
      match zget cells (y * cw + x) with
      | Some c => glyph_ok c && (shown_top c =? px_colour (img_at im x (2 * y)))
                             && (shown_bottom c =? px_colour (img_at im x (2 * y + 1)))
      | None => false
      end) (zseq cw)) (zseq chh).

Definition avg_colour (p q : px) : Z :=
  let '(r, g, b, a) := average2 p q in if a <? transparent_enough then 0 else rgb_color r g b.

Definition full_cells_ok (im : image) (cw chh : Z) (cells : list icell) : bool :=
  (cw =? iw im) && (chh =? (ih im + 1) / 2) && (zlen cells =? cw * chh) &&
  forallb (fun y => forallb (fun x =>
      match zget cells (y * cw + x) with
      | Some (g, fg, bg) => (g =? g_space) && (fg =? 0) &&
                            (bg =? avg_colour (img_at im x (2 * y)) (img_at im x (2 * y + 1)))
      | None => false
      end) (zseq cw)) (zseq chh).

(* placement protocol on one observed history: frames are (refresh, graphicsNext at the render,
   observed events); the previous frame's list is threaded through *)
Definition placement_eqb := same_placement.
Definition gevent_eqb (a b : gevent) : bool :=
  match a, b with
  | GDelete p, GDelete q => same_placement p q
  | GWrite p, GWrite q => same_placement p q
  | _, _ => false
  end.

Definition mem_p (p : placement) (l : list placement) : bool := existsb (same_placement p) l.

Definition frame_ok (refresh : bool) (prev cur : list placement) (ev : list gevent) : bool :=
  list_eqb gevent_eqb ev
    (map GDelete (filter (fun p => refresh || negb (mem_p p cur)) prev) ++
     map GWrite (filter (fun p => refresh || negb (mem_p p prev)) cur)).

Fixpoint frames_ok (prev : list placement) (frames : list (bool * list placement * list gevent)) : bool :=
  match frames with
  | [] => true
  | (r, cur, ev) :: t => frame_ok r prev cur ev && frames_ok cur t
  end.

(* transmission of image data on one observed history: at every frame, every placement shown
   whose image has an encoding not yet sent gets it in that frame ("transmitted when it first
   appears or changes"), and data is sent only when pending and only once ("not retransmitted
   while unchanged") *)
Fixpoint nodup_ids (l : list Z) : bool :=
  match l with
  | [] => true
  | x :: t => negb (mem_id x t) && nodup_ids t
  end.

Definition trans_frame_ok (pending : list Z) (cur : list placement) (ev : list wire) : bool :=
  let ups := upload_ids ev in
  forallb (fun p => negb (mem_id (p_id p) pending) || mem_id (p_id p) ups) cur &&
  forallb (fun i => mem_id i pending) ups && nodup_ids ups.

Fixpoint trans_ok (pending : list Z) (ops : list gop) (frames : list (list placement * list wire)) : bool :=
  match ops with
  | [] => true
  | OResize i :: t => trans_ok (i :: pending) t frames
  | ORender :: t | ORefresh :: t =>
      match frames with
      | (cur, ev) :: ft => trans_frame_ok pending cur ev && trans_ok (after_uploads pending ev) t ft
      | [] => false
      end
  | _ :: t => trans_ok pending t frames
  end.

(* Guard of the recorded finding resize-same-cells: some non-refresh frame shows a placement that
   is identical (id, col, row, w, h) to one of the previous frame although its image has been
   re-encoded since it was last sent.  samePlacement then suppresses the write, and with it the
   new pixels. *)
Definition stale_frame (refresh : bool) (pending : list Z) (prev cur : list placement) : bool :=
  negb refresh && existsb (fun p => mem_id (p_id p) pending && mem_p p prev) cur.

Fixpoint stale_guard (s : gstate) (pending : list Z) (ops : list gop) : bool :=
  match ops with
  | [] => false
  | OClear :: t => stale_guard (g_set_next s []) pending t
  | ODraw p ww wh :: t => stale_guard (g_set_next s (draw_into (g_next s) p ww wh)) pending t
  | ORender :: t =>
      let ev := send_events pending (fst (render_graphics (g_refresh s) (g_last s) (g_next s))) in
      stale_frame (g_refresh s) pending (g_last s) (g_next s) ||
      stale_guard (g_rendered s) (after_uploads pending ev) t
  | ORefresh :: t =>
      let ev := send_events pending (fst (render_graphics true (g_last s) (g_next s))) in
      stale_guard (g_rendered s) (after_uploads pending ev) t
  | OResize i :: t => stale_guard s (i :: pending) t
  | OTermResize :: t => stale_guard (g_term_resized s) pending t
  end.

(* ------------------------------------------------------------------ correspondence *)

(* stream "resize": VerifResizeImage(img, w, h, cw, ch) on an image of wPix x hPix.
   case = (wPix, hPix, w, h, cw, ch, outcome, nw, nh); outcome 0 = returned, 1 = panicked *)
Definition resize_case := (Z * Z * Z * Z * Z * Z * Z * Z * Z)%type.

Definition rres_eqb (a b : rres) : bool :=
  match a, b with
  | RPanic, RPanic => true
  | RDims x y, RDims x' y' => (x =? x') && (y =? y')
  | _, _ => false
  end.

Definition resize_obs (c : resize_case) : rres :=
  let '(_, _, _, _, _, _, oc, nw, nh) := c in if oc =? 0 then RDims nw nh else RPanic.

Definition positive6 (wPix hPix w h cw ch : Z) : bool :=
  (0 <? wPix) && (0 <? hPix) && (0 <? w) && (0 <? h) && (0 <? cw) && (0 <? ch).

Definition c20_resize_mismatches (cases : list resize_case) : list Z :=
  bad_indices (fun c => let '(wPix, hPix, w, h, cw, ch, _, _, _) := c in
                        negb (rres_eqb (resize_dims wPix hPix w h cw ch) (resize_obs c))) cases.

(* the property on the observation; it speaks about positive operands only *)
Definition c20_resize_violations (cases : list resize_case) : list Z :=
  bad_indices (fun c => let '(wPix, hPix, w, h, cw, ch, oc, nw, nh) := c in
                        positive6 wPix hPix w h cw ch &&
                        negb ((oc =? 0) && resize_ok wPix hPix w h cw ch nw nh)) cases.

(* stream "cellsize": Resize(w, h) then CellSize() of a real image object.
   case = (kind, wPix, hPix, w, h, cw, ch, cellsW, cellsH); kind 0 half block, 1 full block
   (cw = 1, ch = 2), 2 kitty, 3 sixel (cw x ch = the terminal's cell size in pixels) *)
Definition cellsize_case := (Z * Z * Z * Z * Z * Z * Z * Z * Z)%type.

Definition model_cell_size (kind wPix hPix w h cw ch : Z) : option (Z * Z) :=
  if kind <? 2 then block_cell_size wPix hPix w h else kitty_cell_size wPix hPix w h cw ch.

Definition c20_cellsize_mismatches (cases : list cellsize_case) : list Z :=
  bad_indices (fun c => let '(kind, wPix, hPix, w, h, cw, ch, ow, oh) := c in
                        match model_cell_size kind wPix hPix w h cw ch with
                        | Some (mw, mh) => negb ((mw =? ow) && (mh =? oh))
                        | None => true
                        end) cases.

(* in cells: inside the box, and not larger than the unscaled image *)
Definition c20_cellsize_violations (cases : list cellsize_case) : list Z :=
  bad_indices (fun c => let '(kind, wPix, hPix, w, h, cw, ch, ow, oh) := c in
                        positive6 wPix hPix w h cw ch &&
                        negb ((0 <=? ow) && (ow <=? w) && (0 <=? oh) && (oh <=? h) &&
                              (ow <=? ceil_div wPix cw) && (oh <=? ceil_div hPix ch))) cases.

(* stream "pixels": a block image made from [src] and resized into w x h cells.
   case = (kind, src, w, h, resized image as returned by resizeImage, cellsW, cellsH, cells, outside);
   kind 0 half block, 1 full block.  The cells are read back from the screen after Draw into a
   window of at least cellsW x cellsH cells on a screen filled with a sentinel; [outside] counts
   the screen cells outside that rectangle that no longer hold the sentinel.  A cell that is not
   (one code point, Width 1, no other style) is shipped with grapheme -1. *)
Definition rawimg := (Z * Z * list (list px))%type.
Definition mk_image (r : rawimg) : image :=
  let '(w, h, rows) := r in {| iw := w; ih := h; irows := rows |}.
Definition pixels_case := (Z * rawimg * Z * Z * rawimg * Z * Z * list icell * Z)%type.

Definition px_eqb (a b : px) : bool :=
  let '(r, g, bl, al) := a in let '(r', g', bl', al') := b in
  (r =? r') && (g =? g') && (bl =? bl') && (al =? al').
Definition icell_eqb (a b : icell) : bool :=
  let '(g, f, k) := a in let '(g', f', k') := b in (g =? g') && (f =? f') && (k =? k').

(* pixel-wise comparison over the whole rectangle through img_at *)
Definition image_eqb (a b : image) : bool :=
  (iw a =? iw b) && (ih a =? ih b) &&
  forallb (fun y => forallb (fun x => px_eqb (img_at a x y) (img_at b x y)) (zseq (iw a))) (zseq (ih a)).

Definition c20_pixels_mismatches (cases : list pixels_case) : list Z :=
  bad_indices (fun c => let '(kind, src, w, h, rsz, ow, oh, cells, outside) := c in
                        negb ((outside =? 0) &&
                              match resize_image (mk_image src) w h 1 2 with
                              | Some im => image_eqb im (mk_image rsz)
                              | None => false
                              end &&
                              match (if kind =? 0 then half_block else full_block) (mk_image src) w h with
                              | Some (mw, mh, mcells) => (mw =? ow) && (mh =? oh) && list_eqb icell_eqb mcells cells
                              | None => false
                              end)) cases.

Definition c20_pixels_violations (cases : list pixels_case) : list Z :=
  bad_indices (fun c => let '(kind, src, w, h, rsz, ow, oh, cells, outside) := c in
                        negb ((outside =? 0) && (ow <=? w) && (oh <=? h) &&
                              (if kind =? 0 then half_cells_ok else full_cells_ok) (mk_image rsz) ow oh cells)) cases.

(* stream "placement": a history of operations on a real Vaxis (kitty graphics advertised) and,
   per Render/Refresh, the snapshot of graphicsNext and the placement control sequences found in
   the console output.
   op = (code, id, col, row, w, h, winw, winh): 0 Clear, 1 Draw (into a window of winw x winh
   cells), 2 Render, 3 Refresh, 4 Resize of image id finished, 5 the terminal changed size and
   Render / Refresh was called (size-changed branch: nothing is written, no frame);
   frame = (refresh, graphicsNext, events), refresh = 1 for a Refresh and for the first frame after a
   change of the terminal size (the renderer repaints everything then); event = (tag, id, col, row): 0 delete, 1 write
   (a=p preceded by CUP row+1;col+1), 2 image data (final chunk of an upload of image id),
   anything else = malformed output. *)
Definition rawp := (Z * Z * Z * Z * Z)%type.
Definition mk_p (r : rawp) : placement :=
  let '(i, c, rw, w, h) := r in {| p_id := i; p_col := c; p_row := rw; p_w := w; p_h := h |}.
Definition rawop := (Z * Z * Z * Z * Z * Z * Z * Z)%type.
Definition mk_op (r : rawop) : gop :=
  let '(code, i, c, rw, w, h, ww, wh) := r in
  if code =? 0 then OClear else if code =? 1 then ODraw (mk_p (i, c, rw, w, h)) ww wh
  else if code =? 2 then ORender else if code =? 3 then ORefresh
  else if code =? 4 then OResize i else OTermResize.
Definition rawev := wire.
Definition ev_key (e : gevent) : rawev :=
  match e with
  | GDelete p => (0, p_id p, p_col p, p_row p)
  | GWrite p => (1, p_id p, p_col p, p_row p)
  end.
Definition rawev_eqb (a b : rawev) : bool :=
  let '(t, i, c, r) := a in let '(t', i', c', r') := b in (t =? t') && (i =? i') && (c =? c') && (r =? r').
Definition rawp_eqb (a b : rawp) : bool := same_placement (mk_p a) (mk_p b).
Definition rawframe := (Z * list rawp * list rawev)%type.
Definition placement_case := (list rawop * list rawframe)%type.

(* graphicsNext at each render, according to the model *)
Fixpoint next_at_renders (gnext : list placement) (ops : list gop) : list (list placement) :=
  match ops with
  | [] => []
  | OClear :: t => next_at_renders [] t
  | ODraw p ww wh :: t => next_at_renders (draw_into gnext p ww wh) t
  | ORender :: t | ORefresh :: t => gnext :: next_at_renders gnext t
  | OResize _ :: t | OTermResize :: t => next_at_renders gnext t
  end.

(* is a frame a full refresh: a Refresh, or the first frame after a change of the terminal size *)
Fixpoint refresh_at_renders (rf : bool) (ops : list gop) : list bool :=
  match ops with
  | [] => []
  | ORender :: t => rf :: refresh_at_renders false t
  | ORefresh :: t => true :: refresh_at_renders false t
  | OTermResize :: t => refresh_at_renders true t
  | _ :: t => refresh_at_renders rf t
  end.

Definition c20_placement_mismatches (cases : list placement_case) : list Z :=
  bad_indices (fun c => let '(rops, frames) := c in
                        let ops := map mk_op rops in
                        negb (list_eqb (list_eqb rawev_eqb)
                                (map snd (kitty_frames g_init [] ops))
                                (map (fun f : rawframe => snd f) frames) &&
                              list_eqb (list_eqb same_placement)
                                (next_at_renders [] ops)
                                (map (fun f : rawframe => map mk_p (snd (fst f))) frames) &&
                              list_eqb Bool.eqb (refresh_at_renders false ops)
                                (map (fun f : rawframe => negb (fst (fst f) =? 0)) frames))) cases.

Definition not_data (e : rawev) : bool := let '(t, _, _, _) := e in negb (t =? 2).

Definition frame_key_ok (refresh : bool) (prev cur : list placement) (ev : list rawev) : bool :=
  list_eqb rawev_eqb ev
    (map ev_key (map GDelete (filter (fun p => refresh || negb (mem_p p cur)) prev) ++
                 map GWrite (filter (fun p => refresh || negb (mem_p p prev)) cur))).

Fixpoint frames_key_ok (prev : list placement) (frames : list rawframe) : bool :=
  match frames with
  | [] => true
  | (r, cur, ev) :: t => frame_key_ok (negb (r =? 0)) prev (map mk_p cur) (filter not_data ev) &&
                         frames_key_ok (map mk_p cur) t
  end.

(* every placement shown in a frame was drawn into a window that holds it *)
Definition drawn_inside (rops : list rawop) (p : placement) : bool :=
  existsb (fun r : rawop => let '(code, i, c, rw, w, h, ww, wh) := r in
                            (code =? 1) && same_placement p (mk_p (i, c, rw, w, h)) && (w <=? ww) && (h <=? wh)) rops.
Definition frames_inside_ok (rops : list rawop) (frames : list rawframe) : bool :=
  forallb (fun f : rawframe => forallb (fun rp => drawn_inside rops (mk_p rp)) (snd (fst f))) frames.

(* The TERMINAL's side of the kitty placement protocol.  A placement is known to the terminal by
   (image id, placement id); the placement id Vaxis uses is col << 16 | row, so the key is
   (id, col, row).  a=p creates the placement or replaces the one with the same key; a=d,d=i,i,p
   deletes that placement only; image data and everything else leave the placements alone.  A change
   of the terminal's size leaves them alone as well (kitty keeps placements across a resize), so the
   table is a function of the wire events only. *)
Definition pkey := (Z * Z * Z)%type.
Definition key_of (p : placement) : pkey := (p_id p, p_col p, p_row p).
Definition pkey_eqb (a b : pkey) : bool :=
  let '(i, c, r) := a in let '(i', c', r') := b in (i =? i') && (c =? c') && (r =? r').
Definition mem_key (k : pkey) (l : list pkey) : bool := existsb (pkey_eqb k) l.

Definition term_apply (live : list pkey) (e : wire) : list pkey :=
  let '(t, i, c, r) := e in
  if t =? 0 then filter (fun k => negb (pkey_eqb k (i, c, r))) live
  else if t =? 1 then (i, c, r) :: live
  else live.
Definition term_run (live : list pkey) (ev : list wire) : list pkey := fold_left term_apply ev live.

(* the terminal shows exactly the placements of [cur] (as sets of keys) *)
Definition shows_exactly (live : list pkey) (cur : list placement) : bool :=
  forallb (fun k => mem_key k (map key_of cur)) live && forallb (fun p => mem_key (key_of p) live) cur.

(* after every frame the terminal shows exactly what the application drew in that frame *)
Fixpoint term_frames_ok (live : list pkey) (frames : list (list placement * list wire)) : bool :=
  match frames with
  | [] => true
  | (cur, ev) :: t => let live' := term_run live ev in shows_exactly live' cur && term_frames_ok live' t
  end.

(* Domain of that statement: no frame holds two DIFFERENT placements with the same key (the same
   image drawn twice at the same cell with two cell sizes, which takes a Resize between two Draws
   without a Clear).  The terminal can hold only one of them. *)
Definition keys_functional (l : list placement) : bool :=
  forallb (fun p => forallb (fun q => negb (pkey_eqb (key_of p) (key_of q)) || same_placement p q) l) l.

Definition term_shows_last_frame (frames : list (list placement * list wire)) : bool :=
  negb (forallb (fun f => keys_functional (fst f)) frames) || term_frames_ok [] frames.

(* the unguarded statement: placement protocol, draw extent, and transmission of image data *)
Definition wire_frames (frames : list rawframe) : list (list placement * list wire) :=
  map (fun f : rawframe => (map mk_p (snd (fst f)), snd f)) frames.
Definition frame_flags (frames : list rawframe) : list bool :=
  map (fun f : rawframe => negb (fst (fst f) =? 0)) frames.

(* ... and the terminal's placement table: after every frame, also after changes of the terminal
   size, it holds exactly the placements of that frame (nothing dropped stays, nothing kept is lost) *)
Definition c20_placement_violations (cases : list placement_case) : list Z :=
  bad_indices (fun c => negb (list_eqb Bool.eqb (refresh_at_renders false (map mk_op (fst c))) (frame_flags (snd c)) &&
                              frames_key_ok [] (snd c) && frames_inside_ok (fst c) (snd c) &&
                              trans_ok [] (map mk_op (fst c)) (wire_frames (snd c)) &&
                              term_shows_last_frame (wire_frames (snd c)))) cases.

(* the cases under the guard of the recorded finding resize-same-cells *)
Definition c20_known (cases : list placement_case) : list Z :=
  bad_indices (fun c => stale_guard g_init [] (map mk_op (fst c))) cases.

(* stream "float": the hardware's  float64(a) / float64(b) * float64(c)  as the exact fraction n/d
   (from math.Frexp), for positive a b c.  Ties the integer-only [rn] to the real binary64. *)
Definition float_case := (Z * Z * Z * Z * Z)%type.

Definition c20_float_mismatches (cases : list float_case) : list Z :=
  bad_indices (fun c => let '(a, b, k, n, d) := c in
                        negb (f_eqb (f_mul (f_div (f_of_int a) (f_of_int b)) (f_of_int k)) (n, d))) cases.

(* two roundings of operands below 2^53: the result is within a factor (1 +- 2^-53)^2 of a*k/b *)
Definition c20_float_violations (cases : list float_case) : list Z :=
  bad_indices (fun c => let '(a, b, k, n, d) := c in
                        let u := 2 ^ 53 in
                        (a <? u) && (b <? u) && (k <? u) &&
                        negb ((0 <? d) &&
                              ((u - 1) * (u - 1) * (a * k) * d <=? u * u * n * b) &&
                              (u * u * n * b <=? (u + 1) * (u + 1) * (a * k) * d))) cases.

(* stream "sixel": the same histories with Sixel images (sixel graphics advertised).  A sixel
   placement has no identifier on the wire and its deleteFn writes nothing, so an observed event
   is (1, 0, col, row) for "CUP row+1;col+1 followed by a sixel DCS string"; deletions are not
   observable.  (That Sixel.Draw marks exactly the cells of the drawn rectangles is checked by the
   harness directly on the screen snapshot.) *)
Definition sixel_key (e : gevent) : list rawev :=
  match e with
  | GDelete _ => []
  | GWrite p => [(1, 0, p_col p, p_row p)]
  end.

Definition c20_sixel_mismatches (cases : list placement_case) : list Z :=
  bad_indices (fun c => let '(rops, frames) := c in
                        let ops := map mk_op rops in
                        negb (list_eqb (list_eqb rawev_eqb)
                                (map (flat_map sixel_key) (run_ops g_init ops))
                                (map (fun f : rawframe => snd f) frames) &&
                              list_eqb (list_eqb same_placement)
                                (next_at_renders [] ops)
                                (map (fun f : rawframe => map mk_p (snd (fst f))) frames) &&
                              list_eqb Bool.eqb (refresh_at_renders false ops) (frame_flags frames))) cases.

Definition frame_sixel_ok (refresh : bool) (prev cur : list placement) (ev : list rawev) : bool :=
  list_eqb rawev_eqb ev
    (flat_map sixel_key (map GWrite (filter (fun p => refresh || negb (mem_p p prev)) cur))).

Fixpoint frames_sixel_ok (prev : list placement) (frames : list rawframe) : bool :=
  match frames with
  | [] => true
  | (r, cur, ev) :: t => frame_sixel_ok (negb (r =? 0)) prev (map mk_p cur) ev && frames_sixel_ok (map mk_p cur) t
  end.

Definition c20_sixel_violations (cases : list placement_case) : list Z :=
  bad_indices (fun c => negb (list_eqb Bool.eqb (refresh_at_renders false (map mk_op (fst c))) (frame_flags (snd c)) &&
                              frames_sixel_ok [] (snd c) && frames_inside_ok (fst c) (snd c))) cases.

(* ------------------------------------------------------------------ kitty transmissions (chunking)

   KittyImage.Resize (encoder goroutine): the base64 text of the PNG picture, [n] bytes, is cut into
   APC strings  ESC _ G f=100,i=<id>,m=<m>;<chunk> ESC \  by
       b := make([]byte, 4096)
       for buf.Len() > 0 { k, _ := buf.Read(b); m := 1; if buf.Len() == 0 { m = 0 }; emit(m, b[:k]) }
   The chunking is a function of the LENGTH of the payload only: (m, size) per chunk, in order. *)
Definition chunk_size : Z := 4096.

Fixpoint chunks_fuel (fuel : nat) (n : Z) : list (Z * Z) :=
  match fuel with
  | O => []
  | S f =>
      if n <=? 0 then []                         (* buf.Len() > 0 fails *)
      else let k := Z.min n chunk_size in         (* buf.Read(b) *)
           let rest := n - k in                   (* buf.Len() afterwards *)
           ((if rest =? 0 then 0 else 1), k) :: chunks_fuel f rest
  end.

(* n / 4096 + 1 rounds are enough (kitty_chunks_closed_form) *)
Definition kitty_chunks (n : Z) : list (Z * Z) := chunks_fuel (Z.to_nat (n / chunk_size + 1)) n.

(* What writeTo puts on the wire for a placement whose image has an unsent encoding, after the CUP:
   the chunks, then the placement command.  token = (tag, m, size): 0 = a data chunk (f=100) of the
   image, 1 = the a=p command of the image, 2 = anything else found in between. *)
Definition txtok := (Z * Z * Z)%type.
Definition tx_model (n : Z) : list txtok :=
  map (fun c : Z * Z => (0, fst c, snd c)) (kitty_chunks n) ++ [(1, 0, 0)].

(* The property on one observed transmission ("transmitted when it first appears or changes": the
   terminal must end up holding the picture and then place it).  Kitty graphics protocol: every chunk
   but the last carries m=1 and a payload of at most 4096 bytes that is a multiple of 4; the last one
   carries m=0; nothing but chunks of the same transfer may come before the m=0 chunk; the a=p command
   comes after it. *)
Fixpoint framing_ok (l : list (Z * Z)) : bool :=
  match l with
  | [] => false
  | (m, k) :: t =>
      match t with
      | [] => (m =? 0) && (0 <? k) && (k <=? chunk_size)
      | _ => (m =? 1) && (0 <? k) && (k <=? chunk_size) && (k mod 4 =? 0) && framing_ok t
      end
  end.

(* the chunks before the a=p command, when the tokens are chunks followed by exactly that command *)
Fixpoint tx_chunks (toks : list txtok) : option (list (Z * Z)) :=
  match toks with
  | [] => None                                         (* never placed *)
  | (tag, m, k) :: t =>
      if tag =? 0 then match tx_chunks t with Some l => Some ((m, k) :: l) | None => None end
      else if tag =? 1 then match t with [] => Some [] | _ => None end
      else None                                        (* something else inside the transfer *)
  end.

Definition sum_sizes (l : list (Z * Z)) : Z := fold_right (fun c acc => snd c + acc) 0 l.

(* stream "kittytx": one transmission of a KittyImage's picture as found in the console output.
   case = (n, tokens, same): n = length of the base64 text of the PNG encoding of the picture
   resizeImage returns (computed by the harness with the same encoders: oracle data); tokens = the
   output from the first data chunk of the image up to and including its next a=p command (or the
   end of the frame's output); same = 1 when the concatenated chunk payloads are that very text and
   decode to the picture pixel for pixel. *)
Definition tx_case := (Z * list txtok * Z)%type.

Definition txtok_eqb (a b : txtok) : bool :=
  let '(t, m, k) := a in let '(t', m', k') := b in (t =? t') && (m =? m') && (k =? k').

Definition c20_kittytx_mismatches (cases : list tx_case) : list Z :=
  bad_indices (fun c => let '(n, toks, same) := c in
                        negb (list_eqb txtok_eqb (tx_model n) toks && (same =? 1))) cases.

Definition tx_ok (c : tx_case) : bool :=
  let '(n, toks, same) := c in
  match tx_chunks toks with
  | Some l => framing_ok l && (sum_sizes l =? n) && (same =? 1)
  | None => false
  end.

Definition c20_kittytx_violations (cases : list tx_case) : list Z :=
  bad_indices (fun c => negb (tx_ok c)) cases.
