(* C07, quirks: which graphics protocol New settles on.  Replies (sixel, kitty graphics) x
   ASCIINEMA_REC x VAXIS_GRAPHICS x whether a pixel size is known, and the ORDER of New's steps:
   reply loop, applyQuirks, the VAXIS_GRAPHICS switch, reportWinsize.  Definitions only. *)
From Vx Require Import base.Prelude.

(* image.go: noGraphics 0, fullBlock 1, halfBlock 2, sixelGraphics 3, kitty 4 *)
Record gin := mkGin {
  gi_sixel : bool;       (* a sixel geometry reply arrived *)
  gi_kitty : bool;       (* a kitty graphics reply arrived *)
  gi_asciinema : bool;   (* ASCIINEMA_REC set *)
  gi_graphics : Z;       (* VAXIS_GRAPHICS: 1 none, 2 full, 3 half, 4 sixel, 5 kitty, anything else: unset / not a known word *)
  gi_pixels : bool       (* reportWinsize knows the pixel size *)
}.

Inductive gstep := GLoop | GQuirks | GEnvSwitch | GWinsize.

Definition gstep_run (i : gin) (gp : Z) (s : gstep) : Z :=
  match s with
  | GLoop =>      (* `if vx.graphicsProtocol < sixelGraphics { = sixelGraphics }`, the same for kitty *)
      let gp := if gi_sixel i then (if gp <? 3 then 3 else gp) else gp in
      if gi_kitty i then (if gp <? 4 then 4 else gp) else gp
  | GQuirks => if gi_asciinema i then 2 else gp
  | GEnvSwitch =>
      if gi_graphics i =? 1 then 0 else if gi_graphics i =? 2 then 1 else if gi_graphics i =? 3 then 2
      else if gi_graphics i =? 4 then 3 else if gi_graphics i =? 5 then 4
      else if gp <? 2 then 2 else gp
  | GWinsize => if gi_pixels i then gp else 2
  end.

(* New as it is *)
Definition gfx_steps : list gstep := [GLoop; GQuirks; GEnvSwitch; GWinsize].
Definition gfx_run (steps : list gstep) (i : gin) : Z := fold_left (gstep_run i) steps 0.
Definition gfx_model : gin -> Z := gfx_run gfx_steps.

(* specification: without a pixel size half blocks; otherwise an explicit VAXIS_GRAPHICS word has
   the last say; otherwise half blocks under asciinema; otherwise the best protocol the replies
   established, at least half blocks *)
Definition gfx_spec (i : gin) : Z :=
  if negb (gi_pixels i) then 2
  else if gi_graphics i =? 1 then 0 else if gi_graphics i =? 2 then 1 else if gi_graphics i =? 3 then 2
  else if gi_graphics i =? 4 then 3 else if gi_graphics i =? 5 then 4
  else if gi_asciinema i then 2
  else if gi_kitty i then 4 else if gi_sixel i then 3 else 2.

(* gfx stream: (input, protocol observed through the type NewImage returns) *)
Definition c07_gfx_mismatches (cases : list (gin * Z)) : list Z :=
  bad_indices (fun c => negb (gfx_model (fst c) =? snd c)) cases.
Definition c07_gfx_violations (cases : list (gin * Z)) : list Z :=
  bad_indices (fun c => negb (gfx_spec (fst c) =? snd c)) cases.
