(* Model of vxfw/text/text.go and vxfw/richtext/richtext.go:
   SoftwrapScanner.Scan (both packages), firstLineSegment, HardwrapScanner.Scan and the
   softwrap Draw functions.  Executable definitions only.

   Abstraction.  The text is a list of cells (grapheme clusters with their measured width
   and, for rich text, a style).  For the rich scanner this is literally the []vaxis.Cell
   the Go code works on.  For the plain scanner (which works on bytes) the harness segments
   the input once with vaxis.Characters and ships, for every query
   uniseg.FirstLineSegment(suffix, state) reachable from (0,-1), the library's answer
   re-expressed in clusters; an answer that does not fall on cluster boundaries, or whose
   word is measured differently by ctx.Characters, is shipped as a miss (length -1) and
   the model reports [Miss], never a default.

   Third-party code is an oracle: [segf] (uniseg.FirstLineSegment / the pairwise
   FirstLineSegmentInString of firstLineSegment), [is_space] (unicode.IsSpace of the last
   rune), [hasbreak] (uniseg.HasTrailingLineBreak).  They are Section variables here;
   the concrete instances used for execution are at the end of the file. *)
From Vx Require Import base.Prelude base.ListX.

Record cell := mkCell { c_runes : list Z; c_width : Z; c_style : Z }.

(* short forms used by the case files *)
Definition c1 (r w : Z) : cell := mkCell [r] w 0.
Definition cs (r w s : Z) : cell := mkCell [r] w s.

Definition is_nil {A} (l : list A) : bool := match l with [] => true | _ => false end.

(* uint16(char.Width) *)
Definition cw (c : cell) : Z := u16 (c_width c).

(* var n uint16; for _, ch := range l { n += uint16(ch.Width) } *)
Definition u16sum (l : list cell) : Z := fold_left (fun a c => u16 (a + cw c)) l 0.

Inductive scan_res (St : Type) :=
| ScanLine (token rest : list cell) (st : St)   (* Scan returned true *)
| ScanStop                                      (* Scan returned false *)
| ScanHang                                      (* the for-loop of Scan would not terminate *)
| ScanMiss.                                     (* the oracle was asked something it has no answer for *)
Arguments ScanLine {St}. Arguments ScanStop {St}. Arguments ScanHang {St}. Arguments ScanMiss {St}.

Inductive outcome := Done | Hang | Miss.

Definition outcome_code (o : outcome) : Z := match o with Done => 0 | Hang => 2 | Miss => 3 end.

Section Scanner.
  Variable St : Type.
  (* first line segment of [rest] in state [st]: (length in cells, mustBreak, new state) *)
  Variable segf : St -> list cell -> option (nat * bool * St).
  (* state after a long word was broken (text.go: s.state = -1; richtext.go has no state) *)
  Variable reset : St -> St.
  Variable is_space : cell -> bool.
  Variable hasbreak : cell -> bool.
  (* what remains of a cell whose trailing line-break rune is cut off
     (text.go cuts one rune: "\r\n" leaves "\r"; richtext.go drops the cell) *)
  Variable residue : cell -> list cell.

  (* bytes.TrimRightFunc(seg, unicode.IsSpace) / the "TrimRight" loop of richtext.go *)
  Fixpoint trim_right (l : list cell) : list cell :=
    match l with
    | [] => []
    | c :: t => match trim_right t with
                | [] => if is_space c then [] else [c]
                | t' => c :: t'
                end
    end.

  (* the inner loop of the long-word branch (with the guard and [w = s.width]) *)
  Fixpoint split_long (W : Z) (word : list cell) (w : Z) (token over : list cell)
    : list cell * list cell :=
    match word with
    | [] => (token, over)
    | c :: t =>
        if (W <=? w) || (negb (is_nil token) && (W <? u16 (w + cw c)))
        then split_long W t W token (over ++ [c])
        else split_long W t (u16 (w + cw c)) (token ++ [c]) over
    end.

  (* if HasTrailingLineBreak(seg) { seg = seg[:len(seg)-1 rune or cell] } *)
  Definition strip (seg : list cell) : list cell :=
    match rev seg with
    | [] => []
    | c :: r => if hasbreak c then rev r ++ residue c else seg
    end.

  (* the for-loop of Scan *)
  Fixpoint scan_loop (fuel : nat) (W : Z) (rest : list cell) (st : St) (w : Z) (token : list cell)
    : scan_res St :=
    match fuel with
    | O => ScanHang
    | S fuel' =>
        match segf st rest with
        | None => ScanMiss
        | Some (n, br, st') =>
            let seg := firstn n rest in
            let rest' := skipn n rest in
            let word := trim_right seg in
            let trsp := skipn (length word) seg in
            let wordLen := u16sum word in
            let spaceLen := u16sum trsp in
            if W <? wordLen then
              let '(tok', over) := split_long W word w token [] in
              ScanLine tok' (over ++ trsp ++ rest') (reset st)
            else if W <? u16 (w + wordLen) then ScanLine token rest st
            else if br then ScanLine (token ++ strip seg) rest' st'
            else
              let token1 := token ++ word in
              let w1 := u16 (w + wordLen) in
              if W <? u16 (w1 + spaceLen) then ScanLine token1 rest' st'
              else scan_loop fuel' W rest' st' (u16 (w1 + spaceLen)) (token1 ++ trsp)
        end
    end.

  (* one call of Scan; fuel = len(rest)+1 is enough (SoftwrapProofs.scan_no_hang) *)
  Definition scan (W : Z) (rest : list cell) (st : St) : scan_res St :=
    if is_nil rest || (W =? 0) then ScanStop
    else scan_loop (S (length rest)) W rest st 0 [].

  (* for scanner.Scan() { ... }: the emitted lines, each with len(s.rest) after the call *)
  Fixpoint scan_all (fuel : nat) (W : Z) (rest : list cell) (st : St)
    : list (list cell * nat) * outcome :=
    match fuel with
    | O => ([], Hang)
    | S f =>
        match scan W rest st with
        | ScanStop => ([], Done)
        | ScanHang => ([], Hang)
        | ScanMiss => ([], Miss)
        | ScanLine tok rest' st' =>
            let '(ls, o) := scan_all f W rest' st' in ((tok, length rest') :: ls, o)
        end
    end.

  Definition run (W : Z) (input : list cell) (st0 : St) : list (list cell * nat) * outcome :=
    scan_all (S (length input)) W input st0.
End Scanner.

(* ---------- text.go: the segment oracle is uniseg.FirstLineSegment(rest, state) ---------- *)

(* [orc idx st]: answer for the suffix starting at cluster [idx] (the rest of the Go scanner
   is always such a suffix: SoftwrapProofs.scan_all_suffix).  FirstLineSegment of an empty
   slice returns zero values. *)
Definition plain_segf (N : nat) (orc : Z -> Z -> option (Z * bool * Z)) (st : Z) (rest : list cell)
  : option (nat * bool * Z) :=
  match rest with
  | [] => Some (O, false, 0)
  | _ => match orc (Z.of_nat (N - length rest)) st with
         | None => None
         | Some (n, br, st') =>
             if (0 <? n) && (n <=? zlen rest) then Some (Z.to_nat n, br, st') else None
         end
  end.

Definition plain_reset (st : Z) : Z := -1.

(* ---------- richtext.go: firstLineSegment over the pairwise oracle ---------- *)
Section FirstLineSegment.
  Variable hasbreak : cell -> bool.
  (* len(rest) > 0 of uniseg.FirstLineSegmentInString(cell.Grapheme+next.Grapheme, -1) *)
  Variable pairbrk : cell -> cell -> option bool.
  (* the mustBreak flag of that same call (meaningful when it leaves a rest) *)
  Variable pairmust : cell -> cell -> bool.

  Fixpoint fls_go (first : bool) (i : nat) (cells : list cell) : option (nat * bool) :=
    match cells with
    | [] => Some (i, false)
    | c :: t =>
        match t with
        | [] => Some (S i, true)
        | nx :: _ =>
            if first && hasbreak c then Some (S i, true)
            else if hasbreak nx then Some (S (S i), true)
            else match pairbrk c nx with
                 | None => None
                 | Some true => Some (S i, pairmust c nx)
                 | Some false => fls_go false (S i) t
                 end
        end
    end.

  Definition first_line_segment (cells : list cell) : option (nat * bool) := fls_go true 0 cells.

  Definition rich_segf (st : unit) (rest : list cell) : option (nat * bool * unit) :=
    match first_line_segment rest with
    | None => None
    | Some (n, br) => Some (n, br, tt)
    end.
End FirstLineSegment.

Definition rich_residue (c : cell) : list cell := [].

(* ---------- richtext.go: HardwrapScanner ---------- *)
Definition is_newline (c : cell) : bool := zlist_eqb (c_runes c) [10].

(* one Scan: (line, remaining cells) *)
Fixpoint hard_scan (cells line : list cell) : list cell * list cell :=
  match cells with
  | [] => (line, [])
  | c :: t => if is_newline c then (line, t) else hard_scan t (line ++ [c])
  end.

Fixpoint hard_all (fuel : nat) (cells : list cell) : list (list cell) :=
  match fuel with
  | O => []
  | S f => match cells with
           | [] => []
           | _ => let '(l, r) := hard_scan cells [] in l :: hard_all f r
           end
  end.
Definition hard_run (cells : list cell) : list (list cell) := hard_all (length cells) cells.

(* ---------- concrete oracles used for execution ---------- *)

(* unicode.IsSpace *)
Definition go_isspace (r : Z) : bool :=
  in_range r 9 13 || (r =? 32) || (r =? 133) || (r =? 160) || (r =? 5760) || in_range r 8192 8202
  || (r =? 8232) || (r =? 8233) || (r =? 8239) || (r =? 8287) || (r =? 12288).

(* uniseg.HasTrailingLineBreak as it behaves in the pinned uniseg v0.4.4: it compares the
   line-break property of the last rune with parser-state constants, which singles out LF and
   CR only (VT, FF, NEL, LS, PS are reported as mustBreak by FirstLineSegment but not here;
   the harness checks this table against the library on every cell of every case) *)
Definition uniseg_isbrk (r : Z) : bool := (r =? 10) || (r =? 13).

(* utf8.DecodeLastRune of an empty string is RuneError *)
Definition last_rune (c : cell) : Z := last (c_runes c) 65533.
Definition cell_is_space (c : cell) : bool := go_isspace (last_rune c).
Definition cell_hasbreak (c : cell) : bool := uniseg_isbrk (last_rune c).

(* text.go cuts the last rune of the segment *)
Definition plain_residue (c : cell) : list cell :=
  match removelast (c_runes c) with
  | [] => []
  | rs => [mkCell rs 0 (c_style c)]
  end.

Fixpoint assoc {K V} (eqb : K -> K -> bool) (k : K) (l : list (K * V)) : option V :=
  match l with
  | [] => None
  | (k', v) :: t => if eqb k k' then Some v else assoc eqb k t
  end.

Definition zpair_eqb (a b : Z * Z) : bool := (fst a =? fst b) && (snd a =? snd b).
Definition plain_tbl := list ((Z * Z) * (Z * bool * Z)).
Definition tbl_orc (tbl : plain_tbl) (i st : Z) : option (Z * bool * Z) := assoc zpair_eqb (i, st) tbl.

Definition plain_run (W : Z) (input : list cell) (tbl : plain_tbl) :=
  run Z (plain_segf (length input) (tbl_orc tbl)) plain_reset cell_is_space cell_hasbreak plain_residue
      W input (-1).

Definition pair_tbl := list ((list Z * list Z) * (bool * bool)).
Definition rpair_eqb (a b : list Z * list Z) : bool := zlist_eqb (fst a) (fst b) && zlist_eqb (snd a) (snd b).
Definition tbl_pairbrk (tbl : pair_tbl) (a b : cell) : option bool :=
  option_map fst (assoc rpair_eqb (c_runes a, c_runes b) tbl).
Definition tbl_pairmust (tbl : pair_tbl) (a b : cell) : bool :=
  match assoc rpair_eqb (c_runes a, c_runes b) tbl with Some (_, m) => m | None => false end.

Definition rich_run (W : Z) (input : list cell) (tbl : pair_tbl) :=
  run unit (rich_segf cell_hasbreak (tbl_pairbrk tbl) (tbl_pairmust tbl)) (fun s => s) cell_is_space cell_hasbreak rich_residue
      W input tt.

(* ---------- the property on one observation ---------- *)
(* An observation of one scanner run on [input] at width [W]: the emitted lines (as cells)
   each with the number of input cells not yet consumed after that Scan. *)

Definition sumw (l : list cell) : Z := fold_right (fun c a => c_width c + a) 0 l.
Definition nonspace (is_space : cell -> bool) (l : list cell) : list cell :=
  filter (fun c => negb (is_space c)) l.

Definition cell_eqb (a b : cell) : bool :=
  zlist_eqb (c_runes a) (c_runes b) && (c_width a =? c_width b) && (c_style a =? c_style b).

(* width of the line ignoring trailing whitespace <= W, unless a single grapheme remains *)
Definition fits_b (is_space : cell -> bool) (W : Z) (line : list cell) : bool :=
  let t := trim_right is_space line in
  (sumw t <=? W) || (Nat.leb (length t) 1).

Definition sub {A} (l : list A) (a e : nat) : list A := firstn (e - a) (skipn a l).

(* cuts: positions (number of input cells consumed) after each Scan *)
Definition cuts_of (N : nat) (obs : list (list cell * nat)) : list nat := map (fun x => (N - snd x)%nat) obs.

Fixpoint increasing_from (a : nat) (l : list nat) : bool :=
  match l with
  | [] => true
  | c :: t => Nat.ltb a c && increasing_from c t
  end.

(* every Scan consumes something, nothing is consumed twice, everything is consumed *)
Definition progress_b (N : nat) (W : Z) (obs : list (list cell * nat)) : bool :=
  if (W =? 0) || Nat.eqb N 0 then is_nil obs
  else
    forallb (fun x => Nat.leb (snd x) N) obs &&
    match cuts_of N obs with
    | [] => false
    | c :: t => Nat.ltb 0 c && increasing_from c t && Nat.eqb (last (c :: t) 0%nat) N
    end.

(* conservation, line by line: what line i keeps of the input cells consumed by the i-th Scan.
   [same line consumed] is the comparison: for rich text the non-whitespace cells (with width and
   style), for plain text (a string) the non-whitespace code points. *)
Fixpoint conserve_b (same : list cell -> list cell -> bool) (input : list cell) (N a : nat) (obs : list (list cell * nat)) : bool :=
  match obs with
  | [] => true
  | (line, r) :: t =>
      let e := (N - r)%nat in
      same line (sub input a e) && conserve_b same input N e t
  end.

Definition same_cells (is_space : cell -> bool) (line consumed : list cell) : bool :=
  list_eqb cell_eqb (nonspace is_space line) (nonspace is_space consumed).

(* nearest break opportunity at or before / at or after a position; B 0 and B N count *)
Fixpoint prev_break (B : nat -> bool) (c : nat) : nat :=
  match c with
  | O => O
  | S c' => if B c then c else prev_break B c'
  end.
Fixpoint next_break_fuel (B : nat -> bool) (N : nat) (fuel : nat) (c : nat) : nat :=
  match fuel with
  | O => N
  | S f => if Nat.leb N c then N else if B c then c else next_break_fuel B N f (S c)
  end.
Definition next_break (B : nat -> bool) (N c : nat) : nat := next_break_fuel B N (S N) c.

(* no needless split: a cut that is not at a break opportunity lies inside a segment
   (between two neighbouring opportunities) whose word is wider than W *)
Definition nosplit_cut_b (is_space : cell -> bool) (B : nat -> bool) (W : Z) (input : list cell) (c : nat) : bool :=
  let N := length input in
  Nat.eqb c N || B c ||
  (W <? sumw (trim_right is_space (sub input (prev_break B (c - 1)) (next_break B N (S c))))).

Definition nosplit_b is_space B W input (obs : list (list cell * nat)) : bool :=
  forallb (nosplit_cut_b is_space B W input) (cuts_of (length input) obs).

(* a hard line break ends the line: every position after which the text must break is a cut *)
Definition hardbreak_b (Hd : nat -> bool) (N : nat) (obs : list (list cell * nat)) : bool :=
  let cuts := cuts_of N obs in
  forallb (fun e => negb (Hd e) || existsb (Nat.eqb e) cuts) (seq 1 N).

(* the whole property on one observation (W = 0: Scan refuses, nothing is emitted) *)
Definition c16_ok_b is_space (same : list cell -> list cell -> bool) (B Hd : nat -> bool) (W : Z) (input : list cell) (obs : list (list cell * nat)) : bool :=
  let N := length input in
  progress_b N W obs &&
  forallb (fun x => fits_b is_space W (fst x)) obs &&
  ((W =? 0) ||
   (conserve_b same input N 0 obs && nosplit_b is_space B W input obs && hardbreak_b Hd N obs)).

(* ---------- break opportunities, from the oracle alone ---------- *)

(* plain: the segment ends met when FirstLineSegment is threaded from (0,-1) *)
Fixpoint plain_breaks (fuel : nat) (orc : Z -> Z -> option (Z * bool * Z)) (N i st : Z) : option (list (Z * bool)) :=
  match fuel with
  | O => None
  | S f =>
      if N <=? i then Some []
      else match orc i st with
           | None => None
           | Some (n, br, st') =>
               if 0 <? n then option_map (cons (i + n, br)) (plain_breaks f orc N (i + n) st') else None
           end
  end.

Definition B_of_list (l : list (Z * bool)) (p : nat) : bool := existsb (fun x => Z.eqb (Z.of_nat p) (fst x)) l.
(* positions where FirstLineSegment reported mustBreak *)
Definition Hd_of_list (l : list (Z * bool)) (p : nat) : bool := existsb (fun x => Z.eqb (Z.of_nat p) (fst x) && snd x) l.

(* rich: position p (0 < p < N) is a segment end iff the cell before ends with a line break,
   or the pair around p may be broken and the cell after is not a line break *)
Definition rich_B (hasbreak : cell -> bool) (pairbrk : cell -> cell -> option bool) (input : list cell) (p : nat) : bool :=
  match p with
  | O => false
  | S q => match nth_error input q, nth_error input p with
           | Some a, Some b =>
               hasbreak a || (negb (hasbreak b) && match pairbrk a b with Some true => true | _ => false end)
           | _, _ => false
           end
  end.

(* rich: the text must break after a cell that ends with a line break, and at a break
   opportunity of the pair around it that uniseg reports as mandatory *)
Definition rich_Hd (hasbreak : cell -> bool) (pairbrk : cell -> cell -> option bool)
           (pairmust : cell -> cell -> bool) (input : list cell) (p : nat) : bool :=
  match p with
  | O => false
  | S q => match nth_error input q with
           | Some a =>
               hasbreak a ||
               match nth_error input p with
               | Some b => negb (hasbreak b) && match pairbrk a b with Some true => true | _ => false end
                           && pairmust a b
               | None => false
               end
           | None => false
           end
  end.

(* ---------- the hypotheses of the theorems, decidable on a case ---------- *)

(* widths are non-negative and add up to less than 65536 (the scanners add in uint16) *)
Definition text_ok_b (input : list cell) (W : Z) : bool :=
  (0 <=? W) && (W <? 65536) && forallb (fun c => 0 <=? c_width c) input && (sumw input <? 65536).

(* whitespace-only cell *)
Definition ws_runes (c : cell) : bool := forallb go_isspace (c_runes c).

(* a cluster of plain text: if it ends in whitespace it is all whitespace, and if it ends in a
   line break, what is left after cutting that rune is whitespace *)
Definition plain_cell_ok (c : cell) : bool :=
  (negb (cell_is_space c) || ws_runes c) &&
  (negb (cell_hasbreak c) || forallb (fun r => cell_is_space r && ws_runes r) (plain_residue c)).

(* the segment that reaches the end of the text is reported with mustBreak *)
Definition tbl_end_ok_b (N : nat) (tbl : plain_tbl) : bool :=
  forallb (fun e : (Z * Z) * (Z * bool * Z) =>
             let '((i, _), (n, br, _)) := e in negb (Z.of_nat N <=? i + n) || br) tbl.

(* every answer in the table ends at the next break opportunity of B and reports mustBreak
   exactly at the end of the text and at the positions of Hd *)
Definition tbl_consistent_b (N : nat) (B Hd : nat -> bool) (tbl : plain_tbl) : bool :=
  forallb (fun e : (Z * Z) * (Z * bool * Z) =>
             let '((i, _), (n, br, _)) := e in
             if (0 <=? i) && (0 <? n) && (i + n <=? Z.of_nat N) then
               let e' := Z.to_nat (i + n) in
               (Nat.eqb e' N || B e') &&
               forallb (fun q => negb (B q)) (seq (S (Z.to_nat i)) (Z.to_nat n - 1)) &&
               Bool.eqb br (Nat.eqb e' N || Hd e')
             else true) tbl.

(* all hypotheses of the plain theorems for one case (B and Hd read off the table) *)
Definition plain_hyps_b (input : list cell) (tbl : plain_tbl) : bool :=
  forallb plain_cell_ok input && tbl_end_ok_b (length input) tbl &&
  match plain_breaks (S (length input)) (tbl_orc tbl) (Z.of_nat (length input)) 0 (-1) with
  | None => false
  | Some bl => tbl_consistent_b (length input) (B_of_list bl) (Hd_of_list bl) tbl
  end.

(* ---------- correspondence ---------- *)

Fixpoint list_eqb2 {A B} (eqb : A -> B -> bool) (a : list A) (b : list B) : bool :=
  match a, b with
  | [], [] => true
  | x :: a', y :: b' => eqb x y && list_eqb2 eqb a' b'
  | _, _ => false
  end.

Definition obs_t := list (list cell * Z).
Definition to_obs (o : obs_t) : list (list cell * nat) := map (fun x => (fst x, Z.to_nat (snd x))) o.

(* lines are compared as the implementation exposes them: text.go as a string (runes),
   richtext.go as cells *)
Definition flat (l : list cell) : list Z := concat (map c_runes l).
Definition nonspace_runes (l : list cell) : list Z := filter (fun r => negb (go_isspace r)) (flat l).
Definition same_runes (line consumed : list cell) : bool := zlist_eqb (nonspace_runes line) (nonspace_runes consumed).

Definition flags_ok (input : list cell) (spaces breaks : list bool) : bool :=
  list_eqb Bool.eqb (map cell_is_space input) spaces && list_eqb Bool.eqb (map cell_hasbreak input) breaks.

Definition obs_nonneg (o : obs_t) : bool := forallb (fun x => 0 <=? snd x) o.

(* One case = one text with the runs at several widths.
   plain case: (input, oracle table, (is_space flags, hasbreak flags), runs) and one run =
   (W, observed lines re-segmented by ctx.Characters, each with len(rest) in clusters (-1: not on a
   cluster boundary), outcome 0 = ok / 1 = panic / 2 = did not terminate) *)
Definition run_t := (Z * obs_t * Z)%type.
Definition plain_case := (list cell * plain_tbl * (list bool * list bool) * list run_t)%type.

Definition plain_run_mismatch (input : list cell) (tbl : plain_tbl) (r : run_t) : bool :=
  let '(W, obs, code) := r in
  let '(ls, o) := plain_run W input tbl in
  negb ((outcome_code o =? code)
        && list_eqb2 (fun a b => zlist_eqb (flat (fst a)) (flat (fst b)) && (Z.of_nat (snd a) =? snd b)) ls obs).

(* besides model = implementation, a case must satisfy the hypotheses of the theorems that do
   not depend on the break sets (the library tables, the text bound, well-formed clusters) *)
Definition plain_case_mismatch (k : plain_case) : bool :=
  let '(input, tbl, (sp, bk), runs) := k in
  negb (flags_ok input sp bk && forallb plain_cell_ok input && tbl_end_ok_b (length input) tbl
        && forallb (fun r : run_t => text_ok_b input (fst (fst r))) runs)
  || existsb (plain_run_mismatch input tbl) runs.

Definition plain_case_violation (k : plain_case) : bool :=
  let '(input, tbl, (sp, bk), runs) := k in
  let N := Z.of_nat (length input) in
  match plain_breaks (S (length input)) (tbl_orc tbl) N 0 (-1) with
  | None => true
  | Some bl =>
      existsb (fun r : run_t => let '(W, obs, code) := r in
                 negb ((code =? 0) && obs_nonneg obs &&
                       c16_ok_b cell_is_space same_runes (B_of_list bl) (Hd_of_list bl) W input (to_obs obs))) runs
  end.

Definition c16_plain_mismatches (cases : list plain_case) : list Z := bad_indices plain_case_mismatch cases.
Definition c16_plain_violations (cases : list plain_case) : list Z := bad_indices plain_case_violation cases.

Definition rich_case := (list cell * pair_tbl * (list bool * list bool) * list run_t)%type.

Definition rich_run_mismatch (input : list cell) (tbl : pair_tbl) (r : run_t) : bool :=
  let '(W, obs, code) := r in
  let '(ls, o) := rich_run W input tbl in
  negb ((outcome_code o =? code)
        && list_eqb2 (fun a b => list_eqb cell_eqb (fst a) (fst b) && (Z.of_nat (snd a) =? snd b)) ls obs).

Definition rich_case_mismatch (k : rich_case) : bool :=
  let '(input, tbl, (sp, bk), runs) := k in
  negb (flags_ok input sp bk && forallb (fun r : run_t => text_ok_b input (fst (fst r))) runs)
  || existsb (rich_run_mismatch input tbl) runs.

Definition rich_case_violation (k : rich_case) : bool :=
  let '(input, tbl, (sp, bk), runs) := k in
  let B := rich_B cell_hasbreak (tbl_pairbrk tbl) input in
  let Hd := rich_Hd cell_hasbreak (tbl_pairbrk tbl) (tbl_pairmust tbl) input in
  existsb (fun r : run_t => let '(W, obs, code) := r in
             negb ((code =? 0) && obs_nonneg obs &&
                   c16_ok_b cell_is_space (same_cells cell_is_space) B Hd W input (to_obs obs))) runs.

Definition c16_rich_mismatches (cases : list rich_case) : list Z := bad_indices rich_case_mismatch cases.
Definition c16_rich_violations (cases : list rich_case) : list Z := bad_indices rich_case_violation cases.

(* hard-wrap case: (cells, observed lines) *)
Definition hard_case := (list cell * list (list cell))%type.
Definition hard_case_mismatch (k : hard_case) : bool :=
  negb (list_eqb (list_eqb cell_eqb) (hard_run (fst k)) (snd k)).
(* property on the observation: no line contains a newline cell, and the lines joined by
   newline cells are the input up to one final newline *)
Fixpoint join_nl (nl : cell) (ls : list (list cell)) : list cell :=
  match ls with
  | [] => []
  | [l] => l
  | l :: t => l ++ nl :: join_nl nl t
  end.
Definition nl_cell (input : list cell) : cell :=
  match filter is_newline input with c :: _ => c | [] => mkCell [10] 0 0 end.
Definition hard_case_violation (k : hard_case) : bool :=
  let '(input, ls) := k in
  negb (forallb (fun l => negb (existsb is_newline l)) ls &&
        (let j := map c_runes (join_nl (nl_cell input) ls) in
         let i := map c_runes input in
         list_eqb zlist_eqb j i || list_eqb zlist_eqb (j ++ [[10]]) i)).
Definition c16_hard_mismatches (cases : list hard_case) : list Z := bad_indices hard_case_mismatch cases.
Definition c16_hard_violations (cases : list hard_case) : list Z := bad_indices hard_case_violation cases.

(* ---------- Text.drawSoftwrap / RichText.drawSoftwrap ---------- *)
(* [lines]: the emitted lines as the characters that are drawn (text.go: ctx.Characters(scanner.Text()),
   an oracle answer shipped with the case; richtext.go: scanner.Text() itself).
   [restyle]: text.go draws every character in the widget's style; richtext.go keeps the cell's. *)

(* findContainerSize, soft-wrap branch *)
Fixpoint container_size (lines : list (list cell)) (MaxW MaxH W H : Z) : Z * Z :=
  match lines with
  | [] => (W, H)
  | l :: t =>
      if MaxH <=? H then (W, H)
      else
        let w := u16sum l in
        let W1 := if W <? w then w else W in
        let W2 := if MaxW <? W1 then MaxW else W1 in
        container_size t MaxW MaxH W2 (u16 (H + 1))
  end.

(* Surface.WriteCell: None = index out of range *)
Definition write_cell (W H : Z) (buf : list cell) (col row : Z) (c : cell) : option (list cell) :=
  if (W <=? col) || (H <=? row) then Some buf else zupd buf (row * W + col) c.

Fixpoint draw_chars (restyle : cell -> cell) (MaxW W H row : Z) (chars : list cell) (col : Z) (buf : list cell)
  : option (list cell) :=
  match chars with
  | [] => Some buf
  | ch :: t =>
      if MaxW <=? col then Some buf
      else match write_cell W H buf col row (restyle ch) with
           | None => None
           | Some buf' => draw_chars restyle MaxW W H row t (u16 (col + cw ch)) buf'
           end
  end.

Fixpoint draw_rows (restyle : cell -> cell) (MaxW MaxH W H : Z) (lines : list (list cell)) (row : Z) (buf : list cell)
  : option (list cell) :=
  match lines with
  | [] => Some buf
  | l :: t =>
      if MaxH <? row then Some buf
      else match draw_chars restyle MaxW W H row l 0 buf with
           | None => None
           | Some buf' => draw_rows restyle MaxW MaxH W H t (u16 (row + 1)) buf'
           end
  end.

(* NewSurface + Fill(style) (richtext.go does not fill: style 0) *)
Definition blank (style : Z) : cell := mkCell [] 0 style.

Definition draw_softwrap (restyle : cell -> cell) (fill : Z) (lines : list (list cell)) (MaxW MaxH : Z)
  : option (Z * Z * list cell) :=
  let '(W, H) := container_size lines MaxW MaxH 0 0 in
  match draw_rows restyle MaxW MaxH W H lines 0 (zrepeat (blank fill) (H * W)) with
  | None => None
  | Some buf => Some (W, H, buf)
  end.

Definition plain_restyle (style : Z) (c : cell) : cell := mkCell (c_runes c) (c_width c) style.

(* the property on one observed surface: it has min(#lines, Max.Height) rows, and in row i the cell
   at column c is the character of line i that starts at column c (the last such one if a
   zero-width character shares the column), blank otherwise; characters starting at or beyond
   the surface width are not drawn *)
Fixpoint cell_at (restyle : cell -> cell) (W : Z) (chars : list cell) (col c : Z) (acc : cell) : cell :=
  match chars with
  | [] => acc
  | ch :: t => if W <=? col then acc
               else cell_at restyle W t (col + c_width ch) c (if col =? c then restyle ch else acc)
  end.

Definition surface_ok_b (restyle : cell -> cell) (fill : Z) (lines : list (list cell)) (MaxW MaxH : Z)
           (obs : Z * Z * list cell) : bool :=
  let '(W, H, buf) := obs in
  (H =? Z.min (zlen lines) MaxH) && (zlen buf =? H * W) && (W <=? MaxW) &&
  forallb (fun i =>
     forallb (fun c =>
        match zget buf (i * W + c), zget lines i with
        | Some x, Some l => cell_eqb x (cell_at restyle W l 0 c (blank fill))
        | _, _ => false
        end) (map Z.of_nat (seq 0 (Z.to_nat W)))) (map Z.of_nat (seq 0 (Z.to_nat H))).

(* the unguarded clause "the widget draws exactly the emitted lines": in addition, every character
   of a shown line that starts inside the surface is found in the cell at its column *)
Fixpoint shown_b (restyle : cell -> cell) (W : Z) (buf : list cell) (i : Z) (chars : list cell) (col : Z) : bool :=
  match chars with
  | [] => true
  | ch :: t =>
      if W <=? col then true
      else match zget buf (i * W + col) with
           | Some x => cell_eqb x (restyle ch)
           | None => false
           end && shown_b restyle W buf i t (col + c_width ch)
  end.

Definition surface_exact_b (restyle : cell -> cell) (fill : Z) (lines : list (list cell)) (MaxW MaxH : Z)
           (obs : Z * Z * list cell) : bool :=
  surface_ok_b restyle fill lines MaxW MaxH obs &&
  let '(W, H, buf) := obs in
  forallb (fun i => match zget lines i with
                    | Some l => shown_b restyle W buf i l 0
                    | None => false
                    end) (map Z.of_nat (seq 0 (Z.to_nat H))).

(* guard of the recorded finding zero-width-overdraw: a drawn line contains a zero-width
   character (it shares its column with the next character, which overwrites it) *)
Definition has_zero_width (lines : list (list cell)) : bool :=
  existsb (existsb (fun c => c_width c <=? 0)) lines.

(* "exactly the emitted lines" also constrains the SIZE of the surface (findContainerSize): the
   surface is as wide as the widest of the lines it shows (the first H ones), limited to Max.Width -
   so no character of a shown line that starts left of Max.Width falls outside the surface and is
   dropped by Surface.WriteCell, and no column is added that no line needs *)
Fixpoint max_width (lines : list (list cell)) : Z :=
  match lines with
  | [] => 0
  | l :: t => Z.max (sumw l) (max_width t)
  end.

Definition surface_width_b (lines : list (list cell)) (MaxW : Z) (obs : Z * Z * list cell) : bool :=
  let '(W, H, buf) := obs in W =? Z.min MaxW (max_width (firstn (Z.to_nat H) lines)).

(* nothing is dropped: every character of line i that starts left of Max.Width lies inside the
   surface and is found in the cell at its column *)
Fixpoint drawn_b (restyle : cell -> cell) (MaxW W : Z) (buf : list cell) (i : Z) (chars : list cell) (col : Z) : bool :=
  match chars with
  | [] => true
  | ch :: t =>
      if MaxW <=? col then true
      else (col <? W) &&
           match zget buf (i * W + col) with
           | Some x => cell_eqb x (restyle ch)
           | None => false
           end && drawn_b restyle MaxW W buf i t (col + c_width ch)
  end.

(* the whole clause "the widget draws exactly the emitted lines, one per row" on one observation *)
Definition surface_full_b (restyle : cell -> cell) (fill : Z) (lines : list (list cell)) (MaxW MaxH : Z)
           (obs : Z * Z * list cell) : bool :=
  surface_exact_b restyle fill lines MaxW MaxH obs && surface_width_b lines MaxW obs &&
  let '(W, H, buf) := obs in
  forallb (fun i => match zget lines i with
                    | Some l => drawn_b restyle MaxW W buf i l 0
                    | None => false
                    end) (map Z.of_nat (seq 0 (Z.to_nat H))).

(* the part of it that does not depend on the guard of zero-width-overdraw *)
Definition surface_sized_b (restyle : cell -> cell) (fill : Z) (lines : list (list cell)) (MaxW MaxH : Z)
           (obs : Z * Z * list cell) : bool :=
  surface_ok_b restyle fill lines MaxW MaxH obs && surface_width_b lines MaxW obs.

(* draw case: (is_rich, style, MaxW, MaxH, lines as drawn characters, observed (W, H, buffer)) *)
Definition draw_case := (bool * Z * Z * Z * list (list cell) * (Z * Z * list cell))%type.
Definition draw_restyle (rich : bool) (style : Z) : cell -> cell :=
  if rich then (fun c => c) else plain_restyle style.
Definition draw_case_mismatch (k : draw_case) : bool :=
  let '(rich, style, MaxW, MaxH, lines, (W, H, buf)) := k in
  match draw_softwrap (draw_restyle rich style) (if rich then 0 else style) lines MaxW MaxH with
  | None => true
  | Some (W', H', buf') => negb ((W =? W') && (H =? H') && list_eqb cell_eqb buf buf')
  end.
Definition draw_case_violation (k : draw_case) : bool :=
  let '(rich, style, MaxW, MaxH, lines, obs) := k in
  negb (surface_full_b (draw_restyle rich style) (if rich then 0 else style) lines MaxW MaxH obs).
(* under the guard of the recorded finding: a zero-width character is drawn AND the clauses that do
   not depend on the guard (rows, cells, size of the surface) hold of the observation *)
Definition draw_case_known (k : draw_case) : bool :=
  let '(rich, style, MaxW, MaxH, lines, obs) := k in
  has_zero_width lines &&
  surface_sized_b (draw_restyle rich style) (if rich then 0 else style) lines MaxW MaxH obs.
Definition c16_draw_known (cases : list draw_case) : list Z := bad_indices draw_case_known cases.
Definition c16_draw_mismatches (cases : list draw_case) : list Z := bad_indices draw_case_mismatch cases.
Definition c16_draw_violations (cases : list draw_case) : list Z := bad_indices draw_case_violation cases.
