(* Model of mouse.go parseMouseEvent (SGR mouse reports, CSI < Cb ; Cx ; Cy M/m) and the
   encoder of such reports used by the C03 theorems.  Executable definitions only. *)
From Vx Require Import base.Prelude.

(* key.go: EventType / ModifierMask constants *)
Definition EventPress : Z := 0.
Definition EventRepeat : Z := 1.
Definition EventRelease : Z := 2.
Definition EventMotion : Z := 3.
Definition EventPaste : Z := 4.
Definition MShift : Z := 1.
Definition MAlt : Z := 2.
Definition MCtrl : Z := 4.

(* mouse.go constants *)
Definition motion_bit : Z := 32.        (* 0b00100000 *)
Definition button_bits : Z := 195.      (* 0b11000011 *)
Definition mouse_mod_shift : Z := 4.
Definition mouse_mod_alt : Z := 8.
Definition mouse_mod_ctrl : Z := 16.

Record mouse := mkMouse { m_button : Z; m_row : Z; m_col : Z; m_etype : Z; m_mods : Z }.

Definition mouse_eqb (a b : mouse) : bool :=
  (m_button a =? m_button b) && (m_row a =? m_row b) && (m_col a =? m_col b) &&
  (m_etype a =? m_etype b) && (m_mods a =? m_mods b).

(* the Go expression seq.Params[k][0] (field name abbreviated): None = index out of range *)
Definition par (ps : list (list Z)) (k : Z) : option Z :=
  match zget ps k with
  | Some p => zget p 0
  | None => None
  end.

(* parseMouseEvent.  None = Go panic (index out of range); Some None = (Mouse{}, false);
   Some (Some m) = (m, true).
   `len(seq.Intermediate) != 1 || seq.Intermediate[0] != '<'` (after the fix: the pinned
   code had && and indexed an empty slice). *)
Definition parse_mouse (inter : list Z) (ps : list (list Z)) (fin : Z) : option (option mouse) :=
  if negb (zlen inter =? 1) then Some None
  else match zget inter 0 with
  | None => None
  | Some i0 =>
    if negb (i0 =? 60) then Some None
    else if negb (zlen ps =? 3) then Some None
    else
      match par ps 0, par ps 1, par ps 2 with
      | Some cb, Some cx, Some cy =>
          let ty0 := if fin =? 77 then EventPress else if fin =? 109 then EventRelease else 0 in
          let ty := if negb (Z.land cb motion_bit =? 0) then EventMotion else ty0 in
          let m1 := if negb (Z.land cb mouse_mod_shift =? 0) then MShift else 0 in
          let m2 := if negb (Z.land cb mouse_mod_alt =? 0) then Z.lor m1 MAlt else m1 in
          let m3 := if negb (Z.land cb mouse_mod_ctrl =? 0) then Z.lor m2 MCtrl else m2 in
          Some (Some (mkMouse (Z.land cb button_bits) (i64 (cy - 1)) (i64 (cx - 1)) ty m3))
      | _, _, _ => None
      end
  end.

(* ---------- the encoder (what a terminal in SGR mode 1006 sends) ---------- *)
(* a button code is any value whose bits lie inside buttonBits: 0-3, 64-67 (wheel),
   128-131 (buttons 8-11), 192-195 *)
Definition button_ok (b : Z) : bool := (0 <=? b) && (Z.land b button_bits =? b).

Definition b2z (b : bool) (v : Z) : Z := if b then v else 0.

Definition sgr_cb (b : Z) (shift alt ctrl motion : bool) : Z :=
  b + b2z shift 4 + b2z alt 8 + b2z ctrl 16 + b2z motion 32.

(* the parameters and final byte of the report for button b at 0-based (col,row) *)
Definition sgr_params (b col row : Z) (shift alt ctrl motion : bool) : list (list Z) :=
  [[sgr_cb b shift alt ctrl motion]; [col + 1]; [row + 1]].
Definition sgr_final (release : bool) : Z := if release then 109 else 77.

(* the event the report stands for *)
Definition sgr_mouse (b col row : Z) (shift alt ctrl motion release : bool) : mouse :=
  mkMouse b row col
    (if motion then EventMotion else if release then EventRelease else EventPress)
    (b2z shift MShift + b2z alt MAlt + b2z ctrl MCtrl).

Definition int64_ok (x : Z) : bool := (-9223372036854775808 <=? x) && (x <=? 9223372036854775807).
