(* C15 — model of the event routing, focus and hover code of vxfw/vxfw.go:
   App.handleCommand, focusHandler.{handleEvent, updatePath, childHasFocus, focusWidget},
   mouseHandler.{handleEvent, update, mouseExit}, hitTest, the z-sort of Surface.render and
   the event cases / frame case / prologue of App.Run.  Definitions only.

   Widgets are numbers.  What a widget does is an ORACLE: [oracle log w ev ph] is the
   command the widget [w] returns when it is called with event [ev] in phase [ph] after
   the calls recorded in [log] (so a widget may keep any state, and widgets may share
   state).  [capturer w] says whether [w] implements EventCapturer.  Errors returned by
   handlers are not modelled (instrumented widgets never return one).

   The observable is the call log (every HandleEvent / CaptureEvent call with the command
   it returned) and the list of leaf commands executed ([effs]) with the flags they set. *)
From Vx Require Import base.Prelude base.ListX.
Local Open Scope Z_scope.

Definition wid := Z.

Inductive event :=
| EKey (k : Z)            (* vaxis.Key or any application event: routed by focusHandler.handleEvent *)
| EInit                   (* vxfw.Init *)
| EMouse (col row : Z)    (* vaxis.Mouse at a terminal cell *)
| EFocusIn | EFocusOut    (* vaxis.FocusIn / vaxis.FocusOut as delivered to widgets *)
| EEnter | ELeave.        (* vxfw.MouseEnter / vxfw.MouseLeave *)

Inductive phase := Capture | Target | Bubble.

(* Command values.  [COut k n] stands for the commands that are passed straight to the
   terminal (k = 0 SetTitleCmd, 1 CopyToClipboardCmd, 2 SendNotificationCmd without title,
   3 SendNotificationCmd with title; n identifies the text).  [CBatch sl l] is BatchCmd l
   (sl = false) or []Command l (sl = true).  [CNone] is nil / any other value. *)
Inductive cmd :=
| CNone | CRedraw | CRefresh | CQuit | CConsume | CDebug
| COut (k n : Z)
| CFocus (w : wid)
| CBatch (sl : bool) (l : list cmd).

Definition entry := (wid * event * phase * cmd)%type.
Definition e_wid (e : entry) : wid := fst (fst (fst e)).
Definition e_ev (e : entry) : event := snd (fst (fst e)).
Definition e_ph (e : entry) : phase := snd (fst e).
Definition e_ret (e : entry) : cmd := snd e.

(* ---------------------------------------------------------------- decidable equalities *)

Definition event_eqb (a b : event) : bool :=
  match a, b with
  | EKey x, EKey y => x =? y
  | EInit, EInit => true
  | EMouse c r, EMouse c' r' => (c =? c') && (r =? r')
  | EFocusIn, EFocusIn | EFocusOut, EFocusOut | EEnter, EEnter | ELeave, ELeave => true
  | _, _ => false
  end.

Definition phase_eqb (a b : phase) : bool :=
  match a, b with
  | Capture, Capture | Target, Target | Bubble, Bubble => true
  | _, _ => false
  end.

Fixpoint cmd_eqb (a b : cmd) {struct a} : bool :=
  match a, b with
  | CNone, CNone | CRedraw, CRedraw | CRefresh, CRefresh | CQuit, CQuit
  | CConsume, CConsume | CDebug, CDebug => true
  | COut k n, COut k' n' => (k =? k') && (n =? n')
  | CFocus w, CFocus w' => w =? w'
  | CBatch s l, CBatch s' l' =>
      Bool.eqb s s' &&
      (fix go (l l' : list cmd) : bool :=
         match l, l' with
         | [], [] => true
         | x :: t, y :: t' => cmd_eqb x y && go t t'
         | _, _ => false
         end) l l'
  | _, _ => false
  end.

(* ---------------------------------------------------------------- state touched by commands *)

Record core := mkCore {
  log : list entry;        (* every handler call so far, oldest first *)
  effs : list cmd;         (* every leaf command executed so far, oldest first *)
  f_redraw : bool; f_refresh : bool; f_quit : bool; f_consume : bool; f_debug : bool;
  focused : wid
}.

Definition add_log (s : core) (e : entry) : core :=
  mkCore (log s ++ [e]) (effs s) (f_redraw s) (f_refresh s) (f_quit s) (f_consume s) (f_debug s) (focused s).
Definition add_eff (s : core) (c : cmd) : core :=
  mkCore (log s) (effs s ++ [c]) (f_redraw s) (f_refresh s) (f_quit s) (f_consume s) (f_debug s) (focused s).
Definition set_redraw (s : core) (b : bool) : core :=
  mkCore (log s) (effs s) b (f_refresh s) (f_quit s) (f_consume s) (f_debug s) (focused s).
Definition set_refresh (s : core) (b : bool) : core :=
  mkCore (log s) (effs s) (f_redraw s) b (f_quit s) (f_consume s) (f_debug s) (focused s).
Definition set_quit (s : core) (b : bool) : core :=
  mkCore (log s) (effs s) (f_redraw s) (f_refresh s) b (f_consume s) (f_debug s) (focused s).
Definition set_consume (s : core) (b : bool) : core :=
  mkCore (log s) (effs s) (f_redraw s) (f_refresh s) (f_quit s) b (f_debug s) (focused s).
Definition set_debug (s : core) (b : bool) : core :=
  mkCore (log s) (effs s) (f_redraw s) (f_refresh s) (f_quit s) (f_consume s) b (focused s).
Definition set_focused (s : core) (w : wid) : core :=
  mkCore (log s) (effs s) (f_redraw s) (f_refresh s) (f_quit s) (f_consume s) (f_debug s) w.

(* the non-recursive cases of App.handleCommand *)
Definition apply_leaf (s : core) (c : cmd) : core :=
  let s := add_eff s c in
  match c with
  | CRedraw => set_redraw s true
  | CRefresh => set_refresh s true
  | CQuit => set_quit s true
  | CConsume => set_consume s true
  | CDebug => set_redraw (set_debug s true) true
  | _ => s
  end.

(* ---------------------------------------------------------------- surfaces *)

(* Surface{Size{width,height}, Widget w, Children}; a child is SubSurface{Origin{col,row},
   ZIndex z, Surface} *)
Inductive tree := Node (w : wid) (width height : Z) (kids : list (Z * Z * Z * tree)).

Definition t_wid (t : tree) : wid := match t with Node w _ _ _ => w end.
Definition t_width (t : tree) : Z := match t with Node _ x _ _ => x end.
Definition t_height (t : tree) : Z := match t with Node _ _ y _ => y end.
Definition t_kids (t : tree) := match t with Node _ _ _ k => k end.

Definition k_col (k : Z * Z * Z * tree) : Z := fst (fst (fst k)).
Definition k_row (k : Z * Z * Z * tree) : Z := snd (fst (fst k)).
Definition k_z (k : Z * Z * Z * tree) : Z := snd (fst k).
Definition k_tree (k : Z * Z * Z * tree) : tree := snd k.

(* SubSurface.containsPoint *)
Definition contains (oc orow : Z) (t : tree) (col row : Z) : bool :=
  (oc <=? col) && (col <? oc + t_width t) && (orow <=? row) && (row <? orow + t_height t).

(* col - uint16(ss.Origin.Col) in uint16 arithmetic *)
Definition local (x o : Z) : Z := u16 (x - u16 o).

Definition hit := (Z * Z * wid)%type.
Definition h_wid (h : hit) : wid := snd h.
Definition hit_eqb (a b : hit) : bool :=
  (fst (fst a) =? fst (fst b)) && (snd (fst a) =? snd (fst b)) && (snd a =? snd b).
Definition hit_mem (h : hit) (l : list hit) : bool := existsb (hit_eqb h) l.

(* hitTest: the surface itself, then every child that contains the point, recursively,
   in the order of Children *)
Fixpoint hit_test (t : tree) (col row : Z) : list hit :=
  match t with
  | Node w _ _ kids =>
      (col, row, w) ::
      (fix go (ks : list (Z * Z * Z * tree)) : list hit :=
         match ks with
         | [] => []
         | k :: ks' =>
             (if contains (k_col k) (k_row k) (k_tree k) col row
              then hit_test (k_tree k) (local col (k_col k)) (local row (k_row k))
              else []) ++ go ks'
         end) kids
  end.

(* the hit list of mouseHandler.update: the root surface is tested as a SubSurface at (0,0) *)
Definition hits_at (t : tree) (m : Z * Z) : list hit :=
  if contains 0 0 t (fst m) (snd m) then hit_test t (u16 (fst m)) (u16 (snd m)) else [].

(* sort.Slice(s.Children, ZIndex <) of Surface.render, for every surface of the tree.  The
   model is a stable insertion sort (for up to 12 elements Go's sort.Slice is one too). *)
Fixpoint insert_z (k : Z * Z * Z * tree) (l : list (Z * Z * Z * tree)) :=
  match l with
  | [] => [k]
  | x :: t => if k_z k <? k_z x then k :: x :: t else x :: insert_z k t
  end.

Fixpoint sort_tree (t : tree) : tree :=
  match t with
  | Node w x y kids =>
      Node w x y
        ((fix go (ks acc : list (Z * Z * Z * tree)) :=
            match ks with
            | [] => acc
            | k :: ks' => go ks' (insert_z (k_col k, k_row k, k_z k, sort_tree (k_tree k)) acc)
            end) kids [])
  end.

(* focusHandler.childHasFocus: the widgets from the focused one up to the surface [t], or
   None when the focused widget is not in [t] *)
Fixpoint child_has_focus (t : tree) (f : wid) : option (list wid) :=
  match t with
  | Node w _ _ kids =>
      if w =? f then Some [w]
      else
        match (fix go (ks : list (Z * Z * Z * tree)) : option (list wid) :=
                 match ks with
                 | [] => None
                 | k :: ks' =>
                     match child_has_focus (k_tree k) f with
                     | Some p => Some p
                     | None => go ks'
                     end
                 end) kids with
        | Some p => Some (p ++ [w])
        | None => None
        end
  end.

(* ---------------------------------------------------------------- the whole state *)

Record st := mkSt {
  co : core;
  root : wid;               (* focusHandler.root = the widget given to App.Run *)
  path : list wid;          (* focusHandler.path *)
  last_frame : tree;        (* mouseHandler.lastFrame *)
  last_hits : list hit;     (* mouseHandler.lastHits *)
  mouse : option (Z * Z)    (* mouseHandler.mouse (column, row) *)
}.

Definition with_co (s : st) (c : core) : st := mkSt c (root s) (path s) (last_frame s) (last_hits s) (mouse s).
Definition with_path (s : st) (p : list wid) : st := mkSt (co s) (root s) p (last_frame s) (last_hits s) (mouse s).
Definition with_frame (s : st) (t : tree) : st := mkSt (co s) (root s) (path s) t (last_hits s) (mouse s).
Definition with_hits (s : st) (h : list hit) : st := mkSt (co s) (root s) (path s) (last_frame s) h (mouse s).
Definition with_mouse (s : st) (m : option (Z * Z)) : st := mkSt (co s) (root s) (path s) (last_frame s) (last_hits s) m.

Definition call3 := (wid * event * phase)%type.

Definition obind {A B} (o : option A) (f : A -> option B) : option B :=
  match o with Some x => f x | None => None end.

(* What the harness can do / what App.Run does with one event. *)
Inductive input :=
(* the cases of App.Run *)
| IEv (e : event)          (* vaxis.Key, Init or any other event: fh.handleEvent *)
| IMouse (col row : Z)     (* vaxis.Mouse: mh.handleEvent *)
| ITermFocusIn             (* vaxis.FocusIn from the terminal *)
| ITermFocusOut            (* vaxis.FocusOut from the terminal *)
| IRedrawReq               (* vaxis.Resize / vaxis.Redraw *)
| IFrame (t : tree)        (* the 8 ms tick; [t] is what the root widget draws *)
| IStart (t : tree)        (* prologue of App.Run: Init event, first layout *)
(* the handlers one by one (direct stream only) *)
| PUpdate (t : tree)       (* mh.update(app, t) *)
| PUpdatePath (t : tree)   (* fh.updatePath(app, t) *)
| PSetLast (t : tree)      (* mh.lastFrame = t *)
| PRender (t : tree)       (* t.render; fh.updatePath(app, t); mh.lastFrame = t *)
| PMouseExit               (* mh.mouseExit(app) *)
| PClearMouse              (* mh.mouse = nil *)
| PFocus (w : wid)         (* fh.focusWidget(app, w) *)
| PCmd (c : cmd).          (* app.handleCommand(c) *)

Section Oracle.

Variable oracle : list entry -> wid -> event -> phase -> cmd.
Variable capturer : wid -> bool.

(* App.handleCommand with focusHandler.focusWidget inlined.  [fuel] bounds the nesting of
   batches and of focus changes triggered from FocusIn/FocusOut handlers; None = the bound
   was hit (in Go: unbounded recursion). *)
Fixpoint handle_cmd (fuel : nat) (s : core) (c : cmd) {struct fuel} : option core :=
  match fuel with
  | O => None
  | S f =>
      let call := fun (s : core) (w : wid) (ev : event) (ph : phase) =>
        let r := oracle (log s) w ev ph in
        handle_cmd f (add_log s (w, ev, ph, r)) r in
      match c with
      | CNone => Some s
      | CBatch _ l =>
          (fix go (s : core) (l : list cmd) : option core :=
             match l with
             | [] => Some s
             | x :: l' => match handle_cmd f s x with Some s' => go s' l' | None => None end
             end) s l
      | CFocus w =>
          let s0 := add_eff s c in
          if focused s0 =? w then Some s0
          else match call s0 (focused s0) EFocusOut Target with
               | None => None
               | Some s1 => call (set_focused s1 w) w EFocusIn Target
               end
      | _ => Some (apply_leaf s c)
      end
  end.

(* one handler call: record it, then interpret the command it returned *)
Definition call (fuel : nat) (s : core) (w : wid) (ev : event) (ph : phase) : option core :=
  let r := oracle (log s) w ev ph in
  handle_cmd fuel (add_log s (w, ev, ph, r)) r.

(* focusHandler.focusWidget *)
Definition focus_widget (fuel : nat) (s : core) (w : wid) : option core :=
  if focused s =? w then Some s
  else obind (call fuel s (focused s) EFocusOut Target)
         (fun s1 => call fuel (set_focused s1 w) w EFocusIn Target).

(* a loop that calls handlers and ignores ConsumeEventCmd (update, mouseExit) *)
Fixpoint calls (fuel : nat) (s : core) (l : list call3) : option core :=
  match l with
  | [] => Some s
  | (w, ev, ph) :: l' => obind (call fuel s w ev ph) (fun s' => calls fuel s' l')
  end.

(* a loop that stops after the first call that leaves consumeEvent set; the flag is
   cleared again; true = stopped *)
Fixpoint route (fuel : nat) (s : core) (l : list call3) : option (core * bool) :=
  match l with
  | [] => Some (s, false)
  | (w, ev, ph) :: l' =>
      obind (call fuel s w ev ph)
        (fun s' => if f_consume s' then Some (set_consume s' false, true) else route fuel s' l')
  end.

Definition capture_calls (ev : event) (ws : list wid) : list call3 :=
  map (fun w => (w, ev, Capture)) (filter capturer ws).
Definition bubble_calls (ev : event) (ws : list wid) : list call3 :=
  map (fun w => (w, ev, Bubble)) (rev (removelast ws)).

(* focusHandler.handleEvent *)
Definition focus_handle (fuel : nat) (s : st) (ev : event) : option st :=
  let c0 := set_consume (co s) false in
  obind (route fuel c0 (capture_calls ev (path s)))
    (fun r1 => if snd r1 then Some (with_co s (fst r1))
     else obind (route fuel (fst r1) [(focused (fst r1), ev, Target)])
       (fun r2 => if snd r2 then Some (with_co s (fst r2))
        else obind (route fuel (fst r2) (bubble_calls ev (path s)))
          (fun r3 => Some (with_co s (fst r3))))).

(* mouseHandler.update *)
Definition mouse_update (fuel : nat) (s : st) (t : tree) : option st :=
  match mouse s with
  | None => Some s
  | Some m =>
      let hits := hits_at t m in
      let leaves := map (fun h => (h_wid h, ELeave, Target))
                        (filter (fun h => negb (hit_mem h hits)) (last_hits s)) in
      let enters := map (fun h => (h_wid h, EEnter, Target))
                        (filter (fun h => negb (hit_mem h (last_hits s))) hits) in
      obind (calls fuel (co s) (leaves ++ enters))
        (fun c => Some (with_hits (with_co s c) hits))
  end.

(* mouseHandler.mouseExit *)
Definition mouse_exit (fuel : nat) (s : st) : option st :=
  obind (calls fuel (co s) (map (fun h => (h_wid h, ELeave, Target)) (last_hits s)))
    (fun c => Some (with_hits (with_co s c) [])).

(* mouseHandler.handleEvent *)
Definition mouse_handle (fuel : nat) (s : st) (col row : Z) : option st :=
  let ev := EMouse col row in
  obind (mouse_update fuel (with_mouse s (Some (col, row))) (last_frame s))
    (fun s1 =>
       match last_hits s1 with
       | [] => Some s1
       | _ =>
           let ws := map h_wid (last_hits s1) in
           let c0 := set_consume (co s1) false in
           obind (route fuel c0 (capture_calls ev ws))
             (fun r1 => if snd r1 then Some (with_co s1 (fst r1))
              else obind (route fuel (fst r1) [(last ws 0, ev, Target)])
                (fun r2 => if snd r2 then Some (with_co s1 (fst r2))
                 else obind (route fuel (fst r2) (bubble_calls ev ws))
                   (fun r3 => Some (with_co s1 (fst r3)))))
       end).

(* focusHandler.updatePath *)
Definition update_path (fuel : nat) (s : st) (t : tree) : option st :=
  match child_has_focus t (focused (co s)) with
  | Some p =>
      let p1 := if negb (root s =? t_wid t) then p ++ [root s] else p in
      Some (with_path s (rev p1))
  | None =>
      obind (focus_widget fuel (co s) (root s))
        (fun c => Some (with_path (with_co s c) [root s]))
  end.

(* the frame case of App.Run (taken only when a redraw is pending) *)
Definition frame (fuel : nat) (s : st) (t : tree) : option st :=
  if negb (f_redraw (co s)) then Some s
  else
    let s0 := with_co s (set_redraw (co s) false) in
    obind (mouse_update fuel s0 t)
      (fun s1 =>
         let s2 := with_co s1 (set_debug (set_refresh (set_redraw (co s1) false) false) false) in
         let t' := sort_tree t in
         obind (update_path fuel s2 t') (fun s3 => Some (with_frame s3 t'))).

Definition step (fuel : nat) (s : st) (i : input) : option st :=
  match i with
  | IEv e => focus_handle fuel s e
  | IMouse c r => mouse_handle fuel s c r
  | ITermFocusIn => obind (call fuel (co s) (root s) EEnter Target) (fun c => Some (with_co s c))
  | ITermFocusOut => mouse_exit fuel (with_mouse s None)
  | IRedrawReq => Some (with_co s (set_redraw (co s) true))
  | IFrame t => frame fuel s t
  | IStart t => obind (focus_handle fuel s EInit) (fun s1 => Some (with_frame s1 t))
  | PUpdate t => mouse_update fuel s t
  | PUpdatePath t => update_path fuel s t
  | PSetLast t => Some (with_frame s t)
  | PRender t => let t' := sort_tree t in obind (update_path fuel s t') (fun s1 => Some (with_frame s1 t'))
  | PMouseExit => mouse_exit fuel s
  | PClearMouse => Some (with_mouse s None)
  | PFocus w => obind (focus_widget fuel (co s) w) (fun c => Some (with_co s c))
  | PCmd c => obind (handle_cmd fuel (co s) c) (fun c' => Some (with_co s c'))
  end.

(* App.Run returns as soon as shouldQuit is set after an event (not after a frame and not
   after the prologue) *)
Definition is_tick (i : input) : bool := match i with IFrame _ | IStart _ => true | _ => false end.

Fixpoint run (fuel : nat) (s : st) (l : list input) : option st :=
  match l with
  | [] => Some s
  | i :: l' =>
      obind (step fuel s i)
        (fun s' => if negb (is_tick i) && f_quit (co s') then Some s' else run fuel s' l')
  end.

End Oracle.

(* the state App.Run starts from *)
Definition init_core (w : wid) : core := mkCore [] [] false false false false false w.
Definition init_st (w : wid) : st := mkSt (init_core w) w [w] (Node w 0 0 []) [] None.

(* ---------------------------------------------------------------- vocabulary of the property *)

(* leaf commands of a command value, in execution order *)
Fixpoint leaves (c : cmd) : list cmd :=
  match c with
  | CNone => []
  | CBatch _ l => flat_map leaves l
  | x => [x]
  end.

Definition rets (d : list entry) : list cmd := flat_map (fun e => leaves (e_ret e)) d.

Definition is_consume (c : cmd) : bool := match c with CConsume => true | _ => false end.
Definition is_redraw (c : cmd) : bool := match c with CRedraw | CDebug => true | _ => false end.
Definition is_refresh (c : cmd) : bool := match c with CRefresh => true | _ => false end.
Definition is_quit (c : cmd) : bool := match c with CQuit => true | _ => false end.
Definition is_debug (c : cmd) : bool := match c with CDebug => true | _ => false end.
Definition is_focus_cmd (c : cmd) : bool := match c with CFocus _ => true | _ => false end.

Definition is_focus_ev (e : event) : bool := match e with EFocusIn | EFocusOut => true | _ => false end.
Definition is_hover_ev (e : event) : bool := match e with EEnter | ELeave => true | _ => false end.
(* events that App.Run passes to focusHandler.handleEvent *)
Definition is_app_ev (e : event) : bool := match e with EKey _ | EInit => true | _ => false end.

(* a delivery made by focusWidget *)
Definition focus_entry (e : entry) : bool := is_focus_ev (e_ev e) && phase_eqb (e_ph e) Target.

(* Routing order.  [routed_b ev seq d]: the entries [d] are calls with event [ev] to a prefix
   of [seq], in order, each followed only by the focus deliveries its command triggered;
   a call after which ConsumeEventCmd was executed (by its own command or by one of those
   deliveries) is the last one; if nobody consumed, all of [seq] was called. *)
Fixpoint span_focus (d : list entry) : list entry * list entry :=
  match d with
  | e :: d' => if focus_entry e then let (a, b) := span_focus d' in (e :: a, b) else ([], d)
  | [] => ([], [])
  end.

Definition consuming (e : entry) (nested : list entry) : bool :=
  existsb is_consume (rets (e :: nested)).

Fixpoint routed_b (fuel : nat) (ev : event) (seq : list (wid * phase)) (d : list entry) : bool :=
  match fuel with
  | O => false
  | S f =>
      match seq, d with
      | [], [] => true
      | [], _ :: _ => false
      | _ :: _, [] => false
      | (w, ph) :: seq', e :: d' =>
          (e_wid e =? w) && event_eqb (e_ev e) ev && phase_eqb (e_ph e) ph &&
          let (nested, rest) := span_focus d' in
          if consuming e nested then match rest with [] => true | _ => false end
          else routed_b f ev seq' rest
      end
  end.

(* the order the property prescribes along a chain of widgets [ws] (root first, target last) *)
Definition route_seq (capturer : wid -> bool) (ws : list wid) (target : wid) : list (wid * phase) :=
  map (fun w => (w, Capture)) (filter capturer ws) ++ [(target, Target)] ++
  map (fun w => (w, Bubble)) (rev (removelast ws)).

(* Focus deliveries: FocusOut to the focused widget, FocusIn to the new one, and so on;
   returns the widget that has the focus at the end, None if the deliveries are not such a chain *)
Fixpoint focus_chain (f : wid) (l : list (wid * event)) : option wid :=
  match l with
  | [] => Some f
  | (a, EFocusOut) :: (b, EFocusIn) :: l' =>
      if (a =? f) && negb (b =? f) then focus_chain b l' else None
  | _ => None
  end.

Definition focus_log (d : list entry) : list (wid * event) :=
  map (fun e => (e_wid e, e_ev e)) (filter (fun e => is_focus_ev (e_ev e)) d).

(* Hover: Some true = the widget has received MouseEnter last, Some false = it is not
   hovered, None = two enters or two leaves in a row (or a leave first) *)
Fixpoint hover_state (open : bool) (l : list event) : option bool :=
  match l with
  | [] => Some open
  | EEnter :: l' => if open then None else hover_state true l'
  | ELeave :: l' => if open then hover_state false l' else None
  | _ :: l' => hover_state open l'
  end.

Definition hover_log (w : wid) (d : list entry) : list event :=
  map e_ev (filter (fun e => (e_wid e =? w) && is_hover_ev (e_ev e)) d).

(* pre-order list of the widgets of a surface tree *)
Fixpoint ids (t : tree) : list wid :=
  match t with
  | Node w _ _ kids => w :: flat_map (fun k => ids (k_tree k)) kids
  end.

(* the chain of widgets from the root of [t] down to the first (pre-order) surface of widget
   [f], found by a search that is independent of childHasFocus *)
Fixpoint chain_to (t : tree) (f : wid) : option (list wid) :=
  match t with
  | Node w _ _ kids =>
      if w =? f then Some [w]
      else option_map (cons w)
             ((fix go (ks : list (Z * Z * Z * tree)) : option (list wid) :=
                 match ks with
                 | [] => None
                 | k :: ks' => match chain_to (k_tree k) f with Some p => Some p | None => go ks' end
                 end) kids)
  end.

(* ---------------------------------------------------------------- the property on one observation *)

(* Widgets under the pointer, computed on absolute coordinates (independent of the local
   translation done by hitTest).  [under_all]: every surface that contains the point and
   whose ancestors all contain it, in pre-order (this is the list the code routes along).
   [under_top]: the chain obtained by descending, at each level, into the LAST child that
   contains the point (after a render: the one with the highest z). *)
Definition contains_abs (ox oy : Z) (t : tree) (c r : Z) : bool :=
  (ox <=? c) && (c <? ox + t_width t) && (oy <=? r) && (r <? oy + t_height t).

Fixpoint under_all (t : tree) (ox oy c r : Z) : list wid :=
  match t with
  | Node w _ _ kids =>
      w :: (fix go (ks : list (Z * Z * Z * tree)) : list wid :=
              match ks with
              | [] => []
              | k :: ks' =>
                  (if contains_abs (ox + k_col k) (oy + k_row k) (k_tree k) c r
                   then under_all (k_tree k) (ox + k_col k) (oy + k_row k) c r else []) ++ go ks'
              end) kids
  end.

Fixpoint under_top (t : tree) (ox oy c r : Z) : list wid :=
  match t with
  | Node w _ _ kids =>
      w :: (fix go (ks : list (Z * Z * Z * tree)) (acc : list wid) : list wid :=
              match ks with
              | [] => acc
              | k :: ks' =>
                  go ks' (if contains_abs (ox + k_col k) (oy + k_row k) (k_tree k) c r
                          then under_top (k_tree k) (ox + k_col k) (oy + k_row k) c r else acc)
              end) kids []
  end.

Definition pointer_chain (t : tree) (c r : Z) : list wid :=
  if contains_abs 0 0 t c r then under_top t 0 0 c r else [].
Definition pointer_all (t : tree) (c r : Z) : list wid :=
  if contains_abs 0 0 t c r then under_all t 0 0 c r else [].

(* the chain from the App's root widget to the focused widget in the surface tree [t] *)
Definition focus_chain_ws (rt : wid) (t : tree) (f : wid) : option (list wid) :=
  let pre := if rt =? t_wid t then [] else [rt] in
  match chain_to t f with
  | Some ch => Some (pre ++ ch)
  | None => if (f =? rt) && negb (rt =? t_wid t) then Some [rt] else None
  end.

Fixpoint nodup_z (l : list Z) : bool :=
  match l with
  | [] => true
  | x :: t => negb (existsb (Z.eqb x) t) && nodup_z t
  end.

Definition cmd_count (c : cmd) (l : list cmd) : nat := length (filter (cmd_eqb c) l).
(* same elements with the same multiplicities *)
Definition same_bag (a b : list cmd) : bool :=
  forallb (fun c => Nat.eqb (cmd_count c a) (cmd_count c b)) (a ++ b).

Definition is_out (c : cmd) : bool := match c with COut _ _ => true | _ => false end.

(* ---- clauses that hold WITHOUT any excuse (also on the histories of the recorded findings) *)

(* "then to the focused widget".  The widget that holds the focus is the one that received
   the last FocusIn delivery ([focus_after f d]: the focus after the entries [d] when [f] had
   it before).  The target call of a routed event [ev] must go to the widget that holds the
   focus when the target phase starts, i.e. after the deliveries made during the capture
   phase ([key_target]), and the calls are routed capture-target-bubble along the stored
   focus path [pth] with that target. *)
Definition is_focusin_entry (e : entry) : bool :=
  match e_ev e with EFocusIn => phase_eqb (e_ph e) Target | _ => false end.

Definition focus_after (f : wid) (d : list entry) : wid :=
  fold_left (fun f e => if is_focusin_entry e then e_wid e else f) d f.

Definition is_target_of (ev : event) (e : entry) : bool :=
  event_eqb (e_ev e) ev && phase_eqb (e_ph e) Target.

Fixpoint before_target (ev : event) (d : list entry) : list entry :=
  match d with
  | [] => []
  | e :: d' => if is_target_of ev e then [] else e :: before_target ev d'
  end.

Definition key_target (f0 : wid) (ev : event) (d : list entry) : wid :=
  focus_after f0 (before_target ev d).

Definition key_route_obs (capt : wid -> bool) (pth : list wid) (f0 : wid) (ev : event) (d : list entry) : bool :=
  routed_b (S (length d)) ev (route_seq capt pth (key_target f0 ev d)) d.

(* "the deepest widget containing the point being the target".  The routing calls of a
   mouse event ([mouse_rd]: the entries of the step without the enter/leave notifications
   and the focus deliveries those triggered) go capture-target-bubble along the surfaces
   under the pointer ([pointer_all], pre-order), and the target is the deepest widget of
   the topmost chain ([pointer_chain]) even when siblings overlap. *)
Fixpoint drop_focus (l : list entry) : list entry :=
  match l with e :: l' => if focus_entry e then drop_focus l' else l | [] => [] end.

Definition mouse_rd (d : list entry) : list entry :=
  drop_focus (filter (fun e => negb (is_hover_ev (e_ev e))) d).

Definition mouse_route_obs (capt : wid -> bool) (frame : tree) (c r : Z) (d : list entry) : bool :=
  let rd := mouse_rd d in
  match pointer_all frame c r with
  | [] => match rd with [] => true | _ => false end
  | all => routed_b (S (length rd)) (EMouse c r) (route_seq capt all (last (pointer_chain frame c r) 0)) rd
  end.

(* "mouse-enter and mouse-leave alternate for each widget and are all closed when the pointer
   or terminal focus leaves": what an observer expects to be hovered.  He keeps the surface
   tree the mouse handler tests against, the pointer position and the set of widgets under
   the pointer at the last hit test; [redrawn] = a redraw was pending (the frame case of
   App.Run does nothing otherwise). *)
Record hov_st := mkHov { hv_frame : tree; hv_mouse : option (Z * Z); hv_set : list wid }.

Definition hov_at (t : tree) (m : option (Z * Z)) (old : list wid) : list wid :=
  match m with Some (c, r) => pointer_all t c r | None => old end.

Definition hov_track (redrawn : bool) (h : hov_st) (i : input) : hov_st :=
  match i with
  | IMouse c r => mkHov (hv_frame h) (Some (c, r)) (pointer_all (hv_frame h) c r)
  | ITermFocusOut => mkHov (hv_frame h) None []
  | PMouseExit => mkHov (hv_frame h) (hv_mouse h) []
  | PClearMouse => mkHov (hv_frame h) None (hv_set h)
  | PUpdate t => mkHov (hv_frame h) (hv_mouse h) (hov_at t (hv_mouse h) (hv_set h))
  | IFrame t =>
      if redrawn then mkHov (sort_tree t) (hv_mouse h) (hov_at t (hv_mouse h) (hv_set h)) else h
  | IStart t | PSetLast t => mkHov t (hv_mouse h) (hv_set h)
  | PRender t => mkHov (sort_tree t) (hv_mouse h) (hv_set h)
  | _ => h
  end.

Definition widgets_of (l : list entry) : list wid := nodup Z.eq_dec (map e_wid l).

(* every widget ever called, and every widget expected to be hovered, has alternating
   notifications that end with MouseEnter exactly when it is in the expected set *)
Definition hover_obs (excused : wid -> bool) (lg : list entry) (hov : list wid) : bool :=
  forallb (fun w =>
             option_eqb Bool.eqb (hover_state false (hover_log w lg)) (Some (existsb (Z.eqb w) hov))
             || excused w)
          (widgets_of lg ++ hov).

(* ---------------------------------------------------------------- correspondence: cases *)

Definition call3_eqb (a b : call3) : bool :=
  (fst (fst a) =? fst (fst b)) && event_eqb (snd (fst a)) (snd (fst b)) && phase_eqb (snd a) (snd b).

Record snap := mkSnap {
  sn_focused : wid; sn_path : list wid; sn_hits : list hit; sn_mouse : bool;
  sn_redraw : bool; sn_refresh : bool; sn_quit : bool; sn_consume : bool; sn_debug : bool
}.

Definition snap_eqb (a b : snap) : bool :=
  (sn_focused a =? sn_focused b) && zlist_eqb (sn_path a) (sn_path b) &&
  list_eqb hit_eqb (sn_hits a) (sn_hits b) && Bool.eqb (sn_mouse a) (sn_mouse b) &&
  Bool.eqb (sn_redraw a) (sn_redraw b) && Bool.eqb (sn_refresh a) (sn_refresh b) &&
  Bool.eqb (sn_quit a) (sn_quit b) && Bool.eqb (sn_consume a) (sn_consume b) &&
  Bool.eqb (sn_debug a) (sn_debug b).

Definition snap_of (s : st) : snap :=
  mkSnap (focused (co s)) (path s) (last_hits s) (match mouse s with Some _ => true | None => false end)
         (f_redraw (co s)) (f_refresh (co s)) (f_quit (co s)) (f_consume (co s)) (f_debug (co s)).

(* what was seen after one input: the calls, the terminal commands written, the state *)
Definition obs := (list call3 * list cmd * snap)%type.

(* direct stream: capturers, root, initially focused widget, initial path, script (the k-th
   handler call of the history returns the k-th command), inputs with observations *)
Definition dcase := (list wid * wid * wid * list wid * list cmd * list (input * obs))%type.

Definition script_oracle (script : list cmd) : list entry -> wid -> event -> phase -> cmd :=
  fun lg _ _ _ => nth (length lg) script CNone.
Definition capt_of (l : list wid) : wid -> bool := fun w => existsb (Z.eqb w) l.

(* nesting depth of a command: how much fuel its own structure needs beyond one unit *)
Fixpoint cdepth (c : cmd) : nat :=
  match c with
  | CBatch _ l => S (fold_right (fun x m => Nat.max (cdepth x) m) O l)
  | CFocus _ => 1
  | _ => 0
  end.

(* fuel the rest of the script can consume from call number k on *)
Definition tail_cost (script : list cmd) (k : nat) : nat :=
  list_sum (map (fun x => S (cdepth x)) (skipn k script)).

Definition input_depth (i : input) : nat := match i with PCmd c => cdepth c | _ => O end.

(* enough for every finite script (proofs/RouteProofs.v: model_fuel_run, model_fuel_step) *)
Definition model_fuel (script : list cmd) : nat := S (tail_cost script 0).

Definition entry_call (e : entry) : call3 := (e_wid e, e_ev e, e_ph e).

Definition d_init (rt f : wid) (p : list wid) : st :=
  mkSt (init_core f) rt p (Node (-1) 0 0 []) [] None.

Fixpoint d_replay (script : list cmd) (capt : wid -> bool) (s : st) (l : list (input * obs)) : bool :=
  match l with
  | [] => true
  | (i, (oc, oo, os)) :: l' =>
      match step (script_oracle script) capt (model_fuel script + input_depth i) s i with
      | None => false
      | Some s' =>
          let d := skipn (length (log (co s))) (log (co s')) in
          let o := filter is_out (skipn (length (effs (co s))) (effs (co s'))) in
          list_eqb call3_eqb (map entry_call d) oc && list_eqb cmd_eqb o oo && snap_eqb (snap_of s') os &&
          d_replay script capt s' l'
      end
  end.

Definition d_case_ok (c : dcase) : bool :=
  match c with
  | (capts, rt, f0, p0, script, steps) => d_replay script (capt_of capts) (d_init rt f0 p0) steps
  end.

Definition c15_direct_mismatches (cases : list dcase) : list Z := bad_indices (fun c => negb (d_case_ok c)) cases.

(* ---- the property evaluated on the observation alone.  The checker keeps what an observer
   knows: the surface tree last given to updatePath, the tree the mouse handler tests
   against, all entries so far, the previous state snapshot. *)
Record spec_st := mkSpec {
  sp_tree : option tree;     (* last tree passed to updatePath *)
  sp_hv : hov_st;            (* mouse handler's frame, pointer, widgets expected to be hovered *)
  sp_log : list entry;
  sp_pre : snap;
  sp_moved : bool;           (* a focus delivery happened since the last updatePath *)
  sp_termfocus : bool;       (* a terminal FocusIn was seen *)
  sp_dup : bool              (* some frame had a widget on two surfaces *)
}.
Definition sp_frame (sp : spec_st) : tree := hv_frame (sp_hv sp).

(* attach to each observed call the command it returned: the k-th call gets script[k] *)
Fixpoint attach (script : list cmd) (k : nat) (l : list call3) : list entry :=
  match l with
  | [] => []
  | (w, ev, ph) :: l' => (w, ev, ph, nth k script CNone) :: attach script (S k) l'
  end.

Definition focus_in_focusout (d : list entry) : bool :=
  existsb (fun e => event_eqb (e_ev e) EFocusOut && existsb is_focus_cmd (leaves (e_ret e))) d.

(* strict = true: no finding class is excused.  The clauses [key_route_obs], [mouse_route_obs],
   the [focus_after] equation and [hover_obs] for widgets outside the two hover findings are
   never excused. *)
Definition check_step (strict : bool) (capt : wid -> bool) (rt : wid) (sp : spec_st) (hov : list wid) (i : input)
    (d : list entry) (outs : list cmd) (post : snap) : bool :=
  let pre := sp_pre sp in
  let lg := sp_log sp ++ d in
  let guard (b : bool) := negb strict && b in
  let routed_ev :=
    match i with
    | IEv e => if is_focus_ev e then None else Some e
    | IStart _ => Some EInit
    | _ => None
    end in
  (* routing order *)
  let route_ok :=
    match routed_ev with
    | Some e => key_route_obs capt (sn_path pre) (sn_focused pre) e d
    | None => true
    end &&
    match i with
    | IEv e =>
        match sp_tree sp with
        | None => true
        | Some t =>
            match focus_chain_ws rt t (sn_focused pre) with
            | None => true
            | Some ws =>
                routed_b (S (length d)) e (route_seq capt ws (sn_focused pre)) d
                || guard (sp_moved sp || existsb focus_entry d)
            end
        end
    | IMouse c r =>
        mouse_route_obs capt (sp_frame sp) c r d &&
        (let ws := pointer_chain (sp_frame sp) c r in
         let rd := mouse_rd d in
         match ws with
         | [] => match rd with [] => true | _ => false end
         | _ => routed_b (S (length rd)) (EMouse c r) (route_seq capt ws (last ws 0)) rd
         end
         || guard (negb (Nat.eqb (length (pointer_all (sp_frame sp) c r)) (length ws))))
    | _ => true
    end in
  (* focus changes *)
  let focus_ok :=
    (match i with IEv e => is_focus_ev e | _ => false end
     || (sn_focused post =? focus_after (sn_focused pre) d)) &&
    (option_eqb Z.eqb (focus_chain (sn_focused pre) (focus_log d)) (Some (sn_focused post))
     || guard (focus_in_focusout d)) in
  (* hover: [hov] = the widgets under the pointer at the last hit test (after this step) *)
  let hover_ok :=
    hover_obs (fun w => guard (sp_dup sp || (sp_termfocus sp && (w =? rt)))) lg hov in
  (* commands *)
  let ls := rets d ++ match i with PCmd c => leaves c | _ => [] end in
  let mono (f : snap -> bool) (p : cmd -> bool) := Bool.eqb (f post) (f pre || existsb p ls) in
  let cmds_ok :=
    same_bag outs (filter is_out ls) &&
    match i with
    | IFrame _ | IStart _ => true
    | IRedrawReq => sn_redraw post
    | _ => mono sn_redraw is_redraw && mono sn_refresh is_refresh && mono sn_quit is_quit && mono sn_debug is_debug
    end in
  route_ok && focus_ok && hover_ok && cmds_ok.

Definition tree_of_input (i : input) : option tree :=
  match i with
  | IFrame t | IStart t | PUpdate t | PUpdatePath t | PSetLast t | PRender t => Some t
  | _ => None
  end.

Definition spec_next (sp : spec_st) (i : input) (d : list entry) (post : snap) : spec_st :=
  let moved := sp_moved sp || existsb focus_entry d in
  let redrawn := sn_redraw (sp_pre sp) in
  (* updatePath refocuses the root when the focused widget has left the tree: one FocusOut,
     one FocusIn; any further delivery means that a handler moved the focus again *)
  let again (t : tree) :=
    Nat.ltb 2 (length (filter focus_entry d)) ||
    (* ... and the path [root] it then stores is the chain only if the root surface is the
       root widget's own (or the root widget is not drawn at all) *)
    (existsb focus_entry d && negb (t_wid t =? sn_focused post) && existsb (Z.eqb (sn_focused post)) (ids t)) in
  let tr :=
    match i with
    | PUpdatePath t => (Some t, again t)
    | PRender t => (Some (sort_tree t), again t)
    | IFrame t => if redrawn then (Some (sort_tree t), again t) else (sp_tree sp, moved)
    | _ => (sp_tree sp, moved)
    end in
  mkSpec (fst tr) (hov_track redrawn (sp_hv sp) i) (sp_log sp ++ d) post
         (snd tr)
         (sp_termfocus sp || match i with ITermFocusIn => true | _ => false end)
         (sp_dup sp || match tree_of_input i with Some t => negb (nodup_z (ids t)) | None => false end).

Fixpoint d_check (strict : bool) (script : list cmd) (capt : wid -> bool) (rt : wid) (sp : spec_st)
    (l : list (input * obs)) : bool :=
  match l with
  | [] => true
  | (i, (oc, oo, os)) :: l' =>
      let d := attach script (length (sp_log sp)) oc in
      (* the frame's tree counts for the duplicate-widget guard from this step on *)
      let sp0 := mkSpec (sp_tree sp) (sp_hv sp) (sp_log sp) (sp_pre sp) (sp_moved sp)
                        (sp_termfocus sp || match i with ITermFocusIn => true | _ => false end)
                        (sp_dup sp || match tree_of_input i with Some t => negb (nodup_z (ids t)) | None => false end) in
      let sp' := spec_next sp i d os in
      check_step strict capt rt sp0 (hv_set (sp_hv sp')) i d oo os && d_check strict script capt rt sp' l'
  end.

Definition d_spec_init (rt f0 : wid) (p0 : list wid) : spec_st :=
  mkSpec None (mkHov (Node (-1) 0 0 []) None []) [] (snap_of (d_init rt f0 p0)) false false false.

Definition d_case_holds (strict : bool) (c : dcase) : bool :=
  match c with
  | (capts, rt, f0, p0, script, steps) => d_check strict script (capt_of capts) rt (d_spec_init rt f0 p0) steps
  end.

Definition c15_direct_violations (cases : list dcase) : list Z := bad_indices (fun c => negb (d_case_holds false c)) cases.
(* finding streams: the property without any excuse, and every case counts as "under the guard" *)
Definition c15_direct_strict_violations (cases : list dcase) : list Z := bad_indices (fun c => negb (d_case_holds true c)) cases.
Definition c15_direct_all (cases : list dcase) : list Z := bad_indices (fun _ => true) cases.

(* ---- app stream: capturers, root, script, inputs, the whole call log, the terminal commands,
   whether App.Run returned before the last input was queued *)
Definition acase := (list wid * wid * list cmd * list input * list call3 * list cmd * bool)%type.

Definition a_case_ok (c : acase) : bool :=
  match c with
  | (capts, rt, script, ins, oc, oo, _) =>
      match run (script_oracle script) (capt_of capts) (model_fuel script) (init_st rt) ins with
      | None => false
      | Some s => list_eqb call3_eqb (map entry_call (log (co s))) oc &&
                  list_eqb cmd_eqb (filter is_out (effs (co s))) oo
      end
  end.

Definition c15_app_mismatches (cases : list acase) : list Z := bad_indices (fun c => negb (a_case_ok c)) cases.

(* the history ends with the terminal focus gone and the pointer not seen since *)
Definition ends_unfocused (ins : list input) : bool :=
  fold_left (fun acc i => match i with
                          | ITermFocusOut => true
                          | IMouse _ _ | ITermFocusIn => false
                          | _ => acc
                          end) ins false.

(* the history-level clauses of the property on the observed log *)
Definition a_case_holds (strict : bool) (c : acase) : bool :=
  match c with
  | (capts, rt, script, ins, oc, oo, early) =>
      let lg := attach script 0 oc in
      let guard (b : bool) := negb strict && b in
      let termfocus := existsb (fun i => match i with ITermFocusIn => true | _ => false end) ins in
      let dup := existsb (fun i => match tree_of_input i with Some t => negb (nodup_z (ids t)) | None => false end) ins in
      let closing := negb early && ends_unfocused ins in
      (match focus_chain rt (focus_log lg) with Some _ => true | None => false end || guard (focus_in_focusout lg)) &&
      forallb (fun w => match hover_state false (hover_log w lg) with Some b => negb (closing && b) | None => false end
                        || guard (dup || (termfocus && (w =? rt)))) (widgets_of lg) &&
      same_bag oo (filter is_out (rets lg))
  end.

Definition c15_app_violations (cases : list acase) : list Z := bad_indices (fun c => negb (a_case_holds false c)) cases.
Definition c15_app_strict_violations (cases : list acase) : list Z := bad_indices (fun c => negb (a_case_holds true c)) cases.
Definition c15_app_all (cases : list acase) : list Z := bad_indices (fun _ => true) cases.

(* ================================================================ frames that are laid out twice

   The frame case of App.Run lays the root widget out, calls mh.update on that layout and, when
   an enter/leave handler called from there asked for a redraw, lays the root out a SECOND time;
   the second layout is rendered, given to updatePath and stored as lastFrame, the first one is
   thrown away (the hit list stays the one of the first layout).  A widget tree may change
   between the two layouts (the hover handler changed the application's state):
   [FFrame2 t1 t2] is a tick in which the root draws t1 at the first and t2 at the second
   layout.  [frame2 .. t t] is [frame .. t]. *)
Inductive finput :=
| FI (i : input)
| FFrame2 (t1 t2 : tree).

Section Oracle2.

Variable oracle : list entry -> wid -> event -> phase -> cmd.
Variable capturer : wid -> bool.

Definition frame2 (fuel : nat) (s : st) (t1 t2 : tree) : option st :=
  if negb (f_redraw (co s)) then Some s
  else
    let s0 := with_co s (set_redraw (co s) false) in
    obind (mouse_update oracle fuel s0 t1)
      (fun s1 =>
         let t := if f_redraw (co s1) then t2 else t1 in
         let s2 := with_co s1 (set_debug (set_refresh (set_redraw (co s1) false) false) false) in
         let t' := sort_tree t in
         obind (update_path oracle fuel s2 t') (fun s3 => Some (with_frame s3 t'))).

(* how often the root widget is laid out in the tick: 0 (no redraw pending), 1 or 2 *)
Definition layouts (fuel : nat) (s : st) (t1 : tree) : option Z :=
  if negb (f_redraw (co s)) then Some 0
  else obind (mouse_update oracle fuel (with_co s (set_redraw (co s) false)) t1)
         (fun s1 => Some (if f_redraw (co s1) then 2 else 1)).

Definition fstep (fuel : nat) (s : st) (i : finput) : option st :=
  match i with
  | FI i => step oracle capturer fuel s i
  | FFrame2 t1 t2 => frame2 fuel s t1 t2
  end.

Definition f_is_tick (i : finput) : bool := match i with FI i => is_tick i | FFrame2 _ _ => true end.

(* a history of App.Run with such ticks (returns as soon as shouldQuit is set after an event) *)
Fixpoint frun (fuel : nat) (s : st) (l : list finput) : option st :=
  match l with
  | [] => Some s
  | i :: l' =>
      obind (fstep fuel s i)
        (fun s' => if negb (f_is_tick i) && f_quit (co s') then Some s' else frun fuel s' l')
  end.

End Oracle2.

(* frames stream (real App.Run): per input the calls seen and the number of layouts of a tick *)
Definition fobs := (list call3 * Z)%type.
Definition fcase := (list wid * wid * list cmd * list (finput * fobs))%type.

Definition no_calls (l : list (finput * fobs)) : bool :=
  forallb (fun x => match fst (snd x) with [] => true | _ => false end) l.

Fixpoint f_replay (script : list cmd) (capt : wid -> bool) (s : st) (l : list (finput * fobs)) : bool :=
  match l with
  | [] => true
  | (i, (oc, lay)) :: l' =>
      match fstep (script_oracle script) capt (model_fuel script) s i with
      | None => false
      | Some s' =>
          let d := skipn (length (log (co s))) (log (co s')) in
          list_eqb call3_eqb (map entry_call d) oc &&
          match i with
          | FFrame2 t1 _ | FI (IFrame t1) =>
              option_eqb Z.eqb (layouts (script_oracle script) (model_fuel script) s t1) (Some lay)
          | _ => lay =? 0
          end &&
          (* App.Run returns when shouldQuit is set after an event *)
          (if negb (f_is_tick i) && f_quit (co s') then no_calls l' else f_replay script capt s' l')
      end
  end.

Definition f_case_ok (c : fcase) : bool :=
  match c with
  | (capts, rt, script, steps) => f_replay script (capt_of capts) (init_st rt) steps
  end.

Definition c15_frames_mismatches (cases : list fcase) : list Z := bad_indices (fun c => negb (f_case_ok c)) cases.

(* ---- the property on the observation of a frames history.  The observer knows the inputs, the
   calls and how often the root was laid out in each tick.  He keeps: the surface tree that was
   SHOWN last (rendered; None before the first tick), the hover tracker, the log, the holder of
   the focus (receiver of the last FocusIn) and whether a focus delivery happened since the
   path was last recomputed, the tick's own deliveries included (guard of the recorded finding
   stale-path). *)
Record fspec := mkF {
  fs_shown : option tree; fs_hv : hov_st; fs_log : list entry; fs_foc : wid; fs_moved : bool; fs_quit : bool
}.

(* the chain from the App's root to the focused widget in the tree on screen *)
Definition fs_path (rt : wid) (sp : fspec) : option (list wid) :=
  match fs_shown sp with
  | None => if fs_foc sp =? rt then Some [rt] else None
  | Some t => focus_chain_ws rt t (fs_foc sp)
  end.

Definition shown_tree (lay : Z) (t1 t2 : tree) : tree := sort_tree (if lay =? 2 then t2 else t1).

Definition f_hov (h : hov_st) (i : finput) (lay : Z) : hov_st :=
  match i with
  | FI i => hov_track (negb (lay =? 0)) h i
  | FFrame2 t1 t2 =>
      if lay =? 0 then h
      else mkHov (shown_tree lay t1 t2) (hv_mouse h) (hov_at t1 (hv_mouse h) (hv_set h))
  end.

Definition f_step_ok (capt : wid -> bool) (rt : wid) (sp : fspec) (i : finput) (d : list entry) (lay : Z) : bool :=
  let f0 := fs_foc sp in
  let hv' := f_hov (fs_hv sp) i lay in
  (* a key is offered capture-target-bubble along the chain of the focused widget in the
     tree ON SCREEN *)
  let key_ok (e : event) :=
    match fs_path rt sp with
    | Some ws => key_route_obs capt ws f0 e d
    | None => false
    end || fs_moved sp in
  let route_ok :=
    match i with
    | FI (IEv e) => is_focus_ev e || key_ok e
    | FI (IStart _) => key_ok EInit
    | FI (IMouse c r) => mouse_route_obs capt (hv_frame (fs_hv sp)) c r d
    | _ => true
    end in
  let focus_ok := match focus_chain f0 (focus_log d) with Some _ => true | None => false end in
  let hover_ok := hover_obs (fun _ => false) (fs_log sp ++ d) (hv_set hv') in
  let lay_ok :=
    match i with
    | FFrame2 _ _ =>
        (0 <=? lay) && (lay <=? 2) && (negb (lay =? 0) || match d with [] => true | _ => false end)
    | _ => true
    end in
  route_ok && focus_ok && hover_ok && lay_ok.

Definition f_next (sp : fspec) (i : finput) (d : list entry) (lay : Z) : fspec :=
  let fe := existsb focus_entry d in
  let keep := (fs_shown sp, fs_moved sp || fe) in
  let sm :=
    match i with
    | FFrame2 t1 t2 => if lay =? 0 then keep else (Some (shown_tree lay t1 t2), fe)
    | FI (IFrame t) => if lay =? 0 then keep else (Some (sort_tree t), fe)
    | _ => keep
    end in
  mkF (fst sm) (f_hov (fs_hv sp) i lay) (fs_log sp ++ d) (focus_after (fs_foc sp) d) (snd sm)
      (fs_quit sp || existsb is_quit (rets d)).

Fixpoint f_check (script : list cmd) (capt : wid -> bool) (rt : wid) (sp : fspec) (l : list (finput * fobs)) : bool :=
  match l with
  | [] => true
  | (i, (oc, lay)) :: l' =>
      let d := attach script (length (fs_log sp)) oc in
      let sp' := f_next sp i d lay in
      f_step_ok capt rt sp i d lay &&
      (* a QuitCmd was returned: App.Run returns after this event, nothing is called any more *)
      (if negb (f_is_tick i) && fs_quit sp' then no_calls l' else f_check script capt rt sp' l')
  end.

Definition f_spec_init (rt : wid) : fspec := mkF None (mkHov (Node rt 0 0 []) None []) [] rt false false.

Definition f_case_holds (c : fcase) : bool :=
  match c with
  | (capts, rt, script, steps) => f_check script (capt_of capts) rt (f_spec_init rt) steps
  end.

Definition c15_frames_violations (cases : list fcase) : list Z := bad_indices (fun c => negb (f_case_holds c)) cases.
