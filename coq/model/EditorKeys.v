(* C17 — what the two line editors do with the MODIFIER MASK of a key event.

   The operation alphabets of model/Editors.v are abstract (a key is "the bound key k" or
   "any other key press, chord or not, with its Text").  This file models the step in front
   of them for the bits of vaxis.ModifierMask (values of the kitty keyboard protocol):
   which event of the alphabet a key press with mask m stands for.

   widgets/textinput Update, default branch: a key is a chord (its Text is not typed) iff
   Ctrl, Alt or Super is held.  Shift, Hyper, Meta and the two lock bits (reported by the
   kitty protocol while Caps Lock / Num Lock is on) do not make a chord.
   Update dispatches on Key.String(): it ignores Num Lock; under Caps Lock it upper-cases
   the key code, so the name of a Ctrl/Alt+letter binding ("Ctrl+a") is not produced
   ("Ctrl+A"): such a key falls to the default branch as a chord.  Named keys keep their name.

   vxfw TextField HandleEvent: a key press with non-empty Text is typed whatever the mask;
   bindings are tested with Key.Matches, which strips both lock bits. *)
From Vx Require Import base.Prelude model.Editors.
Local Open Scope Z_scope.

Definition ModShift : Z := 1.
Definition ModAlt : Z := 2.
Definition ModCtrl : Z := 4.
Definition ModSuper : Z := 8.
Definition ModHyper : Z := 16.
Definition ModMeta : Z := 32.
Definition ModCapsLock : Z := 64.
Definition ModNumLock : Z := 128.

Definition chord_bits : Z := ModAlt + ModCtrl + ModSuper.

(* textinput: is a key press with mask m refused as a chord by the default branch? *)
Definition ti_mods_block (m : Z) : bool := negb (Z.land m chord_bits =? 0).

(* textinput: a key press that is not a bound name, mask m, Text s *)
Definition ti_typed (m : Z) (s : text) : ti_ev := EDefault (ti_mods_block m) s.

Definition retitle_bits : Z := ModShift + ModHyper + ModMeta.

(* textinput: the press of the key bound to k.  own = the modifiers of the binding itself
   (Ctrl for "Ctrl+a" and "Ctrl+Right", 0 for "Home"), letter = the binding is Ctrl/Alt + a
   letter rather than a named key, m = further bits set on the event (not Ctrl/Alt/Super).
   Shift, Hyper or Meta change the name String() gives the key, Caps Lock changes the name
   of a letter binding, Num Lock changes nothing; a key without a bound name and without
   Text does nothing. *)
Definition ti_bound (own m : Z) (letter : bool) (k : ti_key) : ti_ev :=
  if negb (Z.land m retitle_bits =? 0) || (Z.testbit m 6 && letter)
  then EDefault (ti_mods_block (Z.lor own m)) []
  else EKey k.

(* TextField: a key press with Text s is typed whatever its mask m *)
Definition tf_typed (m : Z) (s : text) : tf_op := TText s.

(* TextField: the key bound to k with further bits m (not Ctrl/Alt/Super) on the event:
   Key.Matches strips the lock bits and wants the rest of the mask exact *)
Definition tf_bound (m : Z) (k : tf_key) : tf_op :=
  if Z.land m retitle_bits =? 0 then TKey k else TIgnored.
