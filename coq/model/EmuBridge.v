(* C12 - the bridge between the renderer's vocabulary / reference terminal (RenderTypes.v,
   RefTerm.v, EmuSpec.v) and the model of the embedded terminal emulator (Term.v): how each
   token reaches the emulator, and what "the emulator holds what the reference terminal
   shows" means.  Definitions only; proofs are in proofs/EmuRefine.v.

   The two developments use the same short names (style, cell, term, set_pen ...); the
   renderer side is imported, the emulator side is referred to through the module
   abbreviations S (Sgr.v) and T (Term.v). *)
From Vx Require Import base.Prelude base.ListX model.Colour model.RenderTypes model.Render model.RefTerm
  model.RenderSpec model.RenderCheck model.Gate model.EmuSpec.
From Vx Require model.Sgr model.Term.

Module S := Vx.model.Sgr.
Module T := Vx.model.Term.

(* ------------------------------------------------------------------ tokens as delivered sequences *)

(* CSI m with one plain parameter *)
Definition sgr1 (n : Z) : T.titem := T.TCsi [] [[n]] 109.

(* a colour of at most one parameter, as vaxis.go render writes it:
   CSI 39 m | CSI 3n m | CSI 9(n-8) m | CSI 38:5:n m  (48 / 4n / 10(n-8) for the background) *)
Definition enc_colour (base bright ext rst : Z) (ps : list Z) : list T.titem :=
  match ps with
  | [] => [sgr1 rst]
  | [n] => if n <? 8 then [sgr1 (base + n)]
           else if n <? 16 then [sgr1 (bright + (n - 8))]
           else [T.TCsi [] [[ext; 5; n]] 109]
  | _ => []          (* direct colour: not written under term_caps *)
  end.

(* what the emulator's parser delivers for one token written under term_caps; [tw] is the
   width the parser (uniseg) reports for a grapheme written raw *)
Definition enc_tok (tw : list Z -> Z) (k : tok) : list T.titem :=
  match k with
  | KCup row col => [T.TCsi [] [[row]; [col]] 72]                      (* CSI row ; col H *)
  | KSgrReset => [T.TCsi [] [] 109]                                     (* CSI m *)
  | KFg ps => enc_colour 30 90 38 39 ps
  | KBg ps => enc_colour 40 100 48 49 ps
  | KSgr n => [sgr1 n]
  | KLink params url => [T.TOsc ([56; 59] ++ params ++ [59] ++ url)]    (* OSC 8 ; params ; url *)
  | KText g => [T.TPrint g (tw g)]
  | KSpace => [T.TPrint [32] 1]
  | KShowCursor => [T.TCsi [63] [[25]] 104]                             (* CSI ? 25 h *)
  | KHideCursor => [T.TCsi [63] [[25]] 108]
  | KCursorStyle n => [T.TCsi [32] [[n]] 113]                           (* CSI n SP q *)
  | KMouseShape s => [T.TOsc ([50; 50; 59] ++ s)]                       (* OSC 22 ; shape: ignored *)
  | KUl _ | KUlStyle _ | KTextW _ _ | KSyncOn | KSyncOff => []          (* not in Gate.allowed term_caps *)
  end.

(* feeding a list of delivered sequences (none of them raises an event) *)
Fixpoint emu_feed (t : T.term) (its : list T.titem) : T.tres T.term :=
  match its with
  | [] => T.TOk t
  | it :: rest => T.tbind (T.update t it) (fun t' => emu_feed t' rest)
  end.

Definition emu_toks (tw : list Z -> Z) (t : T.term) (ks : list tok) : T.tres T.term :=
  emu_feed t (flat_map (enc_tok tw) ks).

(* what has to be true of a token for [enc_tok] to be what the parser delivers and for the
   emulator's 16-bit parameters not to matter: numbers are written with digits only and fit a
   machine integer, palette indices are bytes, hyperlink parameters contain no ';' *)
Definition small (n : Z) : bool := (0 <=? n) && (n <? 9223372036854775808).
Definition colour_ok (ps : list Z) : bool :=
  match ps with [] => true | [n] => (0 <=? n) && (n <=? 255) | _ => false end.
Definition tok_ok (k : tok) : bool :=
  match k with
  | KCup row col => small row && small col
  | KFg ps | KBg ps => colour_ok ps
  | KLink params _ => negb (existsb (Z.eqb 59) params)
  | KCursorStyle n => (0 <=? n) && (n <=? 65535)
  | _ => true
  end.

(* text is only constrained where the reference terminal is: a glyph of positive width that
   fits before the right edge (otherwise RefTerm poisons the row and the emulator wraps,
   possibly scrolling - terminal-specific on both sides) *)
Definition fits (tw : list Z -> Z) (r : term) (k : tok) : Prop :=
  match k with
  | KText g => 1 <= tw g /\ tm_col r + tw g <= tm_cols r
  | KSpace => tm_col r + 1 <= tm_cols r
  | _ => True
  end.

Definition step_ok (tw : list Z -> Z) (r : term) (k : tok) : Prop :=
  allowed term_caps k = true /\ tok_ok k = true /\ fits tw r k.

Fixpoint toks_ok (tw : list Z -> Z) (r : term) (ks : list tok) : Prop :=
  match ks with
  | [] => True
  | k :: rest => step_ok tw r k /\ toks_ok tw (interp1 tw r k) rest
  end.

(* ------------------------------------------------------------------ the relation *)

(* the emulator's style as the vaxis.Style the hook observes *)
Definition to_rstyle (s : S.style) : style :=
  {| s_fg := S.fg (S.spen s); s_bg := S.bg (S.spen s); s_ul := S.ul (S.spen s);
     s_uls := S.uls (S.spen s); s_attr := S.attr (S.spen s);
     s_link := S.link s; s_linkp := S.linkp s |}.

(* one emulator cell as the check of EmuSpec.v sees it *)
Definition ecell_of (c : T.tcell) : ecell := (T.c_g c, T.c_w c, to_rstyle (T.c_st c)).
Definition grid_of (t : T.term) : list (list ecell) := map (map ecell_of) (T.active t).
Definition ecursor_of (t : T.term) : ecursor :=
  (T.t_row t, T.t_col t, T.m_tcem (T.t_md t), T.t_shape t).

(* the pen: what the emulator's current style shows is the reference terminal's pen and open
   hyperlink; attribute masks are bytes *)
Definition pen_shows (p : S.style) (tp : tpen) (tl : tlink) : Prop :=
  shown cp_full (to_rstyle p) = tp /\ shown_link (to_rstyle p) = tl /\ 0 <= S.attr (S.spen p) < 256.

(* a cell against a screen position of the reference terminal: the head of a glyph must be
   shown; positions under a wide glyph and poisoned positions are not constrained *)
Definition cell_rel (d : disp) (c : T.tcell) : Prop :=
  match d with
  | DCell _ _ off _ _ => off = 0 -> ecell_shows d (ecell_of c) = true
  | DPoison => True
  end.

Definition gget (g : T.grid) (row col : Z) : option T.tcell :=
  match zget g row with Some line => zget line col | None => None end.

Record emu_rel (t : T.term) (r : term) : Prop := mkEmuRel {
  er_rows : T.height t = tm_rows r;
  er_cols : T.width t = tm_cols r;
  er_grid : forall row col c, gget (T.active t) row col = Some c -> cell_rel (tm_grid r row col) c;
  er_row : T.t_row t = tm_row r;
  (* the reference terminal's pending-wrap position is the emulator's deferred-wrap flag on
     the last column *)
  er_col : (tm_col r < tm_cols r /\ T.t_col t = tm_col r /\ T.t_last t = false) \/
           (tm_col r = tm_cols r /\ T.t_col t = tm_cols r - 1 /\ T.t_last t = true);
  er_pen : pen_shows (T.t_pen t) (tm_pen r) (tm_link r);
  er_vis : T.m_tcem (T.t_md t) = tm_vis r;
  er_shape : T.t_shape t = tm_shape r
}.

(* the modes as Vaxis leaves them: autowrap on, insert mode off, no character set shift,
   scrolling region = the whole screen *)
Definition vaxis_modes (t : T.term) : bool :=
  T.m_awm (T.t_md t) && negb (T.m_irm (T.t_md t)) && negb (T.cs_ss (T.t_cs t)) &&
  (T.des_of (T.t_cs t) =? 0) && (T.t_top t =? 0) && (T.t_bot t =? T.height t - 1).

(* ------------------------------------------------------------------ a size change *)

(* The host resizes the emulator with T.resize (term.go resize): both screens are reallocated
   and the old PRIMARY screen is re-printed up to the cursor row, each cell with its own
   style; the pen is saved and restored (fix 63dc3f8), so everything emu_rel asks for survives
   (proofs/EmuResize.v).  Before the fix resize left the style of the last re-printed cell in
   the pen: [resize_leaky] is that resize, [resize_pen] the style it left, computed the way
   resize walks the old screen. *)
Definition resize_leaky (t : T.term) (w h : Z) : T.tres T.term :=
  let old := T.t_prim t in
  T.tbind (T.make_grid w h) (fun g =>
  let last := T.t_row t in
  let t := T.set_grids t g g false in
  let t := T.set_margins t 0 (h - 1) (T.t_left t) (w - 1) in
  let t := T.set_cursor t 0 0 in
  let t := T.set_last t false in
  let n0 := match old with [] => 0 | l :: _ => zlen l end in
  T.tbind (T.reprint_rows n0 old 0 last t) (fun t => T.TOk (T.set_onalt t (T.m_smcup (T.t_md t))))).

Definition last_style (cells : list T.tcell) (p : S.style) : S.style :=
  fold_left (fun _ c => T.c_st c) cells p.

Fixpoint resize_pen_rows (n0 : Z) (rows : list T.trow) (r last : Z) (p : S.style) : S.style :=
  match rows with
  | [] => p
  | line :: rest =>
      if r =? last then p
      else resize_pen_rows n0 rest (r + 1) last (last_style (firstn (Z.to_nat n0) line) p)
  end.

Definition resize_pen (t : T.term) : S.style :=
  let old := T.t_prim t in
  resize_pen_rows (match old with [] => 0 | l :: _ => zlen l end) old 0 (T.t_row t) (T.t_pen t).

Definition pen_showsb (p : S.style) (tp : tpen) (tl : tlink) : bool :=
  tpen_eqb (shown cp_full (to_rstyle p)) tp && tlink_eqb (shown_link (to_rstyle p)) tl &&
  (0 <=? S.attr (S.spen p)) && (S.attr (S.spen p) <? 256).

(* what the unfixed resize could break, as a decidable predicate on the state before it: the
   pen it left shows what the pen showed *)
Definition resize_pen_ok (t : T.term) : bool :=
  pen_showsb (resize_pen t) (shown cp_full (to_rstyle (T.t_pen t))) (shown_link (to_rstyle (T.t_pen t))).

(* the reference terminal after a size change, as seen from the resized emulator [t2]: the new
   size, nothing known about any cell, the cursor wherever the emulator has it; pen, hyperlink,
   DECTCEM, shape, mode 2026 and pointer shape are what they were (RenderHistory.resized) *)
Definition ref_resized (r : term) (t2 : T.term) : term :=
  {| tm_rows := T.height t2; tm_cols := T.width t2; tm_grid := fun _ _ => DPoison;
     tm_row := T.t_row t2; tm_col := if T.t_last t2 then T.width t2 else T.t_col t2;
     tm_pen := tm_pen r; tm_link := tm_link r; tm_vis := tm_vis r; tm_shape := tm_shape r;
     tm_sync := tm_sync r; tm_mouse := tm_mouse r |}.

(* the situation of a Vaxis application started in a fresh emulator: it runs on the alternate
   screen (mode 1049 set) and the primary screen underneath holds only cells in the default style *)
Definition cell_plainb (c : T.tcell) : bool := pen_showsb (T.c_st c) tpen0 ([], []).
Definition alt_plainb (t : T.term) : bool :=
  T.t_onalt t && T.m_smcup (T.t_md t) && forallb (forallb cell_plainb) (T.t_prim t).

(* what Vaxis' start-up leaves in the emulator besides well-formedness and the modes: the
   default pen, the cursor hidden, the deferred-wrap flag only on the last column *)
Definition start_ok (t : T.term) : bool :=
  pen_showsb (T.t_pen t) tpen0 ([], []) && negb (T.m_tcem (T.t_md t)) &&
  (negb (T.t_last t) || (T.t_col t =? T.width t - 1)).

(* the reference terminal of which nothing is known but what [start_ok] says, as seen from [t] *)
Definition ref_start (t : T.term) : term :=
  ref_resized (set_shape (term_unknown (T.height t) (T.width t)) (T.t_shape t)) t.

(* ------------------------------------------------------------------ decidable forms, for the checks *)

Definition fitsb (tw : list Z -> Z) (r : term) (k : tok) : bool :=
  match k with
  | KText g => (1 <=? tw g) && (tm_col r + tw g <=? tm_cols r)
  | KSpace => tm_col r + 1 <=? tm_cols r
  | _ => true
  end.

Fixpoint toks_okb (tw : list Z -> Z) (r : term) (ks : list tok) : bool :=
  match ks with
  | [] => true
  | k :: rest => allowed term_caps k && tok_ok k && fitsb tw r k && toks_okb tw (interp1 tw r k) rest
  end.

(* the side condition of the simulation theorem, evaluated on every frame of an observed
   history: the reference terminal is run on the model's tokens (which the mismatch check ties
   to what the real Vaxis wrote) from a terminal about which nothing is known *)
Fixpoint side_holds (tw : list Z -> Z) (s : vstate) (r : term) (fs : list eframe) : bool :=
  match fs with
  | [] => true
  | f :: rest =>
      let s1 := fold_left apply_op (ef_ops f) s in
      match ef_end f with
      | FResize rows2 cols2 => side_holds tw (do_resize s1 rows2 cols2) (resize_term r rows2 cols2) rest
      | _ =>
        if grid_ok tw tw term_caps (v_next s1) then
          let '(s', o) := do_frame s (ef_ops f) (ef_end f) in
          toks_okb tw r o && side_holds tw s' (compact (interp tw r o)) rest
        else true
      end
  end.

Definition c12_side_holds (c : ecase) : bool :=
  side_holds (lookup_w (e_widths c)) (vinit term_caps (e_rows c) (e_cols c))
             (term_unknown (e_rows c) (e_cols c)) (e_frames c).

