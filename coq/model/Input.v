(* Model of the input side of vaxis.go: handleSequence (every delivered sequence becomes
   events, hand-offs to waiting callers, or state updates), the input goroutine of openTty,
   the callers that wait for replies (CursorPosition, reportWinsize, Query*, ClipboardPop)
   and the start-up event loop of New.  Executable definitions only.

   The input of [handle] is the [item] type of the parser model (model/Parser.v), so the
   theorems compose with [parse_bytes] over bytes.

   Two things are oracles (arguments of the model): [dec], the key decoder decodeKey of
   key.go (property C09), and [b64], encoding/base64.StdEncoding.DecodeString. *)
From Vx Require Import base.Prelude model.Parser model.Mouse gen.GenInput.

(* ---------- Go strings as code-point lists ---------- *)
Definition rune_ok (r : Z) : bool :=
  (0 <=? r) && (r <=? 1114111) && negb ((55296 <=? r) && (r <=? 57343)).
(* string([]rune): an invalid code point becomes U+FFFD *)
Definition rune_fix (r : Z) : Z := if rune_ok r then r else 65533.
Definition gostring (rs : list Z) : list Z := map rune_fix rs.

Fixpoint prefixb (p s : list Z) : bool :=
  match p, s with
  | [], _ => true
  | x :: p', y :: s' => (x =? y) && prefixb p' s'
  | _ :: _, [] => false
  end.
Definition suffixb (p s : list Z) : bool := prefixb (rev p) (rev s).

(* strings.Split(s, string(c)): at least one field *)
Fixpoint split_on (c : Z) (cur : list Z) (s : list Z) : list (list Z) :=
  match s with
  | [] => [cur]
  | x :: t => if x =? c then cur :: split_on c [] t else split_on c (cur ++ [x]) t
  end.

Definition hex_digit (d : Z) : Z := if d <? 10 then 48 + d else 55 + d.
(* sequences.go hexEncode: fmt.Sprintf("%X", s) *)
Definition hex_encode (bs : list Z) : list Z :=
  flat_map (fun b => [hex_digit (b / 16); hex_digit (b mod 16)]) bs.
Definition hex_Smulx : list Z := hex_encode [83; 109; 117; 108; 120].
Definition hex_RGB : list Z := hex_encode [82; 71; 66].
Definition hex_VTE : list Z := hex_encode [126; 86; 84; 69].

(* ---------- keys (opaque: whatever decodeKey returns) ---------- *)
Record ikey := mkIKey {
  ik_text : list Z; ik_code : Z; ik_shifted : Z; ik_base : Z; ik_mods : Z; ik_event : Z }.
Definition ikey_eqb (a b : ikey) : bool :=
  zlist_eqb (ik_text a) (ik_text b) && (ik_code a =? ik_code b) && (ik_shifted a =? ik_shifted b) &&
  (ik_base a =? ik_base b) && (ik_mods a =? ik_mods b) && (ik_event a =? ik_event b).
(* key.EventType = EventPaste *)
Definition mark_paste (k : ikey) : ikey :=
  mkIKey (ik_text k) (ik_code k) (ik_shifted k) (ik_base k) (ik_mods k) EventPaste.

(* ---------- events (event.go) ---------- *)
Inductive capev :=
  | CSixel | COsc4 | COsc10 | COsc11 | CSync | CUnicode | CKittyKb | CKittyGfx
  | CSmulx | CRgb | CTheme | CPix | CChars | CInband.

Definition capev_code (c : capev) : Z :=
  match c with
  | CSixel => 0 | COsc4 => 1 | COsc10 => 2 | COsc11 => 3 | CSync => 4 | CUnicode => 5
  | CKittyKb => 6 | CKittyGfx => 7 | CSmulx => 8 | CRgb => 9 | CTheme => 10 | CPix => 11
  | CChars => 12 | CInband => 13
  end.

Record size := mkSize { s_cols : Z; s_rows : Z; s_xpix : Z; s_ypix : Z }.
Definition size_eqb (a b : size) : bool :=
  (s_cols a =? s_cols b) && (s_rows a =? s_rows b) && (s_xpix a =? s_xpix b) && (s_ypix a =? s_ypix b).

Inductive event :=
  | EKey (k : ikey)
  | EMouse (m : mouse)
  | EFocusIn | EFocusOut | EPasteStart | EPasteEnd
  | EColorTheme (mode : Z)
  | ERedraw
  | ECap (c : capev)            (* capabilitySixel{} ... inBandResizeEvents{} *)
  | EDA1                        (* primaryDeviceAttribute{} *)
  | EAppID (s : list Z)
  | ETermID (s : list Z)
  | EResize (sz : size)
  | EQuit.

Definition event_eqb (a b : event) : bool :=
  match a, b with
  | EKey x, EKey y => ikey_eqb x y
  | EMouse x, EMouse y => mouse_eqb x y
  | EFocusIn, EFocusIn | EFocusOut, EFocusOut | EPasteStart, EPasteStart | EPasteEnd, EPasteEnd
  | ERedraw, ERedraw | EDA1, EDA1 | EQuit, EQuit => true
  | EColorTheme x, EColorTheme y => x =? y
  | ECap x, ECap y => capev_code x =? capev_code y
  | EAppID x, EAppID y => zlist_eqb x y
  | ETermID x, ETermID y => zlist_eqb x y
  | EResize x, EResize y => size_eqb x y
  | _, _ => false
  end.

(* user input: what the property says must never be lost, duplicated or reordered *)
Definition is_user (e : event) : bool :=
  match e with
  | EKey _ | EMouse _ | EFocusIn | EFocusOut | EPasteStart | EPasteEnd => true
  | _ => false
  end.

(* what leaves handleSequence: an event entering the queue, or a value handed to a caller
   that waits on a reply channel *)
Inductive emit :=
  | Ev (e : event)
  | ToCursor (r c : Z)          (* received by CursorPosition from chCursorPos *)
  | ToClip (s : list Z).        (* received by ClipboardPop from chClipboard *)

Definition emit_eqb (a b : emit) : bool :=
  match a, b with
  | Ev x, Ev y => event_eqb x y
  | ToCursor r c, ToCursor r' c' => (r =? r') && (c =? c')
  | ToClip x, ToClip y => zlist_eqb x y
  | _, _ => false
  end.

Definition events_of (es : list emit) : list event :=
  flat_map (fun e => match e with Ev x => [x] | _ => [] end) es.
Definition user_events (es : list emit) : list event := filter is_user (events_of es).
(* what the waiting callers received *)
Definition cursors_of (es : list emit) : list (Z * Z) :=
  flat_map (fun e => match e with ToCursor r c => [(r, c)] | _ => [] end) es.
Definition clips_of (es : list emit) : list (list Z) :=
  flat_map (fun e => match e with ToClip s => [s] | _ => [] end) es.

(* ---------- state ---------- *)
Record caps := mkCaps {
  c_sync : bool; c_unicode : bool; c_nozwj : bool; c_rgb : bool; c_kgfx : bool; c_kkb : bool;
  c_smulx : bool; c_sixel : bool; c_theme : bool; c_chars : bool; c_pix : bool;
  c_osc4 : bool; c_osc10 : bool; c_osc11 : bool; c_osc176 : bool; c_inband : bool;
  c_explicit : bool }.

Definition caps0 : caps :=
  mkCaps false false false false false false false false false false false false false false false
         false false.

Definition caps_bits (c : caps) : list bool :=
  [c_sync c; c_unicode c; c_nozwj c; c_rgb c; c_kgfx c; c_kkb c; c_smulx c; c_sixel c; c_theme c;
   c_chars c; c_pix c; c_osc4 c; c_osc10 c; c_osc11 c; c_osc176 c; c_inband c; c_explicit c].
Definition caps_eqb (a b : caps) : bool := list_eqb Bool.eqb (caps_bits a) (caps_bits b).

Record vxstate := mkVx {
  paste : bool;                 (* vx.pastePending *)
  req_cursor : bool;            (* vx.reqCursorPos *)
  resize : bool;                (* vx.resize *)
  vcaps : caps;                 (* vx.caps: read by handleSequence, written only by New *)
  next_size : size;             (* vx.nextSize *)
  user_cursor : Z;              (* vx.userCursorStyle *)
  (* buffered reply channels (capacity 1) *)
  size_done : Z;                (* tokens in chSizeDone *)
  ch_color : option (list Z);
  ch_fg : option (list Z);
  ch_bg : option (list Z);
  (* callers waiting on the unbuffered channels *)
  w_cursor : bool;              (* CursorPosition is receiving (or about to receive) on chCursorPos *)
  w_clip : bool;                (* ClipboardPop is receiving on chClipboard *)
  (* the event queue: None = the application keeps reading Events();
     Some n = nobody reads and n slots are free *)
  q_stalled : option Z
}.

Definition size0 : size := mkSize 0 0 0 0.
Definition vx0 : vxstate :=
  mkVx false false false caps0 size0 0 0 None None None false false None.

Definition set_paste (s : vxstate) (b : bool) : vxstate :=
  mkVx b (req_cursor s) (resize s) (vcaps s) (next_size s) (user_cursor s) (size_done s)
       (ch_color s) (ch_fg s) (ch_bg s) (w_cursor s) (w_clip s) (q_stalled s).
Definition set_req (s : vxstate) (b : bool) : vxstate :=
  mkVx (paste s) b (resize s) (vcaps s) (next_size s) (user_cursor s) (size_done s)
       (ch_color s) (ch_fg s) (ch_bg s) (w_cursor s) (w_clip s) (q_stalled s).
Definition set_resize (s : vxstate) (b : bool) : vxstate :=
  mkVx (paste s) (req_cursor s) b (vcaps s) (next_size s) (user_cursor s) (size_done s)
       (ch_color s) (ch_fg s) (ch_bg s) (w_cursor s) (w_clip s) (q_stalled s).
Definition set_caps (s : vxstate) (c : caps) : vxstate :=
  mkVx (paste s) (req_cursor s) (resize s) c (next_size s) (user_cursor s) (size_done s)
       (ch_color s) (ch_fg s) (ch_bg s) (w_cursor s) (w_clip s) (q_stalled s).
Definition set_next_size (s : vxstate) (z : size) : vxstate :=
  mkVx (paste s) (req_cursor s) (resize s) (vcaps s) z (user_cursor s) (size_done s)
       (ch_color s) (ch_fg s) (ch_bg s) (w_cursor s) (w_clip s) (q_stalled s).
Definition set_user_cursor (s : vxstate) (v : Z) : vxstate :=
  mkVx (paste s) (req_cursor s) (resize s) (vcaps s) (next_size s) v (size_done s)
       (ch_color s) (ch_fg s) (ch_bg s) (w_cursor s) (w_clip s) (q_stalled s).
Definition set_size_done (s : vxstate) (v : Z) : vxstate :=
  mkVx (paste s) (req_cursor s) (resize s) (vcaps s) (next_size s) (user_cursor s) v
       (ch_color s) (ch_fg s) (ch_bg s) (w_cursor s) (w_clip s) (q_stalled s).
Definition set_ch_color (s : vxstate) (v : option (list Z)) : vxstate :=
  mkVx (paste s) (req_cursor s) (resize s) (vcaps s) (next_size s) (user_cursor s) (size_done s)
       v (ch_fg s) (ch_bg s) (w_cursor s) (w_clip s) (q_stalled s).
Definition set_ch_fg (s : vxstate) (v : option (list Z)) : vxstate :=
  mkVx (paste s) (req_cursor s) (resize s) (vcaps s) (next_size s) (user_cursor s) (size_done s)
       (ch_color s) v (ch_bg s) (w_cursor s) (w_clip s) (q_stalled s).
Definition set_ch_bg (s : vxstate) (v : option (list Z)) : vxstate :=
  mkVx (paste s) (req_cursor s) (resize s) (vcaps s) (next_size s) (user_cursor s) (size_done s)
       (ch_color s) (ch_fg s) v (w_cursor s) (w_clip s) (q_stalled s).
Definition set_w_cursor (s : vxstate) (b : bool) : vxstate :=
  mkVx (paste s) (req_cursor s) (resize s) (vcaps s) (next_size s) (user_cursor s) (size_done s)
       (ch_color s) (ch_fg s) (ch_bg s) b (w_clip s) (q_stalled s).
Definition set_w_clip (s : vxstate) (b : bool) : vxstate :=
  mkVx (paste s) (req_cursor s) (resize s) (vcaps s) (next_size s) (user_cursor s) (size_done s)
       (ch_color s) (ch_fg s) (ch_bg s) (w_cursor s) b (q_stalled s).
Definition set_q (s : vxstate) (q : option Z) : vxstate :=
  mkVx (paste s) (req_cursor s) (resize s) (vcaps s) (next_size s) (user_cursor s) (size_done s)
       (ch_color s) (ch_fg s) (ch_bg s) (w_cursor s) (w_clip s) q.

(* ---------- outcomes ---------- *)
(* Panic / Blocks carry what had been emitted before the goroutine died / wedged *)
Inductive outcome :=
  | Ok (s : vxstate) (es : list emit)
  | Panic (es : list emit)
  | Blocks (es : list emit).

Definition bind (o : outcome) (f : vxstate -> outcome) : outcome :=
  match o with
  | Ok s es =>
      match f s with
      | Ok s' es' => Ok s' (es ++ es')
      | Panic es' => Panic (es ++ es')
      | Blocks es' => Blocks (es ++ es')
      end
  | x => x
  end.

Definition ret (s : vxstate) : outcome := Ok s [].

(* an index expression that may panic *)
Definition need {A} (o : option A) (f : A -> outcome) : outcome :=
  match o with Some x => f x | None => Panic [] end.

(* PostEventBlocking: `vx.queue <- ev` *)
Definition post (e : event) (s : vxstate) : outcome :=
  match q_stalled s with
  | None => Ok s [Ev e]
  | Some n => if 0 <? n then Ok (set_q s (Some (n - 1))) [Ev e] else Blocks []
  end.

(* PostEvent: select { case vx.queue <- ev: default: }  (dropped when the queue is full) *)
Definition try_post (e : event) (s : vxstate) : outcome :=
  match q_stalled s with
  | None => Ok s [Ev e]
  | Some n => if 0 <? n then Ok (set_q s (Some (n - 1))) [Ev e] else Ok s []
  end.

(* select { case vx.chCursorPos <- v: case <-time.After(50ms): }  (unbuffered; after the fix:
   the pinned code had a plain send, which blocks for ever when the caller has gone) *)
Definition send_cursor (r c : Z) (s : vxstate) : outcome :=
  if w_cursor s then Ok (set_w_cursor s false) [ToCursor r c] else Ok s [].

(* select { case vx.chSizeDone <- true: default: }  (capacity 1; after the fix) *)
Definition send_size_done (s : vxstate) : outcome :=
  if size_done s <? 1 then Ok (set_size_done s (size_done s + 1)) [] else Ok s [].

(* select { case ch <- payload: default: } on a capacity-1 channel (after the fix) *)
Definition offer (cur : option (list Z)) (v : list Z) : option (list Z) :=
  match cur with None => Some v | Some _ => cur end.

(* select { case vx.chClipboard <- s: case <-ctx.Done(): }  (unbuffered, 10 ms) *)
Definition send_clip (v : list Z) (s : vxstate) : outcome :=
  if w_clip s then Ok (set_w_clip s false) [ToClip v] else Ok s [].

Definition is_q (inter : list Z) : bool :=
  match inter with [c] => c =? 63 | _ => false end.

Section Handle.
  Variable dec : item -> ikey.                          (* decodeKey *)
  Variable b64 : list Z -> option (list Z).             (* base64.StdEncoding.DecodeString *)

  (* key := decodeKey(seq); if vx.pastePending { key.EventType = EventPaste };
     vx.PostEventBlocking(key) *)
  Definition post_key (it : item) (s : vxstate) : outcome :=
    post (EKey (if paste s then mark_paste (dec it) else dec it)) s.

  (* for _, ps := range seq.Params { switch ps[0] { case 4: post(capabilitySixel{}) } } *)
  Fixpoint da1_loop (ps : list (list Z)) (s : vxstate) : outcome :=
    match ps with
    | [] => ret s
    | p :: t =>
        need (zget p 0) (fun v =>
          bind (if v =? 4 then post (ECap CSixel) s else ret s) (da1_loop t))
    end.

  (* [perm]: a report "permanently set" (3) counts too (mode 2027 only) *)
  Definition decrpm_gen (perm : bool) (ps : list (list Z)) (c : capev) (s : vxstate) : outcome :=
    if zlen ps <? 2 then ret s
    else need (par ps 1) (fun v => if (v =? 1) || (v =? 2) || (perm && (v =? 3)) then post (ECap c) s else ret s).
  Definition decrpm := decrpm_gen false.

  Definition handle_csi (inter : list Z) (ps : list (list Z)) (fin : Z) (s : vxstate) : outcome :=
    let it := ICsi inter ps fin in
    if fin =? 99 (* c *) then
      if is_q inter then bind (da1_loop ps s) (post EDA1) else post_key it s
    else if fin =? 73 (* I *) then post EFocusIn s
    else if fin =? 79 (* O *) then post EFocusOut s
    else if fin =? 82 (* R *) then
      if req_cursor s then
        let s1 := set_req s false in
        if negb (zlen ps =? 2) then ret s1
        else need (par ps 0) (fun r => need (par ps 1) (fun c => send_cursor r c s1))
      else post_key it s
    else if fin =? 83 (* S *) then
      if is_q inter then
        if zlen ps <? 3 then post_key it s
        else need (par ps 0) (fun a =>
               if a =? 2 then need (par ps 1) (fun b => if b =? 0 then post (ECap CSixel) s else ret s)
               else ret s)
      else post_key it s
    else if fin =? 110 (* n *) then
      if is_q inter then
        if negb (zlen ps =? 2) then post_key it s
        else need (par ps 0) (fun a =>
               if a =? 997 then need (par ps 1) (fun m => post (EColorTheme m) s) else ret s)
      else post_key it s
    else if fin =? 121 (* y *) then
      if zlen ps <? 1 then ret s
      else need (par ps 0) (fun a =>
             if a =? 2026 then decrpm ps CSync s
             else if a =? 2027 then decrpm_gen true ps CUnicode s
             else if a =? 2031 then decrpm ps CTheme s
             else ret s)
    else if fin =? 117 (* u *) then
      if is_q inter then post (ECap CKittyKb) s else post_key it s
    else if fin =? 126 (* ~ *) then
      if zlen inter =? 0 then
        if zlen ps =? 0 then ret s
        else need (par ps 0) (fun a =>
               if a =? 200 then post EPasteStart (set_paste s true)
               else if a =? 201 then post EPasteEnd (set_paste s false)
               else post_key it s)
      else post_key it s
    else if (fin =? 77) || (fin =? 109) (* M m *) then
      match parse_mouse inter ps fin with
      | None => Panic []
      | Some None => ret s
      | Some (Some m) => post (EMouse m) s
      end
    else if fin =? 116 (* t *) then
      if zlen ps <? 3 then ret s
      else need (par ps 0) (fun typ => need (par ps 1) (fun h => need (par ps 2) (fun w =>
        let z := next_size s in
        if typ =? 4 then
          let s1 := set_next_size s (mkSize (s_cols z) (s_rows z) w h) in
          if negb (c_pix (vcaps s)) then post (ECap CPix) s1 else ret s1
        else if typ =? 8 then
          let s1 := set_next_size s (mkSize w h (s_xpix z) (s_ypix z)) in
          if negb (c_chars (vcaps s)) then post (ECap CChars) s1 else send_size_done s1
        else if typ =? 48 then
          if zlen ps =? 5 then
            need (par ps 3) (fun yp => need (par ps 4) (fun xp =>
              let s1 := set_next_size (set_resize s true) (mkSize w h xp yp) in
              bind (if negb (c_inband (vcaps s)) then post (ECap CInband) s1 else ret s1)
                   (try_post ERedraw)))
          else ret s
        else ret s)))
    else post_key it s.

  Definition handle_dcs (fin : Z) (inter : list Z) (ps : list Z) (data : list Z) (s : vxstate) : outcome :=
    if fin =? 114 (* r *) then
      if zlen inter <? 1 then ret s
      else need (zget inter 0) (fun i0 =>
        if i0 =? 43 (* + : XTGETTCAP *) then
          if zlen ps <? 1 then ret s
          else need (zget ps 0) (fun p0 =>
            if p0 =? 0 then ret s
            else
              need (zget (split_on 61 [] (gostring data)) 0) (fun v0 =>
                if zlist_eqb v0 hex_Smulx then post (ECap CSmulx) s
                else if zlist_eqb v0 hex_RGB then post (ECap CRgb) s
                else ret s))
        else if i0 =? 36 (* $ : DECRPSS *) then
          if suffixb [32; 113] (gostring data) then
            need (zget data 0) (fun cs =>
              if (cs <? 48) || (54 <? cs) then ret s else ret (set_user_cursor s (cs - 48)))
          else ret s
        else ret s)
    else if fin =? 124 (* | *) then
      if zlen inter <? 1 then ret s
      else need (zget inter 0) (fun i0 =>
        if i0 =? 33 (* ! *) then
          if zlist_eqb (gostring data) hex_VTE then post (ECap CSmulx) s else ret s
        else if i0 =? 62 (* > *) then post (ETermID (gostring data)) s
        else ret s)
    else ret s.

  (* the OSC branch is a sequence of independent `if strings.HasPrefix` statements; the
     OSC 52 and OSC 176 blocks can `return` *)
  Definition osc_color (cap : bool) (get : vxstate -> option (list Z))
             (set : vxstate -> option (list Z) -> vxstate) (c : capev) (pl : list Z) (s : vxstate) : outcome :=
    post (ECap c) (if cap then set s (offer (get s) pl) else s).

  Definition handle_osc (payload : list Z) (s : vxstate) : outcome :=
    let pl := gostring payload in
    bind (if prefixb [52] pl then osc_color (c_osc4 (vcaps s)) ch_color set_ch_color COsc4 pl s else ret s)
    (fun s =>
    bind (if prefixb [49; 48] pl then osc_color (c_osc10 (vcaps s)) ch_fg set_ch_fg COsc10 pl s else ret s)
    (fun s =>
    bind (if prefixb [49; 49] pl then osc_color (c_osc11 (vcaps s)) ch_bg set_ch_bg COsc11 pl s else ret s)
    (fun s =>
    if prefixb [53; 50] pl then
      let vals := split_on 59 [] pl in
      if negb (zlen vals =? 3) then ret s
      else need (zget vals 2) (fun v2 =>
        match b64 v2 with
        | None => ret s
        | Some b => send_clip b s
        end)
    else if prefixb [49; 55; 54] pl then
      let vals := split_on 59 [] pl in
      if negb (zlen vals =? 2) then ret s
      else need (zget vals 1) (fun v1 => try_post (EAppID v1) s)
    else ret s))).

  (* handleSequence *)
  Definition handle (s : vxstate) (it : item) : outcome :=
    match it with
    | IPrint _ | IC0 _ | IEsc _ _ | ISS3 _ => post_key it s
    | ICsi inter ps fin => handle_csi inter ps fin s
    | IDcs fin inter ps data => handle_dcs fin inter ps data s
    | IApc data =>
        if zlen data =? 0 then ret s
        else if prefixb [71] data then post (ECap CKittyGfx) s else ret s
    | IOsc payload => handle_osc payload s
    | IError | IEof | IPanic => ret s       (* no case in the type switch *)
    end.

  (* the input goroutine: for { seq := <-parser.Next(); EOF -> return; handleSequence(seq) } *)
  Fixpoint run (s : vxstate) (its : list item) : outcome :=
    match its with
    | [] => ret s
    | IEof :: _ => ret s
    | it :: t => bind (handle s it) (fun s' => run s' t)
    end.

  (* ---------- the application side: callers that wait for replies ---------- *)
  Inductive appact :=
    | ACursorQuery        (* CursorPosition: reqCursorPos = true, query written, select entered
                             (the whole prologue at once: nothing was scheduled in between) *)
    | ACursorTimerFires   (* its 50 ms timer wins the select: nobody receives any more ... *)
    | ACursorGiveUp       (* ... and then reqCursorPos = false *)
    | AClipWait           (* ClipboardPop enters its select *)
    | AClipLeave          (* its context is done *)
    | ATakeSize           (* reportWinsize receives from chSizeDone *)
    | ATakeColor | ATakeFg | ATakeBg   (* Query* receive their reply *)
    | AQueue (q : option Z)            (* the application stops / resumes reading Events() *)
    (* the prologue of CursorPosition statement by statement, so that the input goroutine can be
       scheduled between its statements (the order in the source is [cursor_prog] below) *)
    | ACursorArm          (* atomicStore(&vx.reqCursorPos, true) *)
    | ACursorWrite.       (* io.WriteString(vx.console, dsrcpr): from here on the terminal has the
                             query and may answer; the caller reaches its select within the 50 ms
                             the reply hand-off waits for a receiver (time is abstracted) *)

  Definition app_step (s : vxstate) (a : appact) : vxstate :=
    match a with
    | ACursorQuery => set_w_cursor (set_req s true) true
    | ACursorTimerFires => set_w_cursor s false
    | ACursorGiveUp => set_req (set_w_cursor s false) false
    | AClipWait => set_w_clip s true
    | AClipLeave => set_w_clip s false
    | ATakeSize => set_size_done s 0
    | ATakeColor => set_ch_color s None
    | ATakeFg => set_ch_fg s None
    | ATakeBg => set_ch_bg s None
    | AQueue q => set_q s q
    | ACursorArm => set_req s true
    | ACursorWrite => set_w_cursor s true
    end.

  Inductive step := SItem (it : item) | SApp (a : appact).

  (* any interleaving of delivered sequences and application actions *)
  Fixpoint run_steps (s : vxstate) (l : list step) : outcome :=
    match l with
    | [] => ret s
    | SItem IEof :: _ => ret s
    | SItem it :: t => bind (handle s it) (fun s' => run_steps s' t)
    | SApp a :: t => run_steps (app_step s a) t
    end.
End Handle.

(* ---------- what the parser can deliver ---------- *)
(* csiDispatch always appends the current value, so no parameter is empty *)
Definition wf_item (it : item) : bool :=
  match it with
  | ICsi _ ps _ => forallb (fun p => negb (zlen p =? 0)) ps
  | _ => true
  end.

(* ---------- the start-up loop of New ---------- *)
Record startup := mkStartup {
  su_caps : caps;
  su_appid : list Z;            (* vx.appIDLast *)
  su_termid : list Z            (* vx.termID *)
}.
Definition startup0 : startup := mkStartup caps0 [] [].

Definition caps_set (cp : caps) (c : capev) : caps :=
  match c with
  | CSixel => mkCaps (c_sync cp) (c_unicode cp) (c_nozwj cp) (c_rgb cp) (c_kgfx cp) (c_kkb cp) (c_smulx cp) true (c_theme cp) (c_chars cp) (c_pix cp) (c_osc4 cp) (c_osc10 cp) (c_osc11 cp) (c_osc176 cp) (c_inband cp) (c_explicit cp)
  | COsc4 => mkCaps (c_sync cp) (c_unicode cp) (c_nozwj cp) (c_rgb cp) (c_kgfx cp) (c_kkb cp) (c_smulx cp) (c_sixel cp) (c_theme cp) (c_chars cp) (c_pix cp) true (c_osc10 cp) (c_osc11 cp) (c_osc176 cp) (c_inband cp) (c_explicit cp)
  | COsc10 => mkCaps (c_sync cp) (c_unicode cp) (c_nozwj cp) (c_rgb cp) (c_kgfx cp) (c_kkb cp) (c_smulx cp) (c_sixel cp) (c_theme cp) (c_chars cp) (c_pix cp) (c_osc4 cp) true (c_osc11 cp) (c_osc176 cp) (c_inband cp) (c_explicit cp)
  | COsc11 => mkCaps (c_sync cp) (c_unicode cp) (c_nozwj cp) (c_rgb cp) (c_kgfx cp) (c_kkb cp) (c_smulx cp) (c_sixel cp) (c_theme cp) (c_chars cp) (c_pix cp) (c_osc4 cp) (c_osc10 cp) true (c_osc176 cp) (c_inband cp) (c_explicit cp)
  | CSync => mkCaps true (c_unicode cp) (c_nozwj cp) (c_rgb cp) (c_kgfx cp) (c_kkb cp) (c_smulx cp) (c_sixel cp) (c_theme cp) (c_chars cp) (c_pix cp) (c_osc4 cp) (c_osc10 cp) (c_osc11 cp) (c_osc176 cp) (c_inband cp) (c_explicit cp)
  | CUnicode => mkCaps (c_sync cp) true (c_nozwj cp) (c_rgb cp) (c_kgfx cp) (c_kkb cp) (c_smulx cp) (c_sixel cp) (c_theme cp) (c_chars cp) (c_pix cp) (c_osc4 cp) (c_osc10 cp) (c_osc11 cp) (c_osc176 cp) (c_inband cp) (c_explicit cp)
  | CKittyKb => mkCaps (c_sync cp) (c_unicode cp) (c_nozwj cp) (c_rgb cp) (c_kgfx cp) true (c_smulx cp) (c_sixel cp) (c_theme cp) (c_chars cp) (c_pix cp) (c_osc4 cp) (c_osc10 cp) (c_osc11 cp) (c_osc176 cp) (c_inband cp) (c_explicit cp)
  | CKittyGfx => mkCaps (c_sync cp) (c_unicode cp) (c_nozwj cp) (c_rgb cp) true (c_kkb cp) (c_smulx cp) (c_sixel cp) (c_theme cp) (c_chars cp) (c_pix cp) (c_osc4 cp) (c_osc10 cp) (c_osc11 cp) (c_osc176 cp) (c_inband cp) (c_explicit cp)
  | CSmulx => mkCaps (c_sync cp) (c_unicode cp) (c_nozwj cp) (c_rgb cp) (c_kgfx cp) (c_kkb cp) true (c_sixel cp) (c_theme cp) (c_chars cp) (c_pix cp) (c_osc4 cp) (c_osc10 cp) (c_osc11 cp) (c_osc176 cp) (c_inband cp) (c_explicit cp)
  | CRgb => mkCaps (c_sync cp) (c_unicode cp) (c_nozwj cp) true (c_kgfx cp) (c_kkb cp) (c_smulx cp) (c_sixel cp) (c_theme cp) (c_chars cp) (c_pix cp) (c_osc4 cp) (c_osc10 cp) (c_osc11 cp) (c_osc176 cp) (c_inband cp) (c_explicit cp)
  | CTheme => mkCaps (c_sync cp) (c_unicode cp) (c_nozwj cp) (c_rgb cp) (c_kgfx cp) (c_kkb cp) (c_smulx cp) (c_sixel cp) true (c_chars cp) (c_pix cp) (c_osc4 cp) (c_osc10 cp) (c_osc11 cp) (c_osc176 cp) (c_inband cp) (c_explicit cp)
  | CPix => mkCaps (c_sync cp) (c_unicode cp) (c_nozwj cp) (c_rgb cp) (c_kgfx cp) (c_kkb cp) (c_smulx cp) (c_sixel cp) (c_theme cp) (c_chars cp) true (c_osc4 cp) (c_osc10 cp) (c_osc11 cp) (c_osc176 cp) (c_inband cp) (c_explicit cp)
  | CChars => mkCaps (c_sync cp) (c_unicode cp) (c_nozwj cp) (c_rgb cp) (c_kgfx cp) (c_kkb cp) (c_smulx cp) (c_sixel cp) (c_theme cp) true (c_pix cp) (c_osc4 cp) (c_osc10 cp) (c_osc11 cp) (c_osc176 cp) (c_inband cp) (c_explicit cp)
  | CInband => mkCaps (c_sync cp) (c_unicode cp) (c_nozwj cp) (c_rgb cp) (c_kgfx cp) (c_kkb cp) (c_smulx cp) (c_sixel cp) (c_theme cp) (c_chars cp) (c_pix cp) (c_osc4 cp) (c_osc10 cp) (c_osc11 cp) (c_osc176 cp) true (c_explicit cp)
  end.

Definition caps_get (cp : caps) (c : capev) : bool :=
  match c with
  | CSixel => c_sixel cp | COsc4 => c_osc4 cp | COsc10 => c_osc10 cp | COsc11 => c_osc11 cp
  | CSync => c_sync cp | CUnicode => c_unicode cp | CKittyKb => c_kkb cp | CKittyGfx => c_kgfx cp
  | CSmulx => c_smulx cp | CRgb => c_rgb cp | CTheme => c_theme cp | CPix => c_pix cp
  | CChars => c_chars cp | CInband => c_inband cp
  end.

Definition set_osc176 (cp : caps) : caps :=
  mkCaps (c_sync cp) (c_unicode cp) (c_nozwj cp) (c_rgb cp) (c_kgfx cp) (c_kkb cp) (c_smulx cp) (c_sixel cp) (c_theme cp) (c_chars cp) (c_pix cp) (c_osc4 cp) (c_osc10 cp) (c_osc11 cp) true (c_inband cp) (c_explicit cp).
Definition set_explicit (cp : caps) (b : bool) : caps :=
  mkCaps (c_sync cp) (c_unicode cp) (c_nozwj cp) (c_rgb cp) (c_kgfx cp) (c_kkb cp) (c_smulx cp) (c_sixel cp) (c_theme cp) (c_chars cp) (c_pix cp) (c_osc4 cp) (c_osc10 cp) (c_osc11 cp) (c_osc176 cp) (c_inband cp) b.
Definition set_nozwj (cp : caps) (b : bool) : caps :=
  mkCaps (c_sync cp) (c_unicode cp) b (c_rgb cp) (c_kgfx cp) (c_kkb cp) (c_smulx cp) (c_sixel cp) (c_theme cp) (c_chars cp) (c_pix cp) (c_osc4 cp) (c_osc10 cp) (c_osc11 cp) (c_osc176 cp) (c_inband cp) (c_explicit cp).
Definition set_unicode (cp : caps) (b : bool) : caps :=
  mkCaps (c_sync cp) b (c_nozwj cp) (c_rgb cp) (c_kgfx cp) (c_kkb cp) (c_smulx cp) (c_sixel cp) (c_theme cp) (c_chars cp) (c_pix cp) (c_osc4 cp) (c_osc10 cp) (c_osc11 cp) (c_osc176 cp) (c_inband cp) (c_explicit cp).

(* one iteration of `case ev := <-vx.queue: switch ev.(type)`; true = break outer *)
Definition startup_event (disable_kitty : bool) (su : startup) (e : event) : startup * bool :=
  match e with
  | EDA1 => (su, true)
  | ECap CKittyKb =>
      if disable_kitty then (su, false)
      else (mkStartup (caps_set (su_caps su) CKittyKb) (su_appid su) (su_termid su), false)
  | ECap c => (mkStartup (caps_set (su_caps su) c) (su_appid su) (su_termid su), false)
  | EAppID a => (mkStartup (set_osc176 (su_caps su)) a (su_termid su), false)
  | ETermID t => (mkStartup (su_caps su) (su_appid su) t, false)
  | _ => (su, false)                 (* every other event, user input included, is discarded *)
  end.

(* the loop: consumes events up to and including the DA1 reply; returns what it learned,
   the events still in the queue, and whether DA1 arrived (otherwise: the 3 s deadline) *)
Fixpoint collect_caps (disable_kitty : bool) (su : startup) (evs : list event) : startup * list event * bool :=
  match evs with
  | [] => (su, [], false)
  | e :: t =>
      let '(su', stop) := startup_event disable_kitty su e in
      if stop then (su', t, true) else collect_caps disable_kitty su' t
  end.

(* applyQuirks, the two rules that look at the terminal identity *)
Definition apply_quirks (su : startup) : startup :=
  let id := su_termid su in
  let cp := su_caps su in
  let cp := if prefixb [107; 105; 116; 116; 121] id then set_nozwj cp true
            else if zlist_eqb id [116; 109; 117; 120; 32; 51; 46; 52] then set_unicode cp true
            else cp in
  mkStartup cp (su_appid su) (su_termid su).

(* ====================================================================================
   The specification side: which delivered sequences ARE user input, and which event each
   one stands for.  Written independently of [handle] (shape of the sequence only; mouse
   fields by div/mod arithmetic instead of bit masks). *)

(* SGR mouse report CSI < Cb ; Cx ; Cy M|m  (xterm ctlseqs, "Extended coordinates") *)
Definition spec_mouse (inter : list Z) (ps : list (list Z)) (fin : Z) : option mouse :=
  match inter, ps with
  | [i0], [cb :: _; cx :: _; cy :: _] =>
      if negb (i0 =? 60) then None else
      let button := cb mod 4 + 64 * ((cb / 64) mod 4) in
      let mods := b2z (Z.testbit cb 2) MShift + b2z (Z.testbit cb 3) MAlt + b2z (Z.testbit cb 4) MCtrl in
      let ty := if Z.testbit cb 5 then EventMotion
                else if fin =? 109 then EventRelease else EventPress in
      Some (mkMouse button (i64 (cy - 1)) (i64 (cx - 1)) ty mods)
  | _, _ => None
  end.

(* the first value of the first parameter *)
Definition p00 (ps : list (list Z)) : option Z :=
  match ps with (v :: _) :: _ => Some v | _ => None end.

Definition p00_is (ps : list (list Z)) (v : Z) : bool :=
  match p00 ps with Some x => x =? v | None => false end.

(* CSI sequences that are key presses (everything that is not a report Vaxis knows).
   CSI R is a key only while no cursor-position request is outstanding: the caller decides. *)
Definition key_csi (inter : list Z) (ps : list (list Z)) (fin : Z) : bool :=
  if fin =? 99 then negb (is_q inter)                                (* DA1 reply: CSI ? ... c *)
  else if (fin =? 73) || (fin =? 79) then false                      (* focus in / out *)
  else if fin =? 121 then false                                      (* DECRPM *)
  else if (fin =? 77) || (fin =? 109) then false                     (* mouse *)
  else if fin =? 116 then false                                      (* window reports *)
  else if fin =? 83 then negb (is_q inter) || (zlen ps <? 3)         (* XTSMGRAPHICS reply *)
  else if fin =? 110 then negb (is_q inter) || negb (zlen ps =? 2)   (* DSR reply *)
  else if fin =? 117 then negb (is_q inter)                          (* kitty keyboard flags *)
  else if fin =? 126 then
    (* bracketed-paste markers CSI 200 ~ / CSI 201 ~ and the bare CSI ~ are not keys *)
    negb (zlen inter =? 0) ||
    match p00 ps with Some v => negb (v =? 200) && negb (v =? 201) | None => false end
  else true.

Inductive uclass := UKey | UMouse (m : mouse) | UFocusIn | UFocusOut | UPasteStart | UPasteEnd
                  | UCursorReply | UInternal.

(* req: a cursor-position request is outstanding *)
Definition classify (req : bool) (it : item) : uclass :=
  match it with
  | IPrint _ | IC0 _ | IEsc _ _ | ISS3 _ => UKey
  | ICsi inter ps fin =>
      if (fin =? 82) && req then UCursorReply
      else if fin =? 73 then UFocusIn
      else if fin =? 79 then UFocusOut
      else if (fin =? 77) || (fin =? 109) then
        match spec_mouse inter ps fin with Some m => UMouse m | None => UInternal end
      else if (fin =? 126) && (zlen inter =? 0) && p00_is ps 200 then UPasteStart
      else if (fin =? 126) && (zlen inter =? 0) && p00_is ps 201 then UPasteEnd
      else if key_csi inter ps fin then UKey else UInternal
  | _ => UInternal
  end.

Section Spec.
  Variable dec : item -> ikey.

  (* user events one delivered sequence stands for; new paste flag; new request flag *)
  Definition spec_item (p req : bool) (it : item) : list event * bool * bool :=
    match classify req it with
    | UKey => ([EKey (if p then mark_paste (dec it) else dec it)], p, req)
    | UMouse m => ([EMouse m], p, req)
    | UFocusIn => ([EFocusIn], p, req)
    | UFocusOut => ([EFocusOut], p, req)
    | UPasteStart => ([EPasteStart], true, req)
    | UPasteEnd => ([EPasteEnd], false, req)
    | UCursorReply => ([], p, false)
    | UInternal => ([], p, req)
    end.

  Definition spec_app (req : bool) (a : appact) : bool :=
    match a with
    | ACursorQuery => true
    | ACursorArm => true
    | ACursorGiveUp => false
    | _ => req
    end.

  (* the user events a whole interleaving must deliver, in order *)
  Fixpoint spec_user (p req : bool) (l : list step) : list event :=
    match l with
    | [] => []
    | SItem IEof :: _ => []
    | SItem it :: t => let '(es, p', req') := spec_item p req it in es ++ spec_user p' req' t
    | SApp a :: t => spec_user p (spec_app req a) t
    end.
End Spec.

(* ====================================================================================
   The request side of the cursor-position hand-off, and the specification seen from the
   TERMINAL.

   [spec_user] above follows the request flag (reqCursorPos): it says what handleSequence must
   do given the flag.  The property speaks about the wire: a report CSI r ; c R is the reply
   to Vaxis's own query from the moment the query bytes have been written, and must then be
   consumed and handed to the caller whatever the flag happens to be at that moment.  The two
   views coincide only if CursorPosition arms the flag BEFORE the query reaches the terminal;
   that is an obligation on the order of its statements, stated here over the translated body
   (gen/GenInput.v, /verif/gen/input.go) and proved in proofs/InputProofs.v. *)

(* the statements of the translated prologue that matter for the hand-off *)
Definition prologue_act (st : pstmt) : list appact :=
  match st with
  | PStore f b => if f =? 0 then (if b then [ACursorArm] else [ACursorGiveUp]) else []
  | PWrite q => if zlist_eqb q [27; 91; 54; 110] then [ACursorWrite] else []
  | _ => []
  end.
(* CursorPosition's prologue in source order *)
Definition cursor_prog : list appact := flat_map prologue_act cursor_position_prologue.

(* is a cursor-position query outstanding on the wire?  (written; neither answered nor
   abandoned by the caller) *)
Definition wire_app (wire : bool) (a : appact) : bool :=
  match a with
  | ACursorQuery | ACursorWrite => true
  | ACursorGiveUp => false
  | _ => wire
  end.
(* is the caller still going to receive the answer? *)
Definition wait_app (waiting : bool) (a : appact) : bool :=
  match a with
  | ACursorQuery | ACursorWrite => true
  | ACursorTimerFires | ACursorGiveUp => false
  | _ => waiting
  end.

Definition is_cpr (it : item) : bool := match it with ICsi _ _ fin => fin =? 82 | _ => false end.
(* the position a report carries: exactly two parameters, the first value of each *)
Definition cpr_answer (it : item) : option (Z * Z) :=
  match it with ICsi _ [r :: _; c :: _] _ => Some (r, c) | _ => None end.

Section WireSpec.
  Variable dec : item -> ikey.

  (* the user events an interleaving must deliver, in order: as [spec_user], but a report
     CSI .. R counts as the reply exactly while a query is outstanding on the wire *)
  Fixpoint spec_wire (p wire : bool) (l : list step) : list event :=
    match l with
    | [] => []
    | SItem IEof :: _ => []
    | SItem it :: t => let '(es, p', wire') := spec_item dec p wire it in es ++ spec_wire p' wire' t
    | SApp a :: t => spec_wire p (wire_app wire a) t
    end.
End WireSpec.

(* what the callers of CursorPosition must receive, in order: the position of every report that
   answers an outstanding query while its caller is still there (a report with another number
   of parameters uses the request up without an answer) *)
Fixpoint spec_answers (wire waiting : bool) (l : list step) : list (Z * Z) :=
  match l with
  | [] => []
  | SItem IEof :: _ => []
  | SItem it :: t =>
      if is_cpr it && wire then
        match cpr_answer it with
        | Some rc => if waiting then rc :: spec_answers false false t else spec_answers false false t
        | None => spec_answers false waiting t
        end
      else spec_answers wire waiting t
  | SApp a :: t => spec_answers (wire_app wire a) (wait_app waiting a) t
  end.

(* ====================================================================================
   The clipboard hand-off (OSC 52), from the TERMINAL's side: what the callers of ClipboardPop
   must receive.  A report is the answer to the call that is waiting when it arrives; a report
   that arrives while nobody waits (unsolicited, repeated, or late: the caller's context has
   expired) is consumed and FORGOTTEN -- it must not be kept for a later call, whose answer is
   the report the terminal sends to THAT call.  Written without [handle]: the fields of the
   payload by a right-to-left split. *)

(* the ';'-separated fields of a string (at least one) *)
Fixpoint fields (c : Z) (s : list Z) : list (list Z) :=
  match s with
  | [] => [[]]
  | x :: t =>
      if x =? c then [] :: fields c t
      else match fields c t with f :: r => (x :: f) :: r | [] => [[x]] end
  end.

Section ClipSpec.
  Variable b64 : list Z -> option (list Z).

  (* the clipboard text a delivered sequence reports: OSC 52 ; <selection> ; <base64>  (the
     payload begins with "52" and has exactly three fields; the third one decodes) *)
  Definition clip_answer (it : item) : option (list Z) :=
    match it with
    | IOsc payload =>
        let pl := gostring payload in
        if prefixb [53; 50] pl then
          match fields 59 pl with [_; _; d] => b64 d | _ => None end
        else None
    | _ => None
    end.

  (* is a caller of ClipboardPop waiting for the answer? *)
  Definition clip_wait_app (waiting : bool) (a : appact) : bool :=
    match a with AClipWait => true | AClipLeave => false | _ => waiting end.

  (* what the callers of ClipboardPop must receive, in order *)
  Fixpoint spec_clips (waiting : bool) (l : list step) : list (list Z) :=
    match l with
    | [] => []
    | SItem IEof :: _ => []
    | SItem it :: t =>
        match clip_answer it with
        | Some b => if waiting then b :: spec_clips false t else spec_clips false t
        | None => spec_clips waiting t
        end
    | SApp a :: t => spec_clips (clip_wait_app waiting a) t
    end.
End ClipSpec.

Definition is_nil {A} (l : list A) : bool := match l with [] => true | _ => false end.
Definition same_prologue_act (a b : appact) : bool :=
  match a, b with
  | ACursorArm, ACursorArm | ACursorWrite, ACursorWrite => true
  | _, _ => false
  end.

(* the schedules that can happen: any interleaving of delivered sequences with the statements
   of the application's calls, where
   - the statements of a call to CursorPosition run in the order [prog] ([todo]: what is left of
     the prologue of the call in progress), a call starts only after the previous one has
     returned, and its time-out can fire only after the prologue;
   - a report CSI .. R arrives only as the reply to a query that has been written, or while no
     call is in progress (then it is the F3 key or an unsolicited report: a key for both
     views).  Excluded: a key CSI .. R typed inside the few instructions between the first
     statement of CursorPosition and its write (the same bytes as a reply, see [stream_ok]);
   - the application keeps reading Events(). *)
Fixpoint sched_ok (prog : list appact) (wire : bool) (todo : list appact) (l : list step) : bool :=
  match l with
  | [] => true
  | SItem IEof :: _ => true
  | SItem it :: t =>
      wf_item it && (negb (is_cpr it) || wire || is_nil todo) &&
      sched_ok prog (wire && negb (is_cpr it)) todo t
  | SApp a :: t =>
      match a with
      | ACursorArm | ACursorWrite =>
          match (match todo with [] => prog | _ => todo end) with
          | a' :: rest =>
              same_prologue_act a a' && (negb (is_nil todo) || negb wire) &&
              sched_ok prog (wire_app wire a) rest t
          | [] => false
          end
      | ACursorQuery => is_nil todo && negb wire && sched_ok prog true [] t
      | ACursorTimerFires | ACursorGiveUp => is_nil todo && sched_ok prog (wire_app wire a) [] t
      | AQueue (Some _) => false
      | _ => sched_ok prog wire todo t
      end
  end.
