(* C14 — model of Draw of the built-in vxfw widgets: text.Text / richtext.RichText
   (findContainerSize, Draw, drawSoftwrap), center.Center, button.Button, textfield.TextField
   and list.Dynamic in its initial scroll state.  Executable definitions only.

   Oracles: the line scanners (bufio.Scanner, the soft-wrap scanners of C16, the hard-wrap
   scanner of richtext) and ctx.Characters are not modelled here: a text widget is given as
   the list of lines its scanner yields for the width it is drawn with, every character as
   (grapheme id, width).  The width is a Go int supplied by ctx.Characters and converted with
   uint16(char.Width): it is an arbitrary Z here.

   Cells are (grapheme id, width); styles are not observed (Fill only changes styles, so it
   is the identity on this projection).  id 0 = "" (the zero Cell), 1 = "…", 2 = " ",
   3 = "▐"; content graphemes are numbered from 4 by the harness. *)
From Vx Require Import base.Prelude model.Surface.

Definition wcell : Type := Z * Z.
Definition wblank : wcell := (0, 0).
Definition g_ell : Z := 1.
Definition g_space : Z := 2.
Definition g_cursor : Z := 3.

Definition wsurface : Type := surface wcell.
Definition empty_surface : wsurface := Surf 0 0 [] [].      (* vxfw.Surface{} *)

(* result of Draw: a panic, or a surface (no built-in widget returns an error of its own) *)
Inductive dres : Type := DPanic | DOk (s : wsurface).

(* ---------------------------------------------------------------- text / richtext *)

(* var w uint16; for _, char := range chars { w += uint16(char.Width) } *)
Definition line_width (l : list wcell) : Z :=
  fold_left (fun w ch => u16 (w + u16 (snd ch))) l 0.

(* findContainerSize: the loop over the scanner's lines, (w,h) = size so far *)
Fixpoint container_size (lines : list (list wcell)) (maxw maxh w h : Z) : Z * Z :=
  match lines with
  | [] => (w, h)
  | l :: t =>
      if h >=? maxh then (w, h)
      else
        let h' := u16 (h + 1) in
        let lw := line_width l in
        let w1 := if w <? lw then lw else w in
        let w2 := if w1 >? maxw then maxw else w1 in
        container_size t maxw maxh w2 h'
  end.

(* the code before the fix (`size.Height > ctx.Max.Height`), for the regression witness *)
Fixpoint container_size_old (lines : list (list wcell)) (maxw maxh w h : Z) : Z * Z :=
  match lines with
  | [] => (w, h)
  | l :: t =>
      if h >? maxh then (w, h)
      else
        let h' := u16 (h + 1) in
        let lw := line_width l in
        let w1 := if w <? lw then lw else w in
        let w2 := if w1 >? maxw then maxw else w1 in
        container_size_old t maxw maxh w2 h'
  end.

(* Draw without soft wrap: one line, truncated with an ellipsis.  `i < len(chars)` in the
   Go condition is always true inside the range loop. *)
Fixpoint draw_trunc_line (s : wsurface) (chars : list wcell) (col row maxw : Z) : option wsurface :=
  match chars with
  | [] => Some s
  | (g, cw) :: t =>
      if col >=? maxw then Some s
      else if u16 (col + u16 cw) >=? maxw then write_cell s col row (g_ell, 1)
      else match write_cell s col row (g, cw) with
           | Some s' => draw_trunc_line s' t (u16 (col + u16 cw)) row maxw
           | None => None
           end
  end.

(* drawSoftwrap: one line *)
Fixpoint draw_wrap_line (s : wsurface) (chars : list wcell) (col row maxw : Z) : option wsurface :=
  match chars with
  | [] => Some s
  | (g, cw) :: t =>
      if col >=? maxw then Some s
      else match write_cell s col row (g, cw) with
           | Some s' => draw_wrap_line s' t (u16 (col + u16 cw)) row maxw
           | None => None
           end
  end.

(* for scanner.Scan() { if row > ctx.Max.Height { return s }; <line>; row += 1 }   (row is uint16) *)
Fixpoint draw_lines (soft : bool) (s : wsurface) (lines : list (list wcell)) (row maxw maxh : Z)
  : option wsurface :=
  match lines with
  | [] => Some s
  | l :: t =>
      if row >? maxh then Some s
      else match (if soft then draw_wrap_line s l 0 row maxw else draw_trunc_line s l 0 row maxw) with
           | Some s' => draw_lines soft s' t (u16 (row + 1)) maxw maxh
           | None => None
           end
  end.

Definition text_draw (soft : bool) (lines : list (list wcell)) (maxw maxh : Z) : dres :=
  let '(w, h) := container_size lines maxw maxh 0 0 in
  let s := fill (fun c : wcell => c) (new_surface wblank w h) in
  match draw_lines soft s lines 0 maxw maxh with
  | Some s' => DOk s'
  | None => DPanic
  end.

(* ---------------------------------------------------------------- center *)

(* what a child widget's Draw can do *)
Inductive cres : Type := CPanic | CErr | COk (s : wsurface).

Definition cres_of (d : dres) : cres := match d with DPanic => CPanic | DOk s => COk s end.

(* center.Draw: offX := (ctx.Max.Width - chS.Size.Width) / 2 in uint16; an error of the child
   is swallowed (`return vxfw.Surface{}, nil`) *)
Definition center_draw (child : Z -> Z -> cres) (maxw maxh : Z) : dres :=
  if (maxh =? 65535) || (maxw =? 65535) then DPanic
  else match child maxw maxh with
       | CPanic => DPanic
       | CErr => DOk empty_surface
       | COk chS =>
           let s := new_surface wblank maxw maxh in
           let offX := u16 (maxw - s_w chS) / 2 in
           let offY := u16 (maxh - s_h chS) / 2 in
           DOk (add_child s offX offY chS)
       end.

(* button.Draw: Center{Child: text.New(label)} (soft wrap), then Fill(style) *)
Definition button_draw (lines : list (list wcell)) (maxw maxh : Z) : dres :=
  if (maxh =? 65535) || (maxw =? 65535) then DPanic
  else match center_draw (fun mw mh => cres_of (text_draw true lines mw mh)) maxw maxh with
       | DPanic => DPanic
       | DOk s => DOk (fill (fun c : wcell => c) s)
       end.

(* ---------------------------------------------------------------- textfield *)

Fixpoint field_loop (s : wsurface) (chars : list wcell) (col : Z) : option wsurface :=
  match chars with
  | [] => Some s
  | (g, cw) :: t => match write_cell s col 0 (g, cw) with
                    | Some s' => field_loop s' t (u16 (col + u16 cw))
                    | None => None
                    end
  end.

Definition field_draw (chars : list wcell) (maxw maxh : Z) : dres :=
  if (maxw =? 0) || (maxh =? 0) then DOk empty_surface
  else match field_loop (new_surface wblank maxw 1) chars 0 with
       | Some s => DOk s
       | None => DPanic
       end.

(* ---------------------------------------------------------------- list.Dynamic, initial state *)

(* The draw loop of a Dynamic whose scroll state is the zero value (top 0, offset 0, no
   pending scroll, cursor 0): children are drawn with Max = (Max.Width - colOffset in uint16,
   65535) and stacked until the accumulated height reaches Max.Height.  [rs] are the Draw
   results of the items from index i on; None = a child panicked.  (Scrolling, the cursor
   moves and insertChildren are C19's.) *)
Fixpoint list_loop (s : wsurface) (rs : list dres) (off ah gap maxh : Z) : option wsurface :=
  match rs with
  | [] => Some s
  | DPanic :: _ => None
  | DOk chS :: t =>
      let s' := add_child s off ah chS in
      let ah' := ah + s_h chS + gap in
      if ah' >=? maxh then Some s' else list_loop s' t off ah' gap maxh
  end.

Fixpoint gutter (s : wsurface) (n : nat) (row : Z) : option wsurface :=
  match n with
  | O => Some s
  | S n' => match write_cell s 0 row (g_space, 1) with
            | None => None
            | Some s1 => match write_cell s1 1 row (g_space, 1) with
                         | None => None
                         | Some s2 => gutter s2 n' (row + 1)
                         end
            end
  end.

Fixpoint cursor_col (s : wsurface) (n : nat) (row : Z) : option wsurface :=
  match n with
  | O => Some s
  | S n' => match write_cell s 0 row (g_cursor, 1) with
            | None => None
            | Some s1 => cursor_col s1 n' (row + 1)
            end
  end.

Definition list_finish (drawcur : bool) (s : wsurface) (maxw : Z) : option wsurface :=
  if negb drawcur then Some s
  else match gutter s (Z.to_nat (s_h s)) 0 with
       | None => None
       | Some s1 =>
           match s_kids s1 with
           | [] => Some s1
           | (c0, r0, z0, ch) :: rest =>
               match cursor_col (new_surface wblank maxw (s_h ch)) (Z.to_nat (s_h ch)) 0 with
               | None => None
               | Some cur => Some (Surf (s_w s1) (s_h s1) (s_buf s1) ((0, r0, 0, add_child cur 2 0 ch) :: rest))
               end
           end
       end.

(* ---------------------------------------------------------------- widget trees *)

Inductive wspec : Type :=
| WText (rich soft : bool) (lines : list (list wcell))
| WCenter (child : wspec)
| WButton (lines : list (list wcell))
| WField (chars : list wcell)
| WList (drawcur : bool) (gap : Z) (items : list wspec).

Fixpoint draw (ws : wspec) (maxw maxh : Z) : dres :=
  match ws with
  | WText _ soft lines => text_draw soft lines maxw maxh
  | WCenter ch => center_draw (fun mw mh => cres_of (draw ch mw mh)) maxw maxh
  | WButton lines => button_draw lines maxw maxh
  | WField chars => field_draw chars maxw maxh
  | WList drawcur gap items =>
      if (maxh =? 65535) || (maxw =? 65535) then DPanic
      else
        let off := if drawcur then 2 else 0 in
        let rs := map (fun it => draw it (u16 (maxw - off)) 65535) items in
        match list_loop (new_surface wblank maxw maxh) rs off 0 gap maxh with
        | None => DPanic
        | Some s => match list_finish drawcur s maxw with
                    | None => DPanic
                    | Some s' => DOk s'
                    end
        end
  end.

(* ---------------------------------------------------------------- observation *)

(* what the harness records of a returned surface tree: sizes, len(Buffer), the non-blank
   cells as (index, (grapheme id, width)), children with origin and z *)
Inductive otree : Type :=
  ONode (w h buflen : Z) (cells : list (Z * wcell)) (kids : list (Z * Z * Z * otree)).

Definition wcell_eqb (a b : wcell) : bool := (fst a =? fst b) && (snd a =? snd b).

Fixpoint wsparse (i : Z) (l : list wcell) : list (Z * wcell) :=
  match l with
  | [] => []
  | c :: t => if wcell_eqb c wblank then wsparse (i + 1) t else (i, c) :: wsparse (i + 1) t
  end.

Fixpoint observe (s : wsurface) : otree :=
  let 'Surf w h buf kids := s in
  ONode w h (zlen buf) (wsparse 0 buf)
        (map (fun k : Z * Z * Z * wsurface => let '(c, r, z, ch) := k in (c, r, z, observe ch)) kids).

Fixpoint otree_eqb (a b : otree) : bool :=
  let 'ONode w1 h1 n1 c1 k1 := a in
  let 'ONode w2 h2 n2 c2 k2 := b in
  (w1 =? w2) && (h1 =? h2) && (n1 =? n2) &&
  list_eqb (fun p q : Z * wcell => (fst p =? fst q) && wcell_eqb (snd p) (snd q)) c1 c2 &&
  (fix go (l1 l2 : list (Z * Z * Z * otree)) : bool :=
     match l1, l2 with
     | [], [] => true
     | (a1, b1, z1, t1) :: r1, (a2, b2, z2, t2) :: r2 =>
         (a1 =? a2) && (b1 =? b2) && (z1 =? z2) && otree_eqb t1 t2 && go r1 r2
     | _, _ => false
     end) k1 k2.

(* run-length helper for the case files: n cells equal to c at start, start+stride, ... *)
Fixpoint zrun_nat (start stride : Z) (n : nat) (c : wcell) : list (Z * wcell) :=
  match n with O => [] | S n' => (start, c) :: zrun_nat (start + stride) stride n' c end.
Definition zrun (start stride n : Z) (c : wcell) : list (Z * wcell) := zrun_nat start stride (Z.to_nat n) c.

(* a draw case: widget, Max.Width, Max.Height; observed outcome (0 ok / 1 panic) and tree *)
Definition draw_input : Type := wspec * Z * Z.
Definition draw_obs : Type := Z * otree.

Definition draw_run (inp : draw_input) : draw_obs :=
  let '(ws, maxw, maxh) := inp in
  match draw ws maxw maxh with
  | DPanic => (1, ONode 0 0 0 [] [])
  | DOk s => (0, observe s)
  end.

Definition draw_obs_eqb (a b : draw_obs) : bool :=
  (fst a =? fst b) && ((fst a =? 1) || otree_eqb (snd a) (snd b)).

(* ---------------------------------------------------------------- the contract, on one observation *)

(* widgets whose documentation requires bounded constraints (they panic otherwise) *)
Definition needs_bounded (ws : wspec) : bool :=
  match ws with WCenter _ | WButton _ | WList _ _ _ => true | _ => false end.

(* does some widget of the tree receive an unbounded constraint it documents it cannot take?
   (constraints are passed down as the code passes them) *)
Fixpoint contract_panic (ws : wspec) (maxw maxh : Z) : bool :=
  let unb := (maxh =? 65535) || (maxw =? 65535) in
  match ws with
  | WText _ _ _ | WField _ => false
  | WButton _ => unb
  | WCenter ch => unb || contract_panic ch maxw maxh
  | WList drawcur _ items =>
      unb || existsb (fun it => needs_bounded it) items
  end.

(* every node of an observed tree has len(Buffer) = w*h, sizes in uint16, sparse cells in range *)
Fixpoint sp_increasing (prev : Z) (l : list (Z * wcell)) : bool :=
  match l with [] => true | (i, _) :: t => (prev <? i) && sp_increasing i t end.

Fixpoint otree_wf (t : otree) : bool :=
  let 'ONode w h n cells kids := t in
  (0 <=? w) && (w <? 65536) && (0 <=? h) && (h <? 65536) && (n =? w * h) &&
  sp_increasing (-1) cells && forallb (fun p : Z * wcell => fst p <? n) cells &&
  forallb (fun k : Z * Z * Z * otree => let '(_, _, _, ch) := k in otree_wf ch) kids.

Definition o_w (t : otree) : Z := let 'ONode w _ _ _ _ := t in w.
Definition o_h (t : otree) : Z := let 'ONode _ h _ _ _ := t in h.
Definition o_kids (t : otree) : list (Z * Z * Z * otree) := let 'ONode _ _ _ _ k := t in k.

(* The single child of a Center / Button: it was drawn with the maximum the parent received, so
   it is no larger than the parent; it lies inside the parent and the left/right and top/bottom
   margins are equal to within one cell *)
Definition centred (pw ph : Z) (k : Z * Z * Z * otree) : bool :=
  let '(col, row, _, ch) := k in
  let cw := o_w ch in let chh := o_h ch in
  (cw <=? pw) && (chh <=? ph) &&
  (0 <=? col) && (col + cw <=? pw) && (Z.abs (col - (pw - cw - col)) <=? 1) &&
  (0 <=? row) && (row + chh <=? ph) && (Z.abs (row - (ph - chh - row)) <=? 1).

Definition kid_otree (k : Z * Z * Z * otree) : otree := let '(_, _, _, t) := k in t.

(* list.Dynamic: the surface an item returned.  Items are placed at column 2 when the list draws
   its cursor (0 otherwise); the cursored item is wrapped into a surface at column 0 whose only
   child it is. *)
Definition list_off (drawcur : bool) : Z := if drawcur then 2 else 0.
Definition item_tree (drawcur : bool) (k : Z * Z * Z * otree) : otree :=
  let '(c, _, _, t) := k in
  if drawcur && (c =? 0) then match o_kids t with [k'] => kid_otree k' | _ => t end else t.

(* "No larger than the maximum it was given" for EVERY widget of a tree, with the maximum each
   one is given by its parent (Center and Button pass their own maximum on; a Dynamic passes
   (Max.Width - colOffset in uint16, 65535)), and the centring of Center / Button. *)
Fixpoint tree_ok (ws : wspec) (maxw maxh : Z) (t : otree) : bool :=
  (o_w t <=? maxw) && (o_h t <=? maxh) &&
  match ws with
  | WCenter ch =>
      match o_kids t with
      | [k] => centred (o_w t) (o_h t) k && tree_ok ch maxw maxh (kid_otree k)
      | [] => (o_w t =? 0) && (o_h t =? 0)
      | _ => false
      end
  | WButton _ =>
      match o_kids t with
      | [k] => centred (o_w t) (o_h t) k
      | [] => (o_w t =? 0) && (o_h t =? 0)
      | _ => false
      end
  | WList drawcur _ _ =>
      forallb (fun k => o_w (item_tree drawcur k) <=? u16 (maxw - list_off drawcur)) (o_kids t)
  | _ => true
  end.

(* The layout contract on one observation: a panic only where the documentation announces one;
   otherwise every surface of the tree is well formed, every widget of the tree returned a
   surface within the maximum it was given and, for Center/Button, the single child is centred. *)
Definition draw_ok (c : draw_input * draw_obs) : bool :=
  let '((ws, maxw, maxh), (out, t)) := c in
  if out =? 1 then contract_panic ws maxw maxh
  else (out =? 0) && otree_wf t && tree_ok ws maxw maxh t.

Definition c14_draw_mismatches (cases : list (draw_input * draw_obs)) : list Z :=
  bad_indices (fun c => negb (draw_obs_eqb (draw_run (fst c)) (snd c))) cases.
Definition c14_draw_violations (cases : list (draw_input * draw_obs)) : list Z :=
  bad_indices (fun c => negb (draw_ok c)) cases.

(* ---------------------------------------------------------------- layout followed by render *)

(* App.layout + Surface.render: Draw with Max = the window size, then render the returned
   tree into the root window of a cols x rows screen.  Observation: outcome and screen rows. *)
Definition paint_obs : Type := Z * list (list wcell).

Definition paint_run (inp : draw_input) : paint_obs :=
  let '(ws, cols, rows) := inp in
  match draw ws cols rows with
  | DPanic => (1, [])
  | DOk s =>
      match render (app_window cols rows s) s with
      | None => (1, [])
      | Some ps => match screen_apply (new_screen wblank cols rows) ps with
                   | None => (1, [])
                   | Some sc => (0, sc_buf sc)
                   end
      end
  end.

Definition paint_obs_eqb (a b : paint_obs) : bool :=
  (fst a =? fst b) && ((fst a =? 1) || list_eqb (list_eqb wcell_eqb) (snd a) (snd b)).

(* on one observation: a panic only where documented, and a full cols x rows screen *)
Definition paint_ok (c : draw_input * paint_obs) : bool :=
  let '((ws, cols, rows), (out, scr)) := c in
  if out =? 1 then contract_panic ws cols rows
  else (out =? 0) && (zlen scr =? rows) && forallb (fun r => zlen r =? cols) scr.

Definition c14_paint_mismatches (cases : list (draw_input * paint_obs)) : list Z :=
  bad_indices (fun c => negb (paint_obs_eqb (paint_run (fst c)) (snd c))) cases.
Definition c14_paint_violations (cases : list (draw_input * paint_obs)) : list Z :=
  bad_indices (fun c => negb (paint_ok c)) cases.
