(* C12: what the embedded terminal must hold after a Vaxis frame was fed to it, stated with
   the view of the application's screen (model/RenderSpec.v).  Definitions only. *)
From Vx Require Import base.Prelude model.Colour model.RenderTypes model.Render model.RefTerm model.RenderSpec
  model.RenderCheck.

(* one emulator (or host screen) cell as observed: grapheme, width, style *)
Definition ecell := (list Z * Z * style)%type.

(* what a stored style shows: the emulator keeps colours, underline style and attributes as
   it received them *)
Definition cp_full : caps :=
  {| cap_rgb := true; cap_styled_ul := true; cap_sync := false; cap_explicit_width := false |}.

(* the capability set Vaxis must derive from the emulator's replies: the emulator answers DA1
   with the sixel attribute and reports mode 2027 (grapheme clustering) as permanently set; nothing else that Vaxis asks about *)
Definition term_caps : caps :=
  {| cap_rgb := false; cap_styled_ul := false; cap_sync := false; cap_explicit_width := false |}.
(* order: sync, unicode, theme, inband, kittykb, kittygfx, sixel, size chars, size pixels,
   explicit width, rgb, styled underlines, osc4, osc10, osc11, osc176 *)
Definition term_caps_reported : list bool :=
  [false; true; false; false; false; false; true; false; false; false; false; false; false; false; false; false].

Definition ecell_shows (d : disp) (e : ecell) : bool :=
  match d with
  | DCell g w off pen link =>
      if off =? 0 then
        let '(g', w', st') := e in
        (zlist_eqb g g' || (zlist_eqb g [32] && zlist_eqb g' [])) &&
        (w =? Z.max 1 w') && tpen_eqb (shown cp_full st') pen && tlink_eqb (shown_link st') link
      else true        (* columns under a wide glyph: representation detail, skipped by Draw *)
  | DPoison => false
  end.

Fixpoint row_shows (exp : list disp) (obs : list ecell) : bool :=
  match exp, obs with
  | [], [] => true
  | d :: exp', e :: obs' => ecell_shows d e && row_shows exp' obs'
  | _, _ => false
  end.

Fixpoint grid_shows (cp : caps) (next : list (list cell)) (obs : list (list ecell)) : bool :=
  match next, obs with
  | [], [] => true
  | ns :: next', row :: obs' => row_shows (view_row cp ns) row && grid_shows cp next' obs'
  | _, _ => false
  end.

(* observed cursor: row, col, visible, shape *)
Definition ecursor := (Z * Z * bool * Z)%type.
Definition cursor_shows (rows cols : Z) (c : cursor) (e : ecursor) : bool :=
  let '(r, cl, vis, shape) := e in
  if cu_vis c then vis && (r =? clampz 0 (rows - 1) (cu_row c)) && (cl =? clampz 0 (cols - 1) (cu_col c)) &&
                   (shape =? cu_style c)
  else negb vis.

(* a frame as observed: drawing calls, frame end, tokens written, emulator grid and cursor after
   the frame, host screen cells and host cursor after drawing the emulator into a host window *)
Record eframe := {
  ef_ops : list op; ef_end : frame_end; ef_toks : list tok;
  ef_grid : list (list ecell); ef_cur : ecursor;
  ef_host : list (list ecell); ef_hostcur : ecursor
}.
(* uniseg's answers, shipped with the case: a printed run and the clusters (grapheme, width)
   the real parser cut it into *)
Definition segtable := list (list Z * list (list Z * Z)).
Fixpoint lookup_seg (tbl : segtable) (run : list Z) : list (list Z * Z) :=
  match tbl with
  | [] => []
  | (r, cl) :: t => if zlist_eqb run r then cl else lookup_seg t run
  end.

(* [e_pre]: bytes the emulator received before Vaxis started (what is on the primary screen
   underneath the application) *)
Record ecase := {
  e_rows : Z; e_cols : Z; e_widths : wtable; e_segs : segtable; e_caps : list bool; e_pre : list Z;
  e_frames : list eframe
}.

Fixpoint eframes_agree (s : vstate) (fs : list eframe) : bool :=
  match fs with
  | [] => true
  | f :: t =>
      let '(s', toks) := do_frame s (ef_ops f) (ef_end f) in
      toks_eqb toks (ef_toks f) && eframes_agree s' t
  end.

(* model vs implementation: the capability set after the handshake and the tokens of every frame *)
Definition c12_mismatches (cases : list ecase) : list Z :=
  bad_indices (fun c => negb (list_eqb Bool.eqb (e_caps c) term_caps_reported &&
                              eframes_agree (vinit term_caps (e_rows c) (e_cols c)) (e_frames c))) cases.

(* a frame ended by a size change (the host resizes the emulator, Vaxis sees the new size and
   writes nothing): nothing is promised for what is on the screen then, the next frame repaints *)
Fixpoint eframes_hold (tw : list Z -> Z) (rows cols : Z) (s : vstate) (fs : list eframe) : bool :=
  match fs with
  | [] => true
  | f :: rest =>
      let s1 := fold_left apply_op (ef_ops f) s in
      match ef_end f with
      | FResize rows2 cols2 => eframes_hold tw rows2 cols2 (do_resize s1 rows2 cols2) rest
      | _ =>
        if grid_ok tw tw term_caps (v_next s1) then
          let '(s', _) := do_frame s (ef_ops f) (ef_end f) in
          grid_shows term_caps (v_next s1) (ef_grid f) && cursor_shows rows cols (v_cnext s1) (ef_cur f) &&
          grid_shows term_caps (v_next s1) (ef_host f) && cursor_shows rows cols (v_cnext s1) (ef_hostcur f) &&
          eframes_hold tw rows cols s' rest
        else true
      end
  end.

Definition c12_holds (c : ecase) : bool :=
  list_eqb Bool.eqb (e_caps c) term_caps_reported &&
  eframes_hold (lookup_w (e_widths c)) (e_rows c) (e_cols c) (vinit term_caps (e_rows c) (e_cols c)) (e_frames c).
Definition c12_violations (cases : list ecase) : list Z := bad_indices (fun c => negb (c12_holds c)) cases.
