(* Model of the key / paste half of property C13 and of the round trip through the host's input
   pipeline:
     widgets/term/key.go   encodeXterm over the five key maps and xtermKeymap (gen/GenTermKeys.v,
                           translated from key.go on every run),
     widgets/term/term.go  Model.Update (key, paste-start, paste-end, mouse),
     vaxis.go              handleSequence restricted to what the encoders can produce (keys, SGR mouse
                           reports, paste brackets, focus reports); decodeKey / Key.Matches are
                           model/Keys.v (property C09), the ANSI parser is model/Parser.v (property C02).
   Executable definitions only.

   Go strings are lists of code points on the Key side (model/Keys.v) and bytes on the PTY side;
   [utf8] converts (invalid code points become U+FFFD as in Go). *)
From Vx Require Import base.Prelude gen.GenKeys gen.GenTermKeys model.Keys model.ParserTypes model.Parser model.TermMouse.
Local Open Scope Z_scope.

(* ---------- UTF-8 encoding (string(rune), WriteRune, %c) ---------- *)
Definition utf8_enc (r : Z) : list Z := fmt_c r.
Definition utf8 (s : list Z) : list Z := flat_map utf8_enc s.

(* ---------- encodeXterm ---------- *)
Definition lookup_str (t : list (Z * list Z)) (c : Z) : option (list Z) :=
  match find (fun e => fst e =? c) t with Some e => Some (snd e) | None => None end.
Definition lookup_kc (t : list (Z * (Z * Z))) (c : Z) : option (Z * Z) :=
  match find (fun e => fst e =? c) t with Some e => Some (snd e) | None => None end.
Definition lookup_ctrl (t : list (Z * option Z)) (c : Z) : option (option Z) :=
  match find (fun e => fst e =? c) t with Some e => Some (snd e) | None => None end.

(* xtermMods: Shift, Alt, Ctrl of the key's modifiers ("ignore any kitty mods") *)
Definition xterm_mods (m : Z) : Z :=
  Z.lor (Z.lor (Z.land m ModShift) (Z.land m ModAlt)) (Z.land m ModCtrl).

(* the part of encodeXterm that runs when no Shift/Alt/Ctrl is held; None = falls through.
   First the three table lookups (function keys, cursor keys by DECCKM, keypad block by DECKPAM) ... *)
Definition encode_plain_maps (code : Z) (deckpam decckm : bool) : option (list Z) :=
  match lookup_str keymap code with
  | Some v => Some v
  | None =>
  match lookup_str (if decckm then cursorKeysApplicationMode else cursorKeysNormalMode) code with
  | Some v => Some v
  | None => lookup_str (if deckpam then applicationKeymap else numericKeymap) code
  end end.

(* ... then the text the key produced, else the key code *)
Definition encode_plain (k : key) (deckpam decckm : bool) : option (list Z) :=
  match encode_plain_maps (k_code k) deckpam decckm with
  | Some v => Some v
  | None =>
      match k_text k with
      | _ :: _ => Some (utf8 (k_text k))
      | [] => if k_code k <? MaxRune then Some (utf8_enc (k_code k)) else None
      end
  end.

(* the bytes.Buffer part: Alt prefix, Ctrl mapping, Shift *)
Definition encode_buf (u : uni) (k : key) (xm : Z) : list Z :=
  let code := k_code k in
  if code <? MaxRune then
    let esc := if land_ne0 xm ModAlt then [27] else [] in
    if land_ne0 xm ModCtrl then
      if u_lower u code then esc ++ utf8_enc (i32 (code - 96))
      else match lookup_ctrl ctrlSwitch code with
           | Some (Some w) => esc ++ utf8_enc w
           | Some None => esc
           | None => esc ++ utf8_enc (i32 (code - ctrlDefaultOffset))
           end
    else if land_ne0 xm ModShift then
      esc ++ utf8_enc (if 0 <? k_shifted k then k_shifted k else code)
    else esc ++ utf8_enc code
  else [].

Definition encode_xterm (u : uni) (k : key) (deckpam decckm : bool) : list Z :=
  let code := k_code k in
  let xm := xterm_mods (k_mods k) in
  match (if xm =? 0 then encode_plain k deckpam decckm else None) with
  | Some v => v
  | None =>
      if (code =? KeyTab) && (xm =? ModShift) then [27; 91; 90]
      else
      match lookup_kc xtermKeymap code with
      | Some (num, fin) => [27; 91] ++ dec num ++ [59] ++ dec (i64 (xm + 1)) ++ fmt_c fin
      | None =>
          if negb (match k_text k with [] => true | _ => false end)
             && (Z.land (k_mods k) ModCtrl =? 0) && (Z.land (k_mods k) ModAlt =? 0)
          then utf8 (k_text k)
          else encode_buf u k xm
      end
  end.

(* ---------- Model.Update ---------- *)
Inductive tevent :=
  | TKey (k : key)
  | TPasteStart
  | TPasteEnd
  | TMouse (m : mouse)
  | TOther.                    (* any other vaxis.Event *)

Definition paste_start_seq : list Z := [27; 91; 50; 48; 48; 126].    (* ESC [ 200 ~ *)
Definition paste_end_seq : list Z := [27; 91; 50; 48; 49; 126].      (* ESC [ 201 ~ *)

(* bytes written to the PTY *)
Definition term_update (u : uni) (md : tmodes) (e : tevent) : list Z :=
  match e with
  | TKey k => encode_xterm u k (m_deckpam md) (m_decckm md)
  | TPasteStart => if m_paste md then paste_start_seq else []
  | TPasteEnd => if m_paste md then paste_end_seq else []
  | TMouse m => handle_mouse md m
  | TOther => []
  end.

(* ---------- the child's output: from BYTES to the mode state (term.go update) ---------- *)
(* The PTY goroutine parses the child's output with the ANSI parser (model/Parser.v, property C02) and hands
   every sequence to Model.update, which dispatches CSI to csi() and ESC to esc(); print, C0, OSC, DCS, APC
   do not touch the input-related modes. *)
Definition child_item (md : tmodes) (it : item) : option tmodes :=
  match it with
  | ICsi i ps f => child_csi md i ps f
  | IEsc i f => Some (child_esc md i f)
  | _ => Some md
  end.

Fixpoint child_items (its : list item) (md : tmodes) : option tmodes :=
  match its with
  | [] => Some md
  | it :: t => match child_item md it with
               | Some md' => child_items t md'
               | None => None
               end
  end.

(* the modes of a fresh emulator after the child has written [bs] *)
Definition child_modes (bs : list Z) : option tmodes := child_items (parse_bytes bs) modes0.

(* an event handed to the embedded terminal after the child has written [bs] *)
Definition child_update (u : uni) (bs : list Z) (e : tevent) : option (list Z) :=
  match child_modes bs with Some md => Some (term_update u md e) | None => None end.

(* reading the requests off the parsed output (the first sub-parameter names the mode) *)
Definition item_req (it : item) : option creq :=
  match it with
  | ICsi i ps f => if is_decpriv i && (f =? 104) then Some (QSet (heads ps))
                   else if is_decpriv i && (f =? 108) then Some (QReset (heads ps))
                   else None
  | IEsc [] f => if f =? 61 then Some QKpam else if f =? 62 then Some QKpnm else if f =? 99 then Some QRis else None
  | _ => None
  end.
Fixpoint reqs_of (its : list item) : list creq :=
  match its with
  | [] => []
  | it :: t => match item_req it with Some r => r :: reqs_of t | None => reqs_of t end
  end.

(* ---------- the host's input pipeline (vaxis.go handleSequence) ---------- *)
Inductive hevent :=
  | HKey (k : key)
  | HMouse (m : mouse)
  | HPasteStart
  | HPasteEnd
  | HFocusIn
  | HFocusOut
  | HInternal                  (* a reply consumed by Vaxis itself (DA1, DECRPM, size reports ...) *)
  | HPanic.                    (* parseMouseEvent indexes an empty Intermediate *)

(* [seg]: grapheme clustering of a printed run (uniseg, an oracle).  A key decoded while a paste is
   pending carries EventPaste. *)
Definition mark_paste (paste : bool) (k : key) : key :=
  if paste then mkKey (k_text k) (k_code k) (k_shifted k) (k_base k) (k_mods k) EventPaste else k.

Definition is_q (inter : list Z) : bool := zlist_eqb inter [63].

(* what handleSequence does with a CSI: [CKey] = it falls through to decodeKey; otherwise the events it
   posts and the new paste-pending flag.  (A cursor-position report is not awaited: reqCursorPos = false.) *)
Inductive csi_class := CKey | CEvents (evs : list hevent) (paste' : bool).

Definition classify_csi (paste : bool) (inter : list Z) (ps : list (list Z)) (fin : Z) : csi_class :=
  let p00 := match ps with (x :: _) :: _ => Some x | _ => None end in
  if fin =? 99 then (if is_q inter then CEvents [HInternal] paste else CKey)
  else if fin =? 73 then CEvents [HFocusIn] paste
  else if fin =? 79 then CEvents [HFocusOut] paste
  else if fin =? 83 then (if is_q inter && (3 <=? zlen ps) then CEvents [HInternal] paste else CKey)
  else if fin =? 110 then (if is_q inter && (zlen ps =? 2) then CEvents [HInternal] paste else CKey)
  else if fin =? 121 then CEvents [HInternal] paste
  else if fin =? 117 then (if is_q inter then CEvents [HInternal] paste else CKey)
  else if fin =? 126 then
    match inter with
    | [] => match p00 with
            | None => CEvents [] paste
            | Some x => if x =? 200 then CEvents [HPasteStart] true
                        else if x =? 201 then CEvents [HPasteEnd] false
                        else CKey
            end
    | _ => CKey
    end
  else if (fin =? 77) || (fin =? 109) then
    match parse_mouse inter ps fin with
    | PMSome m => CEvents [HMouse m] paste
    | PMNone => CEvents [] paste
    | PMPanic => CEvents [HPanic] paste
    end
  else if fin =? 116 then CEvents [HInternal] paste
  else CKey.

Definition host_csi (u : uni) (paste : bool) (inter : list Z) (ps : list (list Z)) (fin : Z) : list hevent * bool :=
  match classify_csi paste inter ps fin with
  | CKey => ([HKey (mark_paste paste (decode_key u (SCSI inter ps fin)))], paste)
  | CEvents evs paste' => (evs, paste')
  end.

Fixpoint host_items (u : uni) (seg : list Z -> list (list Z)) (paste : bool) (its : list item) : list hevent :=
  match its with
  | [] => []
  | it :: t =>
      let k s := HKey (mark_paste paste (decode_key u s)) in
      match it with
      | IPrint rs => map (fun g => k (SPrint g)) (seg rs) ++ host_items u seg paste t
      | IC0 c => k (SC0 c) :: host_items u seg paste t
      | IEsc i f => k (SESC i f) :: host_items u seg paste t
      | ISS3 c => k (SSS3 c) :: host_items u seg paste t
      | ICsi i ps f => let '(evs, paste') := host_csi u paste i ps f in evs ++ host_items u seg paste' t
      | IPanic => HPanic :: host_items u seg paste t
      | _ => host_items u seg paste t          (* OSC, DCS, APC replies, errors, EOF: no key or mouse event *)
      end
  end.

(* what the host makes of bytes that are followed by silence (long enough for the Escape timer) *)
Definition host_read (u : uni) (seg : list Z -> list (list Z)) (bs : list Z) : list hevent :=
  host_items u seg false (parse_segments [bs; []]).

(* an event handed to the embedded terminal, written to the child, read back by a Vaxis *)
Definition forward (u : uni) (seg : list Z -> list (list Z)) (md : tmodes) (e : tevent) : list hevent :=
  host_read u seg (term_update u md e).

(* ---------- the chords the xterm legacy encoding can express (fixed before any proof) ---------- *)
(* A chord is a key event whose modifiers are Shift/Alt/Ctrl plus, possibly, the lock bits (which
   the encoder ignores and Matches strips).  [chord_mods] = the modifiers without the locks. *)
Definition chord_mods (k : key) : Z := Z.ldiff (k_mods k) 192.
Definition mods_in_scope (k : key) : bool := in_range (k_mods k) 0 255 && (Z.land (k_mods k) 56 =? 0).

(* a rune the parser prints and UTF-8 carries: not a C0 control, a valid scalar value *)
Definition printable_rune (r : Z) : bool := (32 <=? r) && rune_valid r.

(* (a) an unmodified printable key with its text *)
Definition chord_plain (k : key) : bool :=
  (chord_mods k =? 0) && printable_rune (k_code k) && negb (k_code k =? 127) && zlist_eqb (k_text k) [k_code k].
(* (b) Shift + a lower-case letter, text = the upper-case letter; or Shift + a non-letter that Shift
       does not change (Shift+Space) *)
Definition chord_shift (u : uni) (k : key) : bool :=
  (chord_mods k =? ModShift) &&
  match k_text k with
  | [s] => printable_rune s && negb (s =? 127) && printable_rune (k_code k) &&
           ((u_lower u (k_code k) && (s =? u_toupper u (k_code k)))
            || ((s =? k_code k) && negb (u_letter u s) && u_graphic u s && negb (u_upper u s)))
  | _ => false
  end.
(* (c) Alt + a character c such that ESC c is one complete escape sequence: 0x30-0x7F without the
       introducers of other control functions  O (SS3)  P (DCS)  X (SOS)  [ (CSI)  ] (OSC)  ^ (PM)  _ (APC);
       0x20-0x2F are intermediates.  No text is forwarded with Alt. *)
Definition alt_char (c : Z) : bool :=
  in_range c 48 127 && negb ((c =? 79) || (c =? 80) || (c =? 88) || (c =? 91) || (c =? 93) || (c =? 94) || (c =? 95)).
Definition chord_alt (k : key) : bool := (chord_mods k =? ModAlt) && alt_char (k_code k).
(* (d) Ctrl + a letter whose C0 code is not also Backspace (h), Tab (i) or Enter (m); Ctrl + @ \ ] ^ _ *)
Definition ctrl_letter (c : Z) : bool :=
  in_range c 97 122 && negb ((c =? 104) || (c =? 105) || (c =? 109)).
Definition ctrl_char (c : Z) : bool := ctrl_letter c || (c =? 64) || in_range c 92 95.
Definition chord_ctrl (k : key) : bool := (chord_mods k =? ModCtrl) && ctrl_char (k_code k).
(* (e) a special key of xtermKeymap with any combination of Shift/Alt/Ctrl *)
Definition special_keys : list Z := map fst xtermKeymap.
Definition chord_special (k : key) : bool :=
  existsb (Z.eqb (k_code k)) special_keys && in_range (chord_mods k) 0 7.
(* (f) Tab, Enter, Esc, Backspace unmodified (they carry no text); Shift+Tab (back-tab); Alt+Backspace is in (c) *)
Definition no_text (k : key) : bool := match k_text k with [] => true | _ => false end.
Definition chord_c0 (k : key) : bool :=
  no_text k &&
  (((chord_mods k =? 0) && ((k_code k =? KeyTab) || (k_code k =? KeyEnter) || (k_code k =? KeyEsc) || (k_code k =? KeyBackspace)))
   || ((chord_mods k =? ModShift) && (k_code k =? KeyTab))).

Definition xterm_expressible (u : uni) (k : key) : bool :=
  mods_in_scope k &&
  (chord_plain k || chord_shift u k || chord_alt k || chord_ctrl k || chord_special k || chord_c0 k).

(* the round-trip property on one observation: exactly one key event arrives, it Matches the chord's
   key code and modifiers, and its modifiers other than Shift are the chord's *)
Definition roundtrip_ok (u : uni) (k : key) (evs : list hevent) : bool :=
  match evs with
  | [HKey k'] => matches u k' (k_code k) (k_mods k)
                 && (nonshift (strip_locks (k_mods k')) =? nonshift (chord_mods k))
                 && (k_event k' =? EventPress)
  | _ => false
  end.

(* text-producing chords keep their text *)
Definition text_ok (k : key) (evs : list hevent) : bool :=
  match evs with
  | [HKey k'] => zlist_eqb (k_text k') (k_text k)
  | _ => false
  end.

(* Any key that produced one printable code point of text with at most Shift held (Caps Lock, AltGr,
   compose, Shift+digit ...): the text arrives, and the event matches the text rune without modifiers
   (the key code itself is not expressible: the legacy encoding sends the character) *)
Definition chord_text (k : key) : bool :=
  ((chord_mods k =? 0) || (chord_mods k =? ModShift)) && printable_rune (k_code k) &&
  match k_text k with
  | [t] => printable_rune t && negb (t =? 127)
  | _ => false
  end.
Definition textchord_ok (u : uni) (k : key) (evs : list hevent) : bool :=
  match evs, k_text k with
  | [HKey k'], [t] => zlist_eqb (k_text k') [t] && matches u k' t 0 && (k_event k' =? EventPress)
  | _, _ => false
  end.

(* the C0 code xterm sends for Ctrl + an ASCII character (xterm ctlseqs / VT220), written by hand *)
Definition xterm_ctrl_code (c : Z) : option Z :=
  if (c =? 32) || (c =? 50) then Some 0
  else if in_range c 51 55 then Some (c - 24)
  else if (c =? 47) then Some 31
  else if (c =? 56) || (c =? 63) then Some 127
  else if in_range c 64 95 then Some (c - 64)
  else if in_range c 97 122 then Some (c - 96)
  else None.
Definition ctrl_code_ok (k : key) (bytes : list Z) : bool :=
  if chord_mods k =? ModCtrl then
    match xterm_ctrl_code (k_code k) with Some b => zlist_eqb bytes [b] | None => true end
  else true.

(* cursor keys: the standard finals (VT100 / xterm), written by hand *)
Definition cursor_finals : list (Z * Z) :=
  [(KeyUp, 65); (KeyDown, 66); (KeyRight, 67); (KeyLeft, 68); (KeyEnd, 70); (KeyHome, 72)].

Definition cursor_mode_ok (k : key) (decckm : bool) (bytes : list Z) : bool :=
  match lookup1 cursor_finals (k_code k) with
  | Some x => if xterm_mods (k_mods k) =? 0
              then zlist_eqb bytes [27; (if decckm then 79 else 91); x]
              else true
  | None => true
  end.

(* ---------- executable oracles for the case files ---------- *)
(* grapheme clustering shipped with the case: [segs] is uniseg's clustering of the whole output when
   it is text; any other run is clustered rune by rune *)
Definition seg_of (segs : list (list Z)) (rs : list Z) : list (list Z) :=
  if zlist_eqb (concat segs) rs then segs else map (fun r => [r]) rs.

(* ---------- correspondence streams ---------- *)
Definition hevent_eqb (a b : hevent) : bool :=
  match a, b with
  | HKey x, HKey y => key_eqb x y
  | HMouse x, HMouse y => mouse_eqb x y
  | HPasteStart, HPasteStart | HPasteEnd, HPasteEnd | HFocusIn, HFocusIn | HFocusOut, HFocusOut
  | HInternal, HInternal | HPanic, HPanic => true
  | _, _ => false
  end.
Definition hevents_eqb := list_eqb hevent_eqb.

(* the harness marks the end of a case's bytes with a focus-in report (ESC [ I), after a pause when
   [pause] is set; what the host posted before that report is the observation *)
Definition sentinel : list Z := [27; 91; 73].
Definition host_read_marked (u : uni) (seg : list Z -> list (list Z)) (pause : bool) (bs : list Z) : option (list hevent) :=
  let evs := host_items u seg false (parse_segments (if pause then [bs; sentinel] else [bs ++ sentinel])) in
  match rev evs with
  | HFocusIn :: r => Some (rev r)
  | _ => None
  end.

(* key stream: (oracle table, clustering of the output, ops from the child, key, pause,
                modes snapshot, bytes written, events read back by a real Vaxis (None = not re-read)) *)
Definition key_case := (utab * list (list Z) * list modeop * key * bool * tmodes * list Z * option (list hevent))%type.

Definition rune_covered (t : utab) (r : Z) : bool :=
  covered t r && covered t (u_toupper (uni_of t) r) && covered t (u_tolower (uni_of t) r).
Definition key_covered (t : utab) (k : key) (bytes : list Z) : bool :=
  forallb (rune_covered t) (k_code k :: k_shifted k :: k_text k ++ decode_all bytes).

Definition c13_key_mismatches (cases : list key_case) : list Z :=
  bad_indices (fun c =>
    let '(t, segs, ops, k, pause, md, bytes, evs) := c in
    let u := uni_of t in
    negb (key_covered t k bytes)
    || negb (modes_eqb (apply_ops ops) md)
    || negb (zlist_eqb (term_update u (apply_ops ops) (TKey k)) bytes)
    || match evs with
       | Some evs => match host_read_marked u (seg_of segs) pause bytes with
                     | Some m => negb (hevents_eqb m evs)
                     | None => true
                     end
       | None => false
       end) cases.

(* the property on one observed key: [md] = the modes the child selected *)
Definition key_violation (u : uni) (k : key) (md : tmodes) (bytes : list Z) (evs : option (list hevent)) : bool :=
  negb (cursor_mode_ok k (m_decckm md) bytes)
  || (mods_in_scope k && negb (ctrl_code_ok k bytes))
  || (mods_in_scope k && chord_text k && match evs with Some evs => negb (textchord_ok u k evs) | None => true end)
  || (xterm_expressible u k &&
      match evs with
      | Some evs => negb (roundtrip_ok u k evs)
                    || ((chord_plain k || chord_shift u k) && negb (text_ok k evs))
      | None => true
      end).

Definition c13_key_violations (cases : list key_case) : list Z :=
  bad_indices (fun c =>
    let '(t, segs, ops, k, pause, md, bytes, evs) := c in
    key_violation (uni_of t) k md bytes evs) cases.

(* mouse / paste stream: (ops, event, modes snapshot, bytes written, events read back (None = not re-read)) *)
Definition mouse_case := (list modeop * tevent * tmodes * list Z * option (list hevent))%type.

Definition c13_mouse_mismatches (cases : list mouse_case) : list Z :=
  bad_indices (fun c =>
    let '(ops, e, md, bytes, evs) := c in
    negb (modes_eqb (apply_ops ops) md)
    || negb (zlist_eqb (term_update ascii_uni (apply_ops ops) e) bytes)
    || match evs with
       | Some evs => match host_read_marked ascii_uni (seg_of []) false bytes with
                     | Some m => negb (hevents_eqb m evs)
                     | None => true
                     end
       | None => false
       end) cases.

Definition in_i63 (x : Z) : bool := (0 <=? x) && (x <? 9223372036854775807).

(* the property on one observed mouse event / paste boundary: [md] = the modes the child selected *)
Definition event_violation (md : tmodes) (e : tevent) (bytes : list Z) (evs : option (list hevent)) : bool :=
  match e with
  | TMouse m =>
      if negb ((ms_type m =? EventPress) || (ms_type m =? EventRelease) || (ms_type m =? EventMotion)) then false
      else if mouse_enabled md m then
        (* enabled and SGR: the same button, position and type arrive *)
        m_sgr md && button_ok (ms_button m) && in_i63 (ms_col m) && in_i63 (ms_row m) &&
        match evs with
        | Some [HMouse m'] =>
            negb ((ms_button m' =? ms_button m) && (ms_col m' =? ms_col m) && (ms_row m' =? ms_row m)
                  && (ms_type m' =? ms_type m))
        | _ => true
        end
      else if altscroll_applies md m then
        negb (zlist_eqb bytes (if ms_button m =? MouseWheelUp then ss3_up ++ ss3_up ++ ss3_up
                               else ss3_down ++ ss3_down ++ ss3_down))
      else negb (zlist_eqb bytes [])
  | TPasteStart =>
      if m_paste md then negb (match evs with Some [HPasteStart] => true | _ => false end)
      else negb (zlist_eqb bytes [])
  | TPasteEnd =>
      if m_paste md then negb (match evs with Some [HPasteEnd] => true | _ => false end)
      else negb (zlist_eqb bytes [])
  | _ => false
  end.

Definition c13_mouse_violations (cases : list mouse_case) : list Z :=
  bad_indices (fun c => let '(ops, e, md, bytes, evs) := c in event_violation md e bytes evs) cases.

(* child stream: (the mode requests the generator put into the child's output, the child's output (bytes),
                  event, pause, the emulator's DECRQM replies for [reported_modes], bytes written for the
                  event, events read back by a real Vaxis (None = not re-read)).
   Mismatches: the model reads the same requests out of the bytes (parser of C02), predicts the DECRQM
   replies and the bytes written, and the host model the events read back.
   Violations are decided from the REQUESTS, not from the emulator's mode state: the modes the child asked for
   (its last word on each mode) against what was written and what arrived. *)
Definition child_case := (list creq * list Z * tevent * bool * list Z * list Z * option (list hevent))%type.

Definition c13_child_mismatches (cases : list child_case) : list Z :=
  bad_indices (fun c =>
    let '(reqs, out, e, pause, report, bytes, evs) := c in
    let its := parse_bytes out in
    negb (list_eqb creq_eqb (reqs_of its) reqs)
    || match e with TKey k => negb (key_covered [] k bytes) | _ => false end
    || match child_items its modes0 with
       | None => true
       | Some md => negb (zlist_eqb (mode_report md) report)
                    || negb (zlist_eqb (term_update ascii_uni md e) bytes)
       end
    || match evs with
       | Some evs => match host_read_marked ascii_uni (seg_of []) pause bytes with
                     | Some m => negb (hevents_eqb m evs)
                     | None => true
                     end
       | None => false
       end) cases.

Definition c13_child_violations (cases : list child_case) : list Z :=
  bad_indices (fun c =>
    let '(reqs, out, e, pause, report, bytes, evs) := c in
    let md := asked reqs in
    match e with
    | TKey k => key_violation ascii_uni k md bytes evs
    | _ => event_violation md e bytes evs
    end) cases.

(* keypad stream: (oracle table, key, DECCKM, bytes written under DECKPNM, bytes written under DECKPAM).
   The property as written: for a keypad key the child's keypad mode selects the encoding, i.e. the
   application-keypad encoding differs from the numeric one. *)
Definition keypad_case := (utab * key * bool * list Z * list Z)%type.

Definition is_keypad_key (c : Z) : bool := in_range c KeyKeyPad0 KeyKeyPadBegin.
Definition keypad_guard (k : key) : bool := is_keypad_key (k_code k) && (xterm_mods (k_mods k) =? 0).

Definition c13_keypad_mismatches (cases : list keypad_case) : list Z :=
  bad_indices (fun c =>
    let '(t, k, ck, bn, ba) := c in
    let u := uni_of t in
    negb (key_covered t k (bn ++ ba))
    || negb (zlist_eqb (encode_xterm u k false ck) bn)
    || negb (zlist_eqb (encode_xterm u k true ck) ba)) cases.

Definition c13_keypad_violations (cases : list keypad_case) : list Z :=
  bad_indices (fun c => let '(t, k, ck, bn, ba) := c in keypad_guard k && zlist_eqb bn ba) cases.

(* the cases under the guard of the recorded finding keypad-mode-ignored *)
Definition c13_keypad_known (cases : list keypad_case) : list Z :=
  bad_indices (fun c => let '(t, k, ck, bn, ba) := c in keypad_guard k) cases.
