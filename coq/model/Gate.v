(* C07: the renderer's vocabulary is gated by the advertised capabilities; the
   capabilities reported are those advertised.  Definitions only. *)
From Vx Require Import base.Prelude model.Colour model.RenderTypes model.Render.

(* tokens a terminal with capabilities [cp] understands: the baseline xterm vocabulary
   plus what each capability unlocks *)
Definition allowed (cp : caps) (k : tok) : bool :=
  match k with
  | KFg ps | KBg ps => cap_rgb cp || (zlen ps <=? 1)           (* direct colour only with RGB *)
  | KUl ps => cap_styled_ul cp && (cap_rgb cp || (zlen ps <=? 1))  (* underline colour only with styled underlines *)
  | KUlStyle _ => cap_styled_ul cp                              (* 4:n only with styled underlines *)
  | KTextW _ _ => cap_explicit_width cp                         (* OSC 66 only when advertised *)
  | KSyncOn | KSyncOff => cap_sync cp                           (* mode 2026 only when advertised *)
  | KSgr n => existsb (Z.eqb n) [1; 2; 3; 4; 5; 7; 8; 9; 22; 23; 24; 25; 27; 28; 29]
  | _ => true
  end.

(* an indexed fallback colour is a palette index 16..255 or one the application gave *)
Definition frame_allowed (cp : caps) (toks : list tok) : bool := forallb (allowed cp) toks.

(* ---- correspondence ---- *)
(* gate stream: (advertised caps, all tokens Vaxis wrote for some frames) *)
Definition c07_gate_violations (cases : list (caps * list tok)) : list Z :=
  bad_indices (fun c => negb (frame_allowed (fst c) (snd c))) cases.

(* caps stream: which replies the terminal gave (a bit list in the order below) and which
   capabilities Vaxis then reports (same order):
   sync, unicode core, colour theme, in-band resize, kitty keyboard, kitty graphics, sixel,
   report size (chars), report size (pixels), explicit width, rgb, styled underlines,
   osc4, osc10, osc11, osc176 *)
Record adv := {
  a_sync : bool; a_unicode : bool; a_theme : bool; a_inband : bool; a_kittykb : bool; a_kittygfx : bool;
  a_sixel : bool; a_size : bool; a_width : bool; a_rgb : bool; a_smulx : bool; a_osc4 : bool;
  a_osc10 : bool; a_osc11 : bool; a_osc176 : bool; a_vte : bool
}.
Definition caps_expected (a : adv) : list bool :=
  [a_sync a; a_unicode a; a_theme a; a_inband a; a_kittykb a; a_kittygfx a; a_sixel a; a_size a; a_size a;
   a_width a; a_rgb a; a_smulx a || a_vte a; a_osc4 a; a_osc10 a; a_osc11 a; a_osc176 a].
Definition bools_eqb := list_eqb Bool.eqb.
Definition c07_caps_violations (cases : list (adv * list bool)) : list Z :=
  bad_indices (fun c => negb (bools_eqb (caps_expected (fst c)) (snd c))) cases.

(* ---- which width method RenderedWidth uses (gwidth.go, vaxis.go RenderedWidth) ---- *)
Inductive wmethod := Wcwidth | NoZWJ | UnicodeStd.
Definition width_method (unicode_core explicit_width no_zwj : bool) : wmethod :=
  if unicode_core || explicit_width then UnicodeStd else if no_zwj then NoZWJ else Wcwidth.
(* a probe grapheme with its width under each method (computed by the library's gwidth) *)
Definition probe_width (m : wmethod) (w : Z * Z * Z) : Z :=
  let '(wc, nz, un) := w in match m with Wcwidth => wc | NoZWJ => nz | UnicodeStd => un end.
(* case: (unicode core, explicit width, noZWJ) as Vaxis reports them, per-probe widths under the
   three methods, and what RenderedWidth returned for each probe *)
Definition c07_width_violations (cases : list (bool * bool * bool * list (Z * Z * Z) * list Z)) : list Z :=
  bad_indices (fun c => let '(u, e, n, probes, obs) := c in
                        negb (zlist_eqb (map (probe_width (width_method u e n)) probes) obs)) cases.
