(* C17 model: vxfw/textfield/textfield.go (TextField) and widgets/textinput/textinput.go
   (Model), as they are in /repo (with the two fixes recorded in the report).
   Executable definitions only.

   Oracles (third-party code, never modelled):
     seg   : the clusters produced by iterating uniseg.FirstGraphemeClusterInString
             over a string (None = the oracle's answer for this string is not known);
     chars : vaxis.Characters / DrawContext.Characters (clusters with measured width);
     alnum : unicode.IsLetter r || unicode.IsNumber r.
   For execution the harness ships the oracle's answers inside each case. *)
From Vx Require Import base.Prelude base.ListX model.IdealEditor.

Definition cluster := (text * Z)%type.          (* runes of one grapheme cluster, measured width *)
Definition cl_text (cs : list cluster) : text := concat (map fst cs).
Definition cl_width (cs : list cluster) : Z := fold_right (fun c a => snd c + a) 0 cs.

Definition cluster_eqb (a b : cluster) : bool := zlist_eqb (fst a) (fst b) && (snd a =? snd b).
Definition clusters_eqb := list_eqb cluster_eqb.
Definition texts_eqb := list_eqb zlist_eqb.

Definition scrolloff : Z := 4.

(* ===================================================================== TextField *)

Record tf := mkTf { tf_value : text; tf_cursor : Z; tf_n : Z }.
Definition tf_empty : tf := mkTf [] 0 0.

Inductive tf_key := TkHome | TkEnd | TkRight | TkLeft | TkDelete | TkBackspace | TkKill | TkEnter.

(* What reaches the widget.  Key decoding/matching is C09's; here the dispatch of
   HandleEvent is an abstract alphabet: *)
Inductive tf_op :=
| TText (s : text)        (* key press/repeat with non-empty Text: inserted *)
| TKey (k : tf_key)       (* a bound key without Text *)
| TIgnored                (* key release, unbound key without Text, or a non-key event *)
| TInsertApi (s : text)   (* InsertStringAtCursor(s) *)
| TCursorToApi (i : Z)    (* CursorTo(i), i : uint *)
| TDeleteRightApi | TDeleteLeftApi | TKillApi | TResetApi
| TSetValue (s : text).   (* assignment to the exported field Value *)

Inductive cb := CbChange (v : text) | CbSubmit (v : text).

Section TextField.
  Variable seg : text -> option (list text).

  (* insertStringAtCursor's loop: copy clusters while i < cursor, then s, then the rest *)
  Fixpoint ins_walk (cs : list text) (i cursor : Z) (s : text) : text :=
    match cs with
    | c :: t => if i <? cursor then c ++ ins_walk t (i + 1) cursor s else s ++ concat cs
    | [] => s
    end.

  Definition tf_insert_raw (st : tf) (s : text) : option tf :=
    match seg s, seg (tf_value st) with
    | Some ks, Some cs =>
        Some (mkTf (ins_walk cs 0 (tf_cursor st) s) (tf_cursor st + zlen ks) (tf_n st))
    | _, _ => None
    end.

  (* tf.n = graphemeCountInString(tf.Value) *)
  Definition tf_recount (st : tf) : option tf :=
    match seg (tf_value st) with
    | Some cs => Some (mkTf (tf_value st) (tf_cursor st) (zlen cs))
    | None => None
    end.

  Definition tf_InsertStringAtCursor (st : tf) (s : text) : option tf :=
    match tf_insert_raw st s with
    | Some st1 => tf_recount st1
    | None => None
    end.

  Definition tf_CursorTo (st : tf) (i : Z) : tf :=
    let i' := if tf_n st <? i then tf_n st else i in
    mkTf (tf_value st) i' (tf_n st).      (* "if i == cursor return nil" changes nothing *)

  (* DeleteCharRightOfCursor's loop: the cluster with index = cursor is skipped *)
  Fixpoint del_right_walk (cs : list text) (i cursor : Z) : text :=
    match cs with
    | c :: t => if i =? cursor then del_right_walk t (i + 1) cursor
                else c ++ del_right_walk t (i + 1) cursor
    | [] => []
    end.
  (* DeleteCharLeftOfCursor's loop: i is incremented before the comparison *)
  Fixpoint del_left_walk (cs : list text) (i cursor : Z) : text :=
    match cs with
    | c :: t => if i + 1 =? cursor then del_left_walk t (i + 1) cursor
                else c ++ del_left_walk t (i + 1) cursor
    | [] => []
    end.
  (* DeleteCursorToEndOfLine's loop: stop at the cluster with index = cursor *)
  Fixpoint kill_walk (cs : list text) (i cursor : Z) : text :=
    match cs with
    | c :: t => if i =? cursor then [] else c ++ kill_walk t (i + 1) cursor
    | [] => []
    end.

  (* each deletion recounts n after rewriting Value (the fix) *)
  Definition tf_DeleteRight (st : tf) : option tf :=
    if tf_n st =? tf_cursor st then Some st
    else match seg (tf_value st) with
         | Some cs => tf_recount (mkTf (del_right_walk cs 0 (tf_cursor st)) (tf_cursor st) (tf_n st))
         | None => None
         end.
  Definition tf_DeleteLeft (st : tf) : option tf :=
    if tf_cursor st =? 0 then Some st
    else match seg (tf_value st) with
         | Some cs =>
             match tf_recount (mkTf (del_left_walk cs 0 (tf_cursor st)) (tf_cursor st) (tf_n st)) with
             | Some st1 => Some (mkTf (tf_value st1) (tf_cursor st1 - 1) (tf_n st1))
             | None => None
             end
         | None => None
         end.
  Definition tf_Kill (st : tf) : option tf :=
    if tf_cursor st =? tf_n st then Some st
    else match seg (tf_value st) with
         | Some cs => tf_recount (mkTf (kill_walk cs 0 (tf_cursor st)) (tf_cursor st) (tf_n st))
         | None => None
         end.

  (* checkChanged: OnChange fires iff Value differs from what it was before *)
  Definition tf_check_changed (pre : text) (r : option tf) : option (tf * list cb) :=
    match r with
    | Some st => Some (st, if zlist_eqb (tf_value st) pre then [] else [CbChange (tf_value st)])
    | None => None
    end.

  Definition tf_quiet (r : option tf) : option (tf * list cb) :=
    match r with Some st => Some (st, []) | None => None end.

  (* HandleEvent and the exported methods; both callbacks are installed *)
  Definition tf_handle (st : tf) (o : tf_op) : option (tf * list cb) :=
    match o with
    | TText s => tf_check_changed (tf_value st) (tf_InsertStringAtCursor st s)
    | TKey TkHome => Some (tf_CursorTo st 0, [])
    | TKey TkEnd => Some (tf_CursorTo st (tf_n st), [])
    | TKey TkRight => Some (tf_CursorTo st (tf_cursor st + 1), [])
    | TKey TkLeft => if tf_cursor st =? 0 then Some (st, []) else Some (tf_CursorTo st (tf_cursor st - 1), [])
    | TKey TkDelete => tf_check_changed (tf_value st) (tf_DeleteRight st)
    | TKey TkBackspace => tf_check_changed (tf_value st) (tf_DeleteLeft st)
    | TKey TkKill => tf_check_changed (tf_value st) (tf_Kill st)
    | TKey TkEnter => Some (tf_empty, [CbSubmit (tf_value st)])     (* OnSubmit(Value); deferred Reset *)
    | TIgnored => Some (st, [])
    | TInsertApi s => tf_quiet (tf_InsertStringAtCursor st s)
    | TCursorToApi i => Some (tf_CursorTo st i, [])
    | TDeleteRightApi => tf_quiet (tf_DeleteRight st)
    | TDeleteLeftApi => tf_quiet (tf_DeleteLeft st)
    | TKillApi => tf_quiet (tf_Kill st)
    | TResetApi => Some (tf_empty, [])
    | TSetValue s => Some (mkTf s (tf_cursor st) (tf_n st), [])
    end.

  Fixpoint tf_run (st : tf) (os : list tf_op) : option (tf * list cb) :=
    match os with
    | [] => Some (st, [])
    | o :: r => match tf_handle st o with
                | Some (st1, l1) => match tf_run st1 r with
                                    | Some (st2, l2) => Some (st2, l1 ++ l2)
                                    | None => None
                                    end
                | None => None
                end
    end.
End TextField.

(* TextField.Draw: the column of the cursor of the returned surface (uint16 arithmetic as
   in the code); -1 = the empty Surface{} without a cursor (Max.Width or Max.Height = 0) *)
Fixpoint tf_draw_walk (cs : list cluster) (i col ccol cursor : Z) : Z * Z * Z :=
  match cs with
  | [] => (i, col, ccol)
  | c :: t => let col' := u16 (col + u16 (snd c)) in
              tf_draw_walk t (i + 1) col' (if i + 1 =? cursor then col' else ccol) cursor
  end.

Definition tf_draw (chars : text -> option (list cluster)) (st : tf) (maxw maxh : Z) : option Z :=
  if (maxw =? 0) || (maxh =? 0) then Some (-1)
  else match chars (tf_value st) with
       | Some cs => let '(i, col, ccol) := tf_draw_walk cs 0 0 0 (tf_cursor st) in
                    Some (if i <? tf_cursor st then col else ccol)
       | None => None
       end.

(* ===================================================================== textinput *)

Record ti := mkTi { ti_content : list cluster; ti_cursor : Z; ti_offset : Z;
                    ti_paste : text; ti_prompt : list cluster }.
Definition ti_new (prompt : list cluster) : ti := mkTi [] 0 0 [] prompt.

Inductive ti_key := IkHome | IkEnd | IkRight | IkLeft | IkWordF | IkWordB | IkDelete
                  | IkKillEnd | IkKillStart | IkBackspace | IkKillWord.

Inductive ti_ev :=
| EPasteEnd                              (* vaxis.PasteEndEvent *)
| ERelease                               (* key release *)
| EPasteChunk (s : text)                 (* key with EventType = EventPaste *)
| EKey (k : ti_key)                      (* key whose String() is one of the bound names *)
| EDefault (modified : bool) (s : text)  (* any other key press: Ctrl/Alt/Super held?, its Text *)
| EOther.                                (* any other event type *)

Inductive ti_op := OEv (e : ti_ev) | OSetContent (s : text) | ODraw (winW : Z).

Inductive draw_res :=
| DrawHang                                   (* the scroll loop does not terminate *)
| DrawDone (offset : Z) (shown : option Z).  (* new offset; column given to ShowCursor, if reached *)

(* slices.Insert(s, i, vs...): panics unless 0 <= i <= len(s) *)
Definition zinsert {A} (l : list A) (i : Z) (vs : list A) : option (list A) :=
  if (i <? 0) || (zlen l <? i) then None
  else Some (firstn (Z.to_nat i) l ++ vs ++ skipn (Z.to_nat i) l).

(* the elements l[i], l[i-1], ..., l[0] a downward loop "for j := i; j >= 0; j--" reads;
   None = the first access l[i] is out of range *)
Definition zdown {A} (l : list A) (i : Z) : option (list A) :=
  if i <? 0 then Some [] else if zlen l <=? i then None else Some (rev (firstn (Z.to_nat (i + 1)) l)).
(* the elements l[i], l[i+1], ... an upward loop "for j := i; j < len(l); j++" reads *)
Definition zup {A} (l : list A) (i : Z) : option (list A) :=
  if zlen l <=? i then Some [] else if i <? 0 then None else Some (skipn (Z.to_nat i) l).

Section TextInput.
  Variable chars : text -> option (list cluster).
  Variable alnum : Z -> bool.

  (* isAlphaNumeric: runes[0] panics on an empty grapheme *)
  Definition is_alnum (c : cluster) : option bool :=
    match fst c with
    | [] => None
    | [r] => Some (alnum r)
    | _ => Some false
    end.

  (* "for ...: if isAlphaNumeric(c) == want { cursor += d; continue }; break" over the
     elements the loop reads, in reading order *)
  Fixpoint skip_while (want : bool) (d : Z) (l : list cluster) (cur : Z) : option Z :=
    match l with
    | [] => Some cur
    | c :: t => match is_alnum c with
                | None => None
                | Some b => if Bool.eqb b want then skip_while want d t (cur + d) else Some cur
                end
    end.
  (* second loop of "backward one word": as above for alphanumerics, but the break
     branch first does cursor += 1 *)
  Fixpoint back_word2 (l : list cluster) (cur : Z) : option Z :=
    match l with
    | [] => Some cur
    | c :: t => match is_alnum c with
                | None => None
                | Some true => back_word2 t (cur - 1)
                | Some false => Some (cur + 1)
                end
    end.

  Fixpoint ins_each (content : list cluster) (cur : Z) (cs : list cluster) : option (list cluster * Z) :=
    match cs with
    | [] => Some (content, cur)
    | c :: t => match zinsert content cur [c] with
                | Some content' => ins_each content' (cur + 1) t
                | None => None
                end
    end.

  Definition ti_set (m : ti) (content : list cluster) (cur : Z) : ti :=
    mkTi content cur (ti_offset m) (ti_paste m) (ti_prompt m).

  (* the switch of Update; the boolean is true when the branch executes "return"
     (skipping the clamps at the end of Update) *)
  Definition ti_update_body (m : ti) (e : ti_ev) : option (ti * bool) :=
    let content := ti_content m in
    let cur := ti_cursor m in
    let len := zlen content in
    match e with
    | EPasteEnd =>
        match chars (ti_paste m) with
        | Some cs => match zinsert content cur cs with
                     | Some content' => Some (mkTi content' (cur + zlen cs) (ti_offset m) [] (ti_prompt m), false)
                     | None => None
                     end
        | None => None
        end
    | ERelease => Some (m, true)
    | EPasteChunk s => Some (mkTi content cur (ti_offset m) (ti_paste m ++ s) (ti_prompt m), true)
    | EKey IkHome => Some (ti_set m content 0, false)
    | EKey IkEnd => Some (ti_set m content len, false)
    | EKey IkRight => Some (ti_set m content (cur + 1), false)
    | EKey IkLeft => Some (ti_set m content (cur - 1), false)
    | EKey IkWordF =>
        match zup content cur with
        | Some l1 => match skip_while false 1 l1 cur with
                     | Some c1 => match zup content c1 with
                                  | Some l2 => match skip_while true 1 l2 c1 with
                                               | Some c2 => Some (ti_set m content c2, false)
                                               | None => None
                                               end
                                  | None => None
                                  end
                     | None => None
                     end
        | None => None
        end
    | EKey IkWordB =>
        let c0 := cur - 1 in
        let c0 := if len <=? c0 then len - 1 else c0 in
        match zdown content c0 with
        | Some l1 => match skip_while false (-1) l1 c0 with
                     | Some c1 => match zdown content c1 with
                                  | Some l2 => match back_word2 l2 c1 with
                                               | Some c2 => Some (ti_set m content c2, false)
                                               | None => None
                                               end
                                  | None => None
                                  end
                     | None => None
                     end
        | None => None
        end
    | EKey IkDelete =>
        if cur =? len then
          match zslice content 0 cur with Some a => Some (ti_set m a cur, false) | None => None end
        else
          match zslice content 0 cur, zslice content (cur + 1) len with
          | Some a, Some b => Some (ti_set m (a ++ b) cur, false)
          | _, _ => None
          end
    | EKey IkKillEnd =>
        match zslice content 0 cur with Some a => Some (ti_set m a cur, false) | None => None end
    | EKey IkKillStart =>
        match zslice content cur len with Some b => Some (ti_set m b 0, false) | None => None end
    | EKey IkBackspace =>
        if cur =? 0 then Some (m, true)
        else if cur =? len then
          match zslice content 0 (cur - 1) with Some a => Some (ti_set m a (cur - 1), false) | None => None end
        else
          match zslice content 0 (cur - 1), zslice content cur len with
          | Some a, Some b => Some (ti_set m (a ++ b) (cur - 1), false)
          | _, _ => None
          end
    | EKey IkKillWord =>
        if cur =? 0 then Some (m, true)
        else
          match zdown content (cur - 1) with
          | Some l1 => match skip_while false (-1) l1 cur with
                       | Some c1 => match zdown content (c1 - 1) with
                                    | Some l2 => match skip_while true (-1) l2 c1 with
                                                 | Some c2 =>
                                                     match zslice content 0 c2, zslice content cur len with
                                                     | Some a, Some b => Some (ti_set m (a ++ b) c2, false)
                                                     | _, _ => None
                                                     end
                                                 | None => None
                                                 end
                                    | None => None
                                    end
                       | None => None
                       end
          | None => None
          end
    | EDefault modified s =>
        if modified then Some (m, true)
        else match s with
             | [] => Some (m, false)
             | _ => match chars s with
                    | Some cs => match ins_each content cur cs with
                                 | Some (content', cur') => Some (ti_set m content' cur', false)
                                 | None => None
                                 end
                    | None => None
                    end
             end
    | EOther => Some (m, false)
    end.

  Definition ti_clamp (m : ti) : ti :=
    let len := zlen (ti_content m) in
    let c := if len <? ti_cursor m then len else ti_cursor m in
    let c := if c <? 0 then 0 else c in
    ti_set m (ti_content m) c.

  Definition ti_update (m : ti) (e : ti_ev) : option ti :=
    match ti_update_body m e with
    | Some (m', true) => Some m'
    | Some (m', false) => Some (ti_clamp m')
    | None => None
    end.

  Definition ti_set_content (m : ti) (s : text) : option ti :=
    match chars s with
    | Some cs => Some (ti_set m cs (zlen cs))
    | None => None
    end.

  (* ---------- Draw ---------- *)

  (* widthToCursor *)
  Fixpoint wtc (cs : list cluster) (i cursor offset w : Z) : Z :=
    match cs with
    | [] => w
    | ch :: t => if i <? offset then wtc t (i + 1) cursor offset w
                 else let w' := w + snd ch in
                      if i =? cursor then w' else wtc t (i + 1) cursor offset w'
    end.
  Definition width_to_cursor (cs : list cluster) (cursor offset : Z) : Z := wtc cs 0 cursor offset 0.

  (* the prompt loop: None = Draw returned from inside it (col >= winW) *)
  Fixpoint prompt_walk (p : list cluster) (col winW : Z) : option Z :=
    match p with
    | [] => Some col
    | ch :: t => let col' := col + snd ch in if col' >=? winW then None else prompt_walk t col' winW
    end.

  (* "for widthToCursor(chars, cursor, offset)+col+scrolloff >= winW && offset < cursor
      { offset += 1 }"  (the second conjunct is the fix); None = out of fuel *)
  Fixpoint scroll_loop (fuel : nat) (cs : list cluster) (cursor offset col winW : Z) : option Z :=
    if (width_to_cursor cs cursor offset + col + scrolloff >=? winW) && (offset <? cursor)
    then match fuel with
         | O => None
         | S f => scroll_loop f cs cursor (offset + 1) col winW
         end
    else Some offset.

  (* the code before the fix, kept to state what the fix changes *)
  Fixpoint scroll_loop_orig (fuel : nat) (cs : list cluster) (cursor offset col winW : Z) : option Z :=
    if (width_to_cursor cs cursor offset + col + scrolloff >=? winW)
    then match fuel with
         | O => None
         | S f => scroll_loop_orig f cs cursor (offset + 1) col winW
         end
    else Some offset.

  (* the cell loop, reduced to what decides the cursor column *)
  Fixpoint draw_walk (cs : list cluster) (i col ccol cursor offset winW : Z) : Z :=
    match cs with
    | [] => ccol
    | ch :: t => if i <? offset then draw_walk t (i + 1) col ccol cursor offset winW
                 else let ccol' := if i + 1 =? cursor then col + snd ch else ccol in
                      let col' := col + snd ch in
                      if col' >=? winW then ccol' else draw_walk t (i + 1) col' ccol' cursor offset winW
    end.

  Definition scroll_fuel (m : ti) : nat := S (Z.to_nat (ti_cursor m - ti_offset m)).

  Definition scroll_back (cursor offset : Z) : Z :=
    let o := if cursor - scrolloff - offset <? 0 then cursor - scrolloff else offset in
    if o <? 0 then 0 else o.

  Definition ti_draw (m : ti) (winW : Z) : draw_res :=
    if winW =? 0 then DrawDone (ti_offset m) None
    else match prompt_walk (ti_prompt m) 0 winW with
         | None => DrawDone (ti_offset m) None
         | Some col =>
             match scroll_loop (scroll_fuel m) (ti_content m) (ti_cursor m) (ti_offset m) col winW with
             | None => DrawHang
             | Some o1 =>
                 let o2 := scroll_back (ti_cursor m) o1 in
                 DrawDone o2 (Some (draw_walk (ti_content m) 0 col col (ti_cursor m) o2 winW))
             end
         end.

  (* one operation; the second component is what Draw reported (None for non-draw ops) *)
  Inductive ti_out := TiPanic | TiHang | TiOk (m : ti) (shown : option Z).

  Definition ti_step (m : ti) (o : ti_op) : ti_out :=
    match o with
    | OEv e => match ti_update m e with Some m' => TiOk m' None | None => TiPanic end
    | OSetContent s => match ti_set_content m s with Some m' => TiOk m' None | None => TiPanic end
    | ODraw w => match ti_draw m w with
                 | DrawHang => TiHang
                 | DrawDone o shown => TiOk (mkTi (ti_content m) (ti_cursor m) o (ti_paste m) (ti_prompt m)) shown
                 end
    end.

  Fixpoint ti_run (m : ti) (os : list ti_op) : option ti :=
    match os with
    | [] => Some m
    | o :: r => match ti_step m o with TiOk m' _ => ti_run m' r | _ => None end
    end.
End TextInput.

(* ===================================================================== vocabulary of the theorems *)

(* every cluster of a text belongs to the alphabet *)
Definition in_alpha {G} (A : list G) (cs : list G) : Prop := Forall (fun c => In c A) cs.

(* the TextField state that holds what an ideal editor holds *)
Definition tf_of_ideal (e : ideal text) : tf :=
  mkTf (concat (i_text e)) (i_index e) (zlen (i_text e)).

(* TextField operations covered by the refinement theorem: inserted material is a
   concatenation of alphabet clusters; CursorTo takes a uint; the exported field Value is
   not assigned behind the widget's back *)
Definition tf_op_ok (A : list text) (o : tf_op) : Prop :=
  match o with
  | TText s | TInsertApi s => exists ks, in_alpha A ks /\ s = concat ks
  | TCursorToApi i => 0 <= i
  | TSetValue _ => False
  | _ => True
  end.

(* the textinput state that holds what an ideal editor holds, with any scroll offset,
   pending paste buffer and prompt *)
Definition ti_of_ideal (e : ideal cluster) (offset : Z) (paste : text) (prompt : list cluster) : ti :=
  mkTi (i_text e) (i_index e) offset paste prompt.

(* textinput operations covered: typed, pasted and programmatically set material is a
   concatenation of alphabet clusters *)
Definition ti_op_ok (A : list cluster) (o : ti_op) : Prop :=
  match o with
  | OEv (EDefault false s) | OEv (EPasteChunk s) | OSetContent s =>
      exists ks, in_alpha A ks /\ s = cl_text ks
  | _ => True
  end.

(* a text derived from the text an editor holds: made of clusters of the current text and of
   alphabet clusters — the current text itself, a prefix or suffix of it, the text twice, the
   text extended or with another last cluster, the same line in another normalisation form
   (the arguments of the programmatic edits SetContent / InsertStringAtCursor that code
   with an "unchanged" shortcut would treat specially) *)
Definition derived_from {G} (A cur ks : list G) : Prop := Forall (fun c => In c cur \/ In c A) ks.

(* ===================================================================== correspondence *)

(* the oracle answers shipped with one step *)
Definition otable := list (text * list cluster).
Fixpoint tbl_lookup (tbl : otable) (t : text) : option (list cluster) :=
  match tbl with
  | [] => None
  | (k, v) :: r => if zlist_eqb k t then Some v else tbl_lookup r t
  end.
Definition tbl_seg (tbl : otable) (t : text) : option (list text) :=
  match tbl_lookup tbl t with Some cs => Some (map fst cs) | None => None end.

Definition cb_eqb (a b : cb) : bool :=
  match a, b with
  | CbChange x, CbChange y => zlist_eqb x y
  | CbSubmit x, CbSubmit y => zlist_eqb x y
  | _, _ => false
  end.

(* ---------- TextField stream ----------
   observation after a step: Characters(Value), cursor, n, callbacks fired during the
   step, column of the cursor of Draw's surface (-1 = none) *)
Definition tf_obs := (list cluster * Z * Z * list cb * Z)%type.
(* a step: operation, Characters(text carried by the operation), observation *)
Definition tf_stepc := (tf_op * list cluster * tf_obs)%type.
(* a case: Max.Width given to Draw, "segmentation is boundary-stable on this case",
   the steps from a fresh TextField *)
Definition tf_case := (Z * bool * list tf_stepc)%type.

Definition tf_op_text (o : tf_op) : text :=
  match o with TText s | TInsertApi s | TSetValue s => s | _ => [] end.

Fixpoint tf_agree (W : Z) (st : tf) (prev : list cluster) (steps : list tf_stepc) : bool :=
  match steps with
  | [] => true
  | (o, ins, (ocl, ocur, on, olog, ocol)) :: rest =>
      let tbl := [(cl_text prev, prev); (tf_op_text o, ins); (cl_text ocl, ocl)] in
      match tf_handle (tbl_seg tbl) st o with
      | None => false
      | Some (st', log) =>
          zlist_eqb (tf_value st') (cl_text ocl) && (tf_cursor st' =? ocur) && (tf_n st' =? on)
          && list_eqb cb_eqb log olog
          && match tf_draw (tbl_lookup tbl) st' W 1 with Some c => c =? ocol | None => false end
          && tf_agree W st' ocl rest
      end
  end.

Definition tf_case_mismatch (c : tf_case) : bool :=
  let '(W, _, steps) := c in negb (tf_agree W tf_empty [] steps).

(* the property on the observations alone: an ideal editor over the clusters (rune lists)
   is run next to the observations *)
Definition tf_iop_of (o : tf_op) (ins : list text) : iop text :=
  match o with
  | TText _ | TInsertApi _ => IIns ins
  | TKey TkHome => IHome | TKey TkEnd => IEnd | TKey TkRight => IRight | TKey TkLeft => ILeft
  | TKey TkDelete | TDeleteRightApi => IDel
  | TKey TkBackspace | TDeleteLeftApi => IBack
  | TKey TkKill | TKillApi => IKillEnd
  | TKey TkEnter | TResetApi => IReset
  | TIgnored => INop
  | TCursorToApi i => IGoto i
  | TSetValue _ => ISet ins
  end.
Definition tf_iop (o : tf_op) (ins : list cluster) : iop text := tf_iop_of o (map fst ins).
(* the same with the inserted text segmented by an oracle (used by the theorems) *)
Definition tf_abs (seg : text -> option (list text)) (o : tf_op) : iop text :=
  tf_iop_of o (match seg (tf_op_text o) with Some ks => ks | None => [] end).

Definition tf_is_event (o : tf_op) : bool :=
  match o with TText _ | TKey _ | TIgnored => true | _ => false end.

(* callbacks: Enter -> exactly OnSubmit(value before); any other event -> OnChange(new
   value) iff the value changed; exported methods never call back *)
Definition tf_cb_ok (o : tf_op) (before after : text) (log : list cb) : bool :=
  match o with
  | TKey TkEnter => list_eqb cb_eqb log [CbSubmit before]
  | _ => if tf_is_event o && negb (zlist_eqb before after)
         then list_eqb cb_eqb log [CbChange after] else list_eqb cb_eqb log []
  end.

Fixpoint tf_spec_ok (W : Z) (e : ideal text) (prev : list cluster) (steps : list tf_stepc) : bool :=
  match steps with
  | [] => true
  | (o, ins, (ocl, ocur, on, olog, ocol)) :: rest =>
      let e' := i_step (fun _ => false) e (tf_iop o ins) in
      texts_eqb (map fst ocl) (i_text e') && (ocur =? i_index e')
      && (0 <=? ocur) && (ocur <=? zlen ocl)
      && tf_cb_ok o (cl_text prev) (cl_text ocl) olog
      && (if (0 <? W) && (cl_width ocl <? W)
          then ocol =? cl_width (firstn (Z.to_nat ocur) ocl) else true)
      && tf_spec_ok W e' ocl rest
  end.

Definition tf_case_violation (c : tf_case) : bool :=
  let '(W, stable, steps) := c in
  if stable then negb (tf_spec_ok W (mkIdeal [] []) [] steps) else false.

Definition c17_tf_mismatches (cases : list tf_case) : list Z := bad_indices tf_case_mismatch cases.
Definition c17_tf_violations (cases : list tf_case) : list Z := bad_indices tf_case_violation cases.

(* ---------- textinput stream ----------
   observation after a step: Characters(), CursorPosition(), offset, outcome (0 returned,
   1 panic, 2 did not return), column given to ShowCursor (-1 = cursor not shown or not a
   Draw), "Characters() is the segmentation of String()" *)
Definition ti_obs := (list cluster * Z * Z * Z * Z * bool)%type.
Definition ti_stepc := (ti_op * otable * ti_obs)%type.
(* a case: prompt, the runes r with IsLetter r || IsNumber r among those used, stable, steps *)
Definition ti_case := (list cluster * list Z * bool * list ti_stepc)%type.

Definition tbl_alnum (tbl : list Z) (r : Z) : bool := existsb (Z.eqb r) tbl.

Definition shown_code (s : option Z) : Z := match s with Some c => c | None => -1 end.

Fixpoint ti_agree (al : list Z) (m : ti) (steps : list ti_stepc) : bool :=
  match steps with
  | [] => true
  | (o, tbl, (ocl, ocur, ooff, oout, oshown, _)) :: rest =>
      match ti_step (tbl_lookup tbl) (tbl_alnum al) m o with
      | TiPanic => (oout =? 1)         (* nothing is compared after a panic *)
      | TiHang => (oout =? 2)
      | TiOk m' shown =>
          (oout =? 0) && clusters_eqb (ti_content m') ocl && (ti_cursor m' =? ocur)
          && (ti_offset m' =? ooff) && (shown_code shown =? oshown) && ti_agree al m' rest
      end
  end.

Definition ti_case_mismatch (c : ti_case) : bool :=
  let '(prompt, al, _, steps) := c in negb (ti_agree al (ti_new prompt) steps).

(* word clusters of the ideal editor: single letter/number runes (the widget's own notion) *)
Definition ti_isw (alnum : Z -> bool) (c : cluster) : bool :=
  match fst c with [r] => alnum r | _ => false end.

Definition ti_iop (o : ti_op) (tbl : otable) : iop cluster :=
  match o with
  | OEv EPasteEnd => IIns (match tbl with (_, cs) :: _ => cs | [] => [] end)
  | OEv (EDefault false (_ :: _)) => IIns (match tbl with (_, cs) :: _ => cs | [] => [] end)
  | OEv (EKey IkHome) => IHome | OEv (EKey IkEnd) => IEnd
  | OEv (EKey IkRight) => IRight | OEv (EKey IkLeft) => ILeft
  | OEv (EKey IkWordF) => IWordF | OEv (EKey IkWordB) => IWordB
  | OEv (EKey IkDelete) => IDel | OEv (EKey IkBackspace) => IBack
  | OEv (EKey IkKillEnd) => IKillEnd | OEv (EKey IkKillStart) => IKillStart
  | OEv (EKey IkKillWord) => IKillWordB
  | OSetContent _ => ISet (match tbl with (_, cs) :: _ => cs | [] => [] end)
  | _ => INop
  end.

(* the ideal operations a history of textinput operations stands for (used by the
   theorems): a bracketed paste is one insertion, at its end, of the clusters of the
   concatenated chunks *)
Definition chars_or_nil (chars : text -> option (list cluster)) (t : text) : list cluster :=
  match chars t with Some cs => cs | None => [] end.
Definition ti_abs1 (chars : text -> option (list cluster)) (o : ti_op) : iop cluster :=
  match o with
  | OEv (EDefault false s) => IIns (chars_or_nil chars s)
  | OEv (EKey IkHome) => IHome | OEv (EKey IkEnd) => IEnd
  | OEv (EKey IkRight) => IRight | OEv (EKey IkLeft) => ILeft
  | OEv (EKey IkWordF) => IWordF | OEv (EKey IkWordB) => IWordB
  | OEv (EKey IkDelete) => IDel | OEv (EKey IkBackspace) => IBack
  | OEv (EKey IkKillEnd) => IKillEnd | OEv (EKey IkKillStart) => IKillStart
  | OEv (EKey IkKillWord) => IKillWordB
  | OSetContent s => ISet (chars_or_nil chars s)
  | _ => INop
  end.
Definition ti_abs_step (chars : text -> option (list cluster)) (paste : text) (o : ti_op) : iop cluster * text :=
  match o with
  | OEv (EPasteChunk s) => (INop, paste ++ s)
  | OEv EPasteEnd => (IIns (chars_or_nil chars paste), [])
  | _ => (ti_abs1 chars o, paste)
  end.
Fixpoint ti_abs (chars : text -> option (list cluster)) (paste : text) (os : list ti_op) : list (iop cluster) :=
  match os with
  | [] => []
  | o :: r => fst (ti_abs_step chars paste o) :: ti_abs chars (snd (ti_abs_step chars paste o)) r
  end.

(* Draw on observations.

   The scroll offset is state that survives between frames, so the statement about one
   frame depends on the frames drawn before it.  The specification keeps its own record of
   that history, computed from the Draw observations alone (window width, prompt, text and
   cursor index; never from the widget's offset): `scrolled` = "an earlier frame may have
   left the view scrolled".
   - a frame that reaches the text (window wider than the prompt) with the cursor within
     the first scrolloff graphemes shows the text from its beginning: the view is unscrolled
     afterwards, whatever it was before (in particular every frame of an EMPTY field
     resets the view);
   - a frame in which prompt + text + scroll margin fit, and a frame that does not reach
     the text (width 0, or the prompt fills the window), leave the view as it was;
   - any other frame may scroll. *)
Definition ti_reached (prompt : list cluster) (w : Z) : bool := (0 <? w) && (cl_width prompt <? w).
Definition ti_not_reached (prompt : list cluster) (w : Z) : bool :=
  (w =? 0) || ((0 <? w) && (w <=? cl_width prompt)).
Definition ti_fits_margin (prompt ocl : list cluster) (w : Z) : bool :=
  cl_width prompt + cl_width ocl + scrolloff <? w.

Definition ti_scrolled_next (prompt : list cluster) (w : Z) (scrolled : bool) (ocl : list cluster) (ocur : Z) : bool :=
  if ti_reached prompt w && (ocur <=? scrolloff) then false
  else if ti_fits_margin prompt ocl w || ti_not_reached prompt w then scrolled
  else true.

(* One frame.  It returns; and, the cursor being within the text,
   - full = true (the property as stated): whenever prompt + text fit the window (with a
     column left for the cursor), the cursor is shown at prompt width + width of the text
     before the cursor;
   - full = false (what the widget does guarantee, theorems
     C17_textinput_drawn_cursor_column_partial and C17_textinput_frames_of_agreeing_run):
     the same, but only when the view is unscrolled before the frame (the offset is 0, or
     no frame since the last resetting frame may have scrolled) and the widget's 4-column
     scroll margin fits as well.
   Cases that fail the first and pass the second are the recorded finding
   "textinput-sticky-offset". *)
Definition ti_draw_ok (full : bool) (prompt : list cluster) (w : Z) (off_before : Z) (scrolled : bool)
           (ob : ti_obs) : bool :=
  let '(ocl, ocur, ooff, oout, oshown, _) := ob in
  (oout =? 0)
  && (if (0 <=? ocur) && (ocur <=? zlen ocl)
         && (if full then cl_width prompt + cl_width ocl <? w
             else ((off_before =? 0) || negb scrolled) && ti_fits_margin prompt ocl w)
      then oshown =? cl_width prompt + cl_width (firstn (Z.to_nat ocur) ocl) else true).

(* the frames of a history: `off` = offset observed after the previous step, `scrolled` as
   above.  (Nothing is said after a step that did not return: ti_edits_ok rejects it.) *)
Fixpoint ti_draws_ok (full : bool) (prompt : list cluster) (off : Z) (scrolled : bool)
         (steps : list ti_stepc) : bool :=
  match steps with
  | [] => true
  | (o, _, ob) :: rest =>
      let '(ocl, ocur, ooff, oout, _, _) := ob in
      match o with
      | ODraw w => ti_draw_ok full prompt w off scrolled ob
                   && ti_draws_ok full prompt ooff (ti_scrolled_next prompt w scrolled ocl ocur) rest
      | _ => if oout =? 0 then ti_draws_ok full prompt ooff scrolled rest else true
      end
  end.

(* text and cursor: an ideal editor is run next to the observations *)
Fixpoint ti_edits_ok (al : list Z) (e : ideal cluster) (steps : list ti_stepc) : bool :=
  match steps with
  | [] => true
  | (o, tbl, ob) :: rest =>
      let '(ocl, ocur, ooff, oout, oshown, reseg) := ob in
      let e' := i_step (ti_isw (tbl_alnum al)) e (ti_iop o tbl) in
      (oout =? 0) && clusters_eqb ocl (i_text e') && (ocur =? i_index e')
      && (0 <=? ocur) && (ocur <=? zlen ocl) && reseg
      && ti_edits_ok al e' rest
  end.

Definition ti_spec_ok (full : bool) (prompt : list cluster) (al : list Z) (e : ideal cluster) (off : Z)
           (steps : list ti_stepc) : bool :=
  ti_edits_ok al e steps && ti_draws_ok full prompt off false steps.

(* decidable side conditions of the frame theorem: measured widths are not negative *)
Definition widths_okb (cs : list cluster) : bool := forallb (fun c : cluster => 0 <=? snd c) cs.
Definition ti_obs_widths_ok (steps : list ti_stepc) : bool :=
  forallb (fun s : ti_stepc => let '(_, _, (ocl, _, _, _, _, _)) := s in widths_okb ocl) steps.

(* on every case, stable or not: every Update and every Draw returns normally *)
Definition ti_returns_ok (steps : list ti_stepc) : bool :=
  forallb (fun s : ti_stepc => let '(_, _, (_, _, _, oout, _, _)) := s in oout =? 0) steps.

(* the property as stated, unguarded *)
Definition ti_case_violation (c : ti_case) : bool :=
  let '(prompt, al, stable, steps) := c in
  if stable then negb (ti_spec_ok true prompt al (mkIdeal [] []) 0 steps)
  else negb (ti_returns_ok steps).

(* cases under the explicit guard of the finding textinput-sticky-offset: the stated
   property fails, the guarded one holds *)
Definition ti_case_known (c : ti_case) : bool :=
  let '(prompt, al, stable, steps) := c in
  stable && negb (ti_spec_ok true prompt al (mkIdeal [] []) 0 steps)
  && ti_spec_ok false prompt al (mkIdeal [] []) 0 steps.

Definition c17_ti_mismatches (cases : list ti_case) : list Z := bad_indices ti_case_mismatch cases.
Definition c17_ti_violations (cases : list ti_case) : list Z := bad_indices ti_case_violation cases.
Definition c17_ti_known (cases : list ti_case) : list Z := bad_indices ti_case_known cases.
