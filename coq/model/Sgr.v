(* C18 - model of the SGR codecs of vaxis.  Executable definitions only.

   Producers : EncodeCells (cell.go), StyledString.Encode (styled_string.go) and the pen
               part of render (vaxis.go) - one delta encoder [pen_delta], the Go copies
               differ only in the capability fallbacks of render and in the format strings:
               with VAXIS_FORCE_LEGACY_SGR set, applyQuirks rewrites the package variables
               fgIndexSet/fgRGBSet/bgIndexSet/bgRGBSet to the semicolon syntax ([legacy]);
               render and EncodeCells use them, StyledString.Encode has its own constants.
   Consumers : parseSGR (cell.go) [parse_sgr], Model.sgr (widgets/term/sgr.go) [term_sgr],
               the SGR part of NewStyledString (styled_string.go) [styled_sgr].
   An SGR sequence is the list of its params, each param the list of its sub-params
   ([ESC[38:5:3;1m] = [[38;5;3];[1]], [ESC[m] = []).  Every Go slice index is a [zget];
   an index out of range is the explicit outcome [Panic]. *)
From Vx Require Import base.Prelude model.Colour.

(* ---------- styles ---------- *)

(* the five SGR-controlled fields of vaxis.Style (colours as Color values, see Colour.v) *)
Record pen := mkPen { fg : Z; bg : Z; ul : Z; uls : Z; attr : Z }.
Definition pen0 : pen := mkPen 0 0 0 0 0.

(* vaxis.Style: the pen plus the OSC 8 hyperlink fields *)
Record style := mkStyle { spen : pen; link : text; linkp : text }.
Definition style0 : style := mkStyle pen0 [] [].

Definition cell : Type := text * style.          (* grapheme, style *)
Definition pcell : Type := text * pen.           (* grapheme, pen *)

Definition pen_eqb (a b : pen) : bool :=
  (fg a =? fg b) && (bg a =? bg b) && (ul a =? ul b) && (uls a =? uls b) && (attr a =? attr b).
Definition style_eqb (a b : style) : bool :=
  pen_eqb (spen a) (spen b) && zlist_eqb (link a) (link b) && zlist_eqb (linkp a) (linkp b).
Definition pcell_eqb (a b : pcell) : bool := zlist_eqb (fst a) (fst b) && pen_eqb (snd a) (snd b).

Definition set_fg (p : pen) (v : Z) : pen := mkPen v (bg p) (ul p) (uls p) (attr p).
Definition set_bg (p : pen) (v : Z) : pen := mkPen (fg p) v (ul p) (uls p) (attr p).
Definition set_ul (p : pen) (v : Z) : pen := mkPen (fg p) (bg p) v (uls p) (attr p).
Definition set_uls (p : pen) (v : Z) : pen := mkPen (fg p) (bg p) (ul p) v (attr p).
Definition set_attr (p : pen) (v : Z) : pen := mkPen (fg p) (bg p) (ul p) (uls p) v.

(* style.go: AttrBold = 1 << iota with iota = 1, so bit 0 of the mask has no name *)
Definition aBold : Z := 2.
Definition aDim : Z := 4.
Definition aItalic : Z := 8.
Definition aBlink : Z := 16.
Definition aReverse : Z := 32.
Definition aInvisible : Z := 64.
Definition aStrike : Z := 128.

(* values the public constructors can build: Color(0), IndexColor(n), RGBColor(r,g,b) *)
Definition wf_colourb (c : Z) : bool :=
  (c =? 0) || ((tag_indexed <=? c) && (c <? tag_indexed + 256))
           || ((tag_rgb <=? c) && (c <? tag_rgb + 16777216)).
(* named underline styles 0..5; attribute masks over the seven named bits (128 masks) *)
Definition wf_attrb (a : Z) : bool := (0 <=? a) && (a <? 256) && Z.even a.
Definition wf_penb (p : pen) : bool :=
  wf_colourb (fg p) && wf_colourb (bg p) && wf_colourb (ul p)
  && (0 <=? uls p) && (uls p <=? 5) && wf_attrb (attr p).

(* ---------- tokens and their printed form ---------- *)

Definition sgrseq : Type := list (list Z).
Inductive tok := TSgr (ps : sgrseq) | TOsc8 (p l : text) | TText (g : text).

(* %d of a non-negative int *)
Fixpoint dec_digits (fuel : nat) (n : Z) (acc : list Z) : list Z :=
  match fuel with
  | O => acc
  | S f => let acc' := (48 + n mod 10) :: acc in
           if n <? 10 then acc' else dec_digits f (n / 10) acc'
  end.
Definition dec (n : Z) : list Z := dec_digits 20 n [].

Fixpoint join (sep : Z) (l : list (list Z)) : list Z :=
  match l with
  | [] => []
  | [x] => x
  | x :: t => x ++ sep :: join sep t
  end.

(* ESC [ p1:s1:s2 ; p2 ... m *)
Definition print_sgr (ps : sgrseq) : list Z :=
  27 :: 91 :: join 59 (map (fun p => join 58 (map dec p)) ps) ++ [109].
Definition print_tok (t : tok) : list Z :=
  match t with
  | TSgr ps => print_sgr ps
  | TOsc8 p l => [27; 93; 56; 59] ++ p ++ [59] ++ l ++ [27; 92]      (* ESC ] 8 ; p ; l ESC \ *)
  | TText g => g
  end.
Definition print_toks (ts : list tok) : list Z := flat_map print_tok ts.

(* fmt.Sprintf / fmt.Fprintf restricted to the verbs %d and %s: used to state that the format
   strings of sequences.go (translated into gen/GenSgr.v) print what print_tok prints *)
Inductive farg := FD (n : Z) | FS (s : text).
Fixpoint sprintf (f : list Z) (args : list farg) : list Z :=
  match f with
  | [] => []
  | c :: t =>
      if c =? 37 then
        match t with
        | _ :: t' => match args with
                     | FD n :: rest => dec n ++ sprintf t' rest
                     | FS x :: rest => x ++ sprintf t' rest
                     | [] => []
                     end
        | [] => [c]
        end
      else c :: sprintf t args
  end.
(* strings.ReplaceAll(s, ":", ";") of applyQuirks *)
Definition legacy_form (f : list Z) : list Z := map (fun r => if r =? 58 then 59 else r) f.

(* ---------- producers ---------- *)

(* foreground / background: b0 = 30/40, br = 90/100, ext = 38/48, rst = 39/49; [ps] = Color.Params.
   legacy: ESC[38;5;Nm / ESC[38;2;R;G;Bm (separate params) instead of ESC[38:5:Nm (sub-params) *)
Definition fgbg_sgr (legacy : bool) (b0 br ext rst : Z) (ps : list Z) : list sgrseq :=
  match ps with
  | [] => [[[rst]]]
  | [n] => if n <? 8 then [[[b0 + n]]]
           else if n <? 16 then [[[br + (n - 8)]]]
           else if legacy then [[[ext]; [5]; [n]]] else [[[ext; 5; n]]]
  | [r; g; b] => if legacy then [[[ext]; [2]; [r]; [g]; [b]]] else [[[ext; 2; r; g; b]]]
  | _ => []
  end.

Definition ul_sgr (ps : list Z) : list sgrseq :=
  match ps with
  | [] => [[[59]]]
  | [n] => [[[58; 5; n]]]
  | [r; g; b] => [[[58; 2; r; g; b]]]
  | _ => []
  end.

Definition has (m a : Z) : bool := negb (Z.land m a =? 0).
Definition opt (b : bool) (s : sgrseq) : list sgrseq := if b then [s] else [].

(* the attribute block: bits turned on, then bits turned off; 22 resets bold and dim together *)
Definition attr_sgr (prev next : Z) : list sgrseq :=
  if prev =? next then []
  else
    let d := Z.lxor prev next in
    let on := Z.land d next in
    let off := Z.land d prev in
    opt (has on aBold) [[1]] ++ opt (has on aDim) [[2]] ++ opt (has on aItalic) [[3]]
    ++ opt (has on aBlink) [[5]] ++ opt (has on aReverse) [[7]] ++ opt (has on aInvisible) [[8]]
    ++ opt (has on aStrike) [[9]]
    ++ (if has off aBold then [[22]] :: opt (has next aDim) [[2]] else [])
    ++ (if has off aDim then [[22]] :: opt (has next aBold) [[1]] else [])
    ++ opt (has off aItalic) [[23]] ++ opt (has off aBlink) [[25]] ++ opt (has off aReverse) [[27]]
    ++ opt (has off aInvisible) [[28]] ++ opt (has off aStrike) [[29]].

(* render only: without the rgb capability a colour is sent as its palette index *)
Definition eff_colour (rgb : bool) (c : Z) : Z := if rgb then c else as_index c.

(* The SGR sequences written when the pen goes from [prev] to [next].
   rgb = smulx = true is EncodeCells and StyledString.Encode; render passes its capabilities. *)
Definition pen_delta (legacy rgb smulx : bool) (prev next : pen) : list sgrseq :=
  (if fg prev =? fg next then [] else fgbg_sgr legacy 30 90 38 39 (color_params (eff_colour rgb (fg next))))
  ++ (if bg prev =? bg next then [] else fgbg_sgr legacy 40 100 48 49 (color_params (eff_colour rgb (bg next))))
  ++ (if smulx then
        if ul prev =? ul next then [] else ul_sgr (color_params (eff_colour rgb (ul next)))
      else [])
  ++ attr_sgr (attr prev) (attr next)
  ++ (if uls prev =? uls next then []
      else if smulx then [[[4; uls next]]]
      else if uls next =? 0 then [[[24]]] else [[[4]]]).

Definition link_delta (prev next : style) : list tok :=
  if zlist_eqb (link prev) (link next) then []
  else [TOsc8 (match link next with [] => [] | _ => linkp next end) (link next)].

(* the loop of EncodeCells / StyledString.Encode; [cur] is the Go variable cursor.
   A BLANK cell (Grapheme == "": the zero-value Character of an untouched screen cell, or the
   continuation cell of a wide character) is not special to either loop: its pen delta and OSC 8
   are written, [cursor = next.Style] is executed, and WriteString("") adds no byte ([TText []]
   prints as nothing).  So the pen of a blank cell is carried to the next cell and to the final
   reset exactly like the pen of any other cell. *)
Fixpoint enc_loop (legacy : bool) (cur : style) (cs : list cell) : list tok :=
  match cs with
  | [] => if style_eqb cur style0 then [] else [TSgr []]
  | (g, st) :: t =>
      map TSgr (pen_delta legacy true true (spen cur) (spen st)) ++ link_delta cur st
      ++ TText g :: enc_loop legacy st t
  end.

(* cell.go: uses the package variables the legacy quirk rewrites *)
Definition encode_cells (legacy : bool) (cs : list cell) : list tok := enc_loop legacy style0 cs.
(* styled_string.go: same text with its own constants ssFgIndexSet ..., which no quirk touches *)
Definition ss_encode (cs : list cell) : list tok := enc_loop false style0 cs.

(* render: what one row of cells (no hyperlinks) contributes between the CUP and the
   end of the frame; Flush appends sgrReset *)
(* vaxis.go render: [if next.Width == 0 { next.Width = vx.characterWidth(next.Grapheme) }] and then
   [case next.Width == 0: WriteString(" ")].  The harness draws cells with an empty grapheme with
   Width 0 and all others with Width 1; the measured width of the empty string is 0 (a sum over no
   runes), so a blank cell is drawn as one space - AFTER its pen delta, and the pen is remembered. *)
Definition shown (g : text) : text := match g with [] => [32] | _ => g end.
Fixpoint render_loop (legacy rgb smulx : bool) (cur : pen) (cs : list pcell) : list tok :=
  match cs with
  | [] => [TSgr []]
  | (g, p) :: t => map TSgr (pen_delta legacy rgb smulx cur p) ++ TText (shown g) :: render_loop legacy rgb smulx p t
  end.
Definition render_row (legacy rgb smulx : bool) (cs : list pcell) : list tok :=
  render_loop legacy rgb smulx pen0 cs.

(* the pen a terminal holds while it shows a cell drawn with pen [p] by render *)
Definition eff_pen (rgb smulx : bool) (p : pen) : pen :=
  mkPen (eff_colour rgb (fg p)) (eff_colour rgb (bg p))
        (if smulx then eff_colour rgb (ul p) else 0)
        (if smulx then uls p else if uls p =? 0 then 0 else 1)
        (attr p).

(* ---------- consumers ---------- *)

Inductive res (A : Type) := Ok (a : A) | Panic.
Arguments Ok {A} a.
Arguments Panic {A}.

(* one iteration of the for loop: continue after skipping [skip] more params, return, or panic *)
Inductive step := SCont (p : pen) (skip : nat) | SStop (p : pen) | SPanic.

Definition opt_step {A} (o : option A) (k : A -> step) : step :=
  match o with Some a => k a | None => SPanic end.
Notation "'get' x '<-' o ';' k" := (opt_step o (fun x => k)) (at level 200, x name, right associativity).

(* params[i][j] of a suffix params[base:] *)
Definition sub (ps : sgrseq) (i j : Z) : option Z :=
  match zget ps i with Some p => zget p j | None => None end.

(* case 38 / 48 / 58 of parseSGR; [ps] = params[i:], [p] = params[i] *)
Definition ext_colour (st : pen) (set : Z -> pen) (ps : sgrseq) (p : list Z) : step :=
  let n := zlen p in
  if n =? 1 then
    if zlen ps <? 3 then SStop st else
    get k <- sub ps 1 0;
    if k =? 2 then
      if zlen ps <? 5 then SStop st else
      get r <- sub ps 2 0; get g <- sub ps 3 0; get b <- sub ps 4 0;
      SCont (set (rgb_color (u8 r) (u8 g) (u8 b))) 4
    else if k =? 5 then
      get i <- sub ps 2 0; SCont (set (index_color (u8 i))) 2
    else SStop st
  else if n =? 3 then
    get k <- zget p 1;
    if negb (k =? 5) then SStop st else
    get i <- zget p 2; SCont (set (index_color (u8 i))) 0
  else if n =? 5 then
    get k <- zget p 1;
    if negb (k =? 2) then SStop st else
    get r <- zget p 2; get g <- zget p 3; get b <- zget p 4;
    SCont (set (rgb_color (u8 r) (u8 g) (u8 b))) 0
  else if n =? 6 then
    get k <- zget p 1;
    if negb (k =? 2) then SStop st else
    get r <- zget p 3; get g <- zget p 4; get b <- zget p 5;
    SCont (set (rgb_color (u8 r) (u8 g) (u8 b))) 0
  else SCont st 0.

Definition uls_of_sub (st : pen) (k : Z) : pen :=
  if in_range k 0 5 then set_uls st k else st.

(* the body of the for loop of parseSGR on params[i:] = [ps] *)
Definition sgr_step (st : pen) (ps : sgrseq) : step :=
  get p <- zget ps 0;
  get k <- zget p 0;
  if k =? 0 then SCont pen0 0
  else if k =? 1 then SCont (set_attr st (Z.lor (attr st) aBold)) 0
  else if k =? 2 then SCont (set_attr st (Z.lor (attr st) aDim)) 0
  else if k =? 3 then SCont (set_attr st (Z.lor (attr st) aItalic)) 0
  else if k =? 4 then
    (if zlen p =? 1 then SCont (set_uls st 1) 0
     else if zlen p =? 2 then get s <- zget p 1; SCont (uls_of_sub st s) 0
     else SCont st 0)
  else if k =? 5 then SCont (set_attr st (Z.lor (attr st) aBlink)) 0
  else if k =? 7 then SCont (set_attr st (Z.lor (attr st) aReverse)) 0
  else if k =? 8 then SCont (set_attr st (Z.lor (attr st) aInvisible)) 0
  else if k =? 9 then SCont (set_attr st (Z.lor (attr st) aStrike)) 0
  else if k =? 22 then SCont (set_attr st (Z.ldiff (Z.ldiff (attr st) aBold) aDim)) 0
  else if k =? 23 then SCont (set_attr st (Z.ldiff (attr st) aItalic)) 0
  else if k =? 24 then SCont (set_uls st 0) 0
  else if k =? 25 then SCont (set_attr st (Z.ldiff (attr st) aBlink)) 0
  else if k =? 27 then SCont (set_attr st (Z.ldiff (attr st) aReverse)) 0
  else if k =? 28 then SCont (set_attr st (Z.ldiff (attr st) aInvisible)) 0
  else if k =? 29 then SCont (set_attr st (Z.ldiff (attr st) aStrike)) 0
  else if in_range k 30 37 then SCont (set_fg st (index_color (u8 (k - 30)))) 0
  else if k =? 38 then ext_colour st (set_fg st) ps p
  else if k =? 39 then SCont (set_fg st 0) 0
  else if in_range k 40 47 then SCont (set_bg st (index_color (u8 (k - 40)))) 0
  else if k =? 48 then ext_colour st (set_bg st) ps p
  else if k =? 49 then SCont (set_bg st 0) 0
  else if k =? 58 then ext_colour st (set_ul st) ps p
  else if k =? 59 then SCont (set_ul st 0) 0
  else if in_range k 90 97 then SCont (set_fg st (index_color (u8 (k - 90 + 8)))) 0
  else if in_range k 100 107 then SCont (set_bg st (index_color (u8 (k - 100 + 8)))) 0
  else SCont st 0.

(* for i := 0; i < len(params); i += 1 { ... i += 2 / i += 4 ... } *)
Fixpoint sgr_loop (skip : nat) (st : pen) (ps : sgrseq) : res pen :=
  match ps with
  | [] => Ok st
  | _ :: rest =>
      match skip with
      | S k => sgr_loop k st rest
      | O => match sgr_step st ps with
             | SCont st' n => sgr_loop n st' rest
             | SStop st' => Ok st'
             | SPanic => Panic
             end
      end
  end.

Definition sgr_run (ps : sgrseq) (st : pen) : res pen :=
  sgr_loop 0 st (match ps with [] => [[0]] | _ => ps end).

(* cell.go parseSGR *)
Definition parse_sgr (ps : sgrseq) (st : pen) : res pen := sgr_run ps st.
(* widgets/term/sgr.go (vt *Model).sgr: the same statements on vt.cursor (case 59 since the fix) *)
Definition term_sgr (ps : sgrseq) (st : pen) : res pen := sgr_run ps st.

(* NewStyledString: one element of strings.Split(seq, ";"), already split at ":" ;
   a number stands for its decimal string, [dflt] is defaultStyle *)
Definition styled_ext (st : pen) (set : Z -> pen) (subs : list Z) : res pen :=
  let n := zlen subs in
  if n =? 3 then
    match zget subs 2 with Some i => Ok (set (index_color (u8 i))) | None => Panic end
  else if n =? 5 then
    match zget subs 2, zget subs 3, zget subs 4 with
    | Some r, Some g, Some b => Ok (set (rgb_color (u8 r) (u8 g) (u8 b)))
    | _, _, _ => Panic
    end
  else Ok st.

Definition styled_param (dflt st : pen) (subs : list Z) : res pen :=
  match zget subs 0 with
  | None => Panic
  | Some k =>
    if k =? 0 then Ok dflt
    else if k =? 1 then Ok (set_attr st (Z.lor (attr st) aBold))
    else if k =? 2 then Ok (set_attr st (Z.lor (attr st) aDim))
    else if k =? 3 then Ok (set_attr st (Z.lor (attr st) aItalic))
    else if k =? 4 then
      (if 1 <? zlen subs then
         match zget subs 1 with Some s => Ok (uls_of_sub st s) | None => Panic end
       else Ok (set_uls st 1))
    else if k =? 5 then Ok (set_attr st (Z.lor (attr st) aBlink))
    else if k =? 7 then Ok (set_attr st (Z.lor (attr st) aReverse))
    else if k =? 8 then Ok (set_attr st (Z.lor (attr st) aInvisible))
    else if k =? 9 then Ok (set_attr st (Z.lor (attr st) aStrike))
    else if k =? 22 then Ok (set_attr st (Z.ldiff (Z.ldiff (attr st) aBold) aDim))
    else if k =? 23 then Ok (set_attr st (Z.ldiff (attr st) aItalic))
    else if k =? 24 then Ok (set_uls st 0)
    else if k =? 25 then Ok (set_attr st (Z.ldiff (attr st) aBlink))
    else if k =? 27 then Ok (set_attr st (Z.ldiff (attr st) aReverse))
    else if k =? 28 then Ok (set_attr st (Z.ldiff (attr st) aInvisible))
    else if k =? 29 then Ok (set_attr st (Z.ldiff (attr st) aStrike))
    else if in_range k 30 37 then Ok (set_fg st (index_color (k - 30)))
    else if k =? 38 then styled_ext st (set_fg st) subs
    else if k =? 39 then Ok (set_fg st 0)
    else if in_range k 40 47 then Ok (set_bg st (index_color (k - 40)))
    else if k =? 48 then styled_ext st (set_bg st) subs
    else if k =? 49 then Ok (set_bg st 0)
    else if k =? 58 then styled_ext st (set_ul st) subs
    else if k =? 59 then Ok (set_ul st 0)
    else if in_range k 90 97 then Ok (set_fg st (index_color (k - 90 + 8)))
    else if in_range k 100 107 then Ok (set_bg st (index_color (k - 100 + 8)))
    else Ok st
  end.

Fixpoint styled_params (dflt st : pen) (ps : sgrseq) : res pen :=
  match ps with
  | [] => Ok st
  | p :: t => match styled_param dflt st p with
              | Ok st' => styled_params dflt st' t
              | Panic => Panic
              end
  end.

(* seq == "" resets to the default style *)
Definition styled_sgr (dflt : pen) (ps : sgrseq) (st : pen) : res pen :=
  match ps with [] => Ok dflt | _ => styled_params dflt st ps end.

(* a list of SGR sequences, one after the other *)
Fixpoint run_seqs (run : sgrseq -> pen -> res pen) (l : list sgrseq) (st : pen) : res pen :=
  match l with
  | [] => Ok st
  | s :: t => match run s st with Ok st' => run_seqs run t st' | Panic => Panic end
  end.

(* A string as the consumers see it: SGR sequences update the pen, each grapheme becomes a
   cell with the current pen, OSC 8 is skipped (ParseStyledString ignores ansi.OSC; for
   NewStyledString, which has no OSC handling, the model is only used on OSC-free input).
   Result: the cells and the pen at the end of the string. *)
Fixpoint decode (run : sgrseq -> pen -> res pen) (st : pen) (toks : list tok) : res (list pcell * pen) :=
  match toks with
  | [] => Ok ([], st)
  | TSgr ps :: t => match run ps st with Ok st' => decode run st' t | Panic => Panic end
  | TOsc8 _ _ :: t => decode run st t
  | TText [] :: t => decode run st t           (* an empty grapheme writes no bytes *)
  | TText g :: t => match decode run st t with
                    | Ok (cs, fin) => Ok ((g, st) :: cs, fin)
                    | Panic => Panic
                    end
  end.

Definition parse_styled_string (toks : list tok) : res (list pcell * pen) := decode parse_sgr pen0 toks.
Definition term_feed (toks : list tok) : res (list pcell * pen) := decode term_sgr pen0 toks.
Definition new_styled_string (dflt : pen) (toks : list tok) : res (list pcell * pen) :=
  decode (styled_sgr dflt) dflt toks.

(* ---------- specification predicates on observations ---------- *)

(* a cell is blank when its grapheme is empty *)
Definition nonblank {A} (c : text * A) : bool := negb (zlist_eqb (fst c) []).
(* cells over the named constants; the grapheme may be empty (blank cell) *)
Definition wf_scellb (c : cell) : bool := wf_penb (spen (snd c)).
Definition wf_spcellb (c : pcell) : bool := wf_penb (snd c).
Definition wf_cellb (c : cell) : bool := wf_penb (spen (snd c)) && negb (zlist_eqb (fst c) []).
Definition wf_pcellb (c : pcell) : bool := wf_penb (snd c) && negb (zlist_eqb (fst c) []).
Definition no_link (c : cell) : bool := zlist_eqb (link (snd c)) [].
Definition pcell_of (c : cell) : pcell := (fst c, spen (snd c)).
Definition pcells_eqb := list_eqb pcell_eqb.

(* The round-trip clause on one observation, blank cells included: [got] (what a consumer read)
   against [want] (what was encoded).  A cell with a grapheme must come back as itself, with its
   own pen, in order.  A blank cell has no grapheme to return: it may come back not at all or as
   one space carrying the blank cell's own pen (the predicate does not prescribe how an encoder
   draws a blank) - but it must not disturb the pens of the cells around it.  Nothing else may
   come back.  Without blank cells this is [pcells_eqb got want] (cells_match_nonblank). *)
Fixpoint cells_match (want got : list pcell) : bool :=
  match want with
  | [] => match got with [] => true | _ => false end
  | (g, p) :: t =>
      if zlist_eqb g [] then
        cells_match t got
        || match got with c :: got' => pcell_eqb c ([32], p) && cells_match t got' | [] => false end
      else match got with c :: got' => pcell_eqb c (g, p) && cells_match t got' | [] => false end
  end.
(* what the model's decoders return for encoded cells: the cells that have a grapheme *)
Definition shown_cells (cs : list cell) : list pcell := map pcell_of (filter nonblank cs).

Definition res_pen_eqb (a b : res pen) : bool :=
  match a, b with Ok x, Ok y => pen_eqb x y | Panic, Panic => true | _, _ => false end.

(* every SGR sequence any producer can write *)
Definition basic_codes : list Z :=
  [1; 2; 3; 4; 5; 7; 8; 9; 22; 23; 24; 25; 27; 28; 29; 30; 31; 32; 33; 34; 35; 36; 37; 39;
   40; 41; 42; 43; 44; 45; 46; 47; 49; 59; 90; 91; 92; 93; 94; 95; 96; 97;
   100; 101; 102; 103; 104; 105; 106; 107].
Definition mem (k : Z) (l : list Z) : bool := existsb (Z.eqb k) l.
Definition in_vocab (s : sgrseq) : bool :=
  match s with
  | [] => true                                                  (* ESC[m *)
  | [p] => match p with
           | [k] => mem k basic_codes
           | [k; _] => k =? 4                                   (* 4:n *)
           | [c; m; _] => mem c [38; 48; 58] && (m =? 5)        (* 38:5:n *)
           | [c; m; _; _; _] => mem c [38; 48; 58] && (m =? 2)  (* 38:2:r:g:b *)
           | _ => false
           end
  | _ => false
  end.
(* ... and the additional forms of the legacy quirk *)
Definition in_vocab_legacy (s : sgrseq) : bool :=
  in_vocab s ||
  match s with
  | [[c]; [m]; [_]] => mem c [38; 48] && (m =? 5)                 (* 38;5;n *)
  | [[c]; [m]; [_]; [_]; [_]] => mem c [38; 48] && (m =? 2)       (* 38;2;r;g;b *)
  | _ => false
  end.
Definition uses_ext_colour (p : pen) : bool :=
  let ext c := match color_params c with [n] => 16 <=? n | [_; _; _] => true | _ => false end in
  ext (fg p) || ext (bg p).

(* ---------- correspondence ---------- *)

(* stream codec: what the implementation did with a list of cells *)
Record codec_obs := mkCodecObs {
  o_encE : text;               (* EncodeCells(cells), code points *)
  o_encS : text;               (* StyledString{cells}.Encode() *)
  o_parsed : list pcell;       (* ParseStyledString(o_encE) *)
  o_styled : list pcell;       (* NewStyledString(o_encS, Style{}).Cells (not observed when a cell has a hyperlink) *)
  o_styledE : list pcell;      (* NewStyledString(o_encE, Style{}).Cells (likewise) *)
  o_term : list pcell;         (* o_encE through ansi.Parser into the emulator's sgr: pen at each grapheme *)
  o_fin_parse : pen;           (* pen of parseSGR at the end of o_encE *)
  o_fin_term : pen             (* pen of the emulator at the end of o_encE *)
}.
Definition codec_case : Type := bool * list cell * codec_obs.      (* legacy quirk active?, cells, observation *)
(* transport form used by the case files (Coq elaborates literals slowly): [None] = the harness
   found this observation equal, as a Go value, to o_encE (for encS) / o_parsed (for the lists) *)
Definition mkCodecW (encE : text) (encS : option text) (parsed : list pcell)
    (styled styledE term : option (list pcell)) (fp ft : pen) : codec_obs :=
  mkCodecObs encE (match encS with Some t => t | None => encE end) parsed
    (match styled with Some l => l | None => parsed end)
    (match styledE with Some l => l | None => parsed end)
    (match term with Some l => l | None => parsed end) fp ft.

Definition res_cells_eqb (r : res (list pcell * pen)) (cs : list pcell) (fin : pen) : bool :=
  match r with Ok (c, f) => pcells_eqb c cs && pen_eqb f fin | Panic => false end.

Definition res_only_cells_eqb (r : res (list pcell * pen)) (cs : list pcell) : bool :=
  match r with Ok (c, _) => pcells_eqb c cs | Panic => false end.

Definition codec_model_ok (c : codec_case) : bool :=
  let '(legacy, cells, o) := c in
  let tE := encode_cells legacy cells in
  let tS := ss_encode cells in
  zlist_eqb (print_toks tE) (o_encE o) && zlist_eqb (print_toks tS) (o_encS o)
  && res_cells_eqb (parse_styled_string tE) (o_parsed o) (o_fin_parse o)
  && res_cells_eqb (term_feed tE) (o_term o) (o_fin_term o)
  && (if forallb no_link cells
      then res_only_cells_eqb (new_styled_string pen0 tS) (o_styled o)
           && res_only_cells_eqb (new_styled_string pen0 tE) (o_styledE o)
      else true).

(* The property on one observation: every decoder returned the cells that were encoded
   ([cells_match]: blank cells included), and the string leaves the pen reset.  [with_styledE] = false leaves out NewStyledString applied
   to EncodeCells' output (the conjunct the finding legacy-sgr-newstyledstring is about). *)
Definition codec_holds_gen (with_styledE : bool) (c : codec_case) : bool :=
  let '(legacy, cells, o) := c in
  if forallb wf_scellb cells then
    let want := map pcell_of cells in
    cells_match want (o_parsed o) && cells_match want (o_term o)
    && (if forallb no_link cells
        then cells_match want (o_styled o) && (if with_styledE then cells_match want (o_styledE o) else true)
        else true)
    && pen_eqb (o_fin_parse o) pen0 && pen_eqb (o_fin_term o) pen0
  else true.
Definition codec_holds : codec_case -> bool := codec_holds_gen true.
(* guard of the finding: the legacy quirk is active, a cell has an extended (38/48) colour, and
   everything else the property demands holds *)
Definition codec_known (c : codec_case) : bool :=
  let '(legacy, cells, o) := c in
  legacy && existsb (fun c => uses_ext_colour (spen (snd c))) cells && codec_holds_gen false c.

Definition c18_codec_mismatches (cases : list codec_case) : list Z :=
  bad_indices (fun c => negb (codec_model_ok c)) cases.
Definition c18_codec_violations (cases : list codec_case) : list Z :=
  bad_indices (fun c => negb (codec_holds c)) cases.
Definition c18_codec_known (cases : list codec_case) : list Z := bad_indices codec_known cases.

(* stream render: one screen row drawn by Vaxis.render with given capabilities *)
Record render_obs := mkRenderObs {
  r_out : text;                (* bytes of the frame from after the CUP to the final sgrReset *)
  r_parsed : list pcell;       (* ParseStyledString(r_out) *)
  r_styled : list pcell;       (* NewStyledString(r_out, Style{}).Cells *)
  r_term : list pcell;         (* r_out through ansi.Parser into the emulator's sgr *)
  r_fin_term : pen
}.
Definition render_case : Type := (bool * bool * bool) * list pcell * render_obs.   (* (legacy, rgb, smulx) *)
Definition mkRenderW (out : text) (parsed : list pcell) (styled term : option (list pcell)) (ft : pen) : render_obs :=
  mkRenderObs out parsed (match styled with Some l => l | None => parsed end)
    (match term with Some l => l | None => parsed end) ft.

Definition render_model_ok (c : render_case) : bool :=
  let '((legacy, rgb, smulx), cells, o) := c in
  let t := render_row legacy rgb smulx cells in
  zlist_eqb (print_toks t) (r_out o)
  && res_cells_eqb (term_feed t) (r_term o) (r_fin_term o)
  && res_only_cells_eqb (parse_styled_string t) (r_parsed o)
  && res_only_cells_eqb (new_styled_string pen0 t) (r_styled o).

Definition render_holds_gen (with_styled : bool) (c : render_case) : bool :=
  let '((legacy, rgb, smulx), cells, o) := c in
  if forallb wf_spcellb cells then
    (* the renderer must draw a blank cell: it comes back as a space with the blank cell's pen *)
    let want := map (fun c => (shown (fst c), eff_pen rgb smulx (snd c))) cells in
    pcells_eqb (r_parsed o) want && (if with_styled then pcells_eqb (r_styled o) want else true)
    && pcells_eqb (r_term o) want && pen_eqb (r_fin_term o) pen0
  else true.
Definition render_holds : render_case -> bool := render_holds_gen true.
Definition render_known (c : render_case) : bool :=
  let '((legacy, rgb, smulx), cells, o) := c in
  legacy && existsb (fun c => uses_ext_colour (eff_pen rgb smulx (snd c))) cells && render_holds_gen false c.

Definition c18_render_mismatches (cases : list render_case) : list Z :=
  bad_indices (fun c => negb (render_model_ok c)) cases.
Definition c18_render_violations (cases : list render_case) : list Z :=
  bad_indices (fun c => negb (render_holds c)) cases.
Definition c18_render_known (cases : list render_case) : list Z := bad_indices render_known cases.

(* stream sgr: one param list applied to a start pen by each consumer.
   outcome code: 0 = returned, 1 = panicked (pen then irrelevant, shipped as the start pen) *)
Record sgr_obs := mkSgrObs {
  s_cell : Z * pen;            (* VerifC18ParseSGR *)
  s_term : Z * pen;            (* term.VerifC18SGR *)
  s_printable : bool;          (* harness: all sub-lists non-empty, all numbers >= 0 *)
  s_styled : Z * pen;          (* NewStyledString(print ++ "x", start): style of the cell (when printable) *)
  s_pss : Z * pen              (* ParseStyledString(print ++ "x"): style of the cell (when printable) *)
}.
Definition sgr_case : Type := pen * sgrseq * sgr_obs.

Definition obs_eqb (r : res pen) (o : Z * pen) : bool :=
  match r with Ok p => (fst o =? 0) && pen_eqb p (snd o) | Panic => fst o =? 1 end.

Definition nonempty_subs (ps : sgrseq) : bool := forallb (fun p => negb (zlist_eqb p [])) ps.

Definition sgr_model_ok (c : sgr_case) : bool :=
  let '(st, ps, o) := c in
  obs_eqb (parse_sgr ps st) (s_cell o) && obs_eqb (term_sgr ps st) (s_term o)
  && (if s_printable o
      then obs_eqb (styled_sgr st ps st) (s_styled o) && obs_eqb (parse_sgr ps pen0) (s_pss o)
      else true).

(* the property on one observation: no consumer panics on a param list the parser can deliver *)
Definition sgr_holds (c : sgr_case) : bool :=
  let '(st, ps, o) := c in
  if nonempty_subs ps then
    (fst (s_cell o) =? 0) && (fst (s_term o) =? 0)
    && (if s_printable o then (fst (s_styled o) =? 0) && (fst (s_pss o) =? 0) else true)
    && (if forallb in_vocab [ps] && s_printable o
        then pen_eqb (snd (s_cell o)) (snd (s_term o))
             (* ESC[m means "default style" to NewStyledString: comparable when that is Style{} *)
             && (if pen_eqb st pen0 || negb (zlen ps =? 0)
                 then pen_eqb (snd (s_cell o)) (snd (s_styled o)) else true)
        else true)
  else true.

Definition c18_sgr_mismatches (cases : list sgr_case) : list Z :=
  bad_indices (fun c => negb (sgr_model_ok c)) cases.
Definition c18_sgr_violations (cases : list sgr_case) : list Z :=
  bad_indices (fun c => negb (sgr_holds c)) cases.
