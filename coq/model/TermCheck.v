(* C05 - correspondence functions for the emulator model: observations shipped by the
   harness (harness/c05), model-vs-implementation comparison and the decidable statement of
   C05 on one observed history.  Executable definitions only. *)
From Vx Require Import base.Prelude base.ListX model.Colour model.Sgr model.Term.

(* ------------------------------------------------------------------ equalities *)

Definition tcell_eqb (a b : tcell) : bool :=
  zlist_eqb (c_g a) (c_g b) && (c_w a =? c_w b) && style_eqb (c_st a) (c_st b) && Bool.eqb (c_wr a) (c_wr b).

Definition modes_eqb (a b : modes) : bool :=
  Bool.eqb (m_irm a) (m_irm b) && Bool.eqb (m_lnm a) (m_lnm b) && Bool.eqb (m_awm a) (m_awm b)
  && Bool.eqb (m_om a) (m_om b) && Bool.eqb (m_smcup a) (m_smcup b) && Bool.eqb (m_tcem a) (m_tcem b).

Definition chars_eqb (a b : chars) : bool :=
  zlist_eqb (cs_des a) (cs_des b) && (cs_sel a =? cs_sel b) && (cs_saved a =? cs_saved b)
  && Bool.eqb (cs_ss a) (cs_ss b).

(* the single-shift flag of a saved state is not restored by decrc: not observed *)
Definition saved_eqb (a b : saved) : bool :=
  (s_row a =? s_row b) && (s_col a =? s_col b) && style_eqb (s_pen a) (s_pen b)
  && (s_shape a =? s_shape b) && Bool.eqb (s_awm a) (s_awm b) && Bool.eqb (s_om a) (s_om b)
  && zlist_eqb (cs_des (s_cs a)) (cs_des (s_cs b)) && (cs_sel (s_cs a) =? cs_sel (s_cs b))
  && (cs_saved (s_cs a) =? cs_saved (s_cs b)).

(* ------------------------------------------------------------------ observations *)

(* a grid is shipped as the list of its cells that differ from the zero cell *)
Definition scell : Type := Z * Z * tcell.

Fixpoint sparse_row (r c : Z) (line : trow) : list scell :=
  match line with
  | [] => []
  | x :: rest => if tcell_eqb x cell0 then sparse_row r (c + 1) rest
                 else (r, c, x) :: sparse_row r (c + 1) rest
  end.

Fixpoint sparse_grid (r : Z) (g : grid) : list scell :=
  match g with
  | [] => []
  | l :: rest => sparse_row r 0 l ++ sparse_grid (r + 1) rest
  end.

Definition scell_eqb (a b : scell) : bool :=
  let '(ra, ca, xa) := a in let '(rb, cb, xb) := b in
  (ra =? rb) && (ca =? cb) && tcell_eqb xa xb.

Record full := mkFull {
  f_pen : style; f_shape : Z; f_onalt : bool; f_md : modes; f_tabs : list Z; f_cs : chars;
  f_svp : saved; f_sva : saved; f_prim : list scell; f_alt : list scell }.

(* outcome: 0 ok, 1 panic, 2 stall (blocked in postEvent), 3 hang *)
Record obs := mkObs {
  o_out : Z; o_rows : Z; o_cols : Z; o_row : Z; o_col : Z; o_last : bool;
  o_top : Z; o_bot : Z; o_left : Z; o_right : Z; o_ev : Z;
  o_plens : list Z; o_alens : list Z;
  o_full : option full }.

Definition full_matches (t : term) (f : full) : bool :=
  style_eqb (t_pen t) (f_pen f) && (t_shape t =? f_shape f) && Bool.eqb (t_onalt t) (f_onalt f)
  && modes_eqb (t_md t) (f_md f) && zlist_eqb (t_tabs t) (f_tabs f) && chars_eqb (t_cs t) (f_cs f)
  && saved_eqb (t_svp t) (f_svp f) && saved_eqb (t_sva t) (f_sva f)
  && list_eqb scell_eqb (sparse_grid 0 (t_prim t)) (f_prim f)
  && list_eqb scell_eqb (sparse_grid 0 (t_alt t)) (f_alt f).

Definition obs_matches (t : term) (o : obs) : bool :=
  (o_rows o =? height t) && (o_cols o =? width t) && (o_row o =? t_row t) && (o_col o =? t_col t)
  && Bool.eqb (o_last o) (t_last t)
  && (o_top o =? t_top t) && (o_bot o =? t_bot t) && (o_left o =? t_left t) && (o_right o =? t_right t)
  && (o_ev o =? t_ev t)
  && zlist_eqb (o_plens o) (map zlen (t_prim t)) && zlist_eqb (o_alens o) (map zlen (t_alt t))
  && match o_full o with None => true | Some f => full_matches t f end.

(* one history: steps from New(), each with what the implementation showed afterwards;
   the history ends at the first outcome other than ok *)
Definition hist_case : Type := list (hstep * obs).

Definition is_nil {A} (l : list A) : bool := match l with [] => true | _ => false end.

Fixpoint check_steps (t : term) (l : hist_case) : bool :=
  match l with
  | [] => true
  | (s, o) :: rest =>
      match hstep_run t s with
      | TOk t' => (o_out o =? 0) && obs_matches t' o && check_steps t' rest
      | TPanic => (o_out o =? 1) && is_nil rest
      | TStall => (o_out o =? 2) && is_nil rest
      end
  end.

Definition hist_model_ok (c : hist_case) : bool := check_steps term_new c.

(* ------------------------------------------------------------------ C05 on one observation *)

(* the state the property demands after every step, read off the observation alone *)
Definition obs_wf (o : obs) : bool :=
  (o_out o =? 0)
  && (1 <=? o_rows o) && (1 <=? o_cols o)
  && (0 <=? o_row o) && (o_row o <? o_rows o) && (0 <=? o_col o) && (o_col o <? o_cols o)
  && (0 <=? o_top o) && (o_top o <=? o_bot o) && (o_bot o <? o_rows o)
  && (0 <=? o_left o) && (o_left o <=? o_right o) && (o_right o <? o_cols o)
  && zlist_eqb (o_plens o) (zrepeat (o_cols o) (o_rows o))
  && zlist_eqb (o_alens o) (zrepeat (o_cols o) (o_rows o))
  && (0 <=? o_ev o) && (o_ev o <=? 2).

Definition hist_holds (c : hist_case) : bool := forallb (fun so => obs_wf (snd so)) c.

(* items that raise an event (bell, title, notification, APC) *)
Definition raises_event (it : titem) : bool :=
  match it with
  | TC0 c => c =? 7
  | TApc => true
  | TOsc p =>
      let '(sel, val, found) := cut59 p in
      found && (key_is sel [48] || key_is sel [50] || key_is sel [57]
                || (key_is sel [55; 55; 55] &&
                    let '(sel2, val2, found2) := cut59 val in
                    found2 && key_is sel2 [110; 111; 116; 105; 102; 121] &&
                    let '(_, _, found3) := cut59 val2 in found3))
  | _ => false
  end.

(* the recorded finding "event-stall": everything is fine up to a last step that posts an
   event onto the full channel which the goroutine has not drained *)
Fixpoint stall_only (prev_ev : Z) (c : hist_case) : bool :=
  match c with
  | [] => false
  | [(HFeed false it, o)] => (o_out o =? 2) && (prev_ev =? 2) && raises_event it
  | (_, o) :: rest => obs_wf o && stall_only (o_ev o) rest
  end.

Definition c05_hist_mismatches (cases : list hist_case) : list Z :=
  bad_indices (fun c => negb (hist_model_ok c)) cases.
Definition c05_hist_violations (cases : list hist_case) : list Z :=
  bad_indices (fun c => negb (hist_holds c)) cases.
Definition c05_hist_known (cases : list hist_case) : list Z :=
  bad_indices (stall_only 0) cases.

(* ------------------------------------------------------------------ Draw *)

(* Draw into a child window of the terminal's size on a host screen filled with a sentinel:
   what the host screen holds inside the window afterwards, whether anything changed
   outside it, and the cursor Draw asked for (relative to the window) *)
Definition dcell : Type := text * Z * style.
Definition sentinel : dcell := ([35], 1, style0).
Definition draw_obs : Type := bool * (bool * Z * Z) * list (list dcell).
Definition draw_case : Type := hist_case * draw_obs.

Definition zseq (n : Z) : list Z := map Z.of_nat (seq 0 (Z.to_nat n)).

Fixpoint find_draw (l : list (Z * Z * tcell)) (c r : Z) : option tcell :=
  match l with
  | [] => None
  | (c', r', x) :: rest => if (c =? c') && (r =? r') then Some x else find_draw rest c r
  end.

(* the window after Draw's SetCell calls (an empty grapheme is drawn as a space) *)
Definition draw_screen (t : term) : list (list dcell) :=
  let d := draw t in
  map (fun r => map (fun c => match find_draw d c r with
                              | Some x => (if is_nil (c_g x) then [32] else c_g x, c_w x, c_st x)
                              | None => sentinel
                              end) (zseq (width t))) (zseq (height t)).

Fixpoint final_term (t : term) (l : hist_case) : option term :=
  match l with
  | [] => Some t
  | (s, _) :: rest => match hstep_run t s with TOk t' => final_term t' rest | _ => None end
  end.

Definition dcell_eqb (a b : dcell) : bool :=
  let '(g, w, s) := a in let '(g', w', s') := b in zlist_eqb g g' && (w =? w') && style_eqb s s'.

Definition draw_model_ok (c : draw_case) : bool :=
  let '(h, (outside, (vis, col, row), cells)) := c in
  hist_model_ok h &&
  match final_term term_new h with
  | Some t => list_eqb (list_eqb dcell_eqb) (draw_screen t) cells
              && Bool.eqb vis (m_tcem (t_md t))
              && (negb vis || ((col =? t_col t) && (row =? t_row t)))
  | None => false
  end.

(* C05 on one observed Draw: nothing outside the window changed, the cursor is inside *)
Definition draw_holds (c : draw_case) : bool :=
  let '(h, (outside, (vis, col, row), cells)) := c in
  let rows := zlen cells in
  let cols := match cells with [] => 0 | r :: _ => zlen r end in
  outside && (negb vis || ((0 <=? col) && (col <? cols) && (0 <=? row) && (row <? rows))).

Definition c05_draw_mismatches (cases : list draw_case) : list Z :=
  bad_indices (fun c => negb (draw_model_ok c)) cases.
Definition c05_draw_violations (cases : list draw_case) : list Z :=
  bad_indices (fun c => negb (draw_holds c)) cases.
