(* C11 — model of window.go (Window, New, SetCell, SetStyle, Fill, Origin, Clear, Print,
   PrintTruncate, Println, Wrap), screen.go (resize, setCell, setStyle) and character.go
   (Characters).  Executable definitions only; proofs are in proofs/WindowProofs.v.

   Oracles (third-party libraries, not modelled): grapheme segmentation and cluster width
   (uniseg.FirstGraphemeClusterInString), line segmentation and the trailing-line-break
   test (uniseg.FirstLineSegmentInString, HasTrailingLineBreakInString) and the width
   measurement Vaxis.characterWidth.  A text therefore enters the model already cut into
   clusters [(runes, width)]; [measure] and [trailing] are function arguments. *)
From Vx Require Import base.Prelude base.ListX.

(* ------------------------------------------------------------------ cells and the screen *)

(* Cell = Character{Grapheme, Width} + Style.  A style is abstracted to a tag (the harness
   uses Style{Attribute: tag}; tag 0 is the zero Style). *)
Record cell := mkCell { cg : text; cw : Z; cst : Z }.

Definition cell_eqb (a b : cell) : bool :=
  zlist_eqb (cg a) (cg b) && (cw a =? cw b) && (cst a =? cst b).

Definition zero_cell : cell := mkCell [] 0 0.

(* screen{buf, rows, cols} *)
Record screen := mkScreen { scols : Z; srows : Z; sbuf : list (list cell) }.

(* screen.resize on a fresh screen: make([][]Cell, rows) then make([]Cell, cols) per row;
   None = the panic of make with a negative length *)
Definition screen_resize (cols rows : Z) : option screen :=
  if rows <? 0 then None
  else if (0 <? rows) && (cols <? 0) then None
  else Some (mkScreen cols rows (zrepeat (zrepeat zero_cell cols) rows)).

(* read access used by specifications: buf[row][col] *)
Definition sget (s : screen) (col row : Z) : option cell :=
  match zget (sbuf s) row with
  | None => None
  | Some line => zget line col
  end.

(* s.buf[row][col] = c ; None = index panic *)
Definition buf_put (s : screen) (col row : Z) (f : cell -> cell) : option screen :=
  match zget (sbuf s) row with
  | None => None
  | Some line =>
      match zget line col with
      | None => None
      | Some old =>
          match zupd line col (f old) with
          | None => None
          | Some line' =>
              match zupd (sbuf s) row line' with
              | None => None
              | Some b => Some (mkScreen (scols s) (srows s) b)
              end
          end
      end
  end.

(* screen.setCell *)
Definition screen_setcell (s : screen) (col row : Z) (c : cell) : option screen :=
  if (col <? 0) || (row <? 0) then Some s
  else if col >=? scols s then Some s
  else if row >=? srows s then Some s
  else buf_put s col row (fun _ => c).

(* screen.setStyle *)
Definition screen_setstyle (s : screen) (col row : Z) (st : Z) : option screen :=
  if (col <? 0) || (row <? 0) then Some s
  else if col >=? scols s then Some s
  else if row >=? srows s then Some s
  else buf_put s col row (fun old => mkCell (cg old) (cw old) st).

(* ------------------------------------------------------------------ windows *)

(* Column, Row, Width, Height: four arbitrary integers *)
Record frame := mkFrame { fcol : Z; frow : Z; fw : Z; fh : Z }.

Definition frame_eqb (a b : frame) : bool :=
  (fcol a =? fcol b) && (frow a =? frow b) && (fw a =? fw b) && (fh a =? fh b).

(* Window with its Parent pointer: nil or another window *)
Inductive window :=
| Root (f : frame)
| Child (f : frame) (parent : window).

Definition wframe (w : window) : frame :=
  match w with Root f => f | Child f _ => f end.

(* frames innermost first *)
Fixpoint wchain (w : window) : list frame :=
  match w with Root f => [f] | Child f p => f :: wchain p end.

(* Vaxis.Window() *)
Definition root_window (s : screen) : window := Root (mkFrame 0 0 (scols s) (srows s)).

(* Window.Size *)
Definition win_size (w : window) : Z * Z := (fw (wframe w), fh (wframe w)).

(* Window.New: the two switch statements *)
Definition clamp_size (size off parent : Z) : Z :=
  if size <? 0 then parent - off
  else if size + off >? parent then parent - off
  else size.

Definition win_new (w : window) (col row cols rows : Z) : window :=
  let '(pw, ph) := win_size w in
  Child (mkFrame col row (clamp_size cols col pw) (clamp_size rows row ph)) w.

(* Window.SetCell: bounds check at this level, then delegate to the parent / the screen *)
Fixpoint win_setcell (w : window) (s : screen) (col row : Z) (c : cell) : option screen :=
  let f := wframe w in
  if (row >=? fh f) || (col >=? fw f) then Some s
  else if (row <? 0) || (col <? 0) then Some s
  else match w with
       | Root _ => screen_setcell s (col + fcol f) (row + frow f) c
       | Child _ p => win_setcell p s (col + fcol f) (row + frow f) c
       end.

(* Window.SetStyle *)
Fixpoint win_setstyle (w : window) (s : screen) (col row : Z) (st : Z) : option screen :=
  let f := wframe w in
  if (row >=? fh f) || (col >=? fw f) then Some s
  else if (row <? 0) || (col <? 0) then Some s
  else match w with
       | Root _ => screen_setstyle s (col + fcol f) (row + frow f) st
       | Child _ p => win_setstyle p s (col + fcol f) (row + frow f) st
       end.

(* Window.Origin: the loop that walks the Parent pointers *)
Fixpoint win_origin_loop (w : window) (col row : Z) : Z * Z :=
  let f := wframe w in
  match w with
  | Root _ => (col + fcol f, row + frow f)
  | Child _ p => win_origin_loop p (col + fcol f) (row + frow f)
  end.
Definition win_origin (w : window) : Z * Z := win_origin_loop w 0 0.

(* loops *)
Fixpoint foldM {A S : Type} (f : S -> A -> option S) (l : list A) (s : S) : option S :=
  match l with
  | [] => Some s
  | x :: t => match f s x with None => None | Some s' => foldM f t s' end
  end.

(* for i := 0; i < n; i += 1 *)
Definition zrange (n : Z) : list Z := map Z.of_nat (seq 0 (Z.to_nat n)).

(* Window.Fill *)
Definition win_fill (w : window) (s : screen) (c : cell) : option screen :=
  let '(cols, rows) := win_size w in
  foldM (fun s row => foldM (fun s col => win_setcell w s col row c) (zrange cols) s) (zrange rows) s.

(* Window.Clear (the reset of Vaxis.graphicsNext is not a screen cell and is left out) *)
Definition space_cell : cell := mkCell [32] 1 0.
Definition win_clear (w : window) (s : screen) : option screen := win_fill w s space_cell.

(* ------------------------------------------------------------------ character.go *)

Record character := mkChar { gr : text; wd : Z }.

(* Characters: the loop body applied to the clusters uniseg returns, a tab becomes eight
   spaces of width 1 *)
Definition characters (clusters : list (text * Z)) : list character :=
  flat_map (fun cl => if zlist_eqb (fst cl) [9] then repeat (mkChar [32] 1) 8
                      else [mkChar (fst cl) (snd cl)]) clusters.

(* a Segment: the clusters of Text and the style tag *)
Definition segment := (list (text * Z) * Z)%type.

(* for _, seg := range segs { for _, char := range Characters(seg.Text) {...} } as one loop *)
Definition items_of (segs : list segment) : list (character * Z) :=
  flat_map (fun sg => map (fun ch => (ch, snd sg)) (characters (fst sg))) segs.

(* strings.ContainsRune(g, '\n') *)
Definition has_nl (g : text) : bool := existsb (Z.eqb 10) g.

Section Text.
(* Vaxis.characterWidth, and the condition !caps.unicodeCore || !caps.explicitWidth *)
Variable measure : text -> Z.
Variable remeasure : bool.
(* uniseg.HasTrailingLineBreakInString *)
Variable trailing : text -> bool.

Definition char_width (ch : character) : Z := if remeasure then measure (gr ch) else wd ch.

(* the guard added to Print and Wrap: a cluster that does not fit in the rest of the row
   starts a new row; one that is wider than the window is skipped.
   Result: None = continue (skip), Some (col,row) = where the cluster goes *)
Definition fit (cols col row wdt : Z) : option (Z * Z) :=
  if col + wdt >? cols then
    if wdt >? cols then None else Some (0, row + 1)
  else Some (col, row).

(* Window.Print *)
Fixpoint print_loop (w : window) (cols rows : Z) (items : list (character * Z))
         (s : screen) (col row : Z) : option (screen * (Z * Z)) :=
  match items with
  | [] => Some (s, (col, row))
  | (ch, st) :: t =>
      if has_nl (gr ch) then print_loop w cols rows t s 0 (row + 1)
      else if row >? rows then Some (s, (col, row))
      else
        let wdt := char_width ch in
        match fit cols col row wdt with
        | None => print_loop w cols rows t s col row
        | Some (col, row) =>
            match win_setcell w s col row (mkCell (gr ch) wdt st) with
            | None => None
            | Some s' =>
                if col + wdt >=? cols then print_loop w cols rows t s' 0 (row + 1)
                else print_loop w cols rows t s' (col + wdt) row
            end
        end
  end.

Definition win_print (w : window) (s : screen) (segs : list segment) : option (screen * (Z * Z)) :=
  let '(cols, rows) := win_size w in
  print_loop w cols rows (items_of segs) s 0 0.

(* Window.PrintTruncate *)
Definition ellipsis : text := [8230].

Fixpoint ptrunc_loop (w : window) (cols : Z) (items : list (character * Z))
         (s : screen) (col row : Z) : option screen :=
  match items with
  | [] => Some s
  | (ch, st) :: t =>
      let wdt := char_width ch in
      if col + 1 + wdt >? cols then win_setcell w s col row (mkCell ellipsis 1 st)
      else match win_setcell w s col row (mkCell (gr ch) wdt st) with
           | None => None
           | Some s' => ptrunc_loop w cols t s' (col + wdt) row
           end
  end.

Definition win_print_truncate (w : window) (s : screen) (row : Z) (segs : list segment) : option screen :=
  let '(cols, rows) := win_size w in
  if row >=? rows then Some s else ptrunc_loop w cols (items_of segs) s 0 row.

(* Window.Println *)
Fixpoint println_loop (w : window) (cols : Z) (items : list (character * Z))
         (s : screen) (col row : Z) : option screen :=
  match items with
  | [] => Some s
  | (ch, st) :: t =>
      let wdt := char_width ch in
      if col + wdt >? cols then Some s
      else match win_setcell w s col row (mkCell (gr ch) wdt st) with
           | None => None
           | Some s' => println_loop w cols t s' (col + wdt) row
           end
  end.

Definition win_println (w : window) (s : screen) (row : Z) (segs : list segment) : option screen :=
  let '(cols, rows) := win_size w in
  if row >=? rows then Some s else println_loop w cols (items_of segs) s 0 row.

(* Window.Wrap.  A line segment (the oracle FirstLineSegmentInString applied repeatedly,
   state carried over) is given as the clusters of its text with the style of the Segment
   it came from. *)
Definition lineseg := (list (text * Z) * Z)%type.

(* the first inner loop: chars[i].Width = characterWidth(...) when re-measuring *)
Definition measured (ch : character) : character := mkChar (gr ch) (char_width ch).

Fixpoint wrap_chars (w : window) (cols : Z) (chars : list character) (st : Z)
         (s : screen) (col row : Z) : option (screen * (Z * Z)) :=
  match chars with
  | [] => Some (s, (col, row))
  | ch :: t =>
      if trailing (gr ch) then wrap_chars w cols t st s 0 (row + 1)
      else
        match fit cols col row (wd ch) with
        | None => wrap_chars w cols t st s col row
        | Some (col, row) =>
            match win_setcell w s col row (mkCell (gr ch) (wd ch) st) with
            | None => None
            | Some s' =>
                if col + wd ch >=? cols then wrap_chars w cols t st s' 0 (row + 1)
                else wrap_chars w cols t st s' (col + wd ch) row
            end
        end
  end.

Definition zsum (l : list Z) : Z := fold_left Z.add l 0.

(* what one cluster of a line segment contributes to the segment width Wrap compares with the
   window width: the widths of the characters it EXPANDS to, under the measuring in force (a
   tab: eight blanks, whatever width the segmenter attached to the tab cluster; its string
   width would be 0) *)
Definition cluster_total (cl : list Z * Z) : Z :=
  if zlist_eqb (fst cl) [9] then 8 * char_width (mkChar [32] 1)
  else char_width (mkChar (fst cl) (snd cl)).

Fixpoint wrap_loop (w : window) (cols rows : Z) (lsegs : list lineseg)
         (s : screen) (col row : Z) : option (screen * (Z * Z)) :=
  match lsegs with
  | [] => Some (s, (col, row))
  | (cls, st) :: t =>
      (* "if row >= rows { break }": row never decreases, so every later iteration breaks too *)
      if row >=? rows then Some (s, (col, row))
      else
        let chars := map measured (characters cls) in
        let total := zsum (map wd chars) in
        let '(col, row) := if total >? cols then (col, row)           (* break at a grapheme *)
                           else if total + col >? cols then (0, row + 1)  (* no space left *)
                           else (col, row) in
        match wrap_chars w cols chars st s col row with
        | None => None
        | Some (s', (col', row')) => wrap_loop w cols rows t s' col' row'
        end
  end.

Definition win_wrap (w : window) (s : screen) (lsegs : list lineseg) : option (screen * (Z * Z)) :=
  let '(cols, rows) := win_size w in
  wrap_loop w cols rows lsegs s 0 0.

End Text.

(* ------------------------------------------------------------------ specification vocabulary
   (independent of the way SetCell computes: absolute rectangles) *)

(* absolute origin of a window: sum of the offsets up to the root *)
Fixpoint origin (w : window) : Z * Z :=
  match w with
  | Root f => (fcol f, frow f)
  | Child f p => let '(x, y) := origin p in (x + fcol f, y + frow f)
  end.

(* (x,y), in screen coordinates, lies in the rectangle of [w] itself *)
Definition in_rect (w : window) (x y : Z) : bool :=
  let '(ox, oy) := origin w in
  let f := wframe w in
  (ox <=? x) && (x <? ox + fw f) && (oy <=? y) && (y <? oy + fh f).

(* ... and in the rectangle of every ancestor *)
Fixpoint in_clip (w : window) (x y : Z) : bool :=
  match w with
  | Root _ => in_rect w x y
  | Child _ p => in_rect w x y && in_clip p x y
  end.

Definition on_screen (s : screen) (x y : Z) : bool :=
  (0 <=? x) && (x <? scols s) && (0 <=? y) && (y <? srows s).

(* the clip of a window on a screen *)
Definition visible (w : window) (s : screen) (x y : Z) : bool := in_clip w x y && on_screen s x y.

(* every child's right and bottom edge is within its parent's size (what New guarantees)
   and the root does not exceed the screen (what Vaxis.Window() gives) *)
Fixpoint edges_ok (w : window) (cols rows : Z) : bool :=
  match w with
  | Root f => (fcol f + fw f <=? cols) && (frow f + fh f <=? rows)
  | Child f p => (fcol f + fw f <=? fw (wframe p)) && (frow f + fh f <=? fh (wframe p)) && edges_ok p cols rows
  end.

(* columns covered by the glyph of a cell placed at column x *)
Definition glyph_w (c : cell) : Z := Z.max 1 (cw c).

(* ---- drawing as a list of placements (window coordinates), used to state what the text
   helpers do independently of the screen ---- *)
Definition placement := (Z * Z * cell)%type.

Definition draw_places (w : window) (s : screen) (ps : list placement) : option screen :=
  foldM (fun s p => win_setcell w s (fst (fst p)) (snd (fst p)) (snd p)) ps s.

(* what a sequence of placements leaves at (col,row): the last cell put there *)
Fixpoint last_at (ps : list placement) (col row : Z) : option cell :=
  match ps with
  | [] => None
  | p :: t =>
      match last_at t col row with
      | Some c => Some c
      | None => if (fst (fst p) =? col) && (snd (fst p) =? row) then Some (snd p) else None
      end
  end.

Section TextSpec.
Variable measure : text -> Z.
Variable remeasure : bool.
Variable trailing : text -> bool.

(* the layout of Print: where each cluster goes, and the returned position *)
Fixpoint print_places (cols rows : Z) (items : list (character * Z)) (col row : Z)
  : list placement * (Z * Z) :=
  match items with
  | [] => ([], (col, row))
  | (ch, st) :: t =>
      if has_nl (gr ch) then print_places cols rows t 0 (row + 1)
      else if row >? rows then ([], (col, row))
      else
        let wdt := char_width measure remeasure ch in
        match fit cols col row wdt with
        | None => print_places cols rows t col row
        | Some (c1, r1) =>
            let rest := if c1 + wdt >=? cols then print_places cols rows t 0 (r1 + 1)
                        else print_places cols rows t (c1 + wdt) r1 in
            ((c1, r1, mkCell (gr ch) wdt st) :: fst rest, snd rest)
        end
  end.

Fixpoint ptrunc_places (cols : Z) (items : list (character * Z)) (col row : Z) : list placement :=
  match items with
  | [] => []
  | (ch, st) :: t =>
      let wdt := char_width measure remeasure ch in
      if col + 1 + wdt >? cols then [(col, row, mkCell ellipsis 1 st)]
      else (col, row, mkCell (gr ch) wdt st) :: ptrunc_places cols t (col + wdt) row
  end.

Fixpoint println_places (cols : Z) (items : list (character * Z)) (col row : Z) : list placement :=
  match items with
  | [] => []
  | (ch, st) :: t =>
      let wdt := char_width measure remeasure ch in
      if col + wdt >? cols then []
      else (col, row, mkCell (gr ch) wdt st) :: println_places cols t (col + wdt) row
  end.

Fixpoint wrap_chars_places (cols : Z) (chars : list character) (st : Z) (col row : Z)
  : list placement * (Z * Z) :=
  match chars with
  | [] => ([], (col, row))
  | ch :: t =>
      if trailing (gr ch) then wrap_chars_places cols t st 0 (row + 1)
      else
        match fit cols col row (wd ch) with
        | None => wrap_chars_places cols t st col row
        | Some (c1, r1) =>
            let rest := if c1 + wd ch >=? cols then wrap_chars_places cols t st 0 (r1 + 1)
                        else wrap_chars_places cols t st (c1 + wd ch) r1 in
            ((c1, r1, mkCell (gr ch) (wd ch) st) :: fst rest, snd rest)
        end
  end.

(* where Wrap starts a line segment *)
Definition wrap_start (cols total col row : Z) : Z * Z :=
  if total >? cols then (col, row)
  else if total + col >? cols then (0, row + 1)
  else (col, row).

Fixpoint wrap_places (cols rows : Z) (lsegs : list lineseg) (col row : Z) : list placement * (Z * Z) :=
  match lsegs with
  | [] => ([], (col, row))
  | (cls, st) :: t =>
      if row >=? rows then ([], (col, row))
      else
        let chars := map (measured measure remeasure) (characters cls) in
        let total := zsum (map wd chars) in
        let start := wrap_start cols total col row in
        let here := wrap_chars_places cols chars st (fst start) (snd start) in
        let rest := wrap_places cols rows t (fst (snd here)) (snd (snd here)) in
        (fst here ++ fst rest, snd rest)
  end.

End TextSpec.

(* ---- predicates used in the theorem statements ---- *)

(* a screen whose buffer has the advertised shape (what screen.resize establishes) *)
Definition WF (s : screen) : Prop :=
  zlen (sbuf s) = srows s /\ Forall (fun l => zlen l = scols s) (sbuf s).

Definition same_dims (s s' : screen) : Prop := scols s' = scols s /\ srows s' = srows s.

(* [s'] is [s] with the cell at (X,Y) replaced by [f old] *)
Definition updated_at (s s' : screen) (X Y : Z) (f : cell -> cell) : Prop :=
  WF s' /\ same_dims s s' /\
  (exists old, sget s X Y = Some old /\ sget s' X Y = Some (f old)) /\
  forall x y, (x <> X \/ y <> Y) -> sget s' x y = sget s x y.

(* nothing outside the clip changes *)
Definition clipped (w : window) (s s' : screen) : Prop :=
  WF s' /\ same_dims s s' /\ forall X Y, visible w s X Y = false -> sget s' X Y = sget s X Y.

(* "somewhere later in reading order": the same position, or column 0 of a later row *)
Definition reach (a b : Z * Z) : Prop :=
  (snd b = snd a /\ fst b = fst a) \/ (snd a < snd b /\ fst b = 0).

(* a list of placements is a walk in reading order from [st] to [en]: each cluster is put at
   the current position or at column 0 of a later row, and the walk continues right after
   the cluster (advance by its width) *)
Fixpoint path_ok (st : Z * Z) (ps : list placement) (en : Z * Z) : Prop :=
  match ps with
  | [] => reach st en
  | p :: t => reach st (fst p) /\ path_ok (fst (fst p) + cw (snd p), snd (fst p)) t en
  end.

(* consecutive placements: same row right after the previous glyph, or column 0 of a later
   row; when [nonl] (no line break in the text) a later row is the next row and is started
   only because the row was full or the next cluster did not fit *)
Definition step_ok (nonl : bool) (cols : Z) (p1 p2 : placement) : Prop :=
  let '(x1, y1, c1) := p1 in
  let '(x2, y2, c2) := p2 in
  (y2 = y1 /\ x2 = x1 + cw c1) \/
  (y1 < y2 /\ x2 = 0 /\
   (nonl = true -> y2 = y1 + 1 /\ (cols <= x1 + cw c1 \/ cols < x1 + cw c1 + cw c2))).

Fixpoint layout_ok (nonl : bool) (cols : Z) (ps : list placement) : Prop :=
  match ps with
  | p1 :: ((p2 :: _) as t) => step_ok nonl cols p1 p2 /\ layout_ok nonl cols t
  | _ => True
  end.

(* glyphs never overhang the right edge (an ellipsis is one column wide) *)
Definition fits_in (cols : Z) (p : placement) : Prop :=
  fst (fst p) + cw (snd p) <= cols \/ cw (snd p) <= 1.

(* ------------------------------------------------------------------ correspondence *)

(* how the harness builds a window: the root is Vaxis.Window() or a Window literal, every
   further level is made by New (true) or is a literal with Parent set (false) *)
Definition wspec := (option frame * list (bool * (Z * Z * Z * Z)))%type.

Definition build_window (s : screen) (ws : wspec) : window :=
  fold_left (fun (w : window) (st : bool * (Z * Z * Z * Z)) =>
               let '(via_new, (a, b, c, d)) := st in
               if via_new then win_new w a b c d else Child (mkFrame a b c d) w)
            (snd ws)
            (match fst ws with None => root_window s | Some f => Root f end).

Definition built_by_constructors (ws : wspec) : bool :=
  match fst ws with None => forallb fst (snd ws) | Some _ => false end.

Inductive op :=
| OSetCell (col row : Z) (c : cell)
| OSetStyle (col row : Z) (st : Z)
| OFill (c : cell)
| OClear
| OPrint (segs : list segment)
| OPrintTruncate (row : Z) (segs : list segment)
| OPrintln (row : Z) (segs : list segment)
| OWrap (lsegs : list lineseg).

(* oracle answers shipped with a case: cluster -> (measured width, trailing line break) *)
Definition otable := list (text * (Z * bool)).

Fixpoint olookup (tab : otable) (g : text) : option (Z * bool) :=
  match tab with
  | [] => None
  | (k, v) :: t => if zlist_eqb k g then Some v else olookup t g
  end.

(* the value for a cluster the harness did not ship is never used: [table_covers] is
   checked first and a case that is not covered counts as a mismatch *)
Definition tab_measure (tab : otable) (g : text) : Z :=
  match olookup tab g with Some (m, _) => m | None => 0 end.
Definition tab_trailing (tab : otable) (g : text) : bool :=
  match olookup tab g with Some (_, b) => b | None => false end.

Definition op_clusters (o : op) : list text :=
  match o with
  | OPrint segs | OPrintTruncate _ segs | OPrintln _ segs =>
      map (fun ic => gr (fst ic)) (items_of segs)
  | OWrap lsegs => flat_map (fun ls => map gr (characters (fst ls))) lsegs
  | _ => []
  end.

Definition table_covers (tab : otable) (o : op) : bool :=
  forallb (fun g => match olookup tab g with Some _ => true | None => false end) (op_clusters o).

(* the characters (clusters after tab expansion) a text helper iterates over, in order *)
Definition op_chars (o : op) : list character :=
  match o with
  | OPrint segs | OPrintTruncate _ segs | OPrintln _ segs => map fst (items_of segs)
  | OWrap lsegs => flat_map (fun ls => characters (fst ls)) lsegs
  | _ => []
  end.

(* the hypothesis on the width oracles: under the measuring method in force (the segmenter's
   widths, or [measure] when re-measuring) no cluster of the text has a negative width *)
Definition op_widths_ok (measure : text -> Z) (remeasure : bool) (o : op) : bool :=
  forallb (fun ch => 0 <=? char_width measure remeasure ch) (op_chars o).

(* all cells of the screen that differ from [bg], row-major, with their coordinates *)
Definition row_diff (bg : cell) (y : Z) (line : list cell) : list (Z * Z * cell) :=
  flat_map (fun xc => if cell_eqb (snd xc) bg then [] else [(fst xc, y, snd xc)])
           (combine (zrange (zlen line)) line).

Definition screen_diff (bg : cell) (s : screen) : list (Z * Z * cell) :=
  flat_map (fun yl => row_diff bg (fst yl) (snd yl)) (combine (zrange (zlen (sbuf s))) (sbuf s)).

(* the screen every case starts from: [bg] everywhere (the harness fills the real screen
   with it through the root window) *)
Definition bg_screen (bg : cell) (cols rows : Z) : screen :=
  mkScreen cols rows (zrepeat (zrepeat bg cols) rows).

(* what the implementation did: outcome (0 = returned, 1 = panicked), the frames of the
   window actually built (innermost first), Origin(), the cells that differ from the
   background afterwards, and the returned (col,row) ((0,0) for operations without result) *)
Record obs := mkObs { o_outcome : Z; o_frames : list frame; o_origin : Z * Z;
                      o_diff : list (Z * Z * cell); o_ret : Z * Z }.

Record case := mkCase { c_cols : Z; c_rows : Z; c_bg : cell; c_win : wspec; c_remeasure : bool;
                        c_tab : otable; c_op : op; c_obs : obs }.

(* one drawing call, for arbitrary oracles *)
Definition run_op_with (m : text -> Z) (remeasure : bool) (tr : text -> bool)
           (w : window) (s : screen) (o : op) : option (screen * (Z * Z)) :=
  let noret (r : option screen) := match r with None => None | Some s' => Some (s', (0, 0)) end in
  match o with
  | OSetCell col row c => noret (win_setcell w s col row c)
  | OSetStyle col row st => noret (win_setstyle w s col row st)
  | OFill c => noret (win_fill w s c)
  | OClear => noret (win_clear w s)
  | OPrint segs => win_print m remeasure w s segs
  | OPrintTruncate row segs => noret (win_print_truncate m remeasure w s row segs)
  | OPrintln row segs => noret (win_println m remeasure w s row segs)
  | OWrap lsegs => win_wrap m remeasure tr w s lsegs
  end.

Definition run_op (tab : otable) (remeasure : bool) (w : window) (s : screen) (o : op)
  : option (screen * (Z * Z)) :=
  run_op_with (tab_measure tab) remeasure (tab_trailing tab) w s o.

Definition diff_eqb (a b : list (Z * Z * cell)) : bool :=
  list_eqb (fun p q => (fst (fst p) =? fst (fst q)) && (snd (fst p) =? snd (fst q)) && cell_eqb (snd p) (snd q)) a b.

Definition pair_eqb (a b : Z * Z) : bool := (fst a =? fst b) && (snd a =? snd b).

(* model = implementation on one case *)
Definition case_agrees (c : case) : bool :=
  let s := bg_screen (c_bg c) (c_cols c) (c_rows c) in
  let w := build_window s (c_win c) in
  let ob := c_obs c in
  table_covers (c_tab c) (c_op c) &&
  list_eqb frame_eqb (wchain w) (o_frames ob) &&
  pair_eqb (win_origin w) (o_origin ob) &&
  match run_op (c_tab c) (c_remeasure c) w s (c_op c) with
  | None => o_outcome ob =? 1
  | Some (s', ret) =>
      (o_outcome ob =? 0) && diff_eqb (screen_diff (c_bg c) s') (o_diff ob) && pair_eqb ret (o_ret ob)
  end.

(* ---- the property on one observation, stated on what was observed only ---- *)

(* the window as the implementation built it *)
Fixpoint window_of_frames (fs : list frame) : option window :=
  match fs with
  | [] => None
  | [f] => Some (Root f)
  | f :: t => match window_of_frames t with None => None | Some p => Some (Child f p) end
  end.

(* the frames produced by New respect the parent's size *)
Fixpoint new_edges_ok (steps : list (bool * (Z * Z * Z * Z))) (fs_outer_first : list frame) : bool :=
  match steps, fs_outer_first with
  | [], [_] => true
  | (via_new, _) :: st, p :: ((f :: _) as rest) =>
      (if via_new then (fcol f + fw f <=? fw p) && (frow f + fh f <=? fh p) else true) && new_edges_ok st rest
  | _, _ => false
  end.

Definition is_text_op (o : op) : bool :=
  match o with OPrint _ | OPrintTruncate _ _ | OPrintln _ _ | OWrap _ => true | _ => false end.

(* graphemes an operation may write, in order *)
Definition op_expected (o : op) : list text :=
  match o with
  | OPrintTruncate _ _ => op_clusters o ++ [ellipsis]
  | _ => op_clusters o
  end.

(* [a] is a subsequence of [b] *)
Fixpoint subseq (a b : list text) : bool :=
  match a, b with
  | [], _ => true
  | _, [] => false
  | x :: a', y :: b' => if zlist_eqb x y then subseq a' b' else subseq a b'
  end.

(* consecutive written cells of one row do not overlap: the next one starts at or after the
   end of the previous glyph *)
Fixpoint no_overlap (d : list (Z * Z * cell)) : bool :=
  match d with
  | (x1, y1, c1) :: (((x2, y2, _) :: _) as t) =>
      ((y1 <? y2) || ((y1 =? y2) && (x1 + Z.max 0 (cw c1) <=? x2))) && no_overlap t
  | _ => true
  end.

(* the two lists of changed cells have the same elements *)
Definition placement_eqb (p q : Z * Z * cell) : bool :=
  (fst (fst p) =? fst (fst q)) && (snd (fst p) =? snd (fst q)) && cell_eqb (snd p) (snd q).
Definition diff_same (a b : list (Z * Z * cell)) : bool :=
  forallb (fun d => existsb (placement_eqb d) b) a && forallb (fun e => existsb (placement_eqb e) a) b.

(* what one SetCell / SetStyle must have changed on a screen that held [bg] everywhere *)
Definition expected_single (w : window) (s : screen) (bg : cell) (col row : Z) (nc : cell) : list (Z * Z * cell) :=
  let '(ox, oy) := origin w in
  if visible w s (ox + col) (oy + row) && negb (cell_eqb nc bg) then [(ox + col, oy + row, nc)] else [].

(* core: no panic, New clamps, nothing outside the clip changed, SetCell/SetStyle change
   exactly the cell at origin+offset when it is in the clip, and (text helpers on
   constructed windows) no glyph sticks out of the clip.  proofs/WindowProofs.v shows that
   every output of the model satisfies it. *)
Definition case_core_holds (c : case) : bool :=
  let s := bg_screen (c_bg c) (c_cols c) (c_rows c) in
  let ob := c_obs c in
  match window_of_frames (o_frames ob) with
  | None => false
  | Some w =>
      (o_outcome ob =? 0) &&
      (* constructor clamps *)
      new_edges_ok (snd (c_win c)) (rev (o_frames ob)) &&
      (* every changed cell is inside the window, all its ancestors and the screen *)
      forallb (fun d => visible w s (fst (fst d)) (snd (fst d))) (o_diff ob) &&
      (* an accepted cell lands at origin + offset, a rejected one changes nothing *)
      match c_op c with
      | OSetCell col row cl => diff_same (o_diff ob) (expected_single w s (c_bg c) col row cl)
      | OSetStyle col row st =>
          diff_same (o_diff ob) (expected_single w s (c_bg c) col row (mkCell (cg (c_bg c)) (cw (c_bg c)) st))
      | _ => true
      end &&
      (* text helpers on windows made by the constructors: the whole glyph stays inside *)
      (if is_text_op (c_op c) && built_by_constructors (c_win c) then
         forallb (fun d => forallb (fun i => visible w s (fst (fst d) + i) (snd (fst d)))
                                   (zrange (glyph_w (snd d)))) (o_diff ob)
       else true)
  end.

(* further clauses, checked on every observation *)
Definition case_more_holds (c : case) : bool :=
  let s := bg_screen (c_bg c) (c_cols c) (c_rows c) in
  let ob := c_obs c in
  match window_of_frames (o_frames ob) with
  | None => false
  | Some w =>
      (* text helpers: clusters appear in reading order, whole, without overlapping *)
      (if is_text_op (c_op c) then
         subseq (map (fun d => cg (snd d)) (o_diff ob)) (op_expected (c_op c)) &&
         (* when the terminal's own width measurement is in force, the cell carries it (and
            the column advance, see no_overlap, follows it) *)
         (if c_remeasure c then
            forallb (fun d => zlist_eqb (cg (snd d)) ellipsis ||
                              (cw (snd d) =? tab_measure (c_tab c) (cg (snd d)))) (o_diff ob)
          else true) &&
         (if built_by_constructors (c_win c) then no_overlap (o_diff ob) else true)
       else true)
  end.

Definition case_holds (c : case) : bool := case_core_holds c && case_more_holds c.

(* the hypotheses of the soundness theorems, decided on the case: a screen size that is no
   negative number and oracle widths that are not negative.  A case outside them counts as a
   mismatch (as a case whose oracle table does not cover its text does), so that "no
   mismatch" implies "no violation" (proofs/WindowMoreProofs.v) without side conditions. *)
Definition case_widths_ok (c : case) : bool :=
  op_widths_ok (tab_measure (c_tab c)) (c_remeasure c) (c_op c).
Definition case_inputs_ok (c : case) : bool :=
  (0 <=? c_cols c) && (0 <=? c_rows c) && case_widths_ok c.

Definition c11_draw_mismatches (cases : list case) : list Z :=
  bad_indices (fun c => negb (case_agrees c && case_inputs_ok c)) cases.
Definition c11_draw_violations (cases : list case) : list Z :=
  bad_indices (fun c => negb (case_holds c)) cases.

(* ------------------------------------------------------------------ sequences of calls
   (stream "seq").  State that survives between calls: several drawing calls, each through
   its own window, on ONE screen.  The screen is not reset between the steps, so a call
   meets whatever earlier calls (through other windows) left behind; the property is decided
   for every step against the screen observed just before it. *)

(* any number of drawing calls, each through its own window, for arbitrary oracles *)
Fixpoint run_seq_with (m : text -> Z) (remeasure : bool) (tr : text -> bool)
         (s : screen) (steps : list (window * op)) : option screen :=
  match steps with
  | [] => Some s
  | (w, o) :: t =>
      match run_op_with m remeasure tr w s o with
      | None => None
      | Some (s', _) => run_seq_with m remeasure tr s' t
      end
  end.

(* no window of the sequence has (X,Y) in its clip *)
Definition outside_all (s : screen) (steps : list (window * op)) (X Y : Z) : bool :=
  forallb (fun st => negb (visible (fst st) s X Y)) steps.

(* a screen given by its list of cells that differ from the background *)
Fixpoint diff_at (d : list (Z * Z * cell)) (x y : Z) : option cell :=
  match d with
  | [] => None
  | (x', y', c) :: t => if (x' =? x) && (y' =? y) then Some c else diff_at t x y
  end.

Definition obs_at (bg : cell) (d : list (Z * Z * cell)) (x y : Z) : cell :=
  match diff_at d x y with Some c => c | None => bg end.

(* the cells that differ between two observed screens (each given by its difference from
   the background), row-major, with the new content *)
Definition changed_cells (bg : cell) (cols rows : Z) (prev post : list (Z * Z * cell)) : list (Z * Z * cell) :=
  flat_map (fun y => flat_map (fun x => let b := obs_at bg post x y in
                                        if cell_eqb (obs_at bg prev x y) b then [] else [(x, y, b)])
                              (zrange cols)) (zrange rows).

(* what one SetCell / SetStyle must have changed on the screen observed before it *)
Definition expected_change (w : window) (s : screen) (bg : cell) (prev : list (Z * Z * cell))
           (col row : Z) (f : cell -> cell) : list (Z * Z * cell) :=
  let '(ox, oy) := origin w in
  let old := obs_at bg prev (ox + col) (oy + row) in
  if visible w s (ox + col) (oy + row) && negb (cell_eqb old (f old)) then [(ox + col, oy + row, f old)] else [].

(* one step: the window specification, the call, what was observed after it *)
Definition sstep := (wspec * op * obs)%type.

Record scase := mkSCase { q_cols : Z; q_rows : Z; q_bg : cell; q_remeasure : bool;
                          q_tab : otable; q_steps : list sstep }.

(* model = implementation on every step of a sequence; the model's screen is carried on *)
Fixpoint seq_agrees_from (bg : cell) (tab : otable) (remeasure : bool) (s : screen) (steps : list sstep) : bool :=
  match steps with
  | [] => true
  | (ws, o, ob) :: t =>
      let w := build_window s ws in
      table_covers tab o &&
      list_eqb frame_eqb (wchain w) (o_frames ob) &&
      pair_eqb (win_origin w) (o_origin ob) &&
      match run_op tab remeasure w s o with
      | None => (o_outcome ob =? 1) && match t with [] => true | _ => false end
      | Some (s', ret) =>
          (o_outcome ob =? 0) && diff_eqb (screen_diff bg s') (o_diff ob) && pair_eqb ret (o_ret ob) &&
          seq_agrees_from bg tab remeasure s' t
      end
  end.

Definition scase_agrees (c : scase) : bool :=
  seq_agrees_from (q_bg c) (q_tab c) (q_remeasure c) (bg_screen (q_bg c) (q_cols c) (q_rows c)) (q_steps c).

(* the property on one step, stated on the two observed screens (before: [prev], after:
   [o_diff]) only: no panic, New clamps, Origin() is the sum of the offsets, every cell that
   CHANGED lies inside the window, all its ancestors and the screen, SetCell / SetStyle
   change exactly the cell at origin+offset when it is in the clip, and (text helpers on
   constructed windows) no glyph of a changed cell sticks out of the clip *)
Definition step_core_holds (bg : cell) (cols rows : Z) (prev : list (Z * Z * cell)) (st : sstep) : bool :=
  let s := bg_screen bg cols rows in
  let '(ws, o, ob) := st in
  match window_of_frames (o_frames ob) with
  | None => false
  | Some w =>
      let ch := changed_cells bg cols rows prev (o_diff ob) in
      (o_outcome ob =? 0) &&
      new_edges_ok (snd ws) (rev (o_frames ob)) &&
      pair_eqb (o_origin ob) (origin w) &&
      forallb (fun d => on_screen s (fst (fst d)) (snd (fst d))) (o_diff ob) &&
      forallb (fun d => visible w s (fst (fst d)) (snd (fst d))) ch &&
      match o with
      | OSetCell col row cl => diff_same ch (expected_change w s bg prev col row (fun _ => cl))
      | OSetStyle col row sty => diff_same ch (expected_change w s bg prev col row (fun old => mkCell (cg old) (cw old) sty))
      | _ => true
      end &&
      (if is_text_op o && built_by_constructors ws then
         forallb (fun d => forallb (fun i => visible w s (fst (fst d) + i) (snd (fst d)))
                                   (zrange (glyph_w (snd d)))) ch
       else true)
  end.

(* the further clauses of [case_more_holds] (reading order, measured width, non-overlap),
   applied to the cells the step changed *)
Definition step_more_holds (bg : cell) (cols rows : Z) (remeasure : bool) (tab : otable)
           (prev : list (Z * Z * cell)) (st : sstep) : bool :=
  let '(ws, o, ob) := st in
  case_more_holds (mkCase cols rows bg ws remeasure tab o
                     (mkObs (o_outcome ob) (o_frames ob) (o_origin ob)
                            (changed_cells bg cols rows prev (o_diff ob)) (o_ret ob))).

Fixpoint seq_core_from (bg : cell) (cols rows : Z) (prev : list (Z * Z * cell)) (steps : list sstep) : bool :=
  match steps with
  | [] => true
  | st :: t => step_core_holds bg cols rows prev st && seq_core_from bg cols rows (o_diff (snd st)) t
  end.

Fixpoint seq_more_from (bg : cell) (cols rows : Z) (remeasure : bool) (tab : otable)
         (prev : list (Z * Z * cell)) (steps : list sstep) : bool :=
  match steps with
  | [] => true
  | st :: t => step_more_holds bg cols rows remeasure tab prev st &&
               seq_more_from bg cols rows remeasure tab (o_diff (snd st)) t
  end.

Definition scase_core_holds (c : scase) : bool := seq_core_from (q_bg c) (q_cols c) (q_rows c) [] (q_steps c).
Definition scase_more_holds (c : scase) : bool :=
  seq_more_from (q_bg c) (q_cols c) (q_rows c) (q_remeasure c) (q_tab c) [] (q_steps c).
Definition scase_holds (c : scase) : bool := scase_core_holds c && scase_more_holds c.

Definition scase_widths_ok (c : scase) : bool :=
  forallb (fun st : sstep => op_widths_ok (tab_measure (q_tab c)) (q_remeasure c) (snd (fst st))) (q_steps c).
Definition scase_inputs_ok (c : scase) : bool :=
  (0 <=? q_cols c) && (0 <=? q_rows c) && scase_widths_ok c.

Definition c11_seq_mismatches (cases : list scase) : list Z :=
  bad_indices (fun c => negb (scase_agrees c && scase_inputs_ok c)) cases.
Definition c11_seq_violations (cases : list scase) : list Z :=
  bad_indices (fun c => negb (scase_holds c)) cases.
