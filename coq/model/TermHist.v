(* Model of property C13 over HISTORIES: the life of ONE embedded terminal (widgets/term Model).
     term.go  update(seq)   — the PTY goroutine hands every sequence of the child's output to the emulator;
                              of the state the input encoders consume it changes vt.mode only (model:
                              child_items of model/TermKeys.v);
     term.go  Update(msg)   — the host hands a key / paste boundary / mouse event to the emulator; it reads
                              vt.mode, writes to the PTY and changes NOTHING the encoders read (Model has no
                              other field that Update, encodeXterm or handleMouse consult).
   So the state of the forwarding half of a Model is its mode record, a step is either a piece of child
   output or a forwarded event, and a history is a list of steps on one state.  The observable is the list
   of byte strings written to the PTY, one per forwarded event, in order.
   Executable definitions only; the proofs are in proofs/TermHistProofs.v. *)
From Vx Require Import base.Prelude gen.GenKeys gen.GenTermKeys model.Keys model.ParserTypes model.Parser
  model.TermMouse model.TermKeys.
Local Open Scope Z_scope.

(* ---------- one emulator, many steps ---------- *)
Inductive hstep :=
  | SOut (its : list item)     (* the child wrote something: the parsed sequences, each through Model.update *)
  | SEv (e : tevent).          (* the host called Model.Update(e) *)

(* one step: the new state and the bytes Update wrote for the event (None = decset/decrst panicked) *)
Definition term_step (u : uni) (md : tmodes) (s : hstep) : option (tmodes * list Z) :=
  match s with
  | SOut its => match child_items its md with Some md' => Some (md', []) | None => None end
  | SEv e => Some (md, term_update u md e)
  end.

(* a history from the state [md]: what was written for each event, in order, and the final state *)
Fixpoint hist_run (u : uni) (md : tmodes) (h : list hstep) : option (list (list Z) * tmodes) :=
  match h with
  | [] => Some ([], md)
  | SOut its :: t =>
      match child_items its md with
      | Some md' => hist_run u md' t
      | None => None
      end
  | SEv e :: t =>
      match hist_run u md t with
      | Some (outs, md') => Some (term_update u md e :: outs, md')
      | None => None
      end
  end.

(* ---------- specification side ---------- *)
(* everything the child has written in a history, and the number of events forwarded in it *)
Fixpoint child_output (h : list hstep) : list item :=
  match h with
  | [] => []
  | SOut its :: t => its ++ child_output t
  | SEv _ :: t => child_output t
  end.
Fixpoint count_events (h : list hstep) : nat :=
  match h with
  | [] => O
  | SOut _ :: t => count_events t
  | SEv _ :: t => S (count_events t)
  end.

(* the history without its events: what the child alone did *)
Fixpoint drop_events (h : list hstep) : list hstep :=
  match h with
  | [] => []
  | SOut its :: t => SOut its :: drop_events t
  | SEv _ :: t => drop_events t
  end.

(* what is written for each event when it depends on nothing but the child's last word, at that moment, on
   each mode: [rs] = the requests the child has made so far *)
Fixpoint hist_spec (u : uni) (md0 : tmodes) (rs : list creq) (h : list hstep) : list (list Z) :=
  match h with
  | [] => []
  | SOut its :: t => hist_spec u md0 (rs ++ reqs_of its) t
  | SEv e :: t => term_update u (asked_from md0 rs) e :: hist_spec u md0 rs t
  end.

(* the modes an event's encoding may depend on (the property: the cursor-key and keypad modes select the key
   encoding; paste events are gated by 2004; mouse events by the tracking modes, 1006 and — alternate scroll —
   1007 / 1049) *)
Definition relevant_eqb (e : tevent) (a b : tmodes) : bool :=
  match e with
  | TKey _ => Bool.eqb (m_deckpam a) (m_deckpam b) && Bool.eqb (m_decckm a) (m_decckm b)
  | TPasteStart | TPasteEnd => Bool.eqb (m_paste a) (m_paste b)
  | TMouse _ => Bool.eqb (m_buttons a) (m_buttons b) && Bool.eqb (m_drag a) (m_drag b) &&
                Bool.eqb (m_motion a) (m_motion b) && Bool.eqb (m_sgr a) (m_sgr b) &&
                Bool.eqb (m_altscroll a) (m_altscroll b) && Bool.eqb (m_smcup a) (m_smcup b)
  | TOther => true
  end.

Definition tevent_eqb (a b : tevent) : bool :=
  match a, b with
  | TKey x, TKey y => key_eqb x y
  | TMouse x, TMouse y => mouse_eqb x y
  | TPasteStart, TPasteStart | TPasteEnd, TPasteEnd | TOther, TOther => true
  | _, _ => false
  end.

(* ---------- observations of one real Model ---------- *)
(* what the harness saw, step by step:
     OOut reqs out              the child wrote the bytes [out]; [reqs] = the mode requests the generator put in;
     OEv e pause bytes evs      Model.Update(e) wrote [bytes]; [evs] = what a real Vaxis made of them
                                (None = not re-read), [pause] = a pause preceded the end marker. *)
Inductive hobs :=
  | OOut (reqs : list creq) (out : list Z)
  | OEv (e : tevent) (pause : bool) (bytes : list Z) (evs : option (list hevent)).

(* a moment of a history: the modes the child had ASKED for when the event was forwarded (its last word on
   each mode, read off the requests — not off the emulator), the event, the observation *)
Definition moment := (tmodes * tevent * list Z * option (list hevent))%type.

Fixpoint hist_moments (md : tmodes) (obs : list hobs) : list moment :=
  match obs with
  | [] => []
  | OOut rs _ :: t => hist_moments (asked_from md rs) t
  | OEv e _ bytes evs :: t => (md, e, bytes, evs) :: hist_moments md t
  end.

(* the property on one moment: exactly the predicates of the one-event streams *)
Definition moment_violation (u : uni) (m : moment) : bool :=
  let '(md, e, bytes, evs) := m in
  match e with
  | TKey k => key_violation u k md bytes evs
  | _ => event_violation md e bytes evs
  end.

(* no memory: two moments of one history with the same event and the same relevant modes asked for were
   answered with the same bytes, whatever happened in between and before *)
Definition memory_violation (a b : moment) : bool :=
  let '(mda, ea, ba, _) := a in
  let '(mdb, eb, bb, _) := b in
  tevent_eqb ea eb && relevant_eqb ea mda mdb && negb (zlist_eqb ba bb).

Definition moments_violation (u : uni) (ms : list moment) : bool :=
  existsb (moment_violation u) ms
  || existsb (fun a => existsb (memory_violation a) ms) ms.

Definition hist_violation (u : uni) (obs : list hobs) : bool :=
  moments_violation u (hist_moments modes0 obs).

(* ---------- correspondence stream ---------- *)
(* hist stream: (the steps observed on ONE emulator, the emulator's DECRQM replies for [reported_modes] at the
   end of the history).  Mismatches: the model, walking the same steps on one mode state, reads the same
   requests out of each piece of output, predicts every byte string written, the events read back, and the
   final DECRQM replies. *)
Definition hist_case := (list hobs * list Z)%type.

Fixpoint hist_mismatch (md : tmodes) (obs : list hobs) (report : list Z) : bool :=
  match obs with
  | [] => negb (zlist_eqb (mode_report md) report)
  | OOut reqs out :: t =>
      let its := parse_bytes out in
      negb (list_eqb creq_eqb (reqs_of its) reqs)
      || match child_items its md with
         | None => true
         | Some md' => hist_mismatch md' t report
         end
  | OEv e pause bytes evs :: t =>
      match e with TKey k => negb (key_covered [] k bytes) | _ => false end
      || negb (zlist_eqb (term_update ascii_uni md e) bytes)
      || match evs with
         | Some evs => match host_read_marked ascii_uni (seg_of []) pause bytes with
                       | Some m => negb (hevents_eqb m evs)
                       | None => true
                       end
         | None => false
         end
      || hist_mismatch md t report
  end.

Definition c13_hist_mismatches (cases : list hist_case) : list Z :=
  bad_indices (fun c => let '(obs, report) := c in hist_mismatch modes0 obs report) cases.

Definition c13_hist_violations (cases : list hist_case) : list Z :=
  bad_indices (fun c => let '(obs, report) := c in hist_violation ascii_uni obs) cases.

(* ---------- the model's own observation of a history (for the theorem "the model satisfies the predicate") ---------- *)
Fixpoint model_obs (u : uni) (seg : list Z -> list (list Z)) (md : tmodes) (h : list hstep) : list hobs :=
  match h with
  | [] => []
  | SOut its :: t =>
      OOut (reqs_of its) [] ::
      match child_items its md with
      | Some md' => model_obs u seg md' t
      | None => []
      end
  | SEv e :: t =>
      OEv e false (term_update u md e) (Some (host_read u seg (term_update u md e))) :: model_obs u seg md t
  end.

(* ---------- child output cut at ANY point: the parser state is carried across the pieces ---------- *)
(* term.go Start: ONE ansi.Parser reads the PTY for the whole life of the emulator, so a control function
   whose bytes arrive in two (or ten) reads is still one sequence: what survives between two pieces of child
   output is the emulator's mode record AND the state of that parser (model/Parser.v pst: state function,
   collected intermediates and parameters, pending string; bool = the read loop is still running).
   A piece is a run of the child's decoded stream (for 7-bit output — every mode-setting control function —
   a rune is a byte, so the cut may fall on any byte; lemma decode_all_ascii7 in the proofs). *)
Inductive cstep :=
  | CRaw (rs : list Z)         (* the next read of the PTY returned these runes *)
  | CEvt (e : tevent).         (* the host called Model.Update(e) *)

Definition carried := (pst * bool)%type.
Definition carried0 : carried := (pinit, true).

(* one read through the carried parser: the new carried state and the sequences delivered to Model.update *)
Definition cfeed (c : carried) (rs : list Z) : carried * list item :=
  let '(p, alive) := c in
  if alive then let '(p', o, go) := feed p rs in ((p', go), o) else (c, []).

(* a cut history as a history: each piece becomes the sequences it completes *)
Fixpoint cut_hist (c : carried) (h : list cstep) : list hstep :=
  match h with
  | [] => []
  | CRaw rs :: t => let '(c', o) := cfeed c rs in SOut o :: cut_hist c' t
  | CEvt e :: t => SEv e :: cut_hist c t
  end.

Definition cut_run (u : uni) (md : tmodes) (c : carried) (h : list cstep) : option (list (list Z) * tmodes) :=
  hist_run u md (cut_hist c h).

(* the child's stream of a cut history (the pieces glued together), its carried state, its events *)
Fixpoint cut_stream (h : list cstep) : list Z :=
  match h with
  | [] => []
  | CRaw rs :: t => rs ++ cut_stream t
  | CEvt _ :: t => cut_stream t
  end.
Fixpoint cut_carry (c : carried) (h : list cstep) : carried :=
  match h with
  | [] => c
  | CRaw rs :: t => cut_carry (fst (cfeed c rs)) t
  | CEvt _ :: t => cut_carry c t
  end.
Fixpoint cut_events (h : list cstep) : nat :=
  match h with
  | [] => O
  | CRaw _ :: t => cut_events t
  | CEvt _ :: t => S (cut_events t)
  end.

(* the sequences the whole stream delivers when it is read in ONE piece *)
Definition stream_items (c : carried) (rs : list Z) : list item := snd (cfeed c rs).

(* cut stream: (the steps observed on ONE emulator fed by ONE parser, the DECRQM replies at the end).
   OOut reqs out = the PTY read returned the bytes [out]; [reqs] = the requests whose LAST byte is in this
   piece.  Mismatches: the model carries the parser state from piece to piece, reads the same completed requests
   out of each piece, predicts every byte string written, the events read back and the final DECRQM replies. *)
Fixpoint cut_mismatch (md : tmodes) (c : carried) (obs : list hobs) (report : list Z) : bool :=
  match obs with
  | [] => negb (zlist_eqb (mode_report md) report)
  | OOut reqs out :: t =>
      let '(c', its) := cfeed c (decode_all out) in
      negb (list_eqb creq_eqb (reqs_of its) reqs)
      || match child_items its md with
         | None => true
         | Some md' => cut_mismatch md' c' t report
         end
  | OEv e pause bytes evs :: t =>
      match e with TKey k => negb (key_covered [] k bytes) | _ => false end
      || negb (zlist_eqb (term_update ascii_uni md e) bytes)
      || match evs with
         | Some evs => match host_read_marked ascii_uni (seg_of []) pause bytes with
                       | Some m => negb (hevents_eqb m evs)
                       | None => true
                       end
         | None => false
         end
      || cut_mismatch md c t report
  end.

Definition c13_cut_mismatches (cases : list hist_case) : list Z :=
  bad_indices (fun c => let '(obs, report) := c in cut_mismatch modes0 carried0 obs report) cases.

(* violations: the history predicate, unchanged — a request counts from the piece that completes it *)
Definition c13_cut_violations (cases : list hist_case) : list Z := c13_hist_violations cases.
