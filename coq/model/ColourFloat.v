(* Model of the float64 arithmetic of color.go asIndex.  Executable definitions only.

   Go:   trial := sq(float64(int(dR)-int(oR))*.3) + sq(float64(int(dG)-int(oG))*.59)
                  + sq(float64(int(dB)-int(oB))*.11)
         if trial < dist { match = i; dist = trial }
         if dist == 0 { return IndexColor(uint8(i + 16)) }

   IEEE-754 binary64, round to nearest even, is taken from the standard library's executable
   specification Floats.SpecFloat (prec = 53, emax = 1024): SFmul, SFadd, SFcompare.  This is the
   same definition Flocq's IEEE754.BinarySingleNaN uses underneath Bmult / Bplus / Bcompare
   (B2SF (Bmult mode_NE x y) = SFmul (B2SF x) (B2SF y), see proofs/ColourFloatFlocq.v); working on
   spec_float keeps every theorem free of the axioms of the real numbers. *)
From Coq Require Import Floats.SpecFloat.
From Vx Require Import base.Prelude gen.GenPalette model.Colour.

Definition f64mul : spec_float -> spec_float -> spec_float := SFmul 53 1024.
Definition f64add : spec_float -> spec_float -> spec_float := SFadd 53 1024.
Definition f64div : spec_float -> spec_float -> spec_float := SFdiv 53 1024.
Definition f64ltb : spec_float -> spec_float -> bool := SFltb.
Definition f64eqb : spec_float -> spec_float -> bool := SFeqb.
(* float64(n) for a Go int n (exact for |n| < 2^53) *)
Definition f64_of_int (n : Z) : spec_float := binary_normalize 53 1024 n 0 false.
Definition f64zero : spec_float := S754_zero false.
Definition f64inf : spec_float := S754_infinity false.    (* math.Inf(1) *)

(* the constants .3 .59 .11: an untyped Go constant is converted to the nearest float64; the
   correctly rounded quotients 3/10, 59/100, 11/100 are those doubles *)
Definition c30 : spec_float := Eval vm_compute in f64div (f64_of_int 3) (f64_of_int 10).
Definition c59 : spec_float := Eval vm_compute in f64div (f64_of_int 59) (f64_of_int 100).
Definition c11 : spec_float := Eval vm_compute in f64div (f64_of_int 11) (f64_of_int 100).

(* sq(float64(x) * c) *)
Definition fterm (c : spec_float) (x : Z) : spec_float :=
  let p := f64mul (f64_of_int x) c in f64mul p p.

(* trial, as a function of the three signed channel differences; + is left associative *)
Definition fdist (dr dg db : Z) : spec_float :=
  f64add (f64add (fterm c30 dr) (fterm c59 dg)) (fterm c11 db).

Definition fdist3 (o v : Z * Z * Z) : spec_float :=
  let '(oR, oG, oB) := o in
  let '(vR, vG, vB) := v in
  fdist (vR - oR) (vG - oG) (vB - oB).

(* math.Float64bits *)
Definition bits64 (f : spec_float) : Z :=
  match f with
  | S754_zero s => if s then 2 ^ 63 else 0
  | S754_infinity s => (if s then 2 ^ 63 else 0) + 2047 * 2 ^ 52
  | S754_nan => 2047 * 2 ^ 52 + 2 ^ 51
  | S754_finite s m e =>
      (if s then 2 ^ 63 else 0) +
      (if Z.pos m <? 2 ^ 52 then Z.pos m else (e + 1075) * 2 ^ 52 + (Z.pos m - 2 ^ 52))
  end.

(* math.Float64frombits *)
Definition f64_of_bits (b : Z) : spec_float :=
  let s := Z.odd (b / 2 ^ 63) in
  let be := (b / 2 ^ 52) mod 2048 in
  let fr := b mod 2 ^ 52 in
  if be =? 0 then match fr with Z.pos m => S754_finite s m (-1074) | _ => S754_zero s end
  else if be =? 2047 then (if fr =? 0 then S754_infinity s else S754_nan)
  else match fr + 2 ^ 52 with Z.pos m => S754_finite s m (be - 1075) | _ => S754_nan end.

(* the loop of asIndex over an arbitrary table, parametrised by the distance function so that the
   tabulated distance below can be used for execution; m = match, dist = dist *)
Section Loop.
Variable fd : Z * Z * Z -> Z * Z * Z -> spec_float.
Fixpoint fscan (o : Z * Z * Z) (pal : list (Z * Z * Z)) (i m : Z) (dist : spec_float) : Z :=
  match pal with
  | [] => if m <? 0 then 0 else index_color (u8 (m + 16))
  | v :: t =>
      let trial := fd o v in
      let lt := f64ltb trial dist in
      let m' := if lt then i else m in
      let dist' := if lt then trial else dist in
      if f64eqb dist' f64zero then index_color (u8 (i + 16))
      else fscan o t (i + 1) m' dist'
  end.

Definition as_index_fd (pal : list (Z * Z * Z)) (c : Z) : Z :=
  if negb (is_rgb c) then c else fscan (split3 c) pal 0 (-1) f64inf.

(* the same loop looking only at the entries selected by [sel] (indices are those of the full
   table); an execution aid, see as_index_x_pal below *)
Fixpoint fscan_sel (sel : Z * Z * Z -> bool) (o : Z * Z * Z) (pal : list (Z * Z * Z)) (i m : Z)
    (dist : spec_float) : Z :=
  match pal with
  | [] => if m <? 0 then 0 else index_color (u8 (m + 16))
  | v :: t =>
      if sel v then
        let trial := fd o v in
        let lt := f64ltb trial dist in
        let m' := if lt then i else m in
        let dist' := if lt then trial else dist in
        if f64eqb dist' f64zero then index_color (u8 (i + 16))
        else fscan_sel sel o t (i + 1) m' dist'
      else fscan_sel sel o t (i + 1) m dist
  end.
End Loop.

(* the model of Color.asIndex with its float64 arithmetic *)
Definition as_index_f_pal : list (Z * Z * Z) -> Z -> Z := as_index_fd fdist3.
Definition as_index_f (c : Z) : Z := as_index_f_pal colorIndex3 c.

(* --- execution aids (proved equal to the definitions above in proofs/ColourFloatProofs.v) --- *)

Fixpoint zseq (a : Z) (n : nat) : list Z :=
  match n with O => [] | S k => a :: zseq (a + 1) k end.

(* the 256 values of a term, indexed by |x| (a term does not depend on the sign of x) *)
Definition tabR : list spec_float := Eval vm_compute in map (fterm c30) (zseq 0 256).
Definition tabG : list spec_float := Eval vm_compute in map (fterm c59) (zseq 0 256).
Definition tabB : list spec_float := Eval vm_compute in map (fterm c11) (zseq 0 256).
Definition tget (tab : list spec_float) (x : Z) : spec_float := nth (Z.to_nat (Z.abs x)) tab S754_nan.
Definition fdist_t (dr dg db : Z) : spec_float :=
  f64add (f64add (tget tabR dr) (tget tabG dg)) (tget tabB db).
Definition fdist3_t (o v : Z * Z * Z) : spec_float :=
  let '(oR, oG, oB) := o in
  let '(vR, vG, vB) := v in
  fdist_t (vR - oR) (vG - oG) (vB - oB).
Definition as_index_ft_pal : list (Z * Z * Z) -> Z -> Z := as_index_fd fdist3_t.

(* number of table entries at exact distance bd *)
Definition min_count (o : Z * Z * Z) (pal : list (Z * Z * Z)) (bd : Z) : Z :=
  zlen (filter (fun v => wdist o v =? bd) pal).

(* the integer scan of Colour.v that also counts the entries attaining the running minimum *)
Fixpoint scanc (o : Z * Z * Z) (pal : list (Z * Z * Z)) (i : Z) (acc : option (Z * Z * Z)) : option (Z * Z * Z) :=
  match pal with
  | [] => acc
  | v :: t =>
      let d := wdist o v in
      let acc' := match acc with
                  | None => Some (i, d, 1)
                  | Some (bi, bd, n) =>
                      if d <? bd then Some (i, d, 1)
                      else if d =? bd then Some (bi, bd, n + 1) else acc
                  end in
      scanc o t (i + 1) acc'
  end.

(* A fast way to evaluate the float model (theorem as_index_x_pal_eq: equal to as_index_f_pal):
   the float loop can only end on an entry at minimal exact distance, so when exactly one entry
   attains the exact minimum bd the integer scan answers; otherwise the float loop (with the
   tabulated terms) is run over the entries at exact distance bd only. *)
Definition as_index_x_pal (pal : list (Z * Z * Z)) (c : Z) : Z :=
  if negb (is_rgb c) then c
  else let o := split3 c in
       match scanc o pal 0 None with
       | None => 0
       | Some (i, bd, n) =>
           if n =? 1 then index_color (u8 (i + 16))
           else fscan_sel fdist3_t (fun v => wdist o v =? bd) o pal 0 (-1) f64inf
       end.
Definition as_index_x (c : Z) : Z := as_index_x_pal colorIndex3 c.

Definition chan_ok (v : Z * Z * Z) : bool :=
  let '(r, g, b) := v in in_range r 0 255 && in_range g 0 255 && in_range b 0 255.
Definition pal_ok (pal : list (Z * Z * Z)) : bool := forallb chan_ok pal.
Definition diff_ok (d : Z) : bool := in_range d (-255) 255.

(* exact weighted distance of a difference triple, times 10^4 *)
Definition wd (dr dg db : Z) : Z := 900 * (dr * dr) + 3481 * (dg * dg) + 121 * (db * db).

(* Specification of one observed trial value, independent of how the model computes it: the bit
   pattern is +0 exactly when the differences are all 0, otherwise a positive normal double within
   relative error 2^-49 of the exact weighted distance wd/10^4. *)
Definition trial_ok (dr dg db bits : Z) : bool :=
  let e10 := wd dr dg db in
  match f64_of_bits bits with
  | S754_zero false => e10 =? 0
  | S754_finite false m e =>
      (0 <? e10) && (-64 <=? e) && (e <=? 0) &&
      (Z.abs (10000 * (Z.pos m * 2 ^ (e + 64)) - e10 * 2 ^ 64) * 2 ^ 49 <=? e10 * 2 ^ 64)
  | _ => false
  end.

(* correspondence.  colour stream: (colour, what asIndex returned), compared with the float model *)
Definition c07_colourf_mismatches (cases : list (Z * Z)) : list Z :=
  bad_indices (fun cr => negb (as_index_x (fst cr) =? snd cr)) cases.

(* fdist stream: two difference triples d, d' with math.Float64bits of Go's trial for each, Go's
   trial(d) < trial(d') and Go's trial(d) == 0 *)
Definition fcase : Type := (Z * Z * Z) * (Z * Z * Z) * (Z * Z * bool * bool).
Definition fcase_model (c : fcase) : Z * Z * bool * bool :=
  let '((dr, dg, db), (er, eg, eb), _) := c in
  let a := fdist dr dg db in
  let b := fdist er eg eb in
  (bits64 a, bits64 b, f64ltb a b, f64eqb a f64zero).
Definition obs_eqb (x y : Z * Z * bool * bool) : bool :=
  let '(a1, b1, l1, z1) := x in
  let '(a2, b2, l2, z2) := y in
  (a1 =? a2) && (b1 =? b2) && Bool.eqb l1 l2 && Bool.eqb z1 z2.
Definition c07_fdist_mismatches (cases : list fcase) : list Z :=
  bad_indices (fun c => negb (obs_eqb (fcase_model c) (snd c))) cases.
(* the property on the observation: both values satisfy trial_ok, a strictly smaller exact distance
   compares smaller, and == 0 holds exactly for the zero triple *)
Definition fcase_ok (c : fcase) : bool :=
  let '((dr, dg, db), (er, eg, eb), (ba, bb, lt, z)) := c in
  trial_ok dr dg db ba && trial_ok er eg eb bb &&
  (if wd dr dg db <? wd er eg eb then lt else true) &&
  (if wd er eg eb <? wd dr dg db then negb lt else true) &&
  Bool.eqb z ((dr =? 0) && (dg =? 0) && (db =? 0)).
Definition c07_fdist_violations (cases : list fcase) : list Z :=
  bad_indices (fun c => negb (fcase_ok c)) cases.
