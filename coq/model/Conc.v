(* C10 — concurrency model.  Definitions only.

   Part A: the lock-set analysis over the translated access table gen/GenAccess.v
           (role closure over the syntactic call graph, entry lock sets, the pairwise rule).
   Part B: a labelled transition system of the event queue and of the parser shutdown
           handshake (vaxis.go PostEvent / PostEventBlocking / PollEvent / Close / Suspend /
           Resume, the input goroutine of openTty; ansi/parser.go run / emit / Close /
           WaitClose), executable: [step] is a function of a label, a schedule is a list of
           labels.
   Part C: the scripted runner the harness is compared with, and the decidable statement
           of the property on one observation.

   Not modelled (see props/C10.v): real time (the 10 ms ESC timer, the 50 ms/100 ms query
   timeouts), signals, console EOF, several parser generations alive at once. *)
From Vx Require Import base.Prelude gen.GenAccess.
From Coq Require String.
Import String.StringSyntax.
Delimit Scope string_scope with string.
Local Open Scope Z_scope.

(* ------------------------------------------------------------------------------------ *)
(* Part A: lock sets                                                                      *)
(* ------------------------------------------------------------------------------------ *)

Definition zmem (x : Z) (l : list Z) : bool := existsb (Z.eqb x) l.
Definition zinter (a b : list Z) : list Z := filter (fun x => zmem x b) a.
Definition zunion (a b : list Z) : list Z := a ++ filter (fun x => negb (zmem x a)) b.

Definition call := (Z * Z * list Z)%type.

Section Analysis.
  (* the analysis is parametric in the call graph and the entry table so that it can be
     run on the full table and on the table without the signal/panic path *)
  Variable cs : list call.
  Variable es : list (Z * Z).

  Definition succs (f : Z) : list Z :=
    map (fun c => snd (fst c)) (filter (fun c => fst (fst c) =? f) cs).

  (* depth-first closure; the fuel is validated by [closed_under] (a theorem, not trust) *)
  Fixpoint reach (fuel : nat) (frontier visited : list Z) : list Z :=
    match fuel with
    | O => visited
    | S n => match frontier with
             | [] => visited
             | f :: rest => if zmem f visited then reach n rest visited
                            else reach n (succs f ++ rest) (f :: visited)
             end
    end.

  Definition role_entries (r : Z) : list Z := map snd (filter (fun e => fst e =? r) es).
  Definition reach_fuel : nat := S (List.length cs + List.length es).
  Definition role_fns (r : Z) : list Z := reach reach_fuel (role_entries r) [].
  Definition role_table : list (Z * list Z) := map (fun r => (r, role_fns r)) (map fst role_names).

  (* what a correct closure satisfies: contains the entries, closed under call edges *)
  Definition closed_under (r : Z) (fs : list Z) : bool :=
    forallb (fun f => zmem f fs) (role_entries r)
    && forallb (fun c => negb (zmem (fst (fst c)) fs) || zmem (snd (fst c)) fs) cs.

  (* entry lock sets: locks held at every call site of a function, transitively;
     entries start with none, everything else with all, then a decreasing iteration *)
  Definition all_locks : list Z := [1; 2; 3].
  Definition is_entry (f : Z) : bool := existsb (fun e => snd e =? f) es.
  Definition L0 : list (list Z) := map (fun fn => if is_entry (fst fn) then [] else all_locks) fn_names.
  Definition lget (L : list (list Z)) (f : Z) : list Z := nth (Z.to_nat f) L all_locks.
  Fixpoint lset (L : list (list Z)) (n : nat) (v : list Z) : list (list Z) :=
    match L, n with
    | [], _ => []
    | _ :: t, O => v :: t
    | h :: t, S n' => h :: lset t n' v
    end.
  Definition lround (L : list (list Z)) : list (list Z) :=
    fold_left (fun L (c : call) => let '(a, b, l) := c in
       lset L (Z.to_nat b) (zinter (lget L b) (zunion l (lget L a)))) cs L.
  Fixpoint literate (n : nat) (L : list (list Z)) : list (list Z) :=
    match n with O => L | S n' => literate n' (lround L) end.
  Definition entry_locks : list (list Z) := literate 16 L0.
  (* what a correct table satisfies: entries hold nothing, and along every call edge the
     callee's set is included in (locks at the call site + caller's set) *)
  Definition locks_sound (L : list (list Z)) : bool :=
    forallb (fun e => match lget L (snd e) with [] => true | _ => false end) es
    && forallb (fun c : call => let '(a, b, l) := c in
         forallb (fun x => zmem x (zunion l (lget L a))) (lget L b)) cs.

  Definition conc_roles (a b : Z) : bool :=
    existsb (fun p => ((fst p =? a) && (snd p =? b)) || ((fst p =? b) && (snd p =? a))) conc.

  Definition roles_of_fn (tbl : list (Z * list Z)) (f : Z) : list Z :=
    map fst (filter (fun rf => zmem f (snd rf)) tbl).
  Definition site_roles (tbl : list (Z * list Z)) (s : site) : list Z :=
    if s_pre s then [role_init_pre] else roles_of_fn tbl (s_fn s).
  Definition site_locks (L : list (list Z)) (s : site) : list Z := zunion (s_locks s) (lget L (s_fn s)).

  (* kinds 0 R and 3 C only read the slot; 2 A is an atomic access; 1 W is a plain write *)
  Definition readish (k : Z) : bool := (k =? 0) || (k =? 3).
  Definition kinds_ok (a b : Z) : bool := (readish a && readish b) || ((a =? 2) && (b =? 2)).

  Definition may_race (tbl : list (Z * list Z)) (a b : site) : bool :=
    existsb (fun ra => existsb (fun rb => conc_roles ra rb) (site_roles tbl b)) (site_roles tbl a).

  (* THE RULE: two sites on one field are fine iff both only read / both are atomic, or
     they hold a common lock, or no role of the one can run concurrently with a role of
     the other.  A site is also paired with itself (several instances of one role). *)
  Definition pair_ok tbl L (a b : site) : bool :=
    kinds_ok (s_kind a) (s_kind b)
    || negb (match zinter (site_locks L a) (site_locks L b) with [] => true | _ => false end)
    || negb (may_race tbl a b).

  Definition field_sites (f : Z) : list site := filter (fun s => s_field s =? f) sites.
  Definition field_ok tbl L (f : Z) : bool :=
    let ss := field_sites f in forallb (fun a => forallb (fun b => pair_ok tbl L a b) ss) ss.
  Definition racy_fields tbl L : list String.string :=
    map snd (filter (fun fn => negb (field_ok tbl L (fst fn))) field_names).
End Analysis.

Definition fn_id (name : String.string) : Z :=
  match filter (fun fn => String.eqb (snd fn) name) fn_names with (i, _) :: _ => i | [] => -1 end.

Definition field_id (name : String.string) : Z :=
  match filter (fun fn => String.eqb (snd fn) name) field_names with (i, _) :: _ => i | [] => -1 end.

(* the table without the signal/panic path: no call of Vaxis.Close from the input goroutine
   (the kill-signal branch and the recover() handler: the function literals of openTty) and
   no [sigclose] role.  This is the program run with Options.NoSignals and without panics
   in the input goroutine or a spinner.  Other in-library calls of Close (error paths of
   New) stay. *)
Definition close_fn : Z := fn_id "vaxis.Vaxis.Close"%string.
Definition input_lits : list Z :=
  map fst (filter (fun fn => String.prefix "vaxis.Vaxis.openTty$"%string (snd fn)) fn_names).
Definition calls_nosig : list call :=
  filter (fun c => negb ((snd (fst c) =? close_fn) && zmem (fst (fst c)) input_lits)) calls.
Definition entries_nosig : list (Z * Z) := filter (fun e => negb (fst e =? role_sigclose)) entries.

Definition tbl_full := role_table calls entries.
Definition L_full := entry_locks calls entries.
Definition tbl_nosig := role_table calls_nosig entries_nosig.
Definition L_nosig := entry_locks calls_nosig entries_nosig.

Definition str_mem (x : String.string) (l : list String.string) : bool := existsb (String.eqb x) l.
Definition str_subset (a b : list String.string) : bool := forallb (fun x => str_mem x b) a.

(* ------------------------------------------------------------------------------------ *)
(* Part B: the LTS                                                                        *)
(* ------------------------------------------------------------------------------------ *)

Inductive src := SInput | SMain | SPoster (i : nat).
Definition src_eqb (a b : src) : bool :=
  match a, b with
  | SInput, SInput | SMain, SMain => true
  | SPoster i, SPoster j => Nat.eqb i j
  | _, _ => false
  end.

Definition ev := (src * Z)%type.          (* who posted it, payload *)
Definition post := (bool * Z)%type.       (* true = PostEventBlocking, false = PostEvent *)
Definition seqv := option (list Z).       (* None = ansi.EOF; Some evs = a sequence whose handling posts evs (blocking), in order *)
Definition item := list (list Z).         (* one rune read by the parser: the sequences it makes it emit *)

Definition quit_ev : Z := -1.
Definition da1_ev : Z := -2.
(* the DA1 reply: ten runes, the last one completes the CSI.  Only its being non-empty matters. *)
Definition da1_items : list item := [[]; []; []; []; []; []; []; []; []; [[da1_ev]]].

(* parser goroutine (ansi.Parser.run) *)
Inductive ppc :=
  | PTop                       (* at the select on p.close *)
  | PRead                      (* took `default`: inside readRune *)
  | PEmit (l : list (list Z))  (* processing a rune: sequences still to send on p.sequences *)
  | PEof | PCloseSeqs | PSendClosed | PDone.
(* input goroutine (openTty) *)
Inductive ipc := IRecv | IPost (l : list Z) | IDone.
(* main goroutine; the bool says whether Suspend runs inside Close *)
Inductive mpc :=
  | MRun | MPostQuit | MSendClose (c : bool) | MWriteDA1 (c : bool) | MWait (c : bool) | MRest (c : bool)
  | MSuspended | MClosed.

Record state := mkState {
  q : list ev;                    (* vx.queue, oldest first *)
  delivered : list ev;            (* ghost: what PollEvent returned, in order *)
  todo : nat -> list post;        (* poster i: posts still to perform *)
  hist : nat -> list (Z * bool);  (* ghost: posts performed by poster i, with accepted/dropped *)
  typed : list Z;                 (* ghost: every event the terminal input stands for, in order *)
  inp : list item;                (* bytes the terminal has sent and the parser has not read *)
  pp : ppc; closech : bool; closedch : bool; seqs : list seqv; seqs_closed : bool;
  ip : ipc;
  mp : mpc;
  susp_done : nat                 (* Suspends completed on this parser generation *)
}.

Definition upd {A} (f : nat -> A) (i : nat) (v : A) : nat -> A := fun j => if Nat.eqb j i then v else f j.

Definition set_q s v := mkState v (delivered s) (todo s) (hist s) (typed s) (inp s) (pp s) (closech s) (closedch s) (seqs s) (seqs_closed s) (ip s) (mp s) (susp_done s).
Definition set_inp s v := mkState (q s) (delivered s) (todo s) (hist s) (typed s) v (pp s) (closech s) (closedch s) (seqs s) (seqs_closed s) (ip s) (mp s) (susp_done s).
Definition set_pp s v := mkState (q s) (delivered s) (todo s) (hist s) (typed s) (inp s) v (closech s) (closedch s) (seqs s) (seqs_closed s) (ip s) (mp s) (susp_done s).
Definition set_ip s v := mkState (q s) (delivered s) (todo s) (hist s) (typed s) (inp s) (pp s) (closech s) (closedch s) (seqs s) (seqs_closed s) v (mp s) (susp_done s).
Definition set_mp s v := mkState (q s) (delivered s) (todo s) (hist s) (typed s) (inp s) (pp s) (closech s) (closedch s) (seqs s) (seqs_closed s) (ip s) v (susp_done s).
Definition set_seqs s v := mkState (q s) (delivered s) (todo s) (hist s) (typed s) (inp s) (pp s) (closech s) (closedch s) v (seqs_closed s) (ip s) (mp s) (susp_done s).
Definition set_closech s v := mkState (q s) (delivered s) (todo s) (hist s) (typed s) (inp s) (pp s) v (closedch s) (seqs s) (seqs_closed s) (ip s) (mp s) (susp_done s).
Definition set_closedch s v := mkState (q s) (delivered s) (todo s) (hist s) (typed s) (inp s) (pp s) (closech s) v (seqs s) (seqs_closed s) (ip s) (mp s) (susp_done s).

Definition item_events (it : item) : list Z := concat it.
Definition items_events (l : list item) : list Z := concat (map item_events l).

Inductive label :=
  | LPost (i : nat)     (* poster i performs its next post *)
  | LPoll               (* main: PollEvent / receive from Events() *)
  | LCallClose | LCallSuspend | LResume
  | LMain               (* main: next step of Close / Suspend *)
  | LParser | LInput
  | LType (it : item).  (* the terminal sends one more rune *)

Definition init (script : nat -> list post) : state :=
  mkState [] [] script (fun _ => []) [] [] PTop false false [] false IRecv MRun 0.

Section Step.
  Variable N : nat.        (* capacity of the event queue (Options.EventQueueSize) *)
  Variable ans : bool.     (* the terminal answers the DA1 query *)

  Definition full (s : state) : bool := Nat.leb N (List.length (q s)).

  Definition step (l : label) (s : state) : option state :=
    match l with
    | LPost i =>
        match todo s i with
        | [] => None
        | (blk, x) :: rest =>
            if full s then
              if blk then None   (* PostEventBlocking: vx.queue <- ev blocks *)
              else Some (mkState (q s) (delivered s) (upd (todo s) i rest) (upd (hist s) i (hist s i ++ [(x, false)]))
                           (typed s) (inp s) (pp s) (closech s) (closedch s) (seqs s) (seqs_closed s) (ip s) (mp s) (susp_done s))
            else Some (mkState (q s ++ [(SPoster i, x)]) (delivered s) (upd (todo s) i rest) (upd (hist s) i (hist s i ++ [(x, true)]))
                         (typed s) (inp s) (pp s) (closech s) (closedch s) (seqs s) (seqs_closed s) (ip s) (mp s) (susp_done s))
        end
    | LPoll =>
        match mp s with
        | MRun | MSuspended | MClosed =>
            match q s with
            | [] => None
            | e :: r => Some (mkState r (delivered s ++ [e]) (todo s) (hist s) (typed s) (inp s) (pp s) (closech s) (closedch s)
                                (seqs s) (seqs_closed s) (ip s) (mp s) (susp_done s))
            end
        | _ => None
        end
    | LCallClose => match mp s with MRun | MSuspended => Some (set_mp s MPostQuit) | _ => None end
    | LCallSuspend => match mp s with MRun | MSuspended => Some (set_mp s (MSendClose false)) | _ => None end
    | LResume =>
        (* openTty: a new parser, a new input goroutine.  Modelled only once the previous
           input goroutine has exited (the overlap is the lock-set finding resume-overlap);
           bytes the old parser had buffered are gone with it. *)
        match mp s, ip s with
        | MSuspended, IDone =>
            Some (mkState (q s) (delivered s) (todo s) (hist s) (typed s) [] PTop false false [] false IRecv MRun 0)
        | _, _ => None
        end
    | LMain =>
        match mp s with
        | MPostQuit =>   (* vx.PostEvent(QuitEvent{}): dropped when the queue is full *)
            Some (set_mp (set_q s (if full s then q s else q s ++ [(SMain, quit_ev)])) (MSendClose true))
        | MSendClose c => if closech s then None else Some (set_mp (set_closech s true) (MWriteDA1 c))
        | MWriteDA1 c =>
            let add := if ans then da1_items else [] in
            Some (mkState (q s) (delivered s) (todo s) (hist s) (typed s ++ items_events add) (inp s ++ add) (pp s) (closech s)
                    (closedch s) (seqs s) (seqs_closed s) (ip s) (MWait c) (susp_done s))
        | MWait c => if closedch s then Some (set_mp (set_closedch s false) (MRest c)) else None
        | MRest c =>
            Some (mkState (q s) (delivered s) (todo s) (hist s) (typed s) (inp s) (pp s) (closech s) (closedch s) (seqs s)
                    (seqs_closed s) (ip s) (if c then MClosed else MSuspended) (S (susp_done s)))
        | _ => None
        end
    | LParser =>
        match pp s with
        | PTop => if closech s then Some (set_pp (set_closech s false) PEof) else Some (set_pp s PRead)
        | PRead => match inp s with [] => None | it :: r => Some (set_pp (set_inp s r) (PEmit it)) end
        | PEmit [] => Some (set_pp s PTop)
        | PEmit (x :: r) =>
            if Nat.ltb (List.length (seqs s)) 2 then Some (set_pp (set_seqs s (seqs s ++ [Some x])) (PEmit r)) else None
        | PEof => if Nat.ltb (List.length (seqs s)) 2 then Some (set_pp (set_seqs s (seqs s ++ [None])) PCloseSeqs) else None
        | PCloseSeqs =>
            Some (mkState (q s) (delivered s) (todo s) (hist s) (typed s) (inp s) PSendClosed (closech s) (closedch s) (seqs s) true
                    (ip s) (mp s) (susp_done s))
        | PSendClosed => if closedch s then None else Some (set_pp (set_closedch s true) PDone)
        | PDone => None
        end
    | LInput =>
        match ip s with
        | IRecv =>
            match seqs s with
            | [] => None
            | None :: r => Some (set_ip (set_seqs s r) IDone)
            | Some evs :: r => Some (set_ip (set_seqs s r) (IPost evs))
            end
        | IPost [] => Some (set_ip s IRecv)
        | IPost (x :: r) => if full s then None else Some (set_ip (set_q s (q s ++ [(SInput, x)])) (IPost r))
        | IDone => None
        end
    | LType it =>
        Some (mkState (q s) (delivered s) (todo s) (hist s) (typed s ++ item_events it) (inp s ++ [it]) (pp s) (closech s)
                (closedch s) (seqs s) (seqs_closed s) (ip s) (mp s) (susp_done s))
    end.

  Fixpoint run (tr : list label) (s : state) : option state :=
    match tr with
    | [] => Some s
    | l :: tr' => match step l s with Some s' => run tr' s' | None => None end
    end.

  Definition reachable (script : nat -> list post) (s : state) : Prop :=
    exists tr, run tr (init script) = Some s.

  Definition enabled (l : label) (s : state) : bool := match step l s with Some _ => true | None => false end.
End Step.

(* projections used by the theorems *)
Definition proj (i : nat) (l : list ev) : list Z := map snd (filter (fun e => src_eqb (fst e) (SPoster i)) l).
Definition proj_input (l : list ev) : list Z := map snd (filter (fun e => src_eqb (fst e) SInput) l).
Definition accepted (h : list (Z * bool)) : list Z := map fst (filter snd h).

Definition in_shutdown (m : mpc) : bool :=
  match m with MPostQuit | MSendClose _ | MWriteDA1 _ | MWait _ | MRest _ => true | _ => false end.
Definition returned (m : mpc) : bool := match m with MSuspended | MClosed => true | _ => false end.
Definition handshake (l : label) : bool := match l with LMain | LParser | LInput => true | _ => false end.
Definition is_call (l : label) : bool := match l with LCallClose | LCallSuspend | LResume => true | _ => false end.

(* the ranking function of the handshake *)
Definition sum (l : list nat) : nat := fold_right Nat.add O l.
Definition ecost (evs : list Z) : nat := 2 + List.length evs.
Definition scost (x : list Z) : nat := 1 + ecost x.
Definition icost (it : item) : nat := 3 + sum (map scost it).
Definition rank_inp (l : list item) : nat := sum (map icost l).
Definition rank_pp (p : ppc) : nat :=
  match p with
  | PTop => 5 | PRead => 4 | PEmit l => 6 + sum (map scost l)
  | PEof => 4 | PCloseSeqs => 2 | PSendClosed => 1 | PDone => 0
  end.
Definition rank_seq (x : seqv) : nat := match x with None => 1 | Some evs => ecost evs end.
Definition rank_ip (i : ipc) : nat := match i with IRecv => 0 | IPost l => 1 + List.length l | IDone => 0 end.
Definition rank_mp (m : mpc) : nat :=
  match m with
  | MPostQuit => 5 + rank_inp da1_items | MSendClose _ => 4 + rank_inp da1_items | MWriteDA1 _ => 3 + rank_inp da1_items
  | MWait _ => 2 | MRest _ => 1 | _ => 0
  end.
Definition rank (s : state) : nat :=
  (rank_mp (mp s) + rank_pp (pp s) + rank_inp (inp s) + sum (map rank_seq (seqs s)) + rank_ip (ip s))%nat.

Definition label_cost (l : label) : nat := match l with LType it => icost it | _ => 0 end.
Definition typed_cost (tr : list label) : nat := sum (map label_cost tr).
Definition hs_count (tr : list label) : nat := List.length (filter handshake tr).

(* events still inside the input pipeline (not yet in the queue) *)
Definition pp_events (p : ppc) : list Z := match p with PEmit l => concat l | _ => [] end.
Definition seq_events (x : seqv) : list Z := match x with Some evs => evs | None => [] end.
Definition ip_events (i : ipc) : list Z := match i with IPost l => l | _ => [] end.
Definition pipeline (s : state) : list Z :=
  ip_events (ip s) ++ concat (map seq_events (seqs s)) ++ pp_events (pp s) ++ items_events (inp s).

(* ------------------------------------------------------------------------------------ *)
(* Part C: the scripted runner and the property on one observation                        *)
(* ------------------------------------------------------------------------------------ *)

(* What the harness does: one action at a time, then it lets the library's goroutines run
   until nothing moves ("settle"). *)
Inductive action :=
  | APost (i : Z)          (* tell poster i to perform its next post *)
  | APoll                  (* main: take one event if there is one *)
  | AType (evs : list Z)   (* the terminal sends a chunk of plain keys, one event each *)
  | AClose | ASuspend | AResume.

(* what is observed for one action: (did the call return before the watchdog, event polled) *)
Definition obs := (bool * option (Z * Z))%type.   (* event: (source code, payload); source -1 input, -2 main, i poster *)

Definition src_code (s : src) : Z := match s with SInput => -1 | SMain => -2 | SPoster i => Z.of_nat i end.

Section Exec.
  Variable N : nat.
  Variable ans : bool.

  (* parser and input goroutine run until neither can move *)
  Fixpoint settle (fuel : nat) (s : state) : state :=
    match fuel with
    | O => s
    | S n =>
        match step N ans LInput s with
        | Some s' => settle n s'
        | None => match step N ans LParser s with
                  | Some s' => settle n s'
                  | None => s
                  end
        end
    end.

  (* main runs its Close/Suspend program as far as it can, the others settle in between *)
  Fixpoint drive (fuel : nat) (s : state) : state :=
    match fuel with
    | O => s
    | S n =>
        match step N ans LMain s with
        | Some s' => drive n (settle 1000 s')
        | None => s
        end
    end.

  Definition key_item (x : Z) : item := [[x]].

  (* a poster blocked inside PostEventBlocking completes as soon as there is room *)
  Definition wake (w : option nat) (s : state) : option nat * state :=
    match w with
    | Some i => match step N ans (LPost i) s with Some s' => (None, s') | None => (w, s) end
    | None => (None, s)
    end.

  Definition exec1 (a : action) (ws : option nat * state) : obs * (option nat * state) :=
    let '(w, s) := ws in
    match a with
    | APost i =>
        match step N ans (LPost (Z.to_nat i)) s with
        | Some s' => ((true, None), (w, settle 1000 s'))
        | None => ((false, None), (Some (Z.to_nat i), s))
        end
    | APoll =>
        match step N ans LPoll s with
        | Some s' =>
            let e := match q s with e :: _ => Some (src_code (fst e), snd e) | [] => None end in
            let '(w', s'') := wake w s' in
            ((true, e), (w', settle 1000 s''))
        | None => ((true, None), (w, s))
        end
    | AType evs =>
        let s' := fold_left (fun s x => match step N ans (LType (key_item x)) s with Some s' => s' | None => s end) evs s in
        ((true, None), (w, settle 1000 s'))
    | AClose =>
        match step N ans LCallClose s with
        | Some s' => let s'' := drive 100 (settle 1000 s') in ((returned (mp s''), None), (w, s''))
        | None => ((true, None), (w, s))
        end
    | ASuspend =>
        match step N ans LCallSuspend s with
        | Some s' => let s'' := drive 100 (settle 1000 s') in ((returned (mp s''), None), (w, s''))
        | None => ((true, None), (w, s))
        end
    | AResume =>
        match step N ans LResume s with
        | Some s' => ((true, None), (w, settle 1000 s'))
        | None => ((false, None), (w, s))
        end
    end.

  Fixpoint exec (acts : list action) (ws : option nat * state) : list obs * state :=
    match acts with
    | [] => ([], snd ws)
    | a :: r => let '(o, ws') := exec1 a ws in let '(os, s) := exec r ws' in (o :: os, s)
    end.
End Exec.

Definition script_of (l : list (list (bool * Z))) : nat -> list post := fun i => nth i l [].

(* one case of the [sched] stream: queue size, does the terminal answer DA1, poster scripts,
   the schedule, and what the implementation did: per action (returned?, polled event), then
   the events left in the queue at the end (drained after the schedule), and the number of
   goroutines after minus before (after a settle delay). *)
Definition sched_case := (Z * bool * list (list (bool * Z)) * list action * list obs * list (Z * Z) * Z)%type.

Definition ev_code (e : ev) : Z * Z := (src_code (fst e), snd e).
Definition zpair_eqb (a b : Z * Z) : bool := (fst a =? fst b) && (snd a =? snd b).
Definition obs_eqb (a b : obs) : bool := Bool.eqb (fst a) (fst b) && option_eqb zpair_eqb (snd a) (snd b).

Definition sched_model (c : sched_case) : list obs * list (Z * Z) :=
  let '(n, ans, scripts, acts, _, _, _) := c in
  let '(os, s) := exec (Z.to_nat n) ans acts (None, init (script_of scripts)) in
  (os, map ev_code (q s)).

Definition sched_mismatch (c : sched_case) : bool :=
  let '(_, _, _, _, os, rest, _) := c in
  let '(mos, mrest) := sched_model c in
  negb (list_eqb obs_eqb mos os && list_eqb zpair_eqb mrest rest).

(* The property on the observation alone (no model): what was delivered (polled, then the
   rest of the queue) from poster i is a subsequence of its script, equal to the performed
   part of the script when the script is all-blocking; a Close/Suspend that the guard covers
   returned; no goroutine is left over. *)
Fixpoint subseqb (a b : list Z) : bool :=
  match a, b with
  | [], _ => true
  | _ :: _, [] => false
  | x :: a', y :: b' => if x =? y then subseqb a' b' else subseqb a b'
  end.
Fixpoint prefixb (a b : list Z) : bool :=
  match a, b with
  | [], _ => true
  | x :: a', y :: b' => (x =? y) && prefixb a' b'
  | _ :: _, [] => false
  end.

Definition polled (os : list obs) : list (Z * Z) :=
  flat_map (fun o : obs => match snd o with Some e => [e] | None => [] end) os.
Definition from_src (c : Z) (l : list (Z * Z)) : list Z := map snd (filter (fun e => fst e =? c) l).
Fixpoint count_posts (i : Z) (acts : list action) : nat :=
  match acts with
  | [] => O
  | APost j :: r => if i =? j then S (count_posts i r) else count_posts i r
  | _ :: r => count_posts i r
  end.
Fixpoint typed_of (acts : list action) : list Z :=
  match acts with [] => [] | AType evs :: r => evs ++ typed_of r | _ :: r => typed_of r end.

Fixpoint index_from {A} (i : Z) (l : list A) : list (Z * A) :=
  match l with [] => [] | x :: t => (i, x) :: index_from (i + 1) t end.

(* shutdown guard: the history the positive theorem covers — every Close/Suspend is the first
   one on its parser generation (not Suspend();Close(), not Suspend();Suspend()) *)
Fixpoint guard_fresh (susp : bool) (acts : list action) : bool :=
  match acts with
  | [] => true
  | AClose :: r | ASuspend :: r => negb susp && guard_fresh true r
  | AResume :: r => guard_fresh false r
  | _ :: r => guard_fresh susp r
  end.

Definition shutdown_obs_ok (acts : list action) (os : list obs) : bool :=
  forallb (fun ao : action * obs => match fst ao with AClose | ASuspend => fst (snd ao) | _ => true end) (combine acts os).

Definition sched_fifo_ok (c : sched_case) : bool :=
  let '(_, _, scripts, acts, os, rest, _) := c in
  let got := polled os ++ rest in
  forallb (fun isc : Z * list (bool * Z) =>
     let '(i, sc) := isc in
     let mine := from_src i got in
     let performed := firstn (count_posts i acts) (map snd sc) in
     subseqb mine performed
     && (negb (forallb fst sc) || prefixb mine performed
         && Nat.leb (Nat.pred (count_posts i acts)) (List.length mine)))
    (index_from 0 scripts)
  && prefixb (filter (fun x => negb (x =? da1_ev)) (from_src (-1) got)) (typed_of acts).

Definition sched_violation (c : sched_case) : bool :=
  let '(_, ans, _, acts, os, _, leak) := c in
  negb (sched_fifo_ok c)
  || (ans && guard_fresh false acts && negb (shutdown_obs_ok acts os))
  || (ans && guard_fresh false acts && (0 <? leak)).

(* the recorded finding: Suspend();Close() (or a second Suspend) never returns *)
Definition sched_known (c : sched_case) : bool :=
  let '(_, _, _, acts, _, _, _) := c in negb (guard_fresh false acts).

Definition c10_sched_mismatches (l : list sched_case) : list Z := bad_indices sched_mismatch l.
Definition c10_sched_violations (l : list sched_case) : list Z :=
  bad_indices (fun c => sched_violation c
     || (sched_known c && negb (let '(_, _, _, acts, os, _, _) := c in shutdown_obs_ok acts os))) l.
Definition c10_sched_known (l : list sched_case) : list Z := bad_indices sched_known l.

(* second recorded finding: Close/Suspend entered with a full queue and four unprocessed
   input sequences (the state of C10_close_full_queue_refuted) *)
Definition stuckq_b (N : nat) (s : state) : bool :=
  Nat.leb N (List.length (q s))
  && match ip s with IPost (_ :: _) => true | _ => false end
  && Nat.eqb (List.length (seqs s)) 2
  && match pp s with PEmit (_ :: _) | PEof => true | _ => false end
  && negb (closedch s)
  && match mp s with MPostQuit | MSendClose _ | MWriteDA1 _ | MWait _ => true | _ => false end.

Definition fullq_known (c : sched_case) : bool :=
  let '(n, ans, scripts, acts, _, _, _) := c in
  let '(_, s) := exec (Z.to_nat n) ans acts (None, init (script_of scripts)) in
  stuckq_b (Z.to_nat n) s.

Definition c10_fullq_violations (l : list sched_case) : list Z := bad_indices sched_violation l.
Definition c10_fullq_known (l : list sched_case) : list Z := bad_indices fullq_known l.
