(* Model of the CONTENT side of the colour queries of vaxis.go: QueryColor, QueryForeground,
   QueryBackground.  The hand-off of a reply (handleSequence offers the payload of an OSC 4 /
   OSC 10 / OSC 11 report to the 1-slot channel chColor / chFg / chBg) is the model of
   model/Input.v; here: what a caller does with the payload it receives

       prefix := fmt.Sprintf("4;%v;", p[0])
       _, err := fmt.Sscanf(resp, prefix+"rgb:%x/%x/%x", &r, &g, &b)
       if err != nil { return Color(0) }
       return RGBColor(uint8(r), uint8(g), uint8(b))

   (fmt.Sscanf modelled for this family of formats: literal text, then three %x verbs into ints
   separated by '/'), the guards in front of the query, the calls interleaved with delivered
   sequences (a call takes the payload that is parked in its channel, or waits for the next one
   offered), and the specification from the terminal's side: which payload is a report for which
   entry, and which colour it reports.  Executable definitions only. *)
From Vx Require Import base.Prelude model.Parser model.Mouse model.Input model.InputCheck.

(* ---------- fmt.Sscanf(resp, lit + "%x/%x/%x", &r, &g, &b) ---------- *)

(* fmt.isSpace (a copy of unicode.White_Space) *)
Definition sc_space (r : Z) : bool :=
  ((9 <=? r) && (r <=? 13)) || (r =? 32) || (r =? 133) || (r =? 160) || (r =? 5760) ||
  ((8192 <=? r) && (r <=? 8202)) || (r =? 8232) || (r =? 8233) || (r =? 8239) || (r =? 8287) ||
  (r =? 12288).

(* ss.SkipSpace with nlIsSpace = false: a newline is an error ("unexpected newline"); a carriage
   return is skipped (before a newline explicitly, otherwise as a space) *)
Fixpoint skip_space (s : list Z) : option (list Z) :=
  match s with
  | [] => Some []
  | r :: t => if r =? 10 then None else if sc_space r then skip_space t else Some s
  end.

(* hexadecimalDigits = "0123456789aAbBcCdDeEfF" *)
Definition is_hex (d : Z) : bool :=
  ((48 <=? d) && (d <=? 57)) || ((65 <=? d) && (d <=? 70)) || ((97 <=? d) && (d <=? 102)).
Definition hexv (d : Z) : Z := if d <=? 57 then d - 48 else if d <=? 70 then d - 55 else d - 87.

(* for s.accept(digits) {} *)
Fixpoint span_hex (s : list Z) : list Z * list Z :=
  match s with
  | d :: t => if is_hex d then let '(a, b) := span_hex t in (d :: a, b) else ([], s)
  | [] => ([], [])
  end.

(* the number a hexadecimal numeral denotes *)
Definition hexval (ds : list Z) : Z := fold_left (fun a d => a * 16 + hexv d) ds 0.

Definition two63 : Z := 9223372036854775808.

(* s.accept(sign) *)
Definition take_sign (s : list Z) : bool * list Z :=
  match s with
  | c :: t => if c =? 43 then (false, t) else if c =? 45 then (true, t) else (false, s)
  | [] => (false, [])
  end.

(* the verb %x into an int: SkipSpace, an optional sign, at least one hexadecimal digit, as many
   as there are; strconv.ParseInt(tok, 16, 64) rejects what does not fit into an int64.
   Result: the value and the rest of the input; None = Sscanf returns an error *)
Definition scan_hex (s : list Z) : option (Z * list Z) :=
  match skip_space s with
  | None => None
  | Some s1 =>
      let '(neg, s2) := take_sign s1 in
      let '(ds, rest) := span_hex s2 in
      match ds with
      | [] => None
      | _ =>
          let un := hexval ds in
          if neg then (if un <=? two63 then Some (- un, rest) else None)
          else (if un <? two63 then Some (un, rest) else None)
      end
  end.

(* literal text of the format (no space, no '%' in it): every rune must be there *)
Fixpoint lit (p s : list Z) : option (list Z) :=
  match p with
  | [] => Some s
  | x :: p' => match s with
               | y :: s' => if x =? y then lit p' s' else None
               | [] => None
               end
  end.

(* what is left of the input after the last verb is ignored *)
Definition sscanf_rgb (l resp : list Z) : option (Z * Z * Z) :=
  match lit l resp with None => None | Some s1 =>
  match scan_hex s1 with None => None | Some (r, s2) =>
  match lit [47] s2 with None => None | Some s3 =>
  match scan_hex s3 with None => None | Some (g, s4) =>
  match lit [47] s4 with None => None | Some s5 =>
  match scan_hex s5 with None => None | Some (b, _) => Some (r, g, b)
  end end end end end end.

(* ---------- colours (color.go) ---------- *)
Definition col_indexed (c : Z) : bool := Z.testbit c 24.     (* c&indexed != 0 *)
Definition col_rgb (c : Z) : bool := Z.testbit c 25.         (* c&rgb != 0 *)
Definition index_colour (n : Z) : Z := n + 16777216.
(* RGBColor on three bytes *)
Definition rgb_colour (r g b : Z) : Z := r * 65536 + g * 256 + b + 33554432.

(* fmt.Sprintf("%v", x) for a uint8 *)
Definition dec_u8 (n : Z) : list Z :=
  if n <? 10 then [48 + n]
  else if n <? 100 then [48 + n / 10; 48 + n mod 10]
  else [48 + n / 100; 48 + (n / 10) mod 10; 48 + n mod 10].

(* ---------- the three calls ---------- *)
Inductive cq :=
  | QColor (c : Z)      (* QueryColor(c), c a Color (uint32) *)
  | QFg                 (* QueryForeground() *)
  | QBg.                (* QueryBackground() *)

Definition cq_eqb (a b : cq) : bool :=
  match a, b with
  | QColor x, QColor y => x =? y
  | QFg, QFg | QBg, QBg => true
  | _, _ => false
  end.

(* reply channel: 0 chColor, 1 chFg, 2 chBg *)
Definition cq_chan (q : cq) : Z := match q with QColor _ => 0 | QFg => 1 | QBg => 2 end.

(* the text in front of "rgb:" that the caller expects: it names what was asked for *)
Definition cq_head (q : cq) : list Z :=
  match q with
  | QColor c => [52; 59] ++ dec_u8 (u8 c) ++ [59]       (* "4;<index>;" *)
  | QFg => [49; 48; 59]                                 (* "10;" *)
  | QBg => [49; 49; 59]                                 (* "11;" *)
  end.
Definition rgb_lit : list Z := [114; 103; 98; 58].        (* "rgb:" *)

(* what the caller returns for the payload it has received *)
Definition cq_answer (q : cq) (resp : list Z) : Z :=
  match sscanf_rgb (cq_head q ++ rgb_lit) resp with
  | Some (r, g, b) => rgb_colour (u8 r) (u8 g) (u8 b)
  | None => 0
  end.

(* the guards in front of the query: Some v = the call returns v at once, nothing is written *)
Definition cq_pre (cp : caps) (q : cq) : option Z :=
  match q with
  | QColor c =>
      if negb (c_osc4 cp) then Some 0
      else if col_indexed c then None            (* len(p) == 1 *)
      else if col_rgb c then Some c              (* len(p) == 3: returned as it is *)
      else Some 0
  | QFg => if c_osc10 cp then None else Some 0
  | QBg => if c_osc11 cp then None else Some 0
  end.

(* ---------- calls interleaved with delivered sequences ---------- *)
(* KRet is an observation: the call q has returned col.  In an input it is ignored. *)
Inductive kstep :=
  | KItem (it : item)
  | KCall (q : cq)
  | KRet (q : cq) (col : Z).

Definition kstep_eqb (a b : kstep) : bool :=
  match a, b with
  | KItem x, KItem y => item_eqb x y
  | KCall x, KCall y => cq_eqb x y
  | KRet x c, KRet y d => cq_eqb x y && (c =? d)
  | _, _ => false
  end.

(* the first caller blocked on channel k *)
Fixpoint take_waiter (k : Z) (w : list cq) : option (cq * list cq) :=
  match w with
  | [] => None
  | q :: t =>
      if cq_chan q =? k then Some (q, t)
      else match take_waiter k t with
           | Some (x, t') => Some (x, q :: t')
           | None => None
           end
  end.

(* state, the callers blocked in `resp := <-vx.ch..`, what has returned *)
Definition kst := (vxstate * list cq * list kstep)%type.

(* a payload in channel k and a caller blocked on it: the caller receives it and returns *)
Definition settle1 (k : Z) (get : vxstate -> option (list Z))
           (set : vxstate -> option (list Z) -> vxstate) (st : kst) : kst :=
  let '(s, w, out) := st in
  match get s with
  | Some v =>
      match take_waiter k w with
      | Some (q, w') => (set s None, w', out ++ [KRet q (cq_answer q v)])
      | None => st
      end
  | None => st
  end.

Definition settle (s : vxstate) (w : list cq) : kst :=
  settle1 2 ch_bg set_ch_bg (settle1 1 ch_fg set_ch_fg (settle1 0 ch_color set_ch_color (s, w, []))).

Section Calls.
  Variable dec : item -> ikey.
  Variable b64 : list Z -> option (list Z).

  (* the trace (the input steps with the returns of the calls inserted where they happen), the
     outcome code (0 ok, 1 handleSequence panicked, 2 it blocked), the state at the end *)
  Fixpoint krun (s : vxstate) (w : list cq) (l : list kstep) : list kstep * Z * option vxstate :=
    match l with
    | [] => ([], 0, Some s)
    | KItem it :: t =>
        match handle dec b64 s it with
        | Ok s1 _ =>
            let '(s2, w2, rets) := settle s1 w in
            let '(tr, code, fin) := krun s2 w2 t in (KItem it :: rets ++ tr, code, fin)
        | Panic _ => ([KItem it], 1, None)
        | Blocks _ => ([KItem it], 2, None)
        end
    | KCall q :: t =>
        match cq_pre (vcaps s) q with
        | Some v => let '(tr, code, fin) := krun s w t in (KCall q :: KRet q v :: tr, code, fin)
        | None =>
            (* the query is written; the caller receives what is parked, or blocks *)
            let '(s2, w2, rets) := settle s (w ++ [q]) in
            let '(tr, code, fin) := krun s2 w2 t in (KCall q :: rets ++ tr, code, fin)
        end
    | KRet _ _ :: t => krun s w t
    end.
End Calls.

(* ====================================================================================
   The specification from the terminal's side, independent of Sscanf: a report for a query is
   the payload  <head> rgb: <r> / <g> / <b>  where <head> names what was asked ("4;<index>;",
   "10;", "11;"); each channel is a hexadecimal numeral (XParseColor: 1 to 4 digits; leading blanks
   and a sign are tolerated here because the implementation tolerates them) of which Vaxis keeps
   the low 8 bits; anything after the blue channel is ignored. *)

Fixpoint drop_space (s : list Z) : list Z :=
  match s with
  | r :: t => if sc_space r then drop_space t else s
  | [] => []
  end.

(* the byte one '/'-separated field stands for *)
Definition chan_value (f : list Z) : option Z :=
  let '(neg, f2) := take_sign (drop_space f) in
  match fst (span_hex f2) with
  | [] => None
  | ds => Some (u8 (if neg then - hexval ds else hexval ds))
  end.

Definition report_colour (head p : list Z) : option Z :=
  if prefixb (head ++ rgb_lit) p then
    match fields 47 (skipn (length (head ++ rgb_lit)) p) with
    | f1 :: f2 :: f3 :: _ =>
        match chan_value f1, chan_value f2, chan_value f3 with
        | Some r, Some g, Some b => Some (rgb_colour r g b)
        | _, _, _ => None
        end
    | _ => None
    end
  else None.

(* the strict form every terminal sends: exactly three fields of 1 to 4 hexadecimal digits *)
Definition strict_field (f : list Z) : bool :=
  forallb is_hex f && (1 <=? zlen f) && (zlen f <=? 4).
Definition strict_report (head p : list Z) : option Z :=
  if prefixb (head ++ rgb_lit) p then
    match fields 47 (skipn (length (head ++ rgb_lit)) p) with
    | [f1; f2; f3] =>
        if strict_field f1 && strict_field f2 && strict_field f3
        then Some (rgb_colour (u8 (hexval f1)) (u8 (hexval f2)) (u8 (hexval f3)))
        else None
    | _ => None
    end
  else None.

(* is col an acceptable answer to the call q, given the payloads delivered so far?  Color(0)
   ("unknown") always is; otherwise it must be the colour of a report that names what q asked
   for; an RGB colour passed to QueryColor comes back as it is *)
Definition from_report (seen : list (list Z)) (q : cq) (col : Z) : bool :=
  existsb (fun p => match report_colour (cq_head q) p with Some v => v =? col | None => false end) seen.
Definition ret_ok (seen : list (list Z)) (q : cq) (col : Z) : bool :=
  (col =? 0) ||
  match q with
  | QColor c => if col_indexed c then from_report seen q col else col_rgb c && (col =? c)
  | _ => from_report seen q col
  end.

(* every return in a trace is acceptable with respect to the reports delivered BEFORE it *)
Fixpoint answers_ok (seen : list (list Z)) (tr : list kstep) : bool :=
  match tr with
  | [] => true
  | KItem (IOsc p) :: t => answers_ok (gostring p :: seen) t
  | KRet q col :: t => ret_ok seen q col && answers_ok seen t
  | _ :: t => answers_ok seen t
  end.

(* the answer half, for a call that meets no leftovers: with nothing parked and no report
   delivered before it, a call that passes its guards returns exactly when the first report on
   its reply channel arrives, and if that report has the strict form and names what was asked,
   with exactly its colour; a call stopped by a guard returns the guard's value at once *)
Definition chan_prefix (q : cq) : list Z :=
  match q with QColor _ => [52] | QFg => [49; 48] | QBg => [49; 49] end.
Definition targets (q : cq) (it : item) : bool :=
  match it with IOsc p => prefixb (chan_prefix q) (gostring p) | _ => false end.
Definition is_osc (it : item) : bool := match it with IOsc _ => true | _ => false end.
Definition strict_ok (q : cq) (it : item) (col : Z) : bool :=
  match it with
  | IOsc p => match strict_report (cq_head q) (gostring p) with Some v => col =? v | None => true end
  | _ => true
  end.

Fixpoint fresh_wait (q : cq) (tr : list kstep) : bool :=
  match tr with
  | [] => true
  | KItem it :: t =>
      if targets q it then
        match t with
        | KRet q' col :: _ => cq_eqb q q' && strict_ok q it col
        | _ => false
        end
      else fresh_wait q t
  | KCall _ :: _ => true
  | KRet _ _ :: _ => false
  end.

Fixpoint fresh_ok (cp : caps) (tr : list kstep) : bool :=
  match tr with
  | [] => true
  | KItem it :: t => if is_osc it then true else fresh_ok cp t
  | KCall q :: t =>
      match cq_pre cp q with
      | None => fresh_wait q t
      | Some v => match t with KRet q' col :: _ => cq_eqb q q' && (col =? v) | _ => false end
      end
  | KRet _ _ :: _ => false
  end.

(* ---------- stream "colour": calls and delivered sequences on one real Vaxis ---------- *)
(* input: capability bits, the state before (snapshot), the steps (KItem / KCall);
   observation: 0 ok / 1 panic / 2 wedged, the trace (the steps with the returns of the calls where
   they were observed), the state after *)
Definition ccase := ((list bool * snap) * list kstep * (Z * list kstep * option snap))%type.

Definition key_dummy (it : item) : ikey := key_none.

Definition ccase_model (c : ccase) : list kstep * Z * option vxstate :=
  let '((bits, sn0), steps, _) := c in
  krun key_dummy b64_none (state_of_snap (caps_of_bits bits) None sn0) [] steps.

Definition ccase_obs (r : list kstep * Z * option vxstate) : Z * list kstep * option snap :=
  let '(tr, code, fin) := r in
  (code, tr, match fin with Some s => Some (snap_of_state s) | None => None end).

Definition ccase_mismatch (c : ccase) : bool :=
  let '(_, _, (code, tr, fin)) := c in
  let '(code', tr', fin') := ccase_obs (ccase_model c) in
  negb ((code =? code') && list_eqb kstep_eqb tr tr' && option_eqb snap_eqb fin fin').

Definition snap_clean (sn : snap) : bool :=
  let '(_, _, _, _, _, _, lc, lf, lb) := sn in (lc =? 0) && (lf =? 0) && (lb =? 0).

Definition items_of_ksteps (l : list kstep) : list item :=
  flat_map (fun s => match s with KItem it => [it] | _ => [] end) l.

(* the property on one observation, without the model of the callers: neither a crash nor a
   wedge on deliverable sequences (the harness reads the queue), every colour handed to a caller is Color(0) or the colour of a report,
   delivered before, that names what the caller asked for; and the answer half for a call that
   meets no leftovers *)
Definition ccase_violation (c : ccase) : bool :=
  let '((bits, sn0), _, (code, tr, _)) := c in
  if (code =? 1) || (code =? 2) then forallb wf_item (items_of_ksteps tr)
  else negb (answers_ok [] tr && (negb (snap_clean sn0) || fresh_ok (caps_of_bits bits) tr)).

Definition c03_colour_mismatches (cases : list ccase) : list Z := bad_indices ccase_mismatch cases.
Definition c03_colour_violations (cases : list ccase) : list Z := bad_indices ccase_violation cases.
