(* Ownership model of the parser's reusable buffers (C08: "a sequence already delivered is
   never modified by later parsing until the consumer hands it back").  Buffers are abstract
   array ids; who may hold a VIEW of an array: the parser (its fields, the pooled locals of the
   function that is running), a sequence under construction, the consumer (delivered, not yet
   given back), a sync.Pool.  The three holders' lists are MULTISETS of views: the same array
   can be referenced twice (two slices of one array), the consumer hands views back one at a
   time, and sync.Pool.Get takes one view out of the pool - so two views of one array that reach
   the pool are later handed to two different owners (the hazard of carving several buffers out
   of one array).  The per-function action lists are translated from ansi/parser.go
   (gen/GenOwn.v) in three renderings: [own_all] (one merged list per function, conditions
   ignored), [own_paths] (one list per control-flow path from entry to a return, loops whose
   iterations perform ownership actions executed zero times) and [own_lpaths] (the same paths
   with those loops as segments: any number of iterations, each along any path of the body).
   A call event names the function and the merged list, one of its paths, or one of its looped
   paths together with the iterations taken.  Definitions only. *)
From Vx Require Import base.Prelude model.ParserOwnTypes gen.GenOwn.

Definition bkind_eqb (a b : bkind) : bool :=
  match a, b with
  | KInter, KInter | KOsc, KOsc | KApc, KApc | KDcs, KDcs => true
  | KLoc n, KLoc m => Nat.eqb n m
  | _, _ => false
  end.
Definition is_loc (k : bkind) : bool := match k with KLoc _ => true | _ => false end.

Record ost := {
  cur : bkind -> Z;          (* the array each parser field / pooled local points to *)
  outgoing : list Z;         (* views referenced by a sequence under construction *)
  consumer : list Z;         (* views delivered and not handed back *)
  pool : list Z;             (* views handed back (Finish -> sync.Pool.Put) *)
  next_fresh : Z             (* ids >= next_fresh were never allocated *)
}.

Definition mem (x : Z) (l : list Z) : bool := existsb (Z.eqb x) l.
Definition remove_id (x : Z) (l : list Z) : list Z := filter (fun y => negb (y =? x)) l.
(* one view leaves the holder *)
Fixpoint remove_one (x : Z) (l : list Z) : list Z :=
  match l with
  | [] => []
  | y :: t => if y =? x then t else y :: remove_one x t
  end.
Definition set_cur (s : ost) (k : bkind) (v : Z) : bkind -> Z :=
  fun k' => if bkind_eqb k' k then v else cur s k'.

(* one translated action.  [choice]: what sync.Pool.Get returns, chosen by the environment:
   Some id (must be in the pool) or None (the pool's New function: a fresh buffer).
   [OReplace k Reslice] keeps the array: the field / local is a new view of the SAME array. *)
Definition oact_step (s : ost) (a : oact) (choice : option Z) : ost :=
  match a with
  | OAlias k => {| cur := cur s; outgoing := cur s k :: outgoing s; consumer := consumer s; pool := pool s; next_fresh := next_fresh s |}
  | OEmit => {| cur := cur s; outgoing := []; consumer := outgoing s ++ consumer s; pool := pool s; next_fresh := next_fresh s |}
  | OReplace k Reslice => s
  | OReplace k Fresh =>
      {| cur := set_cur s k (next_fresh s); outgoing := outgoing s; consumer := consumer s; pool := pool s; next_fresh := next_fresh s + 1 |}
  | OReplace k PoolGet =>
      match choice with
      | Some id => if mem id (pool s)
                   then {| cur := set_cur s k id; outgoing := outgoing s; consumer := consumer s; pool := remove_one id (pool s); next_fresh := next_fresh s |}
                   else {| cur := set_cur s k (next_fresh s); outgoing := outgoing s; consumer := consumer s; pool := pool s; next_fresh := next_fresh s + 1 |}
      | None => {| cur := set_cur s k (next_fresh s); outgoing := outgoing s; consumer := consumer s; pool := pool s; next_fresh := next_fresh s + 1 |}
      end
  | OWrite _ => s
  end.

(* a write is SAFE when its target is not held by the consumer *)
Definition write_safe (s : ost) (a : oact) : bool :=
  match a with OWrite k => negb (mem (cur s k) (consumer s)) | _ => true end.

(* run one function body; choices are consumed by the PoolGet actions *)
Fixpoint run_fn (s : ost) (acts : list oact) (choices : list (option Z)) : ost * bool * list (option Z) :=
  match acts with
  | [] => (s, true, choices)
  | a :: t =>
      let ok := write_safe s a in
      let '(c, rest) := match a, choices with
                        | OReplace _ PoolGet, c :: rest => (c, rest)
                        | _, _ => (None, choices)
                        end in
      let '(s', ok', rest') := run_fn (oact_step s a c) t rest in
      (s', ok && ok', rest')
  end.

(* pooled locals die when the function returns: every local the body mentions is re-pointed to
   a never-used id (the next call starts with locals that reference nothing) *)
Definition act_kind (a : oact) : option bkind :=
  match a with OAlias k | OReplace k _ | OWrite k => Some k | OEmit => None end.
Fixpoint locals_of (acts : list oact) : list bkind :=
  match acts with
  | [] => []
  | a :: t => match act_kind a with
              | Some k => if is_loc k then k :: locals_of t else locals_of t
              | None => locals_of t
              end
  end.
Definition resets (ks : list bkind) : list oact := map (fun k => OReplace k Fresh) ks.
Definition call_acts (acts : list oact) : list oact := acts ++ resets (locals_of acts).

(* looped paths: [its] gives, for each loop segment in order, the bodies its iterations run
   (an index outside the list is an iteration that performs no action) *)
Fixpoint unroll (lp : list oseg) (its : list (list nat)) : list oact :=
  match lp with
  | [] => []
  | SActs l :: t => l ++ unroll t its
  | SLoop bodies :: t =>
      match its with
      | [] => unroll t []
      | it :: its' => concat (map (fun i => nth i bodies []) it) ++ unroll t its'
      end
  end.
Fixpoint lp_acts (lp : list oseg) : list oact :=
  match lp with
  | [] => []
  | SActs l :: t => l ++ lp_acts t
  | SLoop bodies :: t => concat bodies ++ lp_acts t
  end.
Definition call_lacts (lp : list oseg) (its : list (list nat)) : list oact :=
  unroll lp its ++ resets (locals_of (lp_acts lp)).

(* environment events between function calls *)
Inductive oevent :=
  | ECall (n : nat) (choices : list (option Z))   (* the n-th function of own_all runs (merged list) *)
  | ECallPath (n p : nat) (choices : list (option Z))   (* the n-th function runs along its p-th path *)
  | ECallLoop (n p : nat) (its : list (list nat)) (choices : list (option Z))
      (* the n-th function runs along its p-th looped path, its loops iterating as [its] says *)
  | EFinish (id : Z).                             (* the consumer hands ONE view back *)

Definition ostep (s : ost) (e : oevent) : ost * bool :=
  match e with
  | ECall n choices => let '(s', ok, _) := run_fn s (call_acts (nth n own_all [])) choices in (s', ok)
  | ECallPath n p choices => let '(s', ok, _) := run_fn s (call_acts (nth p (nth n own_paths []) [])) choices in (s', ok)
  | ECallLoop n p its choices =>
      let '(s', ok, _) := run_fn s (call_lacts (nth p (nth n own_lpaths []) []) its) choices in (s', ok)
  | EFinish id =>
      if mem id (consumer s)
      then ({| cur := cur s; outgoing := outgoing s; consumer := remove_one id (consumer s); pool := id :: pool s; next_fresh := next_fresh s |}, true)
      else (s, true)
  end.

Fixpoint orun (s : ost) (es : list oevent) : bool :=
  match es with
  | [] => true
  | e :: t => let '(s', ok) := ostep s e in ok && orun s' t
  end.

Definition oinit : ost :=
  {| cur := fun k => match k with KInter => 0 | KOsc => 1 | KApc => 2 | KDcs => 3 | KLoc n => - Z.of_nat n - 1 end;
     outgoing := []; consumer := []; pool := []; next_fresh := 4 |}.

(* the static discipline each translated function must follow: a buffer that was attached to
   an emitted sequence is re-pointed (fresh or from the pool) before it is written again and
   before the function returns, NO BUFFER IS ATTACHED TWICE (a reslice keeps the array: attaching
   the new view of an array that is already attached hands out one array as two buffers), and
   nothing is left half-aliased.  [aliased]: attached to the sequence under construction;
   [given]: attached to a sequence that was emitted. *)
Definition kmem (k : bkind) (l : list bkind) : bool := existsb (bkind_eqb k) l.
Definition kdel (k : bkind) (l : list bkind) : list bkind := filter (fun k' => negb (bkind_eqb k' k)) l.

Definition scan_step (a : oact) (aliased given : list bkind) : option (list bkind * list bkind) :=
  match a with
  | OAlias k => if negb (kmem k given) && negb (kmem k aliased) then Some (k :: aliased, given) else None
  | OEmit => Some ([], aliased ++ given)
  | OReplace k Reslice => Some (aliased, given)
  | OReplace k _ => Some (kdel k aliased, kdel k given)
  | OWrite k => if negb (kmem k given) then Some (aliased, given) else None
  end.
Fixpoint scan_acts (acts : list oact) (aliased given : list bkind) : option (list bkind * list bkind) :=
  match acts with
  | [] => Some (aliased, given)
  | a :: t => match scan_step a aliased given with
              | Some (al, gi) => scan_acts t al gi
              | None => None
              end
  end.
Definition handoff_scan (acts : list oact) (aliased given : list bkind) : bool :=
  match scan_acts acts aliased given with Some ([], []) => true | _ => false end.
(* a call: the body, then its locals die *)
Definition handoff_ok (acts : list oact) : bool := handoff_scan (call_acts acts) [] [].

(* every path of every function follows the discipline *)
Definition paths_ok (fs : list (list (list oact))) : bool := forallb (forallb handoff_ok) fs.

(* looped paths: every body of a loop must bring the scanner back to the state at the loop's
   head (a loop invariant), whichever body an iteration runs *)
Fixpoint klist_eqb (a b : list bkind) : bool :=
  match a, b with
  | [], [] => true
  | x :: a', y :: b' => bkind_eqb x y && klist_eqb a' b'
  | _, _ => false
  end.
Definition body_keeps (aliased given : list bkind) (b : list oact) : bool :=
  match scan_acts b aliased given with
  | Some (al, gi) => klist_eqb al aliased && klist_eqb gi given
  | None => false
  end.
Fixpoint lscan (lp : list oseg) (aliased given : list bkind) : option (list bkind * list bkind) :=
  match lp with
  | [] => Some (aliased, given)
  | SActs l :: t => match scan_acts l aliased given with
                    | Some (al, gi) => lscan t al gi
                    | None => None
                    end
  | SLoop bodies :: t => if forallb (body_keeps aliased given) bodies then lscan t aliased given else None
  end.
Definition lpath_ok (lp : list oseg) : bool :=
  match lscan lp [] [] with
  | Some (al, gi) => handoff_scan (resets (locals_of (lp_acts lp))) al gi
  | None => false
  end.
Definition lpaths_ok (fs : list (list (list oseg))) : bool := forallb (forallb lpath_ok) fs.

(* translator consistency: a path is a subsequence of the function's merged list *)
Definition oact_eqb (a b : oact) : bool :=
  match a, b with
  | OAlias k, OAlias k' => bkind_eqb k k'
  | OEmit, OEmit => true
  | OReplace k s, OReplace k' s' =>
      bkind_eqb k k' && match s, s' with Fresh, Fresh | PoolGet, PoolGet | Reslice, Reslice => true | _, _ => false end
  | OWrite k, OWrite k' => bkind_eqb k k'
  | _, _ => false
  end.
Fixpoint subseq_b (p m : list oact) : bool :=
  match p, m with
  | [], _ => true
  | _ :: _, [] => false
  | a :: p', b :: m' => if oact_eqb a b then subseq_b p' m' else subseq_b p m'
  end.
Fixpoint paths_within (ms : list (list oact)) (fs : list (list (list oact))) : bool :=
  match ms, fs with
  | [], [] => true
  | m :: ms', ps :: fs' => negb (match ps with [] => true | _ => false end) && forallb (fun p => subseq_b p m) ps && paths_within ms' fs'
  | _, _ => false
  end.
(* ... and the looped rendering is the same set of paths: dropping the loops of own_lpaths
   gives own_paths, each loop body is a subsequence of the merged list *)
Fixpoint drop_loops (lp : list oseg) : list oact :=
  match lp with
  | [] => []
  | SActs l :: t => l ++ drop_loops t
  | SLoop _ :: t => drop_loops t
  end.
Fixpoint loop_bodies (lp : list oseg) : list (list oact) :=
  match lp with
  | [] => []
  | SActs _ :: t => loop_bodies t
  | SLoop bs :: t => bs ++ loop_bodies t
  end.
Fixpoint oacts_eqb (a b : list oact) : bool :=
  match a, b with
  | [], [] => true
  | x :: a', y :: b' => oact_eqb x y && oacts_eqb a' b'
  | _, _ => false
  end.
Fixpoint lpaths_within (ms : list (list oact)) (fs : list (list (list oact))) (ls : list (list (list oseg))) : bool :=
  match ms, fs, ls with
  | [], [], [] => true
  | m :: ms', ps :: fs', lps :: ls' =>
      forallb (fun lp => existsb (fun p => oacts_eqb p (drop_loops lp)) ps
                         && forallb (fun b => subseq_b b m) (loop_bodies lp)) lps
      && forallb (fun p => existsb (fun lp => oacts_eqb p (drop_loops lp)) lps) ps
      && lpaths_within ms' fs' ls'
  | _, _, _ => false
  end.
