(* Ownership model of the parser's reusable buffers (C08: "a sequence already delivered is
   never modified by later parsing until the consumer hands it back").  Buffers are abstract
   ids; who may hold an id: the parser (its fields), the consumer (delivered, not yet given
   back), a sync.Pool.  The per-function action lists are translated from ansi/parser.go
   (gen/GenOwn.v) in two renderings: [own_all] (one merged list per function, conditions
   ignored) and [own_paths] (one list per control-flow path from entry to a return, so that an
   early return between the emit and the re-pointing of the field is a call of its own).
   A call event names the function and either the merged list or one of its paths.
   Definitions only. *)
From Vx Require Import base.Prelude model.ParserOwnTypes gen.GenOwn.

Definition bkind_eqb (a b : bkind) : bool :=
  match a, b with KInter, KInter | KOsc, KOsc | KApc, KApc | KDcs, KDcs => true | _, _ => false end.

Record ost := {
  cur : bkind -> Z;          (* the buffer each parser field points to *)
  outgoing : list Z;         (* referenced by a sequence under construction *)
  consumer : list Z;         (* delivered and not handed back *)
  pool : list Z;             (* handed back (Finish -> sync.Pool.Put) *)
  next_fresh : Z             (* ids >= next_fresh were never allocated *)
}.

Definition mem (x : Z) (l : list Z) : bool := existsb (Z.eqb x) l.
Definition remove_id (x : Z) (l : list Z) : list Z := filter (fun y => negb (y =? x)) l.
Definition set_cur (s : ost) (k : bkind) (v : Z) : bkind -> Z :=
  fun k' => if bkind_eqb k' k then v else cur s k'.

(* one translated action.  [choice]: what sync.Pool.Get returns, chosen by the environment:
   Some id (must be in the pool) or None (the pool's New function: a fresh buffer) *)
Definition oact_step (s : ost) (a : oact) (choice : option Z) : ost :=
  match a with
  | OAlias k => {| cur := cur s; outgoing := cur s k :: outgoing s; consumer := consumer s; pool := pool s; next_fresh := next_fresh s |}
  | OEmit => {| cur := cur s; outgoing := []; consumer := outgoing s ++ consumer s; pool := pool s; next_fresh := next_fresh s |}
  | OReplace k Reslice => s
  | OReplace k Fresh =>
      {| cur := set_cur s k (next_fresh s); outgoing := outgoing s; consumer := consumer s; pool := pool s; next_fresh := next_fresh s + 1 |}
  | OReplace k PoolGet =>
      match choice with
      | Some id => if mem id (pool s)
                   then {| cur := set_cur s k id; outgoing := outgoing s; consumer := consumer s; pool := remove_id id (pool s); next_fresh := next_fresh s |}
                   else {| cur := set_cur s k (next_fresh s); outgoing := outgoing s; consumer := consumer s; pool := pool s; next_fresh := next_fresh s + 1 |}
      | None => {| cur := set_cur s k (next_fresh s); outgoing := outgoing s; consumer := consumer s; pool := pool s; next_fresh := next_fresh s + 1 |}
      end
  | OWrite _ => s
  end.

(* a write is SAFE when its target is not held by the consumer *)
Definition write_safe (s : ost) (a : oact) : bool :=
  match a with OWrite k => negb (mem (cur s k) (consumer s)) | _ => true end.

(* run one function body; choices are consumed by the PoolGet actions *)
Fixpoint run_fn (s : ost) (acts : list oact) (choices : list (option Z)) : ost * bool * list (option Z) :=
  match acts with
  | [] => (s, true, choices)
  | a :: t =>
      let ok := write_safe s a in
      let '(c, rest) := match a, choices with
                        | OReplace _ PoolGet, c :: rest => (c, rest)
                        | _, _ => (None, choices)
                        end in
      let '(s', ok', rest') := run_fn (oact_step s a c) t rest in
      (s', ok && ok', rest')
  end.

(* environment events between function calls *)
Inductive oevent :=
  | ECall (n : nat) (choices : list (option Z))   (* the n-th function of own_all runs (merged list) *)
  | ECallPath (n p : nat) (choices : list (option Z))   (* the n-th function runs along its p-th path *)
  | EFinish (id : Z).                             (* the consumer hands a buffer back *)

Definition ostep (s : ost) (e : oevent) : ost * bool :=
  match e with
  | ECall n choices => let '(s', ok, _) := run_fn s (nth n own_all []) choices in (s', ok)
  | ECallPath n p choices => let '(s', ok, _) := run_fn s (nth p (nth n own_paths []) []) choices in (s', ok)
  | EFinish id =>
      if mem id (consumer s)
      then ({| cur := cur s; outgoing := outgoing s; consumer := remove_id id (consumer s); pool := id :: pool s; next_fresh := next_fresh s |}, true)
      else (s, true)
  end.

Fixpoint orun (s : ost) (es : list oevent) : bool :=
  match es with
  | [] => true
  | e :: t => let '(s', ok) := ostep s e in ok && orun s' t
  end.

Definition oinit : ost :=
  {| cur := fun k => match k with KInter => 0 | KOsc => 1 | KApc => 2 | KDcs => 3 end;
     outgoing := []; consumer := []; pool := []; next_fresh := 4 |}.

(* the static discipline each translated function must follow: a buffer that was aliased into
   an emitted sequence is re-pointed (fresh or from the pool) before the function returns, and
   nothing is left half-aliased *)
Definition kmem (k : bkind) (l : list bkind) : bool := existsb (bkind_eqb k) l.
Definition kdel (k : bkind) (l : list bkind) : list bkind := filter (fun k' => negb (bkind_eqb k' k)) l.

Fixpoint handoff_scan (acts : list oact) (aliased given : list bkind) : bool :=
  match acts with
  | [] => match aliased, given with [], [] => true | _, _ => false end
  | OAlias k :: t => negb (kmem k given) && handoff_scan t (k :: aliased) given
  | OEmit :: t => handoff_scan t [] (aliased ++ given)
  | OReplace k Reslice :: t => handoff_scan t aliased given
  | OReplace k _ :: t => handoff_scan t (kdel k aliased) (kdel k given)
  | OWrite k :: t => negb (kmem k given) && handoff_scan t aliased given
  end.
Definition handoff_ok (acts : list oact) : bool := handoff_scan acts [] [].

(* every path of every function follows the discipline *)
Definition paths_ok (fs : list (list (list oact))) : bool := forallb (forallb handoff_ok) fs.

(* translator consistency: a path is a subsequence of the function's merged list *)
Definition oact_eqb (a b : oact) : bool :=
  match a, b with
  | OAlias k, OAlias k' => bkind_eqb k k'
  | OEmit, OEmit => true
  | OReplace k s, OReplace k' s' =>
      bkind_eqb k k' && match s, s' with Fresh, Fresh | PoolGet, PoolGet | Reslice, Reslice => true | _, _ => false end
  | OWrite k, OWrite k' => bkind_eqb k k'
  | _, _ => false
  end.
Fixpoint subseq_b (p m : list oact) : bool :=
  match p, m with
  | [], _ => true
  | _ :: _, [] => false
  | a :: p', b :: m' => if oact_eqb a b then subseq_b p' m' else subseq_b p m'
  end.
Fixpoint paths_within (ms : list (list oact)) (fs : list (list (list oact))) : bool :=
  match ms, fs with
  | [], [] => true
  | m :: ms', ps :: fs' => negb (match ps with [] => true | _ => false end) && forallb (fun p => subseq_b p m) ps && paths_within ms' fs'
  | _, _ => false
  end.
