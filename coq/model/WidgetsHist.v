(* C14 — histories of Draw calls on ONE widget value.

   model/Widgets.v gives Draw of a freshly built widget as a function [draw] of (widget fields,
   constraint).  An application keeps its widgets alive and calls Draw on the same value for
   every frame, with changing constraints and with fields changed in between; the layout
   contract has to hold for every one of those calls.  This file models Draw as it is in the
   code: a method on a widget OBJECT that may read and write the object.

   Which fields does Draw write?
     text.Text, richtext.RichText, center.Center, textfield.TextField : none;
     button.Button : none (it builds a new text.Text and a new center.Center on every call);
     list.Dynamic  : its scroll state — `d.scroll.pending = 0` and, after the layout,
        // Reset origins and state based on actual draw
        for i, ch := range s.Children {
          if ch.Origin.Row <= 0 && ch.Origin.Row+int(ch.Surface.Size.Height)+d.Gap > 0 {
            d.scroll.top += uint(i); d.scroll.offset = -ch.Origin.Row } }
   No event is delivered in a history of draws, so cursor = 0, pending = 0 and wantsCursor =
   false throughout, and for Gap >= 0 every child row is >= 0, so offset stays 0: the state a
   history of draws can reach is the index [top] of the first item drawn.  (Scroll events, the
   offset and negative rows are C19's model, model/Lists.v; keeping a scroll position between
   draws is what a list is for — the layout contract has to hold in every such state.)

   Where is that state in a widget tree?  A Dynamic passes Max.Height = 65535 to its items, and
   Center, Button and Dynamic panic on an unbounded constraint in their first statement, before
   any write: a Dynamic below another Dynamic never completes a Draw and never writes.  The
   only Dynamic of a tree whose state can change is the one reached from the root through
   Center widgets; [sdraw] threads its [top] (and returns it unchanged for every other tree).
   Executable definitions only; proofs are in proofs/WidgetsHistProofs.v. *)
From Vx Require Import base.Prelude model.Surface model.Widgets.

Definition unbounded (maxw maxh : Z) : bool := (maxh =? 65535) || (maxw =? 65535).

(* the "reset" loop over the returned children; [i] = index of the head of [kids] *)
Fixpoint reset_top (gap : Z) (kids : list (Z * Z * Z * wsurface)) (i top : Z) : Z :=
  match kids with
  | [] => top
  | (_, r, _, ch) :: t =>
      if (r <=? 0) && (0 <? r + s_h ch + gap) then reset_top gap t (i + 1) (top + i)
      else reset_top gap t (i + 1) top
  end.

(* the DrawCursor part with scroll.top = top and cursor = 0: the gutter is always painted, the
   cursor surface only `if d.cursor >= d.scroll.top && idx < len(s.Children)` *)
Definition list_finish_at (top : Z) (drawcur : bool) (s : wsurface) (maxw : Z) : option wsurface :=
  if top =? 0 then list_finish drawcur s maxw
  else if negb drawcur then Some s
  else gutter s (Z.to_nat (s_h s)) 0.

(* Dynamic.Draw with scroll.top = top, offset 0: the loop starts at `i := d.scroll.top`.
   Result: the new top and the surface.  A panic (documented, or of an item) happens before
   the reset loop: the state is unchanged. *)
Definition list_draw_at (top : Z) (drawcur : bool) (gap : Z) (items : list wspec) (maxw maxh : Z)
  : Z * dres :=
  if unbounded maxw maxh then (top, DPanic)
  else
    let off := if drawcur then 2 else 0 in
    let rs := map (fun it => draw it (u16 (maxw - off)) 65535) (skipn (Z.to_nat top) items) in
    match list_loop (new_surface wblank maxw maxh) rs off 0 gap maxh with
    | None => (top, DPanic)
    | Some s => match list_finish_at top drawcur s maxw with
                | None => (top, DPanic)
                | Some s' => (reset_top gap (s_kids s') 0 top, DOk s')
                end
    end.

(* Draw on a widget object whose reachable Dynamic (if any) has scroll.top = top *)
Fixpoint sdraw (ws : wspec) (top maxw maxh : Z) : Z * dres :=
  match ws with
  | WCenter ch =>
      if unbounded maxw maxh then (top, DPanic)
      else let '(top', r) := sdraw ch top maxw maxh in
           (top', center_draw (fun _ _ => cres_of r) maxw maxh)
  | WList drawcur gap items => list_draw_at top drawcur gap items maxw maxh
  | _ => (top, draw ws maxw maxh)
  end.

(* the trees that have such a Dynamic *)
Fixpoint scroll_root (ws : wspec) : bool :=
  match ws with
  | WCenter ch => scroll_root ch
  | WList _ _ _ => true
  | _ => false
  end.

Definition dres_obs (r : dres) : draw_obs :=
  match r with
  | DPanic => (1, ONode 0 0 0 [] [])
  | DOk s => (0, observe s)
  end.

(* A history: the same object is drawn once per step.  A step carries the fields the object has
   at that moment (the application may have changed content and options since the last frame;
   a text is given by the lines its scanner yields for the width of that step) and the
   constraint.  The only thing carried from one step to the next is [top]. *)
Fixpoint hist_run (top : Z) (steps : list draw_input) : list draw_obs :=
  match steps with
  | [] => []
  | (ws, maxw, maxh) :: t =>
      let '(top', r) := sdraw ws top maxw maxh in dres_obs r :: hist_run top' t
  end.

(* constraints are uint16 *)
Definition in_u16 (inp : draw_input) : Prop :=
  let '(_, maxw, maxh) := inp in 0 <= maxw < 65536 /\ 0 <= maxh < 65536.

(* the value of [top] before each step *)
Fixpoint hist_tops (top : Z) (steps : list draw_input) : list Z :=
  match steps with
  | [] => []
  | (ws, maxw, maxh) :: t => top :: hist_tops (fst (sdraw ws top maxw maxh)) t
  end.

(* a single draw of a fresh value leaves the scroll state as it was built *)
Definition step_anchored (inp : draw_input) : bool :=
  let '(ws, maxw, maxh) := inp in fst (sdraw ws 0 maxw maxh) =? 0.

(* sufficient, on the fields alone: no reachable Dynamic, or one with Gap > 0, or (Gap = 0) one
   whose first item is a Text/RichText with at least one line *)
Definition first_item_has_row (items : list wspec) : bool :=
  match items with
  | WText _ _ (_ :: _) :: _ => true
  | _ => false
  end.

Fixpoint anchored_fields (ws : wspec) : bool :=
  match ws with
  | WCenter ch => anchored_fields ch
  | WList _ gap items => (0 <? gap) || ((gap =? 0) && first_item_has_row items)
  | _ => true
  end.

(* ---------------------------------------------------------------- the correspondence stream *)

(* one step of an observed history: the fields and the constraint at that step, and what the
   long-lived object returned *)
Definition hist_step : Type := draw_input * draw_obs.
Definition hist_case : Type := list hist_step.

Definition hist_inputs (c : hist_case) : list draw_input := map (fun s : hist_step => fst s) c.
Definition hist_observed (c : hist_case) : list draw_obs := map (fun s : hist_step => snd s) c.

(* the implementation's history is the model's: for the widgets whose Draw writes no field this
   says that every step returns what [draw] (a function of fields and constraint) returns, so
   any state hidden in the Go value shows up here; for list.Dynamic the model carries [top] *)
Definition hist_matches (c : hist_case) : bool :=
  list_eqb draw_obs_eqb (hist_run 0 (hist_inputs c)) (hist_observed c).

(* The property on one observed history, independent of the model: the clauses of the layout
   contract ([draw_ok]: panic only where documented, every widget of the returned tree within
   the maximum it was given, well-formed surfaces, centring) hold at EVERY step. *)
Definition hist_case_ok (c : hist_case) : bool := forallb draw_ok c.

Definition c14_hist_mismatches (cases : list hist_case) : list Z :=
  bad_indices (fun c => negb (hist_matches c)) cases.
Definition c14_hist_violations (cases : list hist_case) : list Z :=
  bad_indices (fun c => negb (hist_case_ok c)) cases.
