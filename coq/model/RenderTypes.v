(* Vocabulary of the renderer model (C01/C07/C12): styles, cells, capability set,
   output tokens.  Definitions only. *)
From Vx Require Import base.Prelude model.Colour.

(* vaxis.Style; colours are the raw uint32 Color values *)
Record style := {
  s_fg : Z; s_bg : Z; s_ul : Z;
  s_uls : Z;          (* UnderlineStyle 0..5 (uint8) *)
  s_attr : Z;         (* AttributeMask uint8 *)
  s_link : list Z;    (* Hyperlink, as code points *)
  s_linkp : list Z    (* HyperlinkParams *)
}.
Definition style0 : style :=
  {| s_fg := 0; s_bg := 0; s_ul := 0; s_uls := 0; s_attr := 0; s_link := []; s_linkp := [] |}.

Definition style_eqb (a b : style) : bool :=
  (s_fg a =? s_fg b) && (s_bg a =? s_bg b) && (s_ul a =? s_ul b) && (s_uls a =? s_uls b) &&
  (s_attr a =? s_attr b) && zlist_eqb (s_link a) (s_link b) && zlist_eqb (s_linkp a) (s_linkp b).

(* vaxis.Cell.  c_mw is not a field of the Go struct: it is the oracle's answer
   RenderedWidth(c_g) for this Vaxis instance, shipped with the cell *)
Record cell := {
  c_g : list Z;      (* Grapheme *)
  c_w : Z;           (* Width; 0 = measure *)
  c_mw : Z;          (* measured width (oracle) *)
  c_st : style;
  c_sixel : bool
}.
Definition cell0 : cell := {| c_g := []; c_w := 0; c_mw := 0; c_st := style0; c_sixel := false |}.
(* the marker written into screenLast under a wide character *)
Definition unknown_cell : cell := {| c_g := []; c_w := 0; c_mw := 0; c_st := style0; c_sixel := true |}.

(* Go struct equality of Cell (c_mw is a function of c_g, not compared) *)
Definition cell_eqb (a b : cell) : bool :=
  zlist_eqb (c_g a) (c_g b) && (c_w a =? c_w b) && style_eqb (c_st a) (c_st b) &&
  Bool.eqb (c_sixel a) (c_sixel b).

(* the width the renderer uses for a cell *)
Definition eff_width (c : cell) : Z := if c_w c =? 0 then c_mw c else c_w c.
(* columns the cell occupies on the screen (advance(cell) + 1) *)
Definition span (c : cell) : Z := Z.max 1 (eff_width c).

Record caps := {
  cap_rgb : bool;
  cap_styled_ul : bool;
  cap_sync : bool;
  cap_explicit_width : bool
}.

Record cursor := { cu_row : Z; cu_col : Z; cu_style : Z; cu_vis : bool }.

(* attribute bits (style.go: AttrBold = 1 << 1 ...) *)
Definition attr_bold := 2. Definition attr_dim := 4. Definition attr_italic := 8.
Definition attr_blink := 16. Definition attr_reverse := 32. Definition attr_invisible := 64.
Definition attr_strike := 128.
Definition has (m bit : Z) : bool := Z.odd (m / bit).

(* ---------- output tokens ---------- *)
Inductive tok :=
  | KCup (row col : Z)                 (* CSI row ; col H, 1-based *)
  | KSgrReset                          (* CSI m *)
  | KFg (ps : list Z)                  (* colour parameters: [] default, [n] indexed, [r;g;b] *)
  | KBg (ps : list Z)
  | KUl (ps : list Z)
  | KSgr (n : Z)                       (* a plain SGR attribute code: 1 2 3 5 7 8 9 22 23 25 27 28 29 4 24 *)
  | KUlStyle (n : Z)                   (* CSI 4:n m *)
  | KLink (params url : list Z)        (* OSC 8 *)
  | KText (g : list Z)                 (* the grapheme, raw *)
  | KTextW (w : Z) (g : list Z)        (* OSC 66 ; w=<w> ; grapheme *)
  | KSpace
  | KShowCursor | KHideCursor          (* DECTCEM *)
  | KCursorStyle (n : Z)               (* DECSCUSR *)
  | KSyncOn | KSyncOff
  | KMouseShape (s : list Z).
