(* C10, Part F — a goroutine that posts an event while it holds a mutex which the main goroutine
   also takes.  Definitions only.

   Anchor: widgets/spinner/spinner.go — the ticker goroutine does  m.mu.Lock(); ...;
   m.vx.PostEvent(Redraw{}); m.mu.Unlock()  and Draw, called by the main goroutine in the middle of a
   frame (it is then not polling events), does  m.mu.Lock(); defer m.mu.Unlock().
   Whether the post under the lock is the non-blocking PostEvent or PostEventBlocking is NOT written
   here: [gen_blocking_under_lock] is read from the table posts_under_lock that gen/query.go translates
   from every non-test file of the module on every run. *)
From Vx Require Import base.Prelude gen.GenAccess.
From Coq Require String.
Local Open Scope Z_scope.

Inductive wpc := WIdle | WHold.          (* the worker: outside its critical section / inside, the post is its next step *)
Inductive dpc := DPoll | DWant | DIn.    (* main: in its event loop / has called Draw and is about to lock / inside Draw *)

Record lstate := mkLS { lqn : nat; lwk : wpc; ldr : dpc }.

Inductive llabel :=
  | LTick       (* the worker locks the mutex *)
  | LWPost      (* the worker posts and unlocks *)
  | LFill       (* some other goroutine posts one event (input goroutine, another poster) *)
  | LDraw       (* main leaves its event loop and calls Draw *)
  | LDLock      (* Draw locks the mutex *)
  | LDUnlock    (* Draw returns *)
  | LDPoll.     (* main takes one event from the queue *)

Section LStep.
  Variable N : nat.       (* capacity of the event queue *)
  Variable blk : bool.    (* the post under the lock is PostEventBlocking *)

  Definition lstep (l : llabel) (s : lstate) : option lstate :=
    match l with
    | LTick => match lwk s, ldr s with
               | WIdle, (DPoll | DWant) => Some (mkLS (lqn s) WHold (ldr s))
               | _, _ => None
               end
    | LWPost => match lwk s with
                | WHold => if Nat.ltb (lqn s) N then Some (mkLS (S (lqn s)) WIdle (ldr s))
                           else if blk then None                    (* waits for room, the mutex held *)
                           else Some (mkLS (lqn s) WIdle (ldr s))   (* dropped *)
                | WIdle => None
                end
    | LFill => if Nat.ltb (lqn s) N then Some (mkLS (S (lqn s)) (lwk s) (ldr s)) else None
    | LDraw => match ldr s with DPoll => Some (mkLS (lqn s) (lwk s) DWant) | _ => None end
    | LDLock => match ldr s, lwk s with DWant, WIdle => Some (mkLS (lqn s) WIdle DIn) | _, _ => None end
    | LDUnlock => match ldr s with DIn => Some (mkLS (lqn s) (lwk s) DPoll) | _ => None end
    | LDPoll => match ldr s, lqn s with DPoll, S n => Some (mkLS n (lwk s) DPoll) | _, _ => None end
    end.

  Fixpoint lrun (tr : list llabel) (s : lstate) : option lstate :=
    match tr with
    | [] => Some s
    | l :: tr' => match lstep l s with Some s' => lrun tr' s' | None => None end
    end.

  Definition linit : lstate := mkLS O WIdle DPoll.
  Definition lreach (s : lstate) : Prop := exists tr, lrun tr linit = Some s.

  (* what the harness does: fill the queue, let the worker tick, call Draw; does Draw return? *)
  Definition ltry (l : llabel) (s : lstate) : lstate := match lstep l s with Some s' => s' | None => s end.
  Definition lock_exec : bool :=
    let s1 := fold_left (fun s _ => ltry LFill s) (repeat tt N) linit in
    let s2 := ltry LDraw (ltry LTick s1) in
    let s3 := ltry LDUnlock (ltry LDLock (ltry LWPost s2)) in
    match ldr s3 with DPoll => true | _ => false end.
End LStep.

Definition gen_blocking_under_lock : bool :=
  existsb (fun p : String.string * String.string * bool => snd p) posts_under_lock.

(* one case of the [lock] stream: queue size, did Draw return with the queue full *)
Definition lock_case := (Z * bool)%type.
Definition lock_mismatch (c : lock_case) : bool := negb (Bool.eqb (lock_exec (Z.to_nat (fst c)) gen_blocking_under_lock) (snd c)).
Definition lock_violation (c : lock_case) : bool := negb (snd c).
Definition c10_lock_mismatches (l : list lock_case) : list Z := bad_indices lock_mismatch l.
Definition c10_lock_violations (l : list lock_case) : list Z := bad_indices lock_violation l.
