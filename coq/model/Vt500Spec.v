(* The reference state machine: Paul Flo Williams' DEC VT500-series parser
   (vt100.net/emu/dec_ansi_parser), transcribed state by state as a function of the
   rune, independently of the translated tables, with the library's documented
   extensions written as explicit deltas (marked EXT).  Definitions only.

   Conventions of the transcription.  The library parses UTF-8 text, so there are no
   8-bit C1 controls; a rune above 7F is: text in ground; payload in the string states;
   the final in ss3 and (by the GR-as-GL rule) in dcs entry; otherwise it abandons the
   sequence (an `error` item, documented noise, and back to ground). *)
From Vx Require Import base.Prelude model.ParserTypes gen.GenParser model.Parser.

Definition c0exec (r : Z) : bool := in_range r 0 23 || (r =? 25) || in_range r 28 31.

(* (actions, next state); next None = parser stops *)
Definition spec_trans (s : pstate) (r : Z) : list act * option pstate :=
  match s with
  | Ground =>
      if c0exec r then ([AExecute], Some Ground) else ([APrint], Some Ground)
  | Escape =>
      (* any rune consumed in escape ends ST suppression: see spec_post (EXT) *)
      if c0exec r then ([AExecute], Some Escape)
      else if in_range r 32 47 then ([ACollect], Some EscapeIntermediate)
      else if r =? 79 then ([], Some Ss3)                       (* EXT: SS3 *)
      else if r =? 80 then ([AClear], Some DcsEntry)
      else if (r =? 88) || (r =? 94) then ([], Some SosPm)
      else if r =? 95 then ([ASetExit (Some ExApcUnhook)], Some Apc) (* EXT: APC payload *)
      else if r =? 91 then ([AClear], Some CsiEntry)
      else if r =? 93 then ([AOscStart], Some OscString)
      else if r =? 92 then ([AIfIgnoreSTGoto Ground; AEscDispatch], Some Ground) (* EXT: ST suppression *)
      else if in_range r 48 126 then ([AEscDispatch], Some Ground)
      else if r =? 127 then ([AEscDispatch], Some Ground)     (* EXT: Alt+Backspace *)
      else ([], Some Ground)
  | EscapeIntermediate =>
      if c0exec r then ([AExecute], Some EscapeIntermediate)
      else if in_range r 32 47 then ([ACollect], Some EscapeIntermediate)
      else if r =? 127 then ([], Some EscapeIntermediate)
      else if in_range r 48 126 then ([AEscDispatch], Some Ground)
      else ([], Some Ground)
  | CsiEntry =>
      if c0exec r then ([AExecute], Some CsiEntry)
      else if r =? 127 then ([], Some CsiEntry)
      else if in_range r 32 47 then ([ACollect], Some CsiIntermediate)
      else if in_range r 48 59 then ([AParam], Some CsiParam)                     (* EXT: 3A is a parameter byte *)
      else if in_range r 60 63 then ([ACollect], Some CsiParam)
      else if in_range r 64 126 then ([ACsiDispatch], Some Ground)
      else ([AEmitError], Some Ground)
  | CsiParam =>
      if c0exec r then ([AExecute], Some CsiParam)
      else if r =? 127 then ([], Some CsiParam)
      else if in_range r 48 59 then ([AParam], Some CsiParam)                     (* EXT: 3A *)
      else if in_range r 60 63 then ([], Some CsiIgnore)
      else if in_range r 32 47 then ([ACollect], Some CsiIntermediate)
      else if in_range r 64 126 then ([ACsiDispatch], Some Ground)
      else ([AEmitError], Some Ground)
  | CsiIntermediate =>
      if c0exec r then ([AExecute], Some CsiIntermediate)
      else if r =? 127 then ([], Some CsiIntermediate)
      else if in_range r 32 47 then ([ACollect], Some CsiIntermediate)
      else if in_range r 48 63 then ([], Some CsiIgnore)
      else if in_range r 64 126 then ([ACsiDispatch], Some Ground)
      else if r =? eof_rune then ([], None)
      else ([AEmitError], Some Ground)
  | CsiIgnore =>
      if c0exec r then ([AExecute], Some CsiIgnore)
      else if in_range r 64 126 then ([], Some Ground)
      else ([], Some CsiIgnore)
  | DcsEntry =>
      if c0exec r then ([], Some DcsEntry)
      else if r =? 127 then ([], Some DcsEntry)
      else if in_range r 32 47 then ([ACollect], Some DcsIntermediate)
      else if r =? 58 then ([], Some DcsIgnore)
      else if in_range r 48 59 then ([AParam], Some DcsParam)
      else if in_range r 60 63 then ([ACollect], Some DcsParam)
      else ([AHook], Some DcsPassthrough)
  | DcsParam =>
      if c0exec r then ([], Some DcsParam)
      else if r =? 127 then ([], Some DcsParam)
      else if r =? 58 then ([], Some DcsIgnore)
      else if in_range r 48 59 then ([AParam], Some DcsParam)
      else if in_range r 60 63 then ([], Some DcsIgnore)
      else if in_range r 32 47 then ([ACollect], Some DcsIntermediate)
      else if in_range r 64 126 then ([AHook], Some DcsPassthrough)
      else ([AEmitError], Some Ground)
  | DcsIntermediate =>
      if c0exec r then ([], Some DcsIntermediate)
      else if r =? 127 then ([], Some DcsIntermediate)
      else if in_range r 32 47 then ([ACollect], Some DcsIntermediate)
      else if in_range r 48 63 then ([], Some DcsIgnore)
      else if in_range r 64 126 then ([AHook], Some DcsPassthrough)
      else ([AEmitError], Some Ground)
  | DcsPassthrough =>
      (* entering the string body: ST suppression on (EXT); exit action unhook *)
      if r =? 127 then ([ASetIgnoreST true; ASetExit (Some ExUnhook)], Some DcsPassthrough)
      else ([ASetIgnoreST true; ASetExit (Some ExUnhook); APut], Some DcsPassthrough)
  | DcsIgnore => ([ASetIgnoreST true], Some DcsIgnore)
  | OscString =>
      if r =? 7 then ([ASetIgnoreST true; ACallExit; ASetExit None; ASetIgnoreST false], Some Ground) (* EXT: BEL ends OSC *)
      else if c0exec r then ([ASetIgnoreST true], Some OscString)
      else ([ASetIgnoreST true; AOscPut], Some OscString)
  | SosPm => ([ASetIgnoreST true], Some SosPm)
  | Apc =>
      if c0exec r then ([ASetIgnoreST true], Some Apc)
      else ([ASetIgnoreST true; AApcPut], Some Apc)                               (* EXT: APC payload *)
  | Ss3 =>
      if c0exec r then ([AExecute], Some Ss3)
      else if r =? 127 then ([], Some Ss3)
      else ([AEmitSS3], Some Ground)
  end.

(* transitions that can occur from any state *)
Definition spec_anywhere (r : Z) : option (list act * option pstate) :=
  if r =? eof_rune then Some ([ACallExitIfSet], None)
  else if (r =? 24) || (r =? 26) then Some ([ACallExitIfSet; ASetIgnoreST false; AExecute], Some Ground)
  else if r =? 27 then Some ([ACallExitIfSet; AClear; AArmTimer], Some Escape)
  else None.

(* what runs after every rune consumed by a state (Go: the deferred reset in escape) *)
Definition spec_post (s : pstate) : list act :=
  match s with Escape => [ASetIgnoreST false] | _ => [] end.

(* the same transition read off the translated tables *)
Definition table_trans_fn (f : statefn) (r : Z) : option (list act * option pstate) :=
  match find_clause (f_clauses f) r None with
  | None => None
  | Some c => Some (f_pre f ++ c_acts c, c_next c)
  end.

(* a string state: ESC arriving here is (the first half of) a string terminator *)
Definition is_string_state (s : pstate) : bool :=
  match s with
  | DcsEntry | DcsParam | DcsIntermediate | DcsPassthrough | DcsIgnore | OscString | SosPm | Apc => true
  | _ => false
  end.

(* executable reference parser.  [strict] = the ST that ends a string is suppressed
   even when the string body is empty (what the property demands); with strict = false
   suppression starts with the first body rune (what the code does: known finding). *)
Definition run_trans (t : list act * option pstate) (r : Z) (p : pst) : pst * list item * option pstate :=
  let '(p1, o1, g) := exec_acts (fst t) r p in
  (p1, o1, match g with Some s => Some s | None => snd t end).

Definition spec_step (strict : bool) (p : pst) (r : Z) : pst * list item * bool :=
  let p := set_timer p false in
  let p := if strict && (r =? 27) && is_string_state (st p) then set_ignoreST p true else p in
  let '(p1, o, nxt) :=
    match spec_anywhere r with
    | Some t => run_trans t r p
    | None => let '(p1, o1, nxt) := run_trans (spec_trans (st p) r) r p in
              let '(p2, o2, _) := exec_acts (spec_post (st p)) r p1 in
              (p2, o1 ++ o2, nxt)
    end in
  match nxt with
  | Some s => (set_st p1 s, o, true)
  | None => (p1, o, false)
  end.

Fixpoint spec_feed (strict : bool) (p : pst) (rs : list Z) : pst * list item * bool :=
  match rs with
  | [] => (p, [], true)
  | r :: t =>
      let '(p1, o1, go) := spec_step strict p r in
      if go then let '(p2, o2, go2) := spec_feed strict p1 t in (p2, o1 ++ o2, go2)
      else (p1, o1, false)
  end.

Definition spec_timer_fire (p : pst) : pst * list item :=
  if timer p then (set_ignoreST (set_st (set_timer p false) Ground) false, [IC0 27]) else (p, []).

(* segments are separated by silence long enough for the escape timer *)
Fixpoint spec_feed_segments (strict : bool) (p : pst) (segs : list (list Z)) : pst * list item * bool :=
  match segs with
  | [] => (p, [], true)
  | s :: t =>
      let '(p1, o1, go) := spec_feed strict p (decode_all s) in
      if go then
        match t with
        | [] => (p1, o1, true)
        | _ => let '(p2, o2) := spec_timer_fire p1 in
               let '(p3, o3, go3) := spec_feed_segments strict p2 t in (p3, o1 ++ o2 ++ o3, go3)
        end
      else (p1, o1, false)
  end.

Definition spec_parse_segments (strict : bool) (segs : list (list Z)) : list item :=
  let '(p, o, go) := spec_feed_segments strict pinit segs in
  canon (if go then o ++ (let '(_, o2, _) := spec_step strict p eof_rune in o2 ++ [IEof]) else o ++ [IEof]).

Definition spec_parse (strict : bool) (bs : list Z) : list item := spec_parse_segments strict [bs].
