(* What C01 demands of the terminal after a frame, as definitions: the view of the
   application's screen, the hypotheses on its content, and the decidable check used on
   the implementation's output.  Definitions only. *)
From Vx Require Import base.Prelude model.Colour model.RenderTypes model.Render model.RefTerm.

Section Spec.
Variable tw : list Z -> Z.       (* the terminal's width for a grapheme written raw *)
Variable measure : list Z -> Z.  (* Vaxis.RenderedWidth for this instance (oracle) *)
Variable cp : caps.

(* how a style looks on a terminal with these capabilities (the faithful fallbacks of C07) *)
Definition shown (st : style) : tpen :=
  {| t_fg := col_params cp (s_fg st);
     t_bg := col_params cp (s_bg st);
     t_ul := if cap_styled_ul cp then col_params cp (s_ul st) else [];
     t_uls := if cap_styled_ul cp then s_uls st else (if s_uls st =? 0 then 0 else 1);
     t_attr := s_attr st - s_attr st mod 2 |}.
Definition shown_link (st : style) : tlink :=
  if nonempty (s_link st) then (s_linkp st, s_link st) else ([], []).

(* a width-0 cell is drawn as a blank *)
Definition glyph_of (n : cell) : list Z := if eff_width n =? 0 then [32] else c_g n.

Definition head_disp (n : cell) (off : Z) : disp :=
  DCell (glyph_of n) (span n) off (shown (c_st n)) (shown_link (c_st n)).

(* the row the application asked for: each visible cell occupies span columns, the cells
   it covers are not shown. hd/skip: the wide cell we are still under *)
Fixpoint view_cells (ns : list cell) (skip : Z) (hd : cell) : list disp :=
  match ns with
  | [] => []
  | n :: t =>
      if 0 <? skip then head_disp hd (span hd - skip) :: view_cells t (skip - 1) hd
      else head_disp n 0 :: view_cells t (span n - 1) n
  end.
Definition view_row (ns : list cell) : list disp := view_cells ns 0 cell0.

(* the terminal advances by the width Vaxis uses (the capability negotiation's purpose) *)
Definition adv_ok (n : cell) : bool :=
  match cell_text cp n with
  | KText g => tw g =? span n
  | _ => true
  end.

(* hypotheses on a row: no sixel cells (C20), widths agree, no wide cell overhangs the
   right edge (finding wide-overhang) *)
Fixpoint row_ok (ns : list cell) (skip : Z) : bool :=
  match ns with
  | [] => skip =? 0
  | n :: t =>
      if 0 <? skip then row_ok t (skip - 1)
      else negb (c_sixel n) && adv_ok n && (0 <=? c_w n) && (c_mw n =? measure (c_g n)) &&
           (0 <=? s_attr (c_st n)) && (s_attr (c_st n) <? 256) &&
           row_ok t (span n - 1)
  end.
Definition grid_ok (g : list (list cell)) : bool := forallb (fun r => row_ok r 0) g.

(* the same hypotheses without "no wide cell overhangs the right edge": the guard of the
   recorded finding wide-overhang is  grid_ok_nofit && negb grid_ok *)
Fixpoint row_ok_nofit (ns : list cell) (skip : Z) : bool :=
  match ns with
  | [] => true
  | n :: t =>
      if 0 <? skip then row_ok_nofit t (skip - 1)
      else negb (c_sixel n) && adv_ok n && (0 <=? c_w n) && (c_mw n =? measure (c_g n)) &&
           (0 <=? s_attr (c_st n)) && (s_attr (c_st n) <? 256) &&
           row_ok_nofit t (span n - 1)
  end.
Definition grid_ok_nofit (g : list (list cell)) : bool := forallb (fun r => row_ok_nofit r 0) g.

(* ---------- decidable checks on a terminal ---------- *)
Fixpoint zrange (n : nat) (from : Z) : list Z :=
  match n with O => [] | S k => from :: zrange k (from + 1) end.

Definition row_matches (f : Z -> disp) (exp : list disp) : bool :=
  forallb (fun ce => disp_eqb (f (fst ce)) (snd ce)) (combine (zrange (length exp) 0) exp).

Definition screen_matches (t : term) (g : list (list cell)) : bool :=
  forallb (fun re => row_matches (tm_grid t (fst re)) (view_row (snd re)))
          (combine (zrange (length g) 0) g).

Definition cursor_matches (t : term) (c : cursor) : bool :=
  if cu_vis c then
    tm_vis t && (tm_row t =? clampz 0 (tm_rows t - 1) (cu_row c)) &&
    (tm_col t =? clampz 0 (tm_cols t - 1) (cu_col c)) && (tm_shape t =? cu_style c)
  else negb (tm_vis t).

(* everything the property says about the terminal after a flush *)
Definition frame_ok (t0 t : term) (s : vstate) : bool :=
  screen_matches t (v_next s) && cursor_matches t (v_cnext s) &&
  tpen_eqb (tm_pen t) tpen0 && tlink_eqb (tm_link t) ([], []) && (tm_sync t =? tm_sync t0).

(* re-tabulate the grid so that look-ups do not walk the history of writes *)
Definition compact (t : term) : term :=
  let rows := map (fun r => let f := tm_grid t r in map f (zrange (Z.to_nat (tm_cols t)) 0))
                  (zrange (Z.to_nat (tm_rows t)) 0) in
  set_grid t (fun r => match zget rows r with
                       | Some row => fun c => match zget row c with Some d => d | None => DPoison end
                       | None => fun _ => DPoison
                       end).
End Spec.

(* a terminal that shows nothing we know: every cell poison, pen default (a flush has
   happened), cursor hidden *)
Definition term_unknown (rows cols : Z) : term :=
  {| tm_rows := rows; tm_cols := cols; tm_grid := fun _ _ => DPoison; tm_row := 0; tm_col := 0;
     tm_pen := tpen0; tm_link := ([], []); tm_vis := false; tm_shape := 0; tm_sync := 0; tm_mouse := [] |}.

Definition resize_term (t : term) (rows cols : Z) : term :=
  {| tm_rows := rows; tm_cols := cols; tm_grid := fun _ _ => DPoison;
     tm_row := 0; tm_col := 0;
     tm_pen := tm_pen t; tm_link := tm_link t; tm_vis := tm_vis t; tm_shape := tm_shape t;
     tm_sync := tm_sync t; tm_mouse := tm_mouse t |}.
