(* Vocabulary of the translated parser tables (coq/gen/GenParser.v). *)
From Vx Require Import base.Prelude.

Inductive pstate :=
  | Ground | Escape | EscapeIntermediate | CsiEntry | CsiParam | CsiIntermediate | CsiIgnore
  | DcsEntry | DcsParam | DcsIntermediate | DcsPassthrough | DcsIgnore | OscString | SosPm | Apc | Ss3.

Inductive exitfn := ExOscEnd | ExUnhook | ExApcUnhook.

Inductive act :=
  | AExecute | APrint | AClear | ACollect | AParam | AEscDispatch | ACsiDispatch | AHook | APut
  | AOscStart | AOscPut | AApcPut | AEmitSS3 | AEmitError | AEmitC0 (c : Z)
  | ASetIgnoreST (b : bool) | ASetExit (e : option exitfn) | ASetState (s : pstate)
  | ACallExit | ACallExitIfSet
  | AIfIgnoreSTGoto (s : pstate)
  | AArmTimer.

Inductive guard := GRange (lo hi : Z) | GEq (c : Z).

Record clause := {
  c_guards : list guard;
  c_default : bool;
  c_acts : list act;
  c_next : option pstate   (* None: the state function returns nil (parser stops) *)
}.

Record statefn := { f_pre : list act; f_post : list act; f_clauses : list clause }.

Definition pstate_eqb (a b : pstate) : bool :=
  match a, b with
  | Ground, Ground | Escape, Escape | EscapeIntermediate, EscapeIntermediate | CsiEntry, CsiEntry
  | CsiParam, CsiParam | CsiIntermediate, CsiIntermediate | CsiIgnore, CsiIgnore | DcsEntry, DcsEntry
  | DcsParam, DcsParam | DcsIntermediate, DcsIntermediate | DcsPassthrough, DcsPassthrough
  | DcsIgnore, DcsIgnore | OscString, OscString | SosPm, SosPm | Apc, Apc | Ss3, Ss3 => true
  | _, _ => false
  end.

Definition pstate_code (s : pstate) : Z :=
  match s with
  | Ground => 0 | Escape => 1 | EscapeIntermediate => 2 | CsiEntry => 3 | CsiParam => 4
  | CsiIntermediate => 5 | CsiIgnore => 6 | DcsEntry => 7 | DcsParam => 8 | DcsIntermediate => 9
  | DcsPassthrough => 10 | DcsIgnore => 11 | OscString => 12 | SosPm => 13 | Apc => 14 | Ss3 => 15
  end.
