(* C05 - Draw of the embedded terminal into a host window of any size and position.
   Executable definitions only (theorems: proofs/TermDrawProofs.v, props/C05.v).

   A vaxis.Window is a chain of levels (Column, Row, Width, Height), the innermost first, the
   last one being the window whose Parent is nil (it writes to the screen).  The fields are
   arbitrary integers: Window.New clamps the size to the parent's right/bottom edge only, a
   negative offset or a struct literal gives a window that overhangs its parent, and a window
   placed beyond its parent's edge has a size <= 0.
   - [win_setcell]: Window.SetCell, level by level (each level discards what is outside its
     own Width x Height, then adds its offset), ending in screen.setCell (discards what is
     outside the screen): the absolute screen position written, if any.
   - [win_cursor]: Window.ShowCursor adds the offsets of every level and clips nothing.
   - [draw_win]: Model.Draw: if the window's size is not the terminal's, the terminal is
     resized first (a window without a cell returns at once: commit ccf375f); then one SetCell per
     cell of the active screen (a wide cell skips its spacers), then ShowCursor at the
     terminal's cursor iff DECTCEM is set and the terminal is focused. *)
From Vx Require Import base.Prelude base.ListX model.Colour model.Sgr model.Term model.TermCheck.

Record wlevel := mkWl { wl_col : Z; wl_row : Z; wl_w : Z; wl_h : Z }.

Fixpoint win_setcell (ch : list wlevel) (sc : Z * Z) (c r : Z) : option (Z * Z) :=
  match ch with
  | [] => if (c <? 0) || (r <? 0) || (fst sc <=? c) || (snd sc <=? r) then None else Some (c, r)
  | l :: ps =>
      if (wl_h l <=? r) || (wl_w l <=? c) || (r <? 0) || (c <? 0) then None
      else win_setcell ps sc (c + wl_col l) (r + wl_row l)
  end.

(* Window.Origin *)
Fixpoint win_origin (ch : list wlevel) : Z * Z :=
  match ch with
  | [] => (0, 0)
  | l :: ps => (fst (win_origin ps) + wl_col l, snd (win_origin ps) + wl_row l)
  end.

Definition win_cursor (ch : list wlevel) (c r : Z) : Z * Z :=
  (c + fst (win_origin ch), r + snd (win_origin ch)).

(* the absolute position (x, y) lies in the window's own rectangle *)
Definition in_rect (ch : list wlevel) (x y : Z) : bool :=
  match ch with
  | [] => false
  | l :: _ =>
      (fst (win_origin ch) <=? x) && (x <? fst (win_origin ch) + wl_w l)
      && (snd (win_origin ch) <=? y) && (y <? snd (win_origin ch) + wl_h l)
  end.

(* ... and in the rectangle of every ancestor and on the screen: the visible part of the window *)
Fixpoint in_clip (ch : list wlevel) (sc : Z * Z) (x y : Z) : bool :=
  match ch with
  | [] => (0 <=? x) && (x <? fst sc) && (0 <=? y) && (y <? snd sc)
  | l :: ps => in_rect (l :: ps) x y && in_clip ps sc x y
  end.

(* what Window.New guarantees for non-negative offsets inside the parent: every level lies
   inside its parent, the outermost inside the screen *)
Fixpoint chain_nested (ch : list wlevel) (sc : Z * Z) : bool :=
  match ch with
  | [] => true
  | l :: ps =>
      let psz := match ps with [] => sc | p :: _ => (wl_w p, wl_h p) end in
      (0 <=? wl_col l) && (0 <=? wl_row l) && (wl_col l + wl_w l <=? fst psz) && (wl_row l + wl_h l <=? snd psz)
      && chain_nested ps sc
  end.

(* the window Draw is given has at least one cell *)
Definition win_ok (ch : list wlevel) : bool :=
  match ch with [] => false | l :: _ => (1 <=? wl_w l) && (1 <=? wl_h l) end.

(* Model.Draw before commit ccf375f (no test for a window without a cell): the terminal
   afterwards, the SetCell calls (window coordinates), the ShowCursor call *)
Definition draw_win_unfixed (t : term) (ww wh : Z) (focused : bool)
  : tres (term * list (Z * Z * tcell) * option (Z * Z)) :=
  t' <- (if (ww =? width t) && (wh =? height t) then TOk t else resize t ww wh) ;;
  TOk (t', draw t', if m_tcem (t_md t') && focused then Some (t_col t', t_row t') else None).

(* Model.Draw: a window without a cell (width < 1 || height < 1) is left alone - no Resize, no
   SetCell, no ShowCursor *)
Definition draw_win (t : term) (ww wh : Z) (focused : bool)
  : tres (term * list (Z * Z * tcell) * option (Z * Z)) :=
  if (ww <? 1) || (wh <? 1) then TOk (t, [], None) else draw_win_unfixed t ww wh focused.

(* what reaches the screen *)
Definition host_writes (ch : list wlevel) (sc : Z * Z) (calls : list (Z * Z * tcell)) : list (Z * Z * tcell) :=
  flat_map (fun k => match win_setcell ch sc (fst (fst k)) (snd (fst k)) with
                     | Some (ax, ay) => [(ax, ay, snd k)]
                     | None => []
                     end) calls.

(* the host screen, filled with the sentinel before Draw, at (x, y) afterwards (the last write wins;
   an empty grapheme is drawn as a space) *)
Definition mcell (writes : list (Z * Z * tcell)) (x y : Z) : dcell :=
  match find_draw (rev writes) x y with
  | Some c => (if is_nil (c_g c) then [32] else c_g c, c_w c, c_st c)
  | None => sentinel
  end.

(* a screen is shipped as the list of its cells that differ from the sentinel, row by row *)
Definition hcell : Type := Z * Z * dcell.

Definition msparse (f : Z -> Z -> dcell) (sc : Z * Z) : list hcell :=
  flat_map (fun y => flat_map (fun x => if dcell_eqb sentinel (f x y) then [] else [(x, y, f x y)])
                              (zseq (fst sc))) (zseq (snd sc)).

Definition hcell_eqb (a b : hcell) : bool :=
  (fst (fst a) =? fst (fst b)) && (snd (fst a) =? snd (fst b)) && dcell_eqb (snd a) (snd b).

(* one observed Draw: the history before it, the host (screen size, window chain, focus), and
   afterwards: outcome (0 ok, 1 panic), the terminal's state, the host's cursor (absolute), the
   host screen's cells that are not the sentinel *)
Definition wdraw_in : Type := (Z * Z) * list wlevel * bool.
Definition wdraw_obs : Type := Z * obs * (bool * Z * Z) * list hcell.
Definition wdraw_case : Type := hist_case * wdraw_in * wdraw_obs.

Definition wdraw_model_ok (c : wdraw_case) : bool :=
  let '(h, (sc, ch, foc), (out, o, (vis, ccol, crow), cells)) := c in
  hist_model_ok h &&
  match final_term term_new h, ch with
  | Some t, l :: _ =>
      match draw_win t (wl_w l) (wl_h l) foc with
      | TOk (t', calls, cur) =>
          (out =? 0) && (o_out o =? 0) && obs_matches t' o
          && list_eqb hcell_eqb (msparse (mcell (host_writes ch sc calls)) sc) cells
          && match cur with
             | Some (cc, cr) => vis && (ccol =? fst (win_cursor ch cc cr)) && (crow =? snd (win_cursor ch cc cr))
             | None => negb vis
             end
      | TPanic => out =? 1
      | TStall => false
      end
  | _, _ => false
  end.

(* C05 on one observed Draw, read off the observation and the window alone: Draw returned,
   every cell of the host screen that changed lies in the visible part of the window, the
   cursor handed to the host (if any) lies in the window's rectangle, and the terminal
   afterwards satisfies the state predicate of C05 and has the window's size if the window has
   a cell (for a window without a cell the first three say: nothing changed, no cursor) *)
Definition wdraw_holds (c : wdraw_case) : bool :=
  let '(h, (sc, ch, foc), (out, o, (vis, ccol, crow), cells)) := c in
  (out =? 0)
  && forallb (fun k : hcell => in_clip ch sc (fst (fst k)) (snd (fst k))) cells
  && (negb vis || in_rect ch ccol crow)
  && obs_wf o
  && match ch with [] => false | l :: _ => negb (win_ok ch) || ((o_cols o =? wl_w l) && (o_rows o =? wl_h l)) end.

Definition c05_wdraw_mismatches (cases : list wdraw_case) : list Z :=
  bad_indices (fun c => negb (wdraw_model_ok c)) cases.
Definition c05_wdraw_violations (cases : list wdraw_case) : list Z :=
  bad_indices (fun c => negb (wdraw_holds c)) cases.
