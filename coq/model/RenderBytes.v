(* Bytes <-> tokens for the renderer's vocabulary (C01/C07/C12).
   [ser] writes a token the way vaxis.go writes it: the format strings are the translated
   constants of sequences.go (gen/GenModes.v), %d/%s substitution is [rfmt].  [toks_of_items]
   reads the items the parser model (Parser.v, proved equal to the VT500 reference in C02)
   delivers for those bytes back into tokens - the Coq twin of the harness tokenizer
   (harness/renderhx.Tokenize).  Definitions only; the round trip is proofs/RenderBytesProofs.v. *)
From Vx Require Import base.Prelude gen.GenModes model.ParserTypes model.Parser model.RenderTypes
  model.Render model.RenderCheck.

(* ---------- fmt.Sprintf for %d and %s ---------- *)
Inductive rarg := AInt (n : Z) | AStr (s : list Z).

(* strconv for %d: Go ints are 64 bit, 20 digits always suffice *)
Fixpoint dec_digits (fuel : nat) (n : Z) : list Z :=
  match fuel with
  | O => []
  | S f => if n <? 10 then [48 + n] else dec_digits f (n / 10) ++ [48 + n mod 10]
  end.
Definition rdec (n : Z) : list Z := if n <? 0 then 45 :: dec_digits 20 (- n) else dec_digits 20 n.

Fixpoint rfmt (f : list Z) (args : list rarg) : list Z :=
  match f with
  | 37 :: 100 :: r (* %d *) =>
      match args with
      | AInt n :: a' => rdec n ++ rfmt r a'
      | _ => [37; 33; 100] ++ rfmt r (tl args)          (* %!d: outside the model *)
      end
  | 37 :: 115 :: r (* %s *) =>
      match args with
      | AStr s :: a' => s ++ rfmt r a'
      | _ => [37; 33; 115] ++ rfmt r (tl args)
      end
  | c :: r => c :: rfmt r args
  | [] => []
  end.

(* ---------- serialisation (code points; [utf8_bytes] turns them into bytes) ---------- *)
Definition ser_colour (reset small bright index rgb : list Z) (ps : list Z) : list Z :=
  match ps with
  | [] => reset
  | [n] => if n <? 8 then rfmt small [AInt n]
           else if n <? 16 then rfmt bright [AInt (n - 8)]
           else rfmt index [AInt n]
  | [r; g; b] => rfmt rgb [AInt r; AInt g; AInt b]
  | _ => []
  end.

(* the plain attribute codes, by the constant vaxis.go writes for each *)
Definition attr_table : list (Z * list Z) :=
  [(1, seq_boldSet); (2, seq_dimSet); (3, seq_italicSet); (4, seq_underlineSet); (5, seq_blinkSet);
   (7, seq_reverseSet); (8, seq_hiddenSet); (9, seq_strikethroughSet); (22, seq_boldDimReset);
   (23, seq_italicReset); (24, seq_underlineReset); (25, seq_blinkReset); (27, seq_reverseReset);
   (28, seq_hiddenReset); (29, seq_strikethroughReset)].
Fixpoint assoc_z {A} (d : A) (l : list (Z * A)) (n : Z) : A :=
  match l with [] => d | (k, v) :: t => if k =? n then v else assoc_z d t n end.
Definition ser_attr (n : Z) : list Z := assoc_z [] attr_table n.

Definition ser (k : tok) : list Z :=
  match k with
  | KCup r c => rfmt seq_cup [AInt r; AInt c]
  | KSgrReset => seq_sgrReset
  | KFg ps => ser_colour seq_fgReset seq_fgSet seq_fgBrightSet seq_fgIndexSet seq_fgRGBSet ps
  | KBg ps => ser_colour seq_bgReset seq_bgSet seq_bgBrightSet seq_bgIndexSet seq_bgRGBSet ps
  | KUl ps => match ps with                                (* no short forms: always 58:5:n *)
              | [] => seq_ulColorReset
              | [n] => rfmt seq_ulIndexSet [AInt n]
              | [r; g; b] => rfmt seq_ulRGBSet [AInt r; AInt g; AInt b]
              | _ => []
              end
  | KSgr n => ser_attr n
  | KUlStyle n => rfmt seq_ulStyleSet [AInt n]
  | KLink p u => rfmt seq_osc8 [AStr p; AStr u]
  | KText g => g
  | KTextW w g => rfmt seq_explicitWidth [AInt w; AStr g]
  | KSpace => [32]
  | KShowCursor => rfmt decset_fmt [AInt mode_cursorVisibility]
  | KHideCursor => rfmt decrst_fmt [AInt mode_cursorVisibility]
  | KCursorStyle n => rfmt seq_cursorStyleSet [AInt n]
  | KSyncOn => rfmt decset_fmt [AInt mode_synchronizedUpdate]
  | KSyncOff => rfmt decrst_fmt [AInt mode_synchronizedUpdate]
  | KMouseShape s => rfmt seq_mouseShape [AStr s]
  end.

Definition ser_all (ks : list tok) : list Z := flat_map ser ks.

(* Go strings are UTF-8: what reaches the terminal *)
Definition utf8_enc (r : Z) : list Z :=
  if r <? 128 then [r]
  else if r <? 2048 then [192 + r / 64; 128 + r mod 64]
  else if r <? 65536 then [224 + r / 4096; 128 + (r / 64) mod 64; 128 + r mod 64]
  else [240 + r / 262144; 128 + (r / 4096) mod 64; 128 + (r / 64) mod 64; 128 + r mod 64].
Definition utf8_bytes (rs : list Z) : list Z := flat_map utf8_enc rs.
Definition ser_bytes (ks : list tok) : list Z := utf8_bytes (ser_all ks).

(* ---------- reading items back (twin of renderhx.Tokenize) ---------- *)
Definition unknown_tok : tok := KMouseShape [65535].

Definition sgr_tok (p : list Z) : tok :=
  match p with
  | [n] =>
      if in_range n 30 37 then KFg [n - 30] else if in_range n 90 97 then KFg [n - 90 + 8]
      else if in_range n 40 47 then KBg [n - 40] else if in_range n 100 107 then KBg [n - 100 + 8]
      else if n =? 39 then KFg [] else if n =? 49 then KBg [] else if n =? 59 then KUl []
      else KSgr n
  | [n; x] => if n =? 4 then KUlStyle x else unknown_tok
  | [n; m; x] =>
      if negb (m =? 5) then unknown_tok
      else if n =? 38 then KFg [x] else if n =? 48 then KBg [x] else if n =? 58 then KUl [x] else unknown_tok
  | [n; m; r; g; b] =>
      if negb (m =? 2) then unknown_tok
      else if n =? 38 then KFg [r; g; b] else if n =? 48 then KBg [r; g; b] else if n =? 58 then KUl [r; g; b]
      else unknown_tok
  | _ => unknown_tok
  end.

Definition first_of (p : list Z) : Z := match p with [] => 0 | n :: _ => n end.

Definition csi_toks (inter : list Z) (ps : list (list Z)) (final : Z) : list tok :=
  match inter, final with
  | [], 72 (* H *) => match ps with [r; c] => [KCup (first_of r) (first_of c)] | _ => [unknown_tok] end
  | [], 109 (* m *) => match ps with [] => [KSgrReset] | _ => map sgr_tok ps end
  | [63], 104 (* ? h *) =>
      match ps with
      | [p] => if first_of p =? 25 then [KShowCursor] else if first_of p =? 2026 then [KSyncOn] else [unknown_tok]
      | _ => [unknown_tok]
      end
  | [63], 108 (* ? l *) =>
      match ps with
      | [p] => if first_of p =? 25 then [KHideCursor] else if first_of p =? 2026 then [KSyncOff] else [unknown_tok]
      | _ => [unknown_tok]
      end
  | [32], 113 (* SP q *) => match ps with [p] => [KCursorStyle (first_of p)] | _ => [unknown_tok] end
  | _, _ => [unknown_tok]
  end.

Fixpoint strip_prefix (pre s : list Z) : option (list Z) :=
  match pre, s with
  | [], _ => Some s
  | a :: p', b :: s' => if a =? b then strip_prefix p' s' else None
  | _ :: _, [] => None
  end.
(* split at the first ';' : None when there is none *)
Fixpoint split_semi1 (s : list Z) (acc : list Z) : option (list Z * list Z) :=
  match s with
  | [] => None
  | c :: r => if c =? 59 then Some (acc, r) else split_semi1 r (acc ++ [c])
  end.
Definition is_digit (c : Z) : bool := in_range c 48 57.
Definition atoi (s : list Z) : option Z :=
  match s with
  | [] => None
  | _ => if forallb is_digit s then Some (fold_left (fun a d => a * 10 + (d - 48)) s 0) else None
  end.

Definition osc_toks (pl : list Z) : list tok :=
  match strip_prefix [56; 59] pl with              (* 8; params ; uri *)
  | Some rest => match split_semi1 rest [] with Some (p, u) => [KLink p u] | None => [unknown_tok] end
  | None =>
  match strip_prefix [54; 54; 59; 119; 61] pl with (* 66;w= n ; text *)
  | Some rest =>
      match split_semi1 rest [] with
      | Some (w, g) => match atoi w with Some n => [KTextW n g] | None => [unknown_tok] end
      | None => [unknown_tok]
      end
  | None =>
  match strip_prefix [50; 50; 59] pl with          (* 22; shape *)
  | Some s => [KMouseShape s]
  | None => [unknown_tok]
  end end end.

Definition item_toks (i : item) : list tok :=
  match i with
  | IPrint rs => [KText rs]
  | ICsi inter ps final => csi_toks inter ps final
  | IOsc pl => osc_toks pl
  | IEof => []
  | IError => []
  | _ => [unknown_tok]
  end.
Definition toks_of_items (is : list item) : list tok := flat_map item_toks is.

(* what a terminal's parser makes of the bytes of one flush *)
Definition toks_of_runes (rs : list Z) : list tok :=
  let '(_, o, _) := feed pinit rs in toks_of_items o.
Definition toks_of_bytes (bs : list Z) : list tok := toks_of_runes (decode_all bs).

(* token lists up to what a byte stream cannot tell apart: a space and the text " ", an empty
   raw grapheme, and where adjacent raw text is cut *)
Definition norm (ks : list tok) : list tok := merge_text (map canon_tok (filter visible_tok ks)).

(* text token by token as the parser delivers it: one code point at a time *)
Definition explode1 (k : tok) : list tok :=
  match k with
  | KText g => map (fun r => KText [r]) g
  | KSpace => [KText [32]]
  | _ => [k]
  end.
Definition explode (ks : list tok) : list tok := flat_map explode1 ks.

(* the tokens the renderer can produce: numbers are non-negative Go ints, strings are free of
   C0 controls, hyperlink parameters free of ';', attribute codes from the table *)
Definition smallb (n : Z) : bool := (0 <=? n) && (n <? 9223372036854775808).
Definition printable (rs : list Z) : bool := forallb (fun r => 32 <=? r) rs.
Definition colour_wfb (ps : list Z) : bool :=
  match ps with
  | [] => true
  | [n] => smallb n
  | [r; g; b] => smallb r && smallb g && smallb b
  | _ => false
  end.
Definition tok_wfb (k : tok) : bool :=
  match k with
  | KCup r c => smallb r && smallb c
  | KSgrReset | KSpace | KShowCursor | KHideCursor | KSyncOn | KSyncOff => true
  | KFg ps | KBg ps | KUl ps => colour_wfb ps
  | KSgr n => existsb (Z.eqb n) (map fst attr_table)
  | KUlStyle n | KCursorStyle n => smallb n
  | KLink p u => printable p && printable u && forallb (fun r => negb (r =? 59)) p
  | KText g => printable g
  | KTextW w g => smallb w && printable g
  | KMouseShape s => printable s
  end.

(* code points Go's UTF-8 encoder writes as themselves (no surrogates, within Unicode) *)
Definition rune_okb (r : Z) : bool := ((0 <=? r) && (r <? 55296)) || ((57344 <=? r) && (r <? 1114112)).
Definition tok_utf8b (k : tok) : bool :=
  match k with
  | KLink p u => forallb rune_okb p && forallb rune_okb u
  | KText g | KTextW _ g | KMouseShape g => forallb rune_okb g
  | _ => true
  end.
(* the renderer's vocabulary *)
Definition toks_wfb (ks : list tok) : bool := forallb tok_wfb ks && forallb tok_utf8b ks.

(* ---------- differential predicates ---------- *)
(* the model's tokens, serialised, are byte for byte what the implementation wrote *)
Definition bytes_exact (model : list tok) (bytes : list Z) : bool := zlist_eqb (ser_bytes model) bytes.

(* A history with the raw bytes of every flush next to the harness's tokens. *)
Definition bhcase := (hcase * list (list Z))%type.
(* frame by frame: the model's tokens serialise to exactly the bytes written, and the parser
   model reads those bytes as the tokens the harness tokenizer reported *)
Fixpoint frames_bytes_exact (s : vstate) (fs : list fcase) (bs : list (list Z)) : bool :=
  match fs, bs with
  | [], [] => true
  | (ops, e, obs) :: t, b :: bt =>
      let '(s', toks) := do_frame s ops e in
      zlist_eqb (ser_bytes toks) b && toks_eqb (toks_of_bytes b) obs && frames_bytes_exact s' t bt
  | _, _ => false
  end.
Definition c01_bytes_mismatches (cases : list bhcase) : list Z :=
  bad_indices (fun c => let h := fst c in
                 negb (frames_bytes_exact (vinit (h_caps h) (h_rows h) (h_cols h)) (h_frames h) (snd c))) cases.
(* this stream only ties model and tokenizer to the bytes; the property itself is evaluated on
   the same histories by c01_violations (text needs the grapheme clusters, which bytes do not carry) *)
Definition c01_bytes_violations (cases : list bhcase) : list Z := [].
