(* C05 / C06 - model of the embedded terminal emulator widgets/term
   ({term,csi,esc,c0,mode,osc,sgr,cell,cursor,charset}.go), function by function.
   Executable definitions only; proofs are in proofs/TermProofs.v and proofs/TermRefine.v.

   Conventions
   - rows, columns, cursor and margins are Z (the Go code lets them go negative);
   - every Go slice index is a [zget]/[zupd]; an index out of range is the outcome [TPanic];
   - simple loops are written in closed form ([erase_cells], [mapi_opt] over rows or cells)
     guarded by their panic condition; a panic ends the history (the real goroutine closes
     the terminal), so the partially updated state is never needed;
   - postEvent is a counter [t_ev] over a channel of capacity 2: posting on a full channel is
     the outcome [TStall]; whether the PTY goroutine's select consumed an event before a
     sequence is an input (the drain schedule);
   - SGR is the consumer model of C18 ([Sgr.term_sgr]);
   - third-party oracles: grapheme segmentation and width (uniseg) - a printed cluster
     enters the model as (code points, width); the sixel decoder and the host Vaxis
     (clipboard, background query) are outside the model (vt.vx is nil until the first
     Draw, which is the state the hook constructs).
   - Go int is 64 bit.  ps() clamps a CSI parameter to [0, 65535], so the only
     arithmetic that can wrap is the [p - 1] of cup/decstbm, modelled with [i64]; the
     model assumes screen sizes far below 2^62. *)
From Vx Require Import base.Prelude base.ListX model.Colour model.Sgr.

(* ------------------------------------------------------------------ outcomes *)

Inductive tres (A : Type) := TOk (a : A) | TPanic | TStall.
Arguments TOk {A} a.
Arguments TPanic {A}.
Arguments TStall {A}.

Definition tbind {A B} (m : tres A) (k : A -> tres B) : tres B :=
  match m with TOk a => k a | TPanic => TPanic | TStall => TStall end.
Notation "x <- m ;; k" := (tbind m (fun x => k)) (at level 61, m at next level, right associativity).
Notation "' p <- m ;; k" := (tbind m (fun x => match x with p => k end))
  (at level 61, p pattern, m at next level, right associativity).

Definition of_opt {A} (o : option A) : tres A :=
  match o with Some a => TOk a | None => TPanic end.

(* ------------------------------------------------------------------ cells and grids *)

(* cell{vaxis.Cell{Character{Grapheme, Width}, Style}, wrapped} *)
Record tcell := mkCell { c_g : text; c_w : Z; c_st : style; c_wr : bool }.
Definition cell0 : tcell := mkCell [] 0 style0 false.

Definition trow := list tcell.
Definition grid := list trow.

(* cell.erase(bg): grapheme, width, attribute, underline style and hyperlink are cleared,
   the background is set; foreground, underline colour and the wrapped flag stay *)
Definition erase_cell (bgc : Z) (c : tcell) : tcell :=
  mkCell [] 0 (mkStyle (mkPen (fg (spen (c_st c))) bgc (ul (spen (c_st c))) 0 0) [] []) (c_wr c).

(* apply f to the cells with index lo <= i < hi (no bounds check: callers guard) *)
Definition map_range {A} (f : A -> A) (lo hi : Z) (l : list A) : list A :=
  firstn (Z.to_nat lo) l ++ map f (firstn (Z.to_nat (hi - lo)) (skipn (Z.to_nat lo) l))
  ++ skipn (Z.to_nat hi) l.

(* for col := lo; col < hi; col++ { line[col] = f(line[col]) } : panics iff the range is
   not empty and leaves the slice *)
Definition upd_range {A} (f : A -> A) (lo hi : Z) (l : list A) : option (list A) :=
  if lo <? hi then
    if (lo <? 0) || (zlen l <? hi) then None else Some (map_range f lo hi l)
  else Some l.

Definition erase_cells (bgc : Z) (lo hi : Z) (l : trow) : option trow :=
  upd_range (erase_cell bgc) lo hi l.

(* Go copy(dst, src): min(len) elements *)
Definition copy_row {A} (dst src : list A) : list A :=
  firstn (length dst) src ++ skipn (length src) dst.

(* a loop over all elements with their index, each step may panic *)
Fixpoint mapi_opt {A} (f : Z -> A -> option A) (i : Z) (l : list A) : option (list A) :=
  match l with
  | [] => Some []
  | x :: t =>
      match f i x with
      | None => None
      | Some y => match mapi_opt f (i + 1) t with
                  | None => None
                  | Some t' => Some (y :: t')
                  end
      end
  end.

Definition blank_grid (w h : Z) : grid := zrepeat (zrepeat cell0 w) h.

(* ------------------------------------------------------------------ state *)

(* the mode bits that influence the screen state (the others only change replies and the
   key/mouse encoders of C13) *)
Record modes := mkModes { m_irm : bool; m_lnm : bool; m_awm : bool; m_om : bool;
                          m_smcup : bool; m_tcem : bool }.
Definition modes0 : modes := mkModes false false true false false true.

(* charsets{designations (g0..g3: 0 ascii, 1 DEC special), selected, saved, singleShift} *)
Record chars := mkChars { cs_des : list Z; cs_sel : Z; cs_saved : Z; cs_ss : bool }.
Definition chars0 : chars := mkChars [0; 0; 0; 0] 0 0 false.

(* cursorState *)
Record saved := mkSaved { s_row : Z; s_col : Z; s_pen : style; s_shape : Z;
                          s_awm : bool; s_om : bool; s_cs : chars }.
Definition saved0 : saved := mkSaved 0 0 style0 0 true false chars0.

Record term := mkTerm {
  t_prim : grid; t_alt : grid;
  t_onalt : bool;                     (* activeScreen aliases altScreen *)
  t_row : Z; t_col : Z; t_pen : style; t_shape : Z;
  t_last : bool;                      (* lastCol *)
  t_top : Z; t_bot : Z; t_left : Z; t_right : Z;
  t_tabs : list Z;
  t_md : modes; t_cs : chars;
  t_svp : saved; t_sva : saved;       (* primaryState, altState *)
  t_ev : Z                            (* len(events) *)
}.

Definition active (t : term) : grid := if t_onalt t then t_alt t else t_prim t.
Definition height (t : term) : Z := zlen (active t).
Definition width (t : term) : Z := match active t with [] => 0 | r :: _ => zlen r end.

Definition set_grids t p a oa := mkTerm p a oa (t_row t) (t_col t) (t_pen t) (t_shape t) (t_last t) (t_top t) (t_bot t) (t_left t) (t_right t) (t_tabs t) (t_md t) (t_cs t) (t_svp t) (t_sva t) (t_ev t).
Definition set_active t g := if t_onalt t then set_grids t (t_prim t) g true else set_grids t g (t_alt t) false.
Definition set_onalt t b := set_grids t (t_prim t) (t_alt t) b.
Definition set_cursor t r c := mkTerm (t_prim t) (t_alt t) (t_onalt t) r c (t_pen t) (t_shape t) (t_last t) (t_top t) (t_bot t) (t_left t) (t_right t) (t_tabs t) (t_md t) (t_cs t) (t_svp t) (t_sva t) (t_ev t).
Definition set_row t r := set_cursor t r (t_col t).
Definition set_col t c := set_cursor t (t_row t) c.
Definition set_pen t p := mkTerm (t_prim t) (t_alt t) (t_onalt t) (t_row t) (t_col t) p (t_shape t) (t_last t) (t_top t) (t_bot t) (t_left t) (t_right t) (t_tabs t) (t_md t) (t_cs t) (t_svp t) (t_sva t) (t_ev t).
Definition set_shape t s := mkTerm (t_prim t) (t_alt t) (t_onalt t) (t_row t) (t_col t) (t_pen t) s (t_last t) (t_top t) (t_bot t) (t_left t) (t_right t) (t_tabs t) (t_md t) (t_cs t) (t_svp t) (t_sva t) (t_ev t).
Definition set_last t b := mkTerm (t_prim t) (t_alt t) (t_onalt t) (t_row t) (t_col t) (t_pen t) (t_shape t) b (t_top t) (t_bot t) (t_left t) (t_right t) (t_tabs t) (t_md t) (t_cs t) (t_svp t) (t_sva t) (t_ev t).
Definition set_margins t tp bt lf rt := mkTerm (t_prim t) (t_alt t) (t_onalt t) (t_row t) (t_col t) (t_pen t) (t_shape t) (t_last t) tp bt lf rt (t_tabs t) (t_md t) (t_cs t) (t_svp t) (t_sva t) (t_ev t).
Definition set_tabs t x := mkTerm (t_prim t) (t_alt t) (t_onalt t) (t_row t) (t_col t) (t_pen t) (t_shape t) (t_last t) (t_top t) (t_bot t) (t_left t) (t_right t) x (t_md t) (t_cs t) (t_svp t) (t_sva t) (t_ev t).
Definition set_md t x := mkTerm (t_prim t) (t_alt t) (t_onalt t) (t_row t) (t_col t) (t_pen t) (t_shape t) (t_last t) (t_top t) (t_bot t) (t_left t) (t_right t) (t_tabs t) x (t_cs t) (t_svp t) (t_sva t) (t_ev t).
Definition set_cs t x := mkTerm (t_prim t) (t_alt t) (t_onalt t) (t_row t) (t_col t) (t_pen t) (t_shape t) (t_last t) (t_top t) (t_bot t) (t_left t) (t_right t) (t_tabs t) (t_md t) x (t_svp t) (t_sva t) (t_ev t).
Definition set_svp t x := mkTerm (t_prim t) (t_alt t) (t_onalt t) (t_row t) (t_col t) (t_pen t) (t_shape t) (t_last t) (t_top t) (t_bot t) (t_left t) (t_right t) (t_tabs t) (t_md t) (t_cs t) x (t_sva t) (t_ev t).
Definition set_sva t x := mkTerm (t_prim t) (t_alt t) (t_onalt t) (t_row t) (t_col t) (t_pen t) (t_shape t) (t_last t) (t_top t) (t_bot t) (t_left t) (t_right t) (t_tabs t) (t_md t) (t_cs t) (t_svp t) x (t_ev t).
Definition set_ev t x := mkTerm (t_prim t) (t_alt t) (t_onalt t) (t_row t) (t_col t) (t_pen t) (t_shape t) (t_last t) (t_top t) (t_bot t) (t_left t) (t_right t) (t_tabs t) (t_md t) (t_cs t) (t_svp t) (t_sva t) x.

Definition md_irm m b := mkModes b (m_lnm m) (m_awm m) (m_om m) (m_smcup m) (m_tcem m).
Definition md_lnm m b := mkModes (m_irm m) b (m_awm m) (m_om m) (m_smcup m) (m_tcem m).
Definition md_awm m b := mkModes (m_irm m) (m_lnm m) b (m_om m) (m_smcup m) (m_tcem m).
Definition md_om m b := mkModes (m_irm m) (m_lnm m) (m_awm m) b (m_smcup m) (m_tcem m).
Definition md_smcup m b := mkModes (m_irm m) (m_lnm m) (m_awm m) (m_om m) b (m_tcem m).
Definition md_tcem m b := mkModes (m_irm m) (m_lnm m) (m_awm m) (m_om m) (m_smcup m) b.

(* setDefaultTabStops: 8, 16, ... < 350 *)
Definition default_tabs : list Z := map (fun k => 8 * Z.of_nat k) (seq 1 43).

(* New(): no screens yet *)
Definition term_new : term :=
  mkTerm [] [] false 0 0 style0 0 false 0 0 0 0 default_tabs modes0 chars0 saved0 saved0 0.

(* ------------------------------------------------------------------ access to the active screen *)

(* one row of the active screen through f (panic: row index) *)
Definition on_row (t : term) (r : Z) (f : trow -> option trow) : tres term :=
  line <- of_opt (zget (active t) r) ;;
  line' <- of_opt (f line) ;;
  g <- of_opt (zupd (active t) r line') ;;
  TOk (set_active t g).

(* for col := lo; col < hi; col++ { activeScreen[r][col] = f(...) }: the row is only
   indexed inside the loop *)
Definition range_in_row (t : term) (r : Z) (f : tcell -> tcell) (lo hi : Z) : tres term :=
  if lo <? hi then on_row t r (upd_range f lo hi) else TOk t.

Definition erase_in_row (t : term) (r lo hi : Z) : tres term :=
  range_in_row t r (erase_cell (bg (spen (t_pen t)))) lo hi.

Definition pen_bg (t : term) : Z := bg (spen (t_pen t)).

(* ------------------------------------------------------------------ scrolling (term.go) *)

(* scrollUp(n), n >= 0: rows top..bottom of the screen in increasing order, each either
   erased between the side margins or overwritten by the (not yet modified) row n below *)
Definition scroll_up (t : term) (n : Z) : tres term :=
  let g := active t in
  g' <- of_opt (mapi_opt (fun r line =>
          if (r >? t_bot t) || (r <? t_top t) then Some line
          else if r + n >? t_bot t then erase_cells (pen_bg t) (t_left t) (t_right t + 1) line
          else match zget g (r + n) with
               | Some src => Some (copy_row line src)
               | None => None
               end) 0 g) ;;
  TOk (set_active t g').

(* scrollDown(n), n >= 0: rows bottom..top in decreasing order; every index in top..bottom
   is used (the side margins are never empty) *)
Definition scroll_down (t : term) (n : Z) : tres term :=
  let g := active t in
  if (t_top t <=? t_bot t) && ((t_top t <? 0) || (zlen g <=? t_bot t)) then TPanic else
  g' <- of_opt (mapi_opt (fun r line =>
          if (r >? t_bot t) || (r <? t_top t) then Some line
          else if r - n <? t_top t then erase_cells (pen_bg t) (t_left t) (t_right t + 1) line
          else match zget g (r - n) with
               | Some src => Some (copy_row line src)
               | None => None
               end) 0 g) ;;
  TOk (set_active t g').

(* ------------------------------------------------------------------ esc.go *)

Definition ind (t : term) : tres term :=
  let t := set_last t false in
  if t_row t =? t_bot t then scroll_up t 1
  else if t_row t >=? height t - 1 then TOk t
  else TOk (set_row t (t_row t + 1)).

Definition nel (t : term) : tres term :=
  t <- ind t ;; TOk (set_col t (t_left t)).

Definition hts (t : term) : term := set_tabs t (t_tabs t ++ [t_col t]).

Definition ri (t : term) : tres term :=
  let t := set_last t false in
  if t_row t <? 0 then TOk t
  else if t_row t =? t_top t then scroll_down t 1
  else TOk (if t_row t >? 0 then set_row t (t_row t - 1) else t).

Definition save_of (t : term) : saved :=
  mkSaved (t_row t) (t_col t) (t_pen t) (t_shape t) (m_awm (t_md t)) (m_om (t_md t))
          (mkChars (cs_des (t_cs t)) (cs_sel (t_cs t)) (cs_saved (t_cs t)) false).

Definition decsc (t : term) : term :=
  if m_smcup (t_md t) then set_sva t (save_of t) else set_svp t (save_of t).

Definition decrc (t : term) : term :=
  let s := if m_smcup (t_md t) then t_sva t else t_svp t in
  let t := set_cursor t (s_row s) (s_col s) in
  let t := if t_row t >? height t - 1 then set_row t (height t - 1) else t in
  let t := if t_col t >? width t - 1 then set_col t (width t - 1) else t in
  let t := set_pen t (s_pen s) in
  let t := set_shape t (s_shape s) in
  let t := set_cs t (mkChars (cs_des (s_cs s)) (cs_sel (s_cs s)) (cs_saved (s_cs s)) false) in
  let t := set_md t (md_om (md_awm (t_md t) (s_awm s)) (s_om s)) in
  set_last t false.

(* make([][]cell, h) / make([]cell, w): negative length panics *)
Definition make_grid (w h : Z) : tres grid :=
  if h <? 0 then TPanic else if (0 <? h) && (w <? 0) then TPanic else TOk (blank_grid w h).

Definition ris (t : term) : tres term :=
  let w := width t in
  let h := height t in
  g <- make_grid w h ;;
  let t := set_grids t g g false in
  let t := set_margins t (t_top t) (h - 1) (t_left t) (w - 1) in
  let t := set_cursor t 0 0 in
  let t := set_last t false in
  let t := set_cs t chars0 in
  let t := set_md t modes0 in
  TOk (set_tabs t default_tabs).

Definition key_is (k : list Z) (s : list Z) : bool := zlist_eqb k s.

Definition set_des (t : term) (g v : Z) : term :=
  let c := t_cs t in
  set_cs t (mkChars (upd_nat (cs_des c) (Z.to_nat g) v) (cs_sel c) (cs_saved c) (cs_ss c)).

Definition esc (t : term) (inter : list Z) (final : Z) : tres term :=
  let k := inter ++ [final] in
  if key_is k [55] then TOk (decsc t)                       (* 7 *)
  else if key_is k [56] then TOk (decrc t)                  (* 8 *)
  else if key_is k [68] then ind t                          (* D *)
  else if key_is k [69] then nel t                          (* E *)
  else if key_is k [72] then TOk (hts t)                    (* H *)
  else if key_is k [77] then ri t                           (* M *)
  else if key_is k [78] then                                (* N *)
    TOk (set_cs t (mkChars (cs_des (t_cs t)) 2 (cs_saved (t_cs t)) true))
  else if key_is k [79] then                                (* O *)
    TOk (set_cs t (mkChars (cs_des (t_cs t)) 3 (cs_saved (t_cs t)) true))
  else if key_is k [99] then ris t                          (* c *)
  else if key_is k [40; 48] then TOk (set_des t 0 1)        (* (0 *)
  else if key_is k [41; 48] then TOk (set_des t 1 1)
  else if key_is k [42; 48] then TOk (set_des t 2 1)
  else if key_is k [43; 48] then TOk (set_des t 3 1)
  else if key_is k [40; 66] then TOk (set_des t 0 0)        (* (B *)
  else if key_is k [41; 66] then TOk (set_des t 1 0)
  else if key_is k [42; 66] then TOk (set_des t 2 0)
  else if key_is k [43; 66] then TOk (set_des t 3 0)
  else TOk t.                                               (* = > #8 and unknown: no screen state *)

(* ------------------------------------------------------------------ print (term.go) *)

(* charset.go decSpecial *)
Definition dec_special (b : Z) : option Z :=
  if b =? 95 then Some 160 else if b =? 96 then Some 9670 else if b =? 97 then Some 9618
  else if b =? 98 then Some 9225 else if b =? 99 then Some 9228 else if b =? 100 then Some 9229
  else if b =? 101 then Some 9226 else if b =? 102 then Some 176 else if b =? 103 then Some 177
  else if b =? 104 then Some 9252 else if b =? 105 then Some 9227 else if b =? 106 then Some 9496
  else if b =? 107 then Some 9488 else if b =? 108 then Some 9484 else if b =? 109 then Some 9492
  else if b =? 110 then Some 9532 else if b =? 111 then Some 9146 else if b =? 112 then Some 9147
  else if b =? 113 then Some 9472 else if b =? 114 then Some 9148 else if b =? 115 then Some 9149
  else if b =? 116 then Some 9500 else if b =? 117 then Some 9508 else if b =? 118 then Some 9524
  else if b =? 119 then Some 9516 else if b =? 120 then Some 9474 else if b =? 121 then Some 8804
  else if b =? 122 then Some 8805 else if b =? 123 then Some 960 else if b =? 124 then Some 8800
  else if b =? 125 then Some 163 else if b =? 126 then Some 183
  else None.

(* designations[selected]: a Go map, a missing key reads as ascii *)
Definition des_of (c : chars) : Z :=
  match zget (cs_des c) (cs_sel c) with Some v => v | None => 0 end.

(* len(seq.Grapheme) == 1 counts bytes: a single code point below 0x80 *)
Definition shift_grapheme (c : chars) (g : text) : text :=
  match g with
  | [b] => if (b <? 128) && (des_of c =? 1)
           then match dec_special b with Some r => [r] | None => g end
           else g
  | _ => g
  end.

(* for i := margin.right; i >= col+w; i-- { line[i] = line[i-w] }  (w >= 0: reads are of
   cells not yet written) *)
Definition irm_shift (line : trow) (col right w : Z) : option trow :=
  if (col + w <=? right) && ((col + w <? 0) || (zlen line <=? right)) then None
  else mapi_opt (fun i c => if (col + w <=? i) && (i <=? right) then zget line (i - w) else Some c) 0 line.

Definition set_space (p : style) (c : tcell) : tcell := mkCell [32] 1 p (c_wr c).
Definition set_wrapped (c : tcell) : tcell := mkCell (c_g c) (c_w c) (c_st c) true.

Definition print (t : term) (g0 : text) (w : Z) : tres term :=
  let g := shift_grapheme (t_cs t) g0 in
  let t := if cs_ss (t_cs t)
           then set_cs t (mkChars (cs_des (t_cs t)) (cs_saved (t_cs t)) (cs_saved (t_cs t)) (cs_ss (t_cs t)))
           else t in
  let wrap := (t_last t || (t_col t + w - 1 >? t_right t)) && m_awm (t_md t) in
  t <- (if wrap then
          let t := set_last t false in
          t <- on_row t (t_row t) (fun line => upd_range set_wrapped (width t - 1) (width t) line) ;;
          nel t
        else TOk t) ;;
  let col := t_col t in
  let rw := t_row t in
  t <- (if m_irm (t_md t) then on_row t rw (fun line => irm_shift line col (t_right t) w) else TOk t) ;;
  let col := if col >? width t - 1 then width t - 1 else col in
  let rw := if rw >? height t - 1 then height t - 1 else rw in
  if w =? 0 then TOk t else
  t <- on_row t rw (fun line => zupd line col (mkCell g w (t_pen t) false)) ;;
  (* trailing cells of a wide cluster: i = 1 .. w-1 while col+i <= margin.right *)
  t <- range_in_row t rw (set_space (t_pen t)) (col + 1) (Z.min (col + w) (t_right t + 1)) ;;
  let t := if negb (m_awm (t_md t)) && (t_col t + w >? t_right t) then t
           else set_col t (t_col t + w) in
  TOk (if (t_col t >=? t_right t + 1) && m_awm (t_md t)
       then set_col (set_last t true) (t_right t) else t).

(* ------------------------------------------------------------------ c0.go *)

Definition post_event (t : term) : tres term :=
  if t_ev t >=? 2 then TStall else TOk (set_ev t (t_ev t + 1)).

Definition bs (t : term) : term :=
  let t := set_last t false in
  if t_col t =? t_left t then
    if (t_row t =? t_top t) || (t_row t =? 0) then t
    else set_cursor t (t_row t - 1) (t_right t)
  else set_col t (t_col t - 1).

Fixpoint cht_loop (tabs : list Z) (n ps col : Z) : Z :=
  match tabs with
  | [] => col
  | ts :: rest => if n =? ps then col
                  else if col >? ts then cht_loop rest n ps col
                  else cht_loop rest (n + 1) ps ts
  end.

Definition dflt1 (ps : Z) : Z := if ps =? 0 then 1 else ps.

Definition cht (t : term) (ps : Z) : term :=
  let t := set_last t false in
  let c := cht_loop (t_tabs t) 0 (dflt1 ps) (t_col t) in
  set_col t (if c >? t_right t then t_right t else c).

Definition lf (t : term) : tres term :=
  t <- ind t ;;
  TOk (if m_lnm (t_md t) then set_col t (t_left t) else t).

Definition cr (t : term) : term := set_col (set_last t false) (t_left t).

Definition c0 (t : term) (r : Z) : tres term :=
  if r =? 7 then post_event t
  else if r =? 8 then TOk (bs t)
  else if r =? 9 then TOk (cht t 1)
  else if (r =? 10) || (r =? 11) || (r =? 12) then lf t
  else if r =? 13 then TOk (cr t)
  else if r =? 14 then TOk (set_cs t (mkChars (cs_des (t_cs t)) 1 (cs_saved (t_cs t)) (cs_ss (t_cs t))))
  else if r =? 15 then TOk (set_cs t (mkChars (cs_des (t_cs t)) 2 (cs_saved (t_cs t)) (cs_ss (t_cs t))))
  else TOk t.

(* ------------------------------------------------------------------ csi.go *)

(* ps(params): params[0][0] or 0 *)
Definition clamp_ps (v : Z) : Z := if (v <? 0) || (v >? 65535) then 65535 else v.

Definition ps_of (params : list (list Z)) : tres Z :=
  match params with
  | [] => TOk 0
  | p :: _ => v <- of_opt (zget p 0) ;; TOk (clamp_ps v)
  end.

Definition blank_cell (bgc : Z) : tcell := mkCell [32] 1 (mkStyle (mkPen 0 bgc 0 0 0) [] []) false.

(* ich: shift right (decreasing i, reads of cells not yet written), then blanks *)
Definition ich (t : term) (ps0 : Z) : tres term :=
  let ps := dflt1 ps0 in
  let col := t_col t in
  let right := t_right t in
  t <- on_row t (t_row t) (fun line =>
         if (col <? right) && (ps <=? right) && (zlen line <=? right) then None
         else mapi_opt (fun i c => if (col <? i) && (i <=? right) && (0 <=? i - ps)
                                   then zget line (i - ps) else Some c) 0 line) ;;
  (* for i := 0; i < ps; i++ { if col+i > width-1 { break }; line[col+i] = blank } *)
  on_row t (t_row t) (upd_range (fun _ => blank_cell (pen_bg t)) col (Z.min (col + ps) (width t))).

Definition cuu (t : term) (ps0 : Z) : term :=
  let t := set_last t false in
  let ps := dflt1 ps0 in
  let clamp := if t_row t >=? t_top t then t_top t else 0 in
  set_row t (Z.max (t_row t - ps) clamp).

Definition cud (t : term) (ps0 : Z) : term :=
  let t := set_last t false in
  let ps := dflt1 ps0 in
  let clamp := if t_row t <=? t_bot t then t_bot t else height t - 1 in
  set_row t (Z.min (t_row t + ps) clamp).

Definition cuf (t : term) (ps0 : Z) : term :=
  let t := set_last t false in
  set_col t (Z.min (t_col t + dflt1 ps0) (t_right t)).

Definition cub (t : term) (ps0 : Z) : term :=
  let t := set_last t false in
  set_col t (Z.max (t_col t - dflt1 ps0) (t_left t)).

Definition cnl (t : term) (ps0 : Z) : term :=
  let t := cud t ps0 in set_col t (t_left t).

Definition cpl (t : term) (ps0 : Z) : term :=
  let t := cuu t ps0 in set_col t (t_left t).

Definition cha (t : term) (ps0 : Z) : term :=
  let t := set_last t false in
  let c := dflt1 ps0 - 1 in
  let c := if c >? t_right t then t_right t else c in
  let c := if c <? t_left t then t_left t else c in
  set_col t c.

(* cup: the parameters are read without ps() *)
Definition pm_at (pm : list (list Z)) (i : Z) : tres Z :=
  p <- of_opt (zget pm i) ;; of_opt (zget p 0).

Definition cup (t : term) (pm : list (list Z)) : tres term :=
  let t := set_last t false in
  t <- (if zlen pm =? 0 then TOk (set_cursor t 0 0)
        else if zlen pm =? 1 then r <- pm_at pm 0 ;; TOk (set_cursor t (i64 (r - 1)) 0)
        else if zlen pm =? 2 then r <- pm_at pm 0 ;; c <- pm_at pm 1 ;;
                                  TOk (set_cursor t (i64 (r - 1)) (i64 (c - 1)))
        else TOk t) ;;
  let t := if t_col t >? width t - 1 then set_col t (width t - 1) else t in
  let t := if t_row t >? height t - 1 then set_row t (height t - 1) else t in
  let t := if t_col t <? 0 then set_col t 0 else t in
  TOk (if t_row t <? 0 then set_row t 0 else t).

Definition ed (t : term) (ps : Z) : tres term :=
  let g := active t in
  let w := width t in
  let h := height t in
  let e := erase_cells (pen_bg t) in
  if ps =? 0 then
    let t := set_last t false in
    let lo := Z.max 0 (t_col t) in
    if (t_row t <? 0) && (((t_row t <? -1) && (0 <? w)) || (lo <? w)) then TPanic else
    g' <- of_opt (mapi_opt (fun r line =>
            if r <? t_row t then Some line
            else if r =? t_row t then e lo w line
            else e 0 w line) 0 g) ;;
    TOk (set_active t g')
  else if ps =? 1 then
    let t := set_last t false in
    let hi := Z.min (t_col t + 1) w in
    if ((h <? t_row t) && (0 <? w)) || ((h <=? t_row t) && (0 <? hi)) then TPanic else
    g' <- of_opt (mapi_opt (fun r line =>
            if r <? t_row t then e 0 w line
            else if r =? t_row t then e 0 hi line
            else Some line) 0 g) ;;
    TOk (set_active t g')
  else if ps =? 2 then
    let t := set_last t false in
    g' <- of_opt (mapi_opt (fun _ line => e 0 w line) 0 g) ;;
    TOk (set_active t g')
  else TOk t.

Definition el (t : term) (ps : Z) : tres term :=
  let r := t_row t in
  let t := set_last t false in
  if ps =? 0 then erase_in_row t r (t_col t) (width t)
  else if ps =? 1 then erase_in_row t r 0 (t_col t + 1)
  else if ps =? 2 then erase_in_row t r 0 (width t)
  else TOk t.

Definition in_margins (t : term) : bool :=
  (t_top t <=? t_row t) && (t_row t <=? t_bot t) && (t_left t <=? t_col t) && (t_col t <=? t_right t).

(* il: rows bottom .. row+ps in decreasing order take the row ps above, then rows
   row .. row+ps-1 are erased between the side margins *)
Definition il (t : term) (ps0 : Z) : tres term :=
  let t := set_last t false in
  if negb (in_margins t) then TOk t else
  let ps := dflt1 ps0 in
  let ps := if t_bot t - t_row t <? ps - 1 then t_bot t - t_row t + 1 else ps in
  let g := active t in
  let row := t_row t in
  if (row + ps <=? t_bot t) && ((row + ps <? 0) || (zlen g <=? t_bot t)) then TPanic else
  g' <- of_opt (mapi_opt (fun r line =>
          if (row + ps <=? r) && (r <=? t_bot t) then
            match zget g (r - ps) with Some src => Some (copy_row line src) | None => None end
          else Some line) 0 g) ;;
  if (0 <? ps) && ((row <? 0) || (zlen g <? row + ps)) then TPanic else
  g'' <- of_opt (mapi_opt (fun r line =>
          if (row <=? r) && (r <? row + ps)
          then erase_cells (pen_bg t) (t_left t) (t_right t + 1) line
          else Some line) 0 g') ;;
  TOk (set_col (set_active t g'') (t_left t)).

(* dl: rows row .. bottom in increasing order *)
Definition dl (t : term) (ps0 : Z) : tres term :=
  let t := set_last t false in
  if negb (in_margins t) then TOk t else
  let ps := dflt1 ps0 in
  let ps := if t_bot t - t_row t <? ps - 1 then t_bot t - t_row t + 1 else ps in
  let g := active t in
  let row := t_row t in
  if (row <? 0) || (zlen g <=? t_bot t) then TPanic else
  g' <- of_opt (mapi_opt (fun r line =>
          if (row <=? r) && (r <=? t_bot t) then
            if r <=? t_bot t - ps then
              match zget g (r + ps) with Some src => Some (copy_row line src) | None => None end
            else erase_cells (pen_bg t) (t_left t) (t_right t + 1) line
          else Some line) 0 g) ;;
  TOk (set_col (set_active t g') (t_left t)).

(* dch: columns col .. right in increasing order *)
Definition dch (t : term) (ps0 : Z) : tres term :=
  let t := set_last t false in
  let ps := dflt1 ps0 in
  let col := t_col t in
  let right := t_right t in
  if right <? col then TOk t else
  on_row t (t_row t) (fun line =>
    if (col <? 0) || (zlen line <=? right) then None
    else mapi_opt (fun i c =>
           if (col <=? i) && (i <=? right) then
             if i + ps >? right then Some (erase_cell (pen_bg t) c) else zget line (i + ps)
           else Some c) 0 line).

Definition ech (t : term) (ps0 : Z) : tres term :=
  let t := set_last t false in
  let ps := dflt1 ps0 in
  let hi := if t_col t <=? width t then Z.min (t_col t + ps) (width t) else t_col t + ps in
  erase_in_row t (t_row t) (t_col t) hi.

Fixpoint cbt_loop (rtabs : list Z) (n ps col : Z) : Z :=
  match rtabs with
  | [] => col
  | ts :: rest => if n =? ps then col
                  else if col <? ts then col
                  else cbt_loop rest (n + 1) ps ts
  end.

Definition cbt (t : term) (ps0 : Z) : term :=
  let t := set_last t false in
  set_col t (cbt_loop (rev (t_tabs t)) 0 (dflt1 ps0) (t_col t)).

Definition tbc (t : term) (ps : Z) : term :=
  if ps =? 0 then set_tabs t (filter (fun ts => negb (ts =? t_col t)) (t_tabs t))
  else if ps =? 3 then set_tabs t []
  else t.

Definition vpa (t : term) (ps0 : Z) : term :=
  let t := set_last t false in
  set_row t (Z.min (dflt1 ps0 - 1) (height t - 1)).

Definition vpr (t : term) (ps0 : Z) : term :=
  let t := set_last t false in
  set_row t (Z.min (t_row t + dflt1 ps0) (height t - 1)).

Definition hpa (t : term) (ps0 : Z) : term :=
  let t := set_last t false in
  set_col t (Z.min (dflt1 ps0 - 1) (width t - 1)).

Definition hpr (t : term) (ps0 : Z) : term :=
  let t := set_last t false in
  set_col t (Z.min (t_col t + dflt1 ps0) (width t - 1)).

Definition set_char (g : text) (w : Z) (c : tcell) : tcell := mkCell g w (c_st c) (c_wr c).

Definition rep (t : term) (ps : Z) : tres term :=
  let t := set_last t false in
  let col := t_col t in
  if col =? 0 then TOk t else
  line <- of_opt (zget (active t) (t_row t)) ;;
  ch <- of_opt (zget line (col - 1)) ;;
  let hi := if col <=? t_right t then Z.min (col + ps) (t_right t) else col + ps in
  range_in_row t (t_row t) (set_char (c_g ch) (c_w ch)) col hi.

Definition decstbm (t : term) (pm : list (list Z)) : tres term :=
  let h := height t in
  tb <- (if zlen pm =? 0 then TOk (0, h - 1)
         else if zlen pm =? 1 then a <- pm_at pm 0 ;; TOk (i64 (a - 1), h - 1)
         else if zlen pm =? 2 then a <- pm_at pm 0 ;; b <- pm_at pm 1 ;; TOk (i64 (a - 1), i64 (b - 1))
         else TOk (0, 0)) ;;
  let '(top, bot) := tb in
  let top := if top <? 0 then 0 else top in
  let bot := if (bot <? 0) || (bot >? h - 1) then h - 1 else bot in
  if top >=? bot then TOk t else
  let t := set_last t false in
  let t := set_margins t top bot (t_left t) (t_right t) in
  TOk (set_cursor t 0 0).

(* ------------------------------------------------------------------ mode.go *)

Fixpoint fold_params (f : term -> Z -> tres term) (params : list (list Z)) (t : term) : tres term :=
  match params with
  | [] => TOk t
  | p :: rest => k <- of_opt (zget p 0) ;; t' <- f t k ;; fold_params f rest t'
  end.

Definition sm1 (v : bool) (t : term) (k : Z) : tres term :=
  if k =? 4 then TOk (set_md t (md_irm (t_md t) v))
  else if k =? 20 then TOk (set_md t (md_lnm (t_md t) v))
  else TOk t.

Definition decset1 (t : term) (k : Z) : tres term :=
  if k =? 6 then TOk (set_md t (md_om (t_md t) true))
  else if k =? 7 then TOk (set_last (set_md t (md_awm (t_md t) true)) false)
  else if k =? 25 then TOk (set_md t (md_tcem (t_md t) true))
  else if k =? 1049 then
    let t := decsc t in
    let t := set_onalt t true in
    t <- (if m_smcup (t_md t) then TOk t else ed t 2) ;;
    TOk (set_md t (md_smcup (t_md t) true))
  else TOk t.

Definition decrst1 (t : term) (k : Z) : tres term :=
  if k =? 6 then TOk (set_md t (md_om (t_md t) false))
  else if k =? 7 then TOk (set_last (set_md t (md_awm (t_md t) false)) false)
  else if k =? 25 then TOk (set_md t (md_tcem (t_md t) false))
  else if k =? 1049 then
    t <- (if m_smcup (t_md t) then ed t 2 else TOk t) ;;
    let t := set_onalt t false in
    let t := set_md t (md_smcup (t_md t) false) in
    TOk (decrc t)
  else TOk t.

(* ------------------------------------------------------------------ sgr.go, osc.go *)

Definition sgr (t : term) (params : list (list Z)) : tres term :=
  match term_sgr params (spen (t_pen t)) with
  | Ok p => TOk (set_pen t (mkStyle p (link (t_pen t)) (linkp (t_pen t))))
  | Panic => TPanic
  end.

(* cutString(s, ";") *)
Fixpoint cut59 (s : list Z) : list Z * list Z * bool :=
  match s with
  | [] => ([], [], false)
  | c :: rest => if c =? 59 then ([], rest, true)
                 else let '(a, b, f) := cut59 rest in (c :: a, b, f)
  end.

Definition osc (t : term) (payload : list Z) : tres term :=
  let '(sel, val, found) := cut59 payload in
  if negb found then TOk t
  else if key_is sel [48] || key_is sel [50] then post_event t          (* 0, 2: title *)
  else if key_is sel [56] then                                          (* 8: hyperlink, OSC8 = true *)
    let '(params, url, found) := cut59 val in
    if negb found then TOk t
    else TOk (set_pen t (mkStyle (spen (t_pen t)) url params))
  else if key_is sel [57] then post_event t                             (* 9: notify *)
  else if key_is sel [55; 55; 55] then                                  (* 777 *)
    let '(sel2, val2, found2) := cut59 val in
    if negb found2 then TOk t
    else if key_is sel2 [110; 111; 116; 105; 102; 121] then             (* notify *)
      let '(_, _, found3) := cut59 val2 in
      if negb found3 then TOk t else post_event t
    else TOk t
  else TOk t.       (* 11: vt.vx == nil returns; 52: returns before the first Draw; others: ignored *)

(* ------------------------------------------------------------------ csi dispatch *)

Definition with_ps (params : list (list Z)) (f : Z -> tres term) : tres term :=
  ps <- ps_of params ;; f ps.

Definition csi (t : term) (inter : list Z) (params : list (list Z)) (final : Z) : tres term :=
  let k := inter ++ [final] in
  if key_is k [64] then with_ps params (ich t)                          (* @ *)
  else if key_is k [65] then with_ps params (fun ps => TOk (cuu t ps))  (* A *)
  else if key_is k [66] then with_ps params (fun ps => TOk (cud t ps))
  else if key_is k [67] then with_ps params (fun ps => TOk (cuf t ps))
  else if key_is k [68] then with_ps params (fun ps => TOk (cub t ps))
  else if key_is k [69] then with_ps params (fun ps => TOk (cnl t ps))
  else if key_is k [70] then with_ps params (fun ps => TOk (cpl t ps))
  else if key_is k [71] then with_ps params (fun ps => TOk (cha t ps))  (* G *)
  else if key_is k [72] then cup t params                               (* H *)
  else if key_is k [73] then with_ps params (fun ps => TOk (cht t ps))  (* I *)
  else if key_is k [74] then with_ps params (ed t)                      (* J *)
  else if key_is k [75] then with_ps params (el t)                      (* K *)
  else if key_is k [76] then with_ps params (il t)                      (* L *)
  else if key_is k [77] then with_ps params (dl t)                      (* M *)
  else if key_is k [80] then with_ps params (dch t)                     (* P *)
  else if key_is k [83] then with_ps params (fun ps => scroll_up t (dflt1 ps))     (* S *)
  else if key_is k [84] then                                            (* T *)
    if zlen params =? 5 then TOk t
    else with_ps params (fun ps => scroll_down t (dflt1 ps))
  else if key_is k [88] then with_ps params (ech t)                     (* X *)
  else if key_is k [90] then with_ps params (fun ps => TOk (cbt t ps))  (* Z *)
  else if key_is k [96] then with_ps params (fun ps => TOk (hpa t ps))  (* ` *)
  else if key_is k [97] then with_ps params (fun ps => TOk (hpr t ps))  (* a *)
  else if key_is k [98] then with_ps params (rep t)                     (* b *)
  else if key_is k [100] then with_ps params (fun ps => TOk (vpa t ps)) (* d *)
  else if key_is k [101] then with_ps params (fun ps => TOk (vpr t ps)) (* e *)
  else if key_is k [102] then cup t params                              (* f *)
  else if key_is k [103] then with_ps params (fun ps => TOk (tbc t ps)) (* g *)
  else if key_is k [104] then fold_params (sm1 true) params t           (* h *)
  else if key_is k [63; 104] then fold_params decset1 params t          (* ?h *)
  else if key_is k [108] then fold_params (sm1 false) params t          (* l *)
  else if key_is k [63; 108] then fold_params decrst1 params t          (* ?l *)
  else if key_is k [109] then sgr t params                              (* m *)
  else if key_is k [110] then with_ps params (fun _ => TOk t)           (* n: reply only *)
  else if key_is k [63; 36; 112] then with_ps params (fun _ => TOk t)   (* ?$p: reply only *)
  else if key_is k [114] then decstbm t params                          (* r *)
  else if key_is k [115] then TOk (decsc t)                             (* s *)
  else if key_is k [117] then TOk (decrc t)                             (* u *)
  else if key_is k [32; 113] then with_ps params (fun ps => TOk (set_shape t ps))  (* SP q *)
  else TOk t.                                                           (* c, >c: reply only *)

(* ------------------------------------------------------------------ update, resize, draw *)

(* what the parser delivers, with a printed cluster already segmented and measured *)
Inductive titem :=
  | TPrint (g : text) (w : Z)
  | TC0 (c : Z)
  | TEsc (inter : list Z) (final : Z)
  | TCsi (inter : list Z) (params : list (list Z)) (final : Z)
  | TOsc (payload : list Z)
  | TDcs                              (* sixel decoding: third-party, no screen state *)
  | TApc
  | TOther.                           (* SS3, error, EOF: not handled by update *)

Definition update (t : term) (it : titem) : tres term :=
  match it with
  | TPrint g w => print t g w
  | TC0 c => c0 t c
  | TEsc i f => esc t i f
  | TCsi i p f => csi t i p f
  | TOsc p => osc t p
  | TDcs => TOk t
  | TApc => post_event t
  | TOther => TOk t
  end.

(* the goroutine's select took one event off the channel *)
Definition drain (t : term) : term := if 0 <? t_ev t then set_ev t (t_ev t - 1) else t.

(* resize: re-print the old primary screen up to the cursor row; the pen is saved and restored *)
Fixpoint reprint_cells (cells : list tcell) (t : term) (wrapped : bool) : tres (term * bool) :=
  match cells with
  | [] => TOk (t, wrapped)
  | c :: rest =>
      t' <- print (set_pen t (c_st c)) (c_g c) (c_w c) ;;
      reprint_cells rest t' (c_wr c)
  end.

Fixpoint reprint_rows (n0 : Z) (rows : list trow) (r last : Z) (t : term) : tres term :=
  match rows with
  | [] => TOk t
  | line :: rest =>
      if r =? last then TOk t else
      (* col < len(primary[0]); primary[row][col] *)
      if zlen line <? n0 then TPanic else
      '(t', wrapped) <- reprint_cells (firstn (Z.to_nat n0) line) t false ;;
      t'' <- (if wrapped then TOk t' else nel t') ;;
      reprint_rows n0 rest (r + 1) last t''
  end.

Definition resize (t : term) (w h : Z) : tres term :=
  let old := t_prim t in
  g <- make_grid w h ;;
  let last := t_row t in
  let t := set_grids t g g false in
  let t := set_margins t 0 (h - 1) (t_left t) (w - 1) in
  let t := set_cursor t 0 0 in
  let t := set_last t false in
  let n0 := match old with [] => 0 | l :: _ => zlen l end in
  (* re-printing goes through the pen: the child's pen is kept *)
  let pen0 := t_pen t in
  t <- reprint_rows n0 old 0 last t ;;
  let t := set_pen t pen0 in
  TOk (set_onalt t (m_smcup (t_md t))).

(* Draw on a window of the terminal's own size: the SetCell calls (col, row, cell) *)
Fixpoint draw_row (fuel : nat) (line : trow) (row col : Z) : list (Z * Z * tcell) :=
  match fuel with
  | O => []
  | S k =>
      match zget line col with
      | None => []
      | Some c => (col, row, c) :: draw_row k line row (col + (if c_w c =? 0 then 1 else c_w c))
      end
  end.

Fixpoint draw_rows (g : grid) (row : Z) : list (Z * Z * tcell) :=
  match g with
  | [] => []
  | line :: rest => draw_row (length line) line row 0 ++ draw_rows rest (row + 1)
  end.

Definition draw (t : term) : list (Z * Z * tcell) := draw_rows (active t) 0.

(* ------------------------------------------------------------------ histories *)

Inductive hstep :=
  | HFeed (drain_first : bool) (it : titem)
  | HResize (w h : Z).

Definition hstep_run (t : term) (s : hstep) : tres term :=
  match s with
  | HFeed d it => update (if d then drain t else t) it
  | HResize w h => resize t w h
  end.

Fixpoint run (t : term) (hs : list hstep) : tres term :=
  match hs with
  | [] => TOk t
  | s :: rest => t' <- hstep_run t s ;; run t' rest
  end.

Definition term_start (w h : Z) : tres term := resize term_new w h.
