(* C11 — proofs about model/Window.v *)
From Vx Require Import base.Prelude base.ListX model.Window.
Require Import ZifyBool.

(* ------------------------------------------------------------------ well-formed screens *)

Definition WF (s : screen) : Prop :=
  zlen (sbuf s) = srows s /\ Forall (fun l => zlen l = scols s) (sbuf s).

Definition same_dims (s s' : screen) : Prop := scols s' = scols s /\ srows s' = srows s.

Lemma same_dims_refl s : same_dims s s.
Proof. split; reflexivity. Qed.

Lemma same_dims_trans a b c : same_dims a b -> same_dims b c -> same_dims a c.
Proof. unfold same_dims; intros [H1 H2] [H3 H4]; split; congruence. Qed.

Lemma Forall_repeat {A} (P : A -> Prop) x n : P x -> Forall P (repeat x n).
Proof. intros H; induction n; simpl; constructor; auto. Qed.

Lemma screen_resize_WF cols rows s : screen_resize cols rows = Some s -> WF s /\ scols s = cols /\ srows s = rows.
Proof.
  unfold screen_resize. destruct (rows <? 0) eqn:E1; [discriminate|].
  destruct ((0 <? rows) && (cols <? 0)) eqn:E2; [discriminate|].
  intros H; injection H as <-; cbn [scols srows sbuf]. split; [|auto]. split; cbn [scols srows sbuf].
  - apply zlen_repeat; lia.
  - destruct (Z_lt_dec cols 0).
    + assert (rows = 0) by lia; subst. constructor.
    + apply Forall_repeat, zlen_repeat; lia.
Qed.

Lemma bg_screen_WF bg cols rows : 0 <= cols -> 0 <= rows -> WF (bg_screen bg cols rows).
Proof.
  intros Hc Hr; split; cbn [bg_screen scols srows sbuf].
  - apply zlen_repeat; lia.
  - apply Forall_repeat, zlen_repeat; lia.
Qed.

Lemma In_upd_nat {A} (l : list A) n v x : In x (upd_nat l n v) -> x = v \/ In x l.
Proof.
  revert n; induction l as [|h t IH]; intros [|n] H; simpl in *; auto.
  - destruct H as [<-|H]; auto.
  - destruct H as [<-|H]; auto. apply IH in H as [->|H]; auto.
Qed.

Lemma sget_some_range s x y c : WF s -> sget s x y = Some c -> 0 <= x < scols s /\ 0 <= y < srows s.
Proof.
  intros [Hl Hf] H; unfold sget in H. destruct (zget (sbuf s) y) as [line|] eqn:E; [|discriminate].
  pose proof (zget_some_range _ _ _ E). pose proof (zget_some_range _ _ _ H).
  rewrite Forall_forall in Hf. rewrite <- (Hf line (zget_In _ _ _ E)). lia.
Qed.

Lemma sget_in_range s x y : WF s -> 0 <= x < scols s -> 0 <= y < srows s -> exists c, sget s x y = Some c.
Proof.
  intros [Hl Hf] Hx Hy. unfold sget.
  destruct (zget_in_range (sbuf s) y) as [line E]; [lia|]. rewrite E.
  rewrite Forall_forall in Hf. apply zget_in_range. rewrite (Hf line (zget_In _ _ _ E)). lia.
Qed.

(* the one place where the buffer is written *)
Lemma buf_put_spec s col row f :
  WF s -> 0 <= col < scols s -> 0 <= row < srows s ->
  exists s' old, buf_put s col row f = Some s' /\ WF s' /\ same_dims s s' /\
    sget s col row = Some old /\ sget s' col row = Some (f old) /\
    forall x y, (x <> col \/ y <> row) -> sget s' x y = sget s x y.
Proof.
  intros [Hl Hf] Hc Hr. unfold buf_put, sget.
  destruct (zget_in_range (sbuf s) row) as [line E]; [lia|]. rewrite E.
  rewrite Forall_forall in Hf. pose proof (Hf line (zget_In _ _ _ E)) as Hline.
  destruct (zget_in_range line col) as [old Eo]; [lia|]. rewrite Eo.
  destruct (proj2 (zupd_some_iff line col (f old))) as [line' El]; [lia|]. rewrite El.
  destruct (proj2 (zupd_some_iff (sbuf s) row line')) as [b Eb]; [lia|]. rewrite Eb.
  exists (mkScreen (scols s) (srows s) b), old. cbn [scols srows sbuf].
  split; [reflexivity|]. split; [|split; [apply same_dims_refl|]].
  - split; cbn [scols srows sbuf].
    + rewrite (zupd_length _ _ _ _ Eb); exact Hl.
    + rewrite Forall_forall; intros l Hin.
      unfold zupd in Eb. destruct ((row <? 0) || (zlen (sbuf s) <=? row)); [discriminate|].
      injection Eb as <-. apply In_upd_nat in Hin as [->|Hin]; [|auto].
      rewrite (zupd_length _ _ _ _ El); exact Hline.
  - split; [reflexivity|]. split.
    + rewrite (zget_zupd_same _ _ _ _ Eb). apply (zget_zupd_same _ _ _ _ El).
    + intros x y Hne. destruct (Z.eq_dec y row) as [->|Hy].
      * rewrite (zget_zupd_same _ _ _ _ Eb), E. apply (zget_zupd_other _ _ _ _ _ El). destruct Hne; congruence.
      * rewrite (zget_zupd_other _ _ _ _ _ Eb); [reflexivity|congruence].
Qed.

(* [s'] is [s] with the cell at (X,Y) replaced by [f old] *)
Definition updated_at (s s' : screen) (X Y : Z) (f : cell -> cell) : Prop :=
  WF s' /\ same_dims s s' /\
  (exists old, sget s X Y = Some old /\ sget s' X Y = Some (f old)) /\
  forall x y, (x <> X \/ y <> Y) -> sget s' x y = sget s x y.

Lemma screen_setcell_spec s col row c :
  WF s -> exists s', screen_setcell s col row c = Some s' /\
    if on_screen s col row then updated_at s s' col row (fun _ => c) else s' = s.
Proof.
  intros H. unfold screen_setcell, on_screen.
  destruct ((col <? 0) || (row <? 0)) eqn:E1.
  { exists s; split; [reflexivity|]. destruct ((0 <=? col) && (col <? scols s) && (0 <=? row) && (row <? srows s)) eqn:E; [lia|reflexivity]. }
  destruct (col >=? scols s) eqn:E2.
  { exists s; split; [reflexivity|]. destruct ((0 <=? col) && (col <? scols s) && (0 <=? row) && (row <? srows s)) eqn:E; [lia|reflexivity]. }
  destruct (row >=? srows s) eqn:E3.
  { exists s; split; [reflexivity|]. destruct ((0 <=? col) && (col <? scols s) && (0 <=? row) && (row <? srows s)) eqn:E; [lia|reflexivity]. }
  destruct (buf_put_spec s col row (fun _ => c) H) as (s' & old & Hp & Hwf & Hd & Ho & Hn & Hrest); [lia|lia|].
  exists s'; split; [exact Hp|].
  replace ((0 <=? col) && (col <? scols s) && (0 <=? row) && (row <? srows s)) with true by lia.
  split; [exact Hwf|]. split; [exact Hd|]. split; [exists old; auto|exact Hrest].
Qed.

Lemma screen_setstyle_spec s col row st :
  WF s -> exists s', screen_setstyle s col row st = Some s' /\
    if on_screen s col row then updated_at s s' col row (fun old => mkCell (cg old) (cw old) st) else s' = s.
Proof.
  intros H. unfold screen_setstyle, on_screen.
  destruct ((col <? 0) || (row <? 0)) eqn:E1.
  { exists s; split; [reflexivity|]. destruct ((0 <=? col) && (col <? scols s) && (0 <=? row) && (row <? srows s)) eqn:E; [lia|reflexivity]. }
  destruct (col >=? scols s) eqn:E2.
  { exists s; split; [reflexivity|]. destruct ((0 <=? col) && (col <? scols s) && (0 <=? row) && (row <? srows s)) eqn:E; [lia|reflexivity]. }
  destruct (row >=? srows s) eqn:E3.
  { exists s; split; [reflexivity|]. destruct ((0 <=? col) && (col <? scols s) && (0 <=? row) && (row <? srows s)) eqn:E; [lia|reflexivity]. }
  destruct (buf_put_spec s col row (fun old => mkCell (cg old) (cw old) st) H) as (s' & old & Hp & Hwf & Hd & Ho & Hn & Hrest); [lia|lia|].
  exists s'; split; [exact Hp|].
  replace ((0 <=? col) && (col <? scols s) && (0 <=? row) && (row <? srows s)) with true by lia.
  split; [exact Hwf|]. split; [exact Hd|]. split; [exists old; auto|exact Hrest].
Qed.

(* ------------------------------------------------------------------ SetCell / SetStyle through a chain *)

(* Origin() computes the absolute origin *)
Lemma win_origin_loop_spec w : forall a b, win_origin_loop w a b = (a + fst (origin w), b + snd (origin w)).
Proof.
  induction w as [f|f p IH]; intros a b; cbn [win_origin_loop origin wframe fst snd].
  - reflexivity.
  - rewrite IH. destruct (origin p) as [x y]; cbn [fst snd]. f_equal; lia.
Qed.

Lemma win_origin_spec w : win_origin w = origin w.
Proof. unfold win_origin; rewrite win_origin_loop_spec; destruct (origin w); reflexivity. Qed.

(* the recursive bounds checks decide exactly membership in every absolute rectangle *)
Lemma win_setcell_clip_eq w : forall s col row c,
  win_setcell w s col row c =
  if in_clip w (fst (origin w) + col) (snd (origin w) + row)
  then screen_setcell s (fst (origin w) + col) (snd (origin w) + row) c
  else Some s.
Proof.
  induction w as [f|f p IH]; intros s col row c; cbn [win_setcell wframe in_clip origin].
  - unfold in_rect; cbn [origin wframe fst snd].
    destruct ((row >=? fh f) || (col >=? fw f)) eqn:E1.
    { replace ((fcol f <=? fcol f + col) && (fcol f + col <? fcol f + fw f) && (frow f <=? frow f + row) && (frow f + row <? frow f + fh f)) with false by lia. reflexivity. }
    destruct ((row <? 0) || (col <? 0)) eqn:E2.
    { replace ((fcol f <=? fcol f + col) && (fcol f + col <? fcol f + fw f) && (frow f <=? frow f + row) && (frow f + row <? frow f + fh f)) with false by lia. reflexivity. }
    replace ((fcol f <=? fcol f + col) && (fcol f + col <? fcol f + fw f) && (frow f <=? frow f + row) && (frow f + row <? frow f + fh f)) with true by lia.
    f_equal; lia.
  - unfold in_rect; cbn [origin wframe]. destruct (origin p) as [px py] eqn:Ep; cbn [fst snd].
    destruct ((row >=? fh f) || (col >=? fw f)) eqn:E1.
    { replace ((px + fcol f <=? px + fcol f + col) && (px + fcol f + col <? px + fcol f + fw f) && (py + frow f <=? py + frow f + row) && (py + frow f + row <? py + frow f + fh f)) with false by lia. reflexivity. }
    destruct ((row <? 0) || (col <? 0)) eqn:E2.
    { replace ((px + fcol f <=? px + fcol f + col) && (px + fcol f + col <? px + fcol f + fw f) && (py + frow f <=? py + frow f + row) && (py + frow f + row <? py + frow f + fh f)) with false by lia. reflexivity. }
    replace ((px + fcol f <=? px + fcol f + col) && (px + fcol f + col <? px + fcol f + fw f) && (py + frow f <=? py + frow f + row) && (py + frow f + row <? py + frow f + fh f)) with true by lia.
    rewrite IH, Ep; cbn [fst snd andb].
    replace (px + (col + fcol f)) with (px + fcol f + col) by lia.
    replace (py + (row + frow f)) with (py + frow f + row) by lia. reflexivity.
Qed.

Lemma win_setstyle_clip_eq w : forall s col row st,
  win_setstyle w s col row st =
  if in_clip w (fst (origin w) + col) (snd (origin w) + row)
  then screen_setstyle s (fst (origin w) + col) (snd (origin w) + row) st
  else Some s.
Proof.
  induction w as [f|f p IH]; intros s col row c; cbn [win_setstyle wframe in_clip origin].
  - unfold in_rect; cbn [origin wframe fst snd].
    destruct ((row >=? fh f) || (col >=? fw f)) eqn:E1.
    { replace ((fcol f <=? fcol f + col) && (fcol f + col <? fcol f + fw f) && (frow f <=? frow f + row) && (frow f + row <? frow f + fh f)) with false by lia. reflexivity. }
    destruct ((row <? 0) || (col <? 0)) eqn:E2.
    { replace ((fcol f <=? fcol f + col) && (fcol f + col <? fcol f + fw f) && (frow f <=? frow f + row) && (frow f + row <? frow f + fh f)) with false by lia. reflexivity. }
    replace ((fcol f <=? fcol f + col) && (fcol f + col <? fcol f + fw f) && (frow f <=? frow f + row) && (frow f + row <? frow f + fh f)) with true by lia.
    f_equal; lia.
  - unfold in_rect; cbn [origin wframe]. destruct (origin p) as [px py] eqn:Ep; cbn [fst snd].
    destruct ((row >=? fh f) || (col >=? fw f)) eqn:E1.
    { replace ((px + fcol f <=? px + fcol f + col) && (px + fcol f + col <? px + fcol f + fw f) && (py + frow f <=? py + frow f + row) && (py + frow f + row <? py + frow f + fh f)) with false by lia. reflexivity. }
    destruct ((row <? 0) || (col <? 0)) eqn:E2.
    { replace ((px + fcol f <=? px + fcol f + col) && (px + fcol f + col <? px + fcol f + fw f) && (py + frow f <=? py + frow f + row) && (py + frow f + row <? py + frow f + fh f)) with false by lia. reflexivity. }
    replace ((px + fcol f <=? px + fcol f + col) && (px + fcol f + col <? px + fcol f + fw f) && (py + frow f <=? py + frow f + row) && (py + frow f + row <? py + frow f + fh f)) with true by lia.
    rewrite IH, Ep; cbn [fst snd andb].
    replace (px + (col + fcol f)) with (px + fcol f + col) by lia.
    replace (py + (row + frow f)) with (py + frow f + row) by lia. reflexivity.
Qed.

(* setcell_clip *)
Lemma setcell_clip w s col row c :
  WF s ->
  let X := fst (origin w) + col in
  let Y := snd (origin w) + row in
  exists s', win_setcell w s col row c = Some s' /\
    if visible w s X Y then updated_at s s' X Y (fun _ => c) else s' = s.
Proof.
  intros H X Y. rewrite win_setcell_clip_eq. fold X Y. unfold visible.
  destruct (in_clip w X Y); cbn [andb].
  - apply screen_setcell_spec; exact H.
  - exists s; split; reflexivity.
Qed.

Lemma setstyle_clip w s col row st :
  WF s ->
  let X := fst (origin w) + col in
  let Y := snd (origin w) + row in
  exists s', win_setstyle w s col row st = Some s' /\
    if visible w s X Y then updated_at s s' X Y (fun old => mkCell (cg old) (cw old) st) else s' = s.
Proof.
  intros H X Y. rewrite win_setstyle_clip_eq. fold X Y. unfold visible.
  destruct (in_clip w X Y); cbn [andb].
  - apply screen_setstyle_spec; exact H.
  - exists s; split; reflexivity.
Qed.
