(* C11 — proofs about model/Window.v *)
From Vx Require Import base.Prelude base.ListX model.Window.
Require Import ZifyBool.

(* ------------------------------------------------------------------ well-formed screens *)

Definition WF (s : screen) : Prop :=
  zlen (sbuf s) = srows s /\ Forall (fun l => zlen l = scols s) (sbuf s).

Definition same_dims (s s' : screen) : Prop := scols s' = scols s /\ srows s' = srows s.

Lemma same_dims_refl s : same_dims s s.
Proof. split; reflexivity. Qed.

Lemma same_dims_trans a b c : same_dims a b -> same_dims b c -> same_dims a c.
Proof. unfold same_dims; intros [H1 H2] [H3 H4]; split; congruence. Qed.

Lemma Forall_repeat {A} (P : A -> Prop) x n : P x -> Forall P (repeat x n).
Proof. intros H; induction n; simpl; constructor; auto. Qed.

Lemma screen_resize_WF cols rows s : screen_resize cols rows = Some s -> WF s /\ scols s = cols /\ srows s = rows.
Proof.
  unfold screen_resize. destruct (rows <? 0) eqn:E1; [discriminate|].
  destruct ((0 <? rows) && (cols <? 0)) eqn:E2; [discriminate|].
  intros H; injection H as <-; cbn [scols srows sbuf]. split; [|auto]. split; cbn [scols srows sbuf].
  - apply zlen_repeat; lia.
  - destruct (Z_lt_dec cols 0).
    + assert (rows = 0) by lia; subst. constructor.
    + apply Forall_repeat, zlen_repeat; lia.
Qed.

Lemma bg_screen_WF bg cols rows : 0 <= cols -> 0 <= rows -> WF (bg_screen bg cols rows).
Proof.
  intros Hc Hr; split; cbn [bg_screen scols srows sbuf].
  - apply zlen_repeat; lia.
  - apply Forall_repeat, zlen_repeat; lia.
Qed.

Lemma In_upd_nat {A} (l : list A) n v x : In x (upd_nat l n v) -> x = v \/ In x l.
Proof.
  revert n; induction l as [|h t IH]; intros [|n] H; simpl in *; auto.
  - destruct H as [<-|H]; auto.
  - destruct H as [<-|H]; auto. apply IH in H as [->|H]; auto.
Qed.

Lemma sget_some_range s x y c : WF s -> sget s x y = Some c -> 0 <= x < scols s /\ 0 <= y < srows s.
Proof.
  intros [Hl Hf] H; unfold sget in H. destruct (zget (sbuf s) y) as [line|] eqn:E; [|discriminate].
  pose proof (zget_some_range _ _ _ E). pose proof (zget_some_range _ _ _ H).
  rewrite Forall_forall in Hf. rewrite <- (Hf line (zget_In _ _ _ E)). lia.
Qed.

Lemma sget_in_range s x y : WF s -> 0 <= x < scols s -> 0 <= y < srows s -> exists c, sget s x y = Some c.
Proof.
  intros [Hl Hf] Hx Hy. unfold sget.
  destruct (zget_in_range (sbuf s) y) as [line E]; [lia|]. rewrite E.
  rewrite Forall_forall in Hf. apply zget_in_range. rewrite (Hf line (zget_In _ _ _ E)). lia.
Qed.

(* the one place where the buffer is written *)
Lemma buf_put_spec s col row f :
  WF s -> 0 <= col < scols s -> 0 <= row < srows s ->
  exists s' old, buf_put s col row f = Some s' /\ WF s' /\ same_dims s s' /\
    sget s col row = Some old /\ sget s' col row = Some (f old) /\
    forall x y, (x <> col \/ y <> row) -> sget s' x y = sget s x y.
Proof.
  intros [Hl Hf] Hc Hr. unfold buf_put, sget.
  destruct (zget_in_range (sbuf s) row) as [line E]; [lia|]. rewrite E.
  rewrite Forall_forall in Hf. pose proof (Hf line (zget_In _ _ _ E)) as Hline.
  destruct (zget_in_range line col) as [old Eo]; [lia|]. rewrite Eo.
  destruct (proj2 (zupd_some_iff line col (f old))) as [line' El]; [lia|]. rewrite El.
  destruct (proj2 (zupd_some_iff (sbuf s) row line')) as [b Eb]; [lia|]. rewrite Eb.
  exists (mkScreen (scols s) (srows s) b), old. cbn [scols srows sbuf].
  split; [reflexivity|]. split; [|split; [split; reflexivity|]].
  - split; cbn [scols srows sbuf].
    + rewrite (zupd_length _ _ _ _ Eb); exact Hl.
    + rewrite Forall_forall; intros l Hin.
      unfold zupd in Eb. destruct ((row <? 0) || (zlen (sbuf s) <=? row)); [discriminate|].
      injection Eb as <-. apply In_upd_nat in Hin as [->|Hin]; [|auto].
      rewrite (zupd_length _ _ _ _ El); exact Hline.
  - split; [reflexivity|]. split.
    + rewrite (zget_zupd_same _ _ _ _ Eb). apply (zget_zupd_same _ _ _ _ El).
    + intros x y Hne. destruct (Z.eq_dec y row) as [->|Hy].
      * rewrite (zget_zupd_same _ _ _ _ Eb), E. apply (zget_zupd_other _ _ _ _ _ El). destruct Hne; congruence.
      * rewrite (zget_zupd_other _ _ _ _ _ Eb); [reflexivity|congruence].
Qed.

(* [s'] is [s] with the cell at (X,Y) replaced by [f old] *)
Definition updated_at (s s' : screen) (X Y : Z) (f : cell -> cell) : Prop :=
  WF s' /\ same_dims s s' /\
  (exists old, sget s X Y = Some old /\ sget s' X Y = Some (f old)) /\
  forall x y, (x <> X \/ y <> Y) -> sget s' x y = sget s x y.

Lemma screen_setcell_spec s col row c :
  WF s -> exists s', screen_setcell s col row c = Some s' /\
    if on_screen s col row then updated_at s s' col row (fun _ => c) else s' = s.
Proof.
  intros H. unfold screen_setcell, on_screen.
  destruct ((col <? 0) || (row <? 0)) eqn:E1.
  { exists s; split; [reflexivity|]. destruct ((0 <=? col) && (col <? scols s) && (0 <=? row) && (row <? srows s)) eqn:E; [lia|reflexivity]. }
  destruct (col >=? scols s) eqn:E2.
  { exists s; split; [reflexivity|]. destruct ((0 <=? col) && (col <? scols s) && (0 <=? row) && (row <? srows s)) eqn:E; [lia|reflexivity]. }
  destruct (row >=? srows s) eqn:E3.
  { exists s; split; [reflexivity|]. destruct ((0 <=? col) && (col <? scols s) && (0 <=? row) && (row <? srows s)) eqn:E; [lia|reflexivity]. }
  destruct (buf_put_spec s col row (fun _ => c) H) as (s' & old & Hp & Hwf & Hd & Ho & Hn & Hrest); [lia|lia|].
  exists s'; split; [exact Hp|].
  replace ((0 <=? col) && (col <? scols s) && (0 <=? row) && (row <? srows s)) with true by lia.
  split; [exact Hwf|]. split; [exact Hd|]. split; [exists old; auto|exact Hrest].
Qed.

Lemma screen_setstyle_spec s col row st :
  WF s -> exists s', screen_setstyle s col row st = Some s' /\
    if on_screen s col row then updated_at s s' col row (fun old => mkCell (cg old) (cw old) st) else s' = s.
Proof.
  intros H. unfold screen_setstyle, on_screen.
  destruct ((col <? 0) || (row <? 0)) eqn:E1.
  { exists s; split; [reflexivity|]. destruct ((0 <=? col) && (col <? scols s) && (0 <=? row) && (row <? srows s)) eqn:E; [lia|reflexivity]. }
  destruct (col >=? scols s) eqn:E2.
  { exists s; split; [reflexivity|]. destruct ((0 <=? col) && (col <? scols s) && (0 <=? row) && (row <? srows s)) eqn:E; [lia|reflexivity]. }
  destruct (row >=? srows s) eqn:E3.
  { exists s; split; [reflexivity|]. destruct ((0 <=? col) && (col <? scols s) && (0 <=? row) && (row <? srows s)) eqn:E; [lia|reflexivity]. }
  destruct (buf_put_spec s col row (fun old => mkCell (cg old) (cw old) st) H) as (s' & old & Hp & Hwf & Hd & Ho & Hn & Hrest); [lia|lia|].
  exists s'; split; [exact Hp|].
  replace ((0 <=? col) && (col <? scols s) && (0 <=? row) && (row <? srows s)) with true by lia.
  split; [exact Hwf|]. split; [exact Hd|]. split; [exists old; auto|exact Hrest].
Qed.

(* ------------------------------------------------------------------ SetCell / SetStyle through a chain *)

(* Origin() computes the absolute origin *)
Lemma win_origin_loop_spec w : forall a b, win_origin_loop w a b = (a + fst (origin w), b + snd (origin w)).
Proof.
  induction w as [f|f p IH]; intros a b; cbn [win_origin_loop origin wframe fst snd].
  - reflexivity.
  - rewrite IH. destruct (origin p) as [x y]; cbn [fst snd]. f_equal; lia.
Qed.

Lemma win_origin_spec w : win_origin w = origin w.
Proof. unfold win_origin; rewrite win_origin_loop_spec; destruct (origin w); reflexivity. Qed.

(* the recursive bounds checks decide exactly membership in every absolute rectangle *)
Lemma win_setcell_clip_eq w : forall s col row c,
  win_setcell w s col row c =
  if in_clip w (fst (origin w) + col) (snd (origin w) + row)
  then screen_setcell s (fst (origin w) + col) (snd (origin w) + row) c
  else Some s.
Proof.
  induction w as [f|f p IH]; intros s col row c; cbn [win_setcell wframe in_clip origin].
  - unfold in_rect; cbn [origin wframe fst snd].
    destruct ((row >=? fh f) || (col >=? fw f)) eqn:E1.
    { replace ((fcol f <=? fcol f + col) && (fcol f + col <? fcol f + fw f) && (frow f <=? frow f + row) && (frow f + row <? frow f + fh f)) with false by lia. reflexivity. }
    destruct ((row <? 0) || (col <? 0)) eqn:E2.
    { replace ((fcol f <=? fcol f + col) && (fcol f + col <? fcol f + fw f) && (frow f <=? frow f + row) && (frow f + row <? frow f + fh f)) with false by lia. reflexivity. }
    replace ((fcol f <=? fcol f + col) && (fcol f + col <? fcol f + fw f) && (frow f <=? frow f + row) && (frow f + row <? frow f + fh f)) with true by lia.
    f_equal; lia.
  - unfold in_rect; cbn [origin wframe]. destruct (origin p) as [px py] eqn:Ep; cbn [fst snd].
    destruct ((row >=? fh f) || (col >=? fw f)) eqn:E1.
    { replace ((px + fcol f <=? px + fcol f + col) && (px + fcol f + col <? px + fcol f + fw f) && (py + frow f <=? py + frow f + row) && (py + frow f + row <? py + frow f + fh f)) with false by lia. reflexivity. }
    destruct ((row <? 0) || (col <? 0)) eqn:E2.
    { replace ((px + fcol f <=? px + fcol f + col) && (px + fcol f + col <? px + fcol f + fw f) && (py + frow f <=? py + frow f + row) && (py + frow f + row <? py + frow f + fh f)) with false by lia. reflexivity. }
    replace ((px + fcol f <=? px + fcol f + col) && (px + fcol f + col <? px + fcol f + fw f) && (py + frow f <=? py + frow f + row) && (py + frow f + row <? py + frow f + fh f)) with true by lia.
    rewrite IH; cbn [fst snd andb].
    replace (px + (col + fcol f)) with (px + fcol f + col) by lia.
    replace (py + (row + frow f)) with (py + frow f + row) by lia. reflexivity.
Qed.

Lemma win_setstyle_clip_eq w : forall s col row st,
  win_setstyle w s col row st =
  if in_clip w (fst (origin w) + col) (snd (origin w) + row)
  then screen_setstyle s (fst (origin w) + col) (snd (origin w) + row) st
  else Some s.
Proof.
  induction w as [f|f p IH]; intros s col row c; cbn [win_setstyle wframe in_clip origin].
  - unfold in_rect; cbn [origin wframe fst snd].
    destruct ((row >=? fh f) || (col >=? fw f)) eqn:E1.
    { replace ((fcol f <=? fcol f + col) && (fcol f + col <? fcol f + fw f) && (frow f <=? frow f + row) && (frow f + row <? frow f + fh f)) with false by lia. reflexivity. }
    destruct ((row <? 0) || (col <? 0)) eqn:E2.
    { replace ((fcol f <=? fcol f + col) && (fcol f + col <? fcol f + fw f) && (frow f <=? frow f + row) && (frow f + row <? frow f + fh f)) with false by lia. reflexivity. }
    replace ((fcol f <=? fcol f + col) && (fcol f + col <? fcol f + fw f) && (frow f <=? frow f + row) && (frow f + row <? frow f + fh f)) with true by lia.
    f_equal; lia.
  - unfold in_rect; cbn [origin wframe]. destruct (origin p) as [px py] eqn:Ep; cbn [fst snd].
    destruct ((row >=? fh f) || (col >=? fw f)) eqn:E1.
    { replace ((px + fcol f <=? px + fcol f + col) && (px + fcol f + col <? px + fcol f + fw f) && (py + frow f <=? py + frow f + row) && (py + frow f + row <? py + frow f + fh f)) with false by lia. reflexivity. }
    destruct ((row <? 0) || (col <? 0)) eqn:E2.
    { replace ((px + fcol f <=? px + fcol f + col) && (px + fcol f + col <? px + fcol f + fw f) && (py + frow f <=? py + frow f + row) && (py + frow f + row <? py + frow f + fh f)) with false by lia. reflexivity. }
    replace ((px + fcol f <=? px + fcol f + col) && (px + fcol f + col <? px + fcol f + fw f) && (py + frow f <=? py + frow f + row) && (py + frow f + row <? py + frow f + fh f)) with true by lia.
    rewrite IH; cbn [fst snd andb].
    replace (px + (col + fcol f)) with (px + fcol f + col) by lia.
    replace (py + (row + frow f)) with (py + frow f + row) by lia. reflexivity.
Qed.

(* setcell_clip *)
Lemma setcell_clip w s col row c :
  WF s ->
  let X := fst (origin w) + col in
  let Y := snd (origin w) + row in
  exists s', win_setcell w s col row c = Some s' /\
    if visible w s X Y then updated_at s s' X Y (fun _ => c) else s' = s.
Proof.
  intros H X Y. rewrite win_setcell_clip_eq. fold X Y. unfold visible.
  destruct (in_clip w X Y); cbn [andb].
  - apply screen_setcell_spec; exact H.
  - exists s; split; reflexivity.
Qed.

Lemma setstyle_clip w s col row st :
  WF s ->
  let X := fst (origin w) + col in
  let Y := snd (origin w) + row in
  exists s', win_setstyle w s col row st = Some s' /\
    if visible w s X Y then updated_at s s' X Y (fun old => mkCell (cg old) (cw old) st) else s' = s.
Proof.
  intros H X Y. rewrite win_setstyle_clip_eq. fold X Y. unfold visible.
  destruct (in_clip w X Y); cbn [andb].
  - apply screen_setstyle_spec; exact H.
  - exists s; split; reflexivity.
Qed.

(* ------------------------------------------------------------------ sequences of placements *)

Lemma visible_dims w s s' x y : same_dims s s' -> visible w s' x y = visible w s x y.
Proof. intros [H1 H2]; unfold visible, on_screen; rewrite H1, H2; reflexivity. Qed.

Lemma foldM_app {A S} (f : S -> A -> option S) (a b : list A) (s : S) :
  foldM f (a ++ b) s = match foldM f a s with None => None | Some s' => foldM f b s' end.
Proof.
  revert s; induction a as [|x t IH]; intros s; cbn [foldM app]; [reflexivity|].
  destruct (f s x); [apply IH|reflexivity].
Qed.

Lemma draw_places_app w s a b :
  draw_places w s (a ++ b) = match draw_places w s a with None => None | Some s' => draw_places w s' b end.
Proof. apply foldM_app. Qed.

(* the screen after a sequence of placements: inside the clip the last cell placed at a
   point, everywhere else the old content; and it never panics on a well-formed screen *)
Lemma draw_exact w ps : forall s,
  WF s ->
  exists s', draw_places w s ps = Some s' /\ WF s' /\ same_dims s s' /\
    forall X Y, sget s' X Y =
      if visible w s X Y
      then match last_at ps (X - fst (origin w)) (Y - snd (origin w)) with
           | Some c => Some c
           | None => sget s X Y
           end
      else sget s X Y.
Proof.
  induction ps as [|[[x y] c] t IH]; intros s H.
  - exists s; split; [reflexivity|]. split; [exact H|]. split; [apply same_dims_refl|].
    intros X Y; cbn [last_at]; destruct (visible w s X Y); reflexivity.
  - unfold draw_places; cbn [foldM fst snd].
    destruct (setcell_clip w s x y c H) as (s1 & E1 & H1). rewrite E1.
    set (X0 := fst (origin w) + x) in *. set (Y0 := snd (origin w) + y) in *.
    assert (Hs1 : WF s1 /\ same_dims s s1).
    { destruct (visible w s X0 Y0); [destruct H1 as (? & ? & _); auto | subst s1; split; [exact H|apply same_dims_refl]]. }
    destruct Hs1 as [Hwf1 Hd1].
    destruct (IH s1 Hwf1) as (s' & E' & Hwf' & Hd' & Hget). fold (draw_places w s1 t). rewrite E'.
    exists s'; split; [reflexivity|]. split; [exact Hwf'|]. split; [eapply same_dims_trans; eauto|].
    intros X Y. rewrite Hget, (visible_dims w s s1 X Y Hd1). cbn [last_at fst snd].
    destruct (visible w s X Y) eqn:EV.
    + destruct (last_at t (X - fst (origin w)) (Y - snd (origin w))); [reflexivity|].
      destruct ((x =? X - fst (origin w)) && (y =? Y - snd (origin w))) eqn:EQ.
      * assert (X = X0 /\ Y = Y0) as [-> ->] by (unfold X0, Y0; lia).
        rewrite EV in H1. destruct H1 as (_ & _ & (old & _ & Hn) & _). exact Hn.
      * destruct (visible w s X0 Y0); [|subst s1; reflexivity].
        destruct H1 as (_ & _ & _ & Hrest). apply Hrest. unfold X0, Y0; lia.
    + destruct (visible w s X0 Y0) eqn:EV0; [|subst s1; reflexivity].
      destruct H1 as (_ & _ & _ & Hrest). apply Hrest.
      destruct (Z.eq_dec X X0) as [->|]; [|auto]. destruct (Z.eq_dec Y Y0) as [->|]; [|auto]. congruence.
Qed.

(* nothing outside the clip changes *)
Definition clipped (w : window) (s s' : screen) : Prop :=
  WF s' /\ same_dims s s' /\ forall X Y, visible w s X Y = false -> sget s' X Y = sget s X Y.

Lemma draw_places_clipped w ps s :
  WF s -> exists s', draw_places w s ps = Some s' /\ clipped w s s'.
Proof.
  intros H. destruct (draw_exact w ps s H) as (s' & E & Hwf & Hd & Hget).
  exists s'; split; [exact E|]. split; [exact Hwf|]. split; [exact Hd|].
  intros X Y HV. rewrite Hget, HV. reflexivity.
Qed.

(* ------------------------------------------------------------------ the text helpers are their layouts *)

Section TextProofs.
Variable measure : text -> Z.
Variable remeasure : bool.
Variable trailing : text -> bool.

Notation cwidth := (char_width measure remeasure).

Lemma draw_places_cons w s p ps :
  draw_places w s (p :: ps) =
  match win_setcell w s (fst (fst p)) (snd (fst p)) (snd p) with
  | None => None
  | Some s' => draw_places w s' ps
  end.
Proof. reflexivity. Qed.

Lemma print_loop_places w cols rows items : forall s col row,
  print_loop measure remeasure w cols rows items s col row =
  match draw_places w s (fst (print_places measure remeasure cols rows items col row)) with
  | None => None
  | Some s' => Some (s', snd (print_places measure remeasure cols rows items col row))
  end.
Proof.
  induction items as [|[ch st] t IH]; intros s col row; cbn [print_loop print_places].
  - reflexivity.
  - destruct (has_nl (gr ch)); [apply IH|].
    destruct (row >? rows); [reflexivity|].
    destruct (fit cols col row (cwidth ch)) as [[c1 r1]|]; [|apply IH].
    cbn [fst snd]. rewrite draw_places_cons; cbn [fst snd].
    destruct (win_setcell w s c1 r1 (mkCell (gr ch) (cwidth ch) st)) as [s1|]; [|reflexivity].
    destruct (c1 + cwidth ch >=? cols); apply IH.
Qed.

Lemma ptrunc_loop_places w cols items : forall s col row,
  ptrunc_loop measure remeasure w cols items s col row =
  draw_places w s (ptrunc_places measure remeasure cols items col row).
Proof.
  induction items as [|[ch st] t IH]; intros s col row; cbn [ptrunc_loop ptrunc_places].
  - reflexivity.
  - destruct (col + 1 + cwidth ch >? cols).
    + rewrite draw_places_cons; cbn [fst snd].
      destruct (win_setcell w s col row (mkCell ellipsis 1 st)); reflexivity.
    + rewrite draw_places_cons; cbn [fst snd].
      destruct (win_setcell w s col row (mkCell (gr ch) (cwidth ch) st)); [apply IH|reflexivity].
Qed.

Lemma println_loop_places w cols items : forall s col row,
  println_loop measure remeasure w cols items s col row =
  draw_places w s (println_places measure remeasure cols items col row).
Proof.
  induction items as [|[ch st] t IH]; intros s col row; cbn [println_loop println_places].
  - reflexivity.
  - destruct (col + cwidth ch >? cols); [reflexivity|].
    rewrite draw_places_cons; cbn [fst snd].
    destruct (win_setcell w s col row (mkCell (gr ch) (cwidth ch) st)); [apply IH|reflexivity].
Qed.

Lemma wrap_chars_places_eq w cols chars st : forall s col row,
  wrap_chars trailing w cols chars st s col row =
  match draw_places w s (fst (wrap_chars_places trailing cols chars st col row)) with
  | None => None
  | Some s' => Some (s', snd (wrap_chars_places trailing cols chars st col row))
  end.
Proof.
  induction chars as [|ch t IH]; intros s col row; cbn [wrap_chars wrap_chars_places].
  - reflexivity.
  - destruct (trailing (gr ch)); [apply IH|].
    destruct (fit cols col row (wd ch)) as [[c1 r1]|]; [|apply IH].
    cbn [fst snd]. rewrite draw_places_cons; cbn [fst snd].
    destruct (win_setcell w s c1 r1 (mkCell (gr ch) (wd ch) st)) as [s1|]; [|reflexivity].
    destruct (c1 + wd ch >=? cols); apply IH.
Qed.

Lemma wrap_loop_places w cols rows lsegs : forall s col row,
  wrap_loop measure remeasure trailing w cols rows lsegs s col row =
  match draw_places w s (fst (wrap_places measure remeasure trailing cols rows lsegs col row)) with
  | None => None
  | Some s' => Some (s', snd (wrap_places measure remeasure trailing cols rows lsegs col row))
  end.
Proof.
  induction lsegs as [|[cls st] t IH]; intros s col row; cbn [wrap_loop wrap_places].
  - reflexivity.
  - destruct (row >=? rows); [reflexivity|].
    set (chars := characters cls). set (total := zsum (map cwidth chars)).
    unfold wrap_start.
    set (start := if total >? cols then (col, row) else if total + col >? cols then (0, row + 1) else (col, row)).
    destruct start as [c0 r0] eqn:Es. cbn [fst snd].
    rewrite wrap_chars_places_eq. rewrite draw_places_app.
    destruct (draw_places w s (fst (wrap_chars_places trailing cols chars st c0 r0))) as [s1|]; [|reflexivity].
    destruct (snd (wrap_chars_places trailing cols chars st c0 r0)) as [c2 r2]. cbn [fst snd].
    apply IH.
Qed.

End TextProofs.

(* ------------------------------------------------------------------ Fill *)

Definition fill_places (cols rows : Z) (c : cell) : list placement :=
  flat_map (fun row => map (fun col => (col, row, c)) (zrange cols)) (zrange rows).

Lemma foldM_map {A B S} (f : S -> B -> option S) (g : A -> B) (l : list A) (s : S) :
  foldM f (map g l) s = foldM (fun s x => f s (g x)) l s.
Proof. revert s; induction l as [|x t IH]; intros s; cbn [foldM map]; [reflexivity|]. destruct (f s (g x)); auto. Qed.

Lemma foldM_flat_map {A B S} (f : S -> B -> option S) (h : A -> list B) (l : list A) (s : S) :
  foldM f (flat_map h l) s = foldM (fun s x => foldM f (h x) s) l s.
Proof.
  revert s; induction l as [|x t IH]; intros s; cbn [foldM flat_map]; [reflexivity|].
  rewrite foldM_app. destruct (foldM f (h x) s); auto.
Qed.

Lemma win_fill_places w s c :
  win_fill w s c = draw_places w s (fill_places (fw (wframe w)) (fh (wframe w)) c).
Proof.
  unfold win_fill, win_size, draw_places, fill_places. rewrite foldM_flat_map.
  assert (E : forall (rows : list Z) s0,
    foldM (fun s1 row => foldM (fun s2 col => win_setcell w s2 col row c) (zrange (fw (wframe w))) s1) rows s0 =
    foldM (fun s1 x => foldM (fun s2 p => win_setcell w s2 (fst (fst p)) (snd (fst p)) (snd p))
                            (map (fun col => (col, x, c)) (zrange (fw (wframe w)))) s1) rows s0).
  { induction rows as [|r t IH]; intros s0; cbn [foldM]; [reflexivity|].
    rewrite foldM_map; cbn [fst snd].
    destruct (foldM (fun s2 x => win_setcell w s2 x r c) (zrange (fw (wframe w))) s0); auto. }
  apply E.
Qed.

Lemma In_zrange n i : In i (zrange n) <-> 0 <= i < n.
Proof.
  unfold zrange; rewrite in_map_iff; split.
  - intros (k & <- & Hk); apply in_seq in Hk; lia.
  - intros H; exists (Z.to_nat i); split; [lia|]. apply in_seq; lia.
Qed.

Lemma In_fill_places cols rows c p :
  In p (fill_places cols rows c) <-> snd p = c /\ 0 <= fst (fst p) < cols /\ 0 <= snd (fst p) < rows.
Proof.
  unfold fill_places; rewrite in_flat_map; split.
  - intros (r & Hr & Hp). apply in_map_iff in Hp as (cl & <- & Hc). apply In_zrange in Hr, Hc. cbn [fst snd]; auto.
  - intros (Hc & Hx & Hy). destruct p as [[x y] c']; cbn [fst snd] in *; subst c'.
    exists y; split; [apply In_zrange; exact Hy|]. apply in_map_iff; exists x; split; [reflexivity|apply In_zrange; exact Hx].
Qed.

Lemma last_at_uniform ps c col row :
  (forall p, In p ps -> snd p = c) ->
  (exists p, In p ps /\ fst (fst p) = col /\ snd (fst p) = row) ->
  last_at ps col row = Some c.
Proof.
  induction ps as [|p t IH]; intros Hall (q & Hin & Hx & Hy); [destruct Hin|]. cbn [last_at].
  destruct (last_at t col row) as [c'|] eqn:E.
  - destruct Hin as [->|Hin].
    + (* something later is also there: it carries c too *)
      clear IH. revert E. assert (Ht : forall p, In p t -> snd p = c) by (intros; apply Hall; right; auto).
      clear Hall. induction t as [|p' t' IH']; cbn [last_at]; [discriminate|].
      destruct (last_at t' col row) eqn:E'.
      * intros H; apply IH'; [intros; apply Ht; right; auto|exact H].
      * destruct ((fst (fst p') =? col) && (snd (fst p') =? row)); [|discriminate].
        intros H; injection H as <-. f_equal; apply Ht; left; reflexivity.
    + rewrite <- E; apply IH; [intros; apply Hall; right; auto|eauto].
  - destruct Hin as [->|Hin].
    + replace ((fst (fst q) =? col) && (snd (fst q) =? row)) with true by lia.
      f_equal; apply Hall; left; reflexivity.
    + rewrite IH in E; [discriminate|intros; apply Hall; right; auto|eauto].
Qed.

Lemma last_at_none ps col row :
  (forall p, In p ps -> fst (fst p) <> col \/ snd (fst p) <> row) -> last_at ps col row = None.
Proof.
  induction ps as [|p t IH]; intros H; cbn [last_at]; [reflexivity|].
  rewrite IH by (intros; apply H; right; auto).
  specialize (H p (or_introl eq_refl)).
  destruct ((fst (fst p) =? col) && (snd (fst p) =? row)) eqn:E; [lia|reflexivity].
Qed.

Lemma in_clip_in_rect w x y : in_clip w x y = true -> in_rect w x y = true.
Proof. destruct w; cbn [in_clip]; [auto|]. intros H; apply andb_prop in H; tauto. Qed.

Lemma in_rect_range w x y :
  in_rect w x y = true ->
  0 <= x - fst (origin w) < fw (wframe w) /\ 0 <= y - snd (origin w) < fh (wframe w).
Proof. unfold in_rect; destruct (origin w) as [ox oy]; cbn [fst snd]; lia. Qed.

(* Fill: afterwards exactly the clip carries the cell *)
Lemma fill_exact w s c :
  WF s -> exists s', win_fill w s c = Some s' /\ WF s' /\ same_dims s s' /\
    forall X Y, sget s' X Y = if visible w s X Y then Some c else sget s X Y.
Proof.
  intros H. rewrite win_fill_places.
  destruct (draw_exact w (fill_places (fw (wframe w)) (fh (wframe w)) c) s H) as (s' & E & Hwf & Hd & Hget).
  exists s'; split; [exact E|]. split; [exact Hwf|]. split; [exact Hd|].
  intros X Y; rewrite Hget. destruct (visible w s X Y) eqn:EV; [|reflexivity].
  unfold visible in EV. apply andb_prop in EV as [EC _]. apply in_clip_in_rect, in_rect_range in EC.
  rewrite (last_at_uniform _ c); [reflexivity| |].
  - intros p Hp; apply In_fill_places in Hp; tauto.
  - exists (X - fst (origin w), Y - snd (origin w), c); split; [|split; reflexivity].
    apply In_fill_places; cbn [fst snd]; tauto.
Qed.
