(* C11 — proofs about model/Window.v *)
From Vx Require Import base.Prelude base.ListX model.Window.
Require Import ZifyBool.

(* ------------------------------------------------------------------ well-formed screens *)



Lemma same_dims_refl s : same_dims s s.
Proof. split; reflexivity. Qed.

Lemma same_dims_trans a b c : same_dims a b -> same_dims b c -> same_dims a c.
Proof. unfold same_dims; intros [H1 H2] [H3 H4]; split; congruence. Qed.

Lemma Forall_repeat {A} (P : A -> Prop) x n : P x -> Forall P (repeat x n).
Proof. intros H; induction n; simpl; constructor; auto. Qed.

Lemma screen_resize_WF cols rows s : screen_resize cols rows = Some s -> WF s /\ scols s = cols /\ srows s = rows.
Proof.
  unfold screen_resize. destruct (rows <? 0) eqn:E1; [discriminate|].
  destruct ((0 <? rows) && (cols <? 0)) eqn:E2; [discriminate|].
  intros H; injection H as <-; cbn [scols srows sbuf]. split; [|auto]. split; cbn [scols srows sbuf].
  - apply zlen_repeat; lia.
  - destruct (Z_lt_dec cols 0).
    + assert (rows = 0) by lia; subst. constructor.
    + apply Forall_repeat, zlen_repeat; lia.
Qed.

Lemma bg_screen_WF bg cols rows : 0 <= cols -> 0 <= rows -> WF (bg_screen bg cols rows).
Proof.
  intros Hc Hr; split; cbn [bg_screen scols srows sbuf].
  - apply zlen_repeat; lia.
  - apply Forall_repeat, zlen_repeat; lia.
Qed.

Lemma In_upd_nat {A} (l : list A) n v x : In x (upd_nat l n v) -> x = v \/ In x l.
Proof.
  revert n; induction l as [|h t IH]; intros [|n] H; simpl in *; auto.
  - destruct H as [<-|H]; auto.
  - destruct H as [<-|H]; auto. apply IH in H as [->|H]; auto.
Qed.

Lemma sget_some_range s x y c : WF s -> sget s x y = Some c -> 0 <= x < scols s /\ 0 <= y < srows s.
Proof.
  intros [Hl Hf] H; unfold sget in H. destruct (zget (sbuf s) y) as [line|] eqn:E; [|discriminate].
  pose proof (zget_some_range _ _ _ E). pose proof (zget_some_range _ _ _ H).
  rewrite Forall_forall in Hf. rewrite <- (Hf line (zget_In _ _ _ E)). lia.
Qed.

Lemma sget_in_range s x y : WF s -> 0 <= x < scols s -> 0 <= y < srows s -> exists c, sget s x y = Some c.
Proof.
  intros [Hl Hf] Hx Hy. unfold sget.
  destruct (zget_in_range (sbuf s) y) as [line E]; [lia|]. rewrite E.
  rewrite Forall_forall in Hf. apply zget_in_range. rewrite (Hf line (zget_In _ _ _ E)). lia.
Qed.

(* the one place where the buffer is written *)
Lemma buf_put_spec s col row f :
  WF s -> 0 <= col < scols s -> 0 <= row < srows s ->
  exists s' old, buf_put s col row f = Some s' /\ WF s' /\ same_dims s s' /\
    sget s col row = Some old /\ sget s' col row = Some (f old) /\
    forall x y, (x <> col \/ y <> row) -> sget s' x y = sget s x y.
Proof.
  intros [Hl Hf] Hc Hr. unfold buf_put, sget.
  destruct (zget_in_range (sbuf s) row) as [line E]; [lia|]. rewrite E.
  rewrite Forall_forall in Hf. pose proof (Hf line (zget_In _ _ _ E)) as Hline.
  destruct (zget_in_range line col) as [old Eo]; [lia|]. rewrite Eo.
  destruct (proj2 (zupd_some_iff line col (f old))) as [line' El]; [lia|]. rewrite El.
  destruct (proj2 (zupd_some_iff (sbuf s) row line')) as [b Eb]; [lia|]. rewrite Eb.
  exists (mkScreen (scols s) (srows s) b), old. cbn [scols srows sbuf].
  split; [reflexivity|]. split; [|split; [split; reflexivity|]].
  - split; cbn [scols srows sbuf].
    + rewrite (zupd_length _ _ _ _ Eb); exact Hl.
    + rewrite Forall_forall; intros l Hin.
      unfold zupd in Eb. destruct ((row <? 0) || (zlen (sbuf s) <=? row)); [discriminate|].
      injection Eb as <-. apply In_upd_nat in Hin as [->|Hin]; [|auto].
      rewrite (zupd_length _ _ _ _ El); exact Hline.
  - split; [reflexivity|]. split.
    + rewrite (zget_zupd_same _ _ _ _ Eb). apply (zget_zupd_same _ _ _ _ El).
    + intros x y Hne. destruct (Z.eq_dec y row) as [->|Hy].
      * rewrite (zget_zupd_same _ _ _ _ Eb), E. apply (zget_zupd_other _ _ _ _ _ El). destruct Hne; congruence.
      * rewrite (zget_zupd_other _ _ _ _ _ Eb); [reflexivity|congruence].
Qed.


Lemma screen_setcell_spec s col row c :
  WF s -> exists s', screen_setcell s col row c = Some s' /\
    if on_screen s col row then updated_at s s' col row (fun _ => c) else s' = s.
Proof.
  intros H. unfold screen_setcell, on_screen.
  destruct ((col <? 0) || (row <? 0)) eqn:E1.
  { exists s; split; [reflexivity|]. destruct ((0 <=? col) && (col <? scols s) && (0 <=? row) && (row <? srows s)) eqn:E; [lia|reflexivity]. }
  destruct (col >=? scols s) eqn:E2.
  { exists s; split; [reflexivity|]. destruct ((0 <=? col) && (col <? scols s) && (0 <=? row) && (row <? srows s)) eqn:E; [lia|reflexivity]. }
  destruct (row >=? srows s) eqn:E3.
  { exists s; split; [reflexivity|]. destruct ((0 <=? col) && (col <? scols s) && (0 <=? row) && (row <? srows s)) eqn:E; [lia|reflexivity]. }
  destruct (buf_put_spec s col row (fun _ => c) H) as (s' & old & Hp & Hwf & Hd & Ho & Hn & Hrest); [lia|lia|].
  exists s'; split; [exact Hp|].
  replace ((0 <=? col) && (col <? scols s) && (0 <=? row) && (row <? srows s)) with true by lia.
  split; [exact Hwf|]. split; [exact Hd|]. split; [exists old; auto|exact Hrest].
Qed.

Lemma screen_setstyle_spec s col row st :
  WF s -> exists s', screen_setstyle s col row st = Some s' /\
    if on_screen s col row then updated_at s s' col row (fun old => mkCell (cg old) (cw old) st) else s' = s.
Proof.
  intros H. unfold screen_setstyle, on_screen.
  destruct ((col <? 0) || (row <? 0)) eqn:E1.
  { exists s; split; [reflexivity|]. destruct ((0 <=? col) && (col <? scols s) && (0 <=? row) && (row <? srows s)) eqn:E; [lia|reflexivity]. }
  destruct (col >=? scols s) eqn:E2.
  { exists s; split; [reflexivity|]. destruct ((0 <=? col) && (col <? scols s) && (0 <=? row) && (row <? srows s)) eqn:E; [lia|reflexivity]. }
  destruct (row >=? srows s) eqn:E3.
  { exists s; split; [reflexivity|]. destruct ((0 <=? col) && (col <? scols s) && (0 <=? row) && (row <? srows s)) eqn:E; [lia|reflexivity]. }
  destruct (buf_put_spec s col row (fun old => mkCell (cg old) (cw old) st) H) as (s' & old & Hp & Hwf & Hd & Ho & Hn & Hrest); [lia|lia|].
  exists s'; split; [exact Hp|].
  replace ((0 <=? col) && (col <? scols s) && (0 <=? row) && (row <? srows s)) with true by lia.
  split; [exact Hwf|]. split; [exact Hd|]. split; [exists old; auto|exact Hrest].
Qed.

(* ------------------------------------------------------------------ SetCell / SetStyle through a chain *)

(* Origin() computes the absolute origin *)
Lemma win_origin_loop_spec w : forall a b, win_origin_loop w a b = (a + fst (origin w), b + snd (origin w)).
Proof.
  induction w as [f|f p IH]; intros a b; cbn [win_origin_loop origin wframe fst snd].
  - reflexivity.
  - rewrite IH. destruct (origin p) as [x y]; cbn [fst snd]. f_equal; lia.
Qed.

Lemma win_origin_spec w : win_origin w = origin w.
Proof. unfold win_origin; rewrite win_origin_loop_spec; destruct (origin w); reflexivity. Qed.

(* the recursive bounds checks decide exactly membership in every absolute rectangle *)
Lemma win_setcell_clip_eq w : forall s col row c,
  win_setcell w s col row c =
  if in_clip w (fst (origin w) + col) (snd (origin w) + row)
  then screen_setcell s (fst (origin w) + col) (snd (origin w) + row) c
  else Some s.
Proof.
  induction w as [f|f p IH]; intros s col row c; cbn [win_setcell wframe in_clip origin].
  - unfold in_rect; cbn [origin wframe fst snd].
    destruct ((row >=? fh f) || (col >=? fw f)) eqn:E1.
    { replace ((fcol f <=? fcol f + col) && (fcol f + col <? fcol f + fw f) && (frow f <=? frow f + row) && (frow f + row <? frow f + fh f)) with false by lia. reflexivity. }
    destruct ((row <? 0) || (col <? 0)) eqn:E2.
    { replace ((fcol f <=? fcol f + col) && (fcol f + col <? fcol f + fw f) && (frow f <=? frow f + row) && (frow f + row <? frow f + fh f)) with false by lia. reflexivity. }
    replace ((fcol f <=? fcol f + col) && (fcol f + col <? fcol f + fw f) && (frow f <=? frow f + row) && (frow f + row <? frow f + fh f)) with true by lia.
    f_equal; lia.
  - unfold in_rect; cbn [origin wframe]. destruct (origin p) as [px py] eqn:Ep; cbn [fst snd].
    destruct ((row >=? fh f) || (col >=? fw f)) eqn:E1.
    { replace ((px + fcol f <=? px + fcol f + col) && (px + fcol f + col <? px + fcol f + fw f) && (py + frow f <=? py + frow f + row) && (py + frow f + row <? py + frow f + fh f)) with false by lia. reflexivity. }
    destruct ((row <? 0) || (col <? 0)) eqn:E2.
    { replace ((px + fcol f <=? px + fcol f + col) && (px + fcol f + col <? px + fcol f + fw f) && (py + frow f <=? py + frow f + row) && (py + frow f + row <? py + frow f + fh f)) with false by lia. reflexivity. }
    replace ((px + fcol f <=? px + fcol f + col) && (px + fcol f + col <? px + fcol f + fw f) && (py + frow f <=? py + frow f + row) && (py + frow f + row <? py + frow f + fh f)) with true by lia.
    rewrite IH; cbn [fst snd andb].
    replace (px + (col + fcol f)) with (px + fcol f + col) by lia.
    replace (py + (row + frow f)) with (py + frow f + row) by lia. reflexivity.
Qed.

Lemma win_setstyle_clip_eq w : forall s col row st,
  win_setstyle w s col row st =
  if in_clip w (fst (origin w) + col) (snd (origin w) + row)
  then screen_setstyle s (fst (origin w) + col) (snd (origin w) + row) st
  else Some s.
Proof.
  induction w as [f|f p IH]; intros s col row c; cbn [win_setstyle wframe in_clip origin].
  - unfold in_rect; cbn [origin wframe fst snd].
    destruct ((row >=? fh f) || (col >=? fw f)) eqn:E1.
    { replace ((fcol f <=? fcol f + col) && (fcol f + col <? fcol f + fw f) && (frow f <=? frow f + row) && (frow f + row <? frow f + fh f)) with false by lia. reflexivity. }
    destruct ((row <? 0) || (col <? 0)) eqn:E2.
    { replace ((fcol f <=? fcol f + col) && (fcol f + col <? fcol f + fw f) && (frow f <=? frow f + row) && (frow f + row <? frow f + fh f)) with false by lia. reflexivity. }
    replace ((fcol f <=? fcol f + col) && (fcol f + col <? fcol f + fw f) && (frow f <=? frow f + row) && (frow f + row <? frow f + fh f)) with true by lia.
    f_equal; lia.
  - unfold in_rect; cbn [origin wframe]. destruct (origin p) as [px py] eqn:Ep; cbn [fst snd].
    destruct ((row >=? fh f) || (col >=? fw f)) eqn:E1.
    { replace ((px + fcol f <=? px + fcol f + col) && (px + fcol f + col <? px + fcol f + fw f) && (py + frow f <=? py + frow f + row) && (py + frow f + row <? py + frow f + fh f)) with false by lia. reflexivity. }
    destruct ((row <? 0) || (col <? 0)) eqn:E2.
    { replace ((px + fcol f <=? px + fcol f + col) && (px + fcol f + col <? px + fcol f + fw f) && (py + frow f <=? py + frow f + row) && (py + frow f + row <? py + frow f + fh f)) with false by lia. reflexivity. }
    replace ((px + fcol f <=? px + fcol f + col) && (px + fcol f + col <? px + fcol f + fw f) && (py + frow f <=? py + frow f + row) && (py + frow f + row <? py + frow f + fh f)) with true by lia.
    rewrite IH; cbn [fst snd andb].
    replace (px + (col + fcol f)) with (px + fcol f + col) by lia.
    replace (py + (row + frow f)) with (py + frow f + row) by lia. reflexivity.
Qed.

(* setcell_clip *)
Lemma setcell_clip w s col row c :
  WF s ->
  let X := fst (origin w) + col in
  let Y := snd (origin w) + row in
  exists s', win_setcell w s col row c = Some s' /\
    if visible w s X Y then updated_at s s' X Y (fun _ => c) else s' = s.
Proof.
  intros H X Y. rewrite win_setcell_clip_eq. fold X Y. unfold visible.
  destruct (in_clip w X Y); cbn [andb].
  - apply screen_setcell_spec; exact H.
  - exists s; split; reflexivity.
Qed.

Lemma setstyle_clip w s col row st :
  WF s ->
  let X := fst (origin w) + col in
  let Y := snd (origin w) + row in
  exists s', win_setstyle w s col row st = Some s' /\
    if visible w s X Y then updated_at s s' X Y (fun old => mkCell (cg old) (cw old) st) else s' = s.
Proof.
  intros H X Y. rewrite win_setstyle_clip_eq. fold X Y. unfold visible.
  destruct (in_clip w X Y); cbn [andb].
  - apply screen_setstyle_spec; exact H.
  - exists s; split; reflexivity.
Qed.

(* ------------------------------------------------------------------ sequences of placements *)

Lemma visible_dims w s s' x y : same_dims s s' -> visible w s' x y = visible w s x y.
Proof. intros [H1 H2]; unfold visible, on_screen; rewrite H1, H2; reflexivity. Qed.

Lemma foldM_app {A S} (f : S -> A -> option S) (a b : list A) (s : S) :
  foldM f (a ++ b) s = match foldM f a s with None => None | Some s' => foldM f b s' end.
Proof.
  revert s; induction a as [|x t IH]; intros s; cbn [foldM app]; [reflexivity|].
  destruct (f s x); [apply IH|reflexivity].
Qed.

Lemma draw_places_app w s a b :
  draw_places w s (a ++ b) = match draw_places w s a with None => None | Some s' => draw_places w s' b end.
Proof. apply foldM_app. Qed.

(* the screen after a sequence of placements: inside the clip the last cell placed at a
   point, everywhere else the old content; and it never panics on a well-formed screen *)
Lemma draw_exact w ps : forall s,
  WF s ->
  exists s', draw_places w s ps = Some s' /\ WF s' /\ same_dims s s' /\
    forall X Y, sget s' X Y =
      if visible w s X Y
      then match last_at ps (X - fst (origin w)) (Y - snd (origin w)) with
           | Some c => Some c
           | None => sget s X Y
           end
      else sget s X Y.
Proof.
  induction ps as [|[[x y] c] t IH]; intros s H.
  - exists s; split; [reflexivity|]. split; [exact H|]. split; [apply same_dims_refl|].
    intros X Y; cbn [last_at]; destruct (visible w s X Y); reflexivity.
  - unfold draw_places; cbn [foldM fst snd].
    destruct (setcell_clip w s x y c H) as (s1 & E1 & H1). rewrite E1.
    set (X0 := fst (origin w) + x) in *. set (Y0 := snd (origin w) + y) in *.
    assert (Hs1 : WF s1 /\ same_dims s s1).
    { destruct (visible w s X0 Y0); [destruct H1 as (? & ? & _); auto | subst s1; split; [exact H|apply same_dims_refl]]. }
    destruct Hs1 as [Hwf1 Hd1].
    destruct (IH s1 Hwf1) as (s' & E' & Hwf' & Hd' & Hget). fold (draw_places w s1 t). rewrite E'.
    exists s'; split; [reflexivity|]. split; [exact Hwf'|]. split; [eapply same_dims_trans; eauto|].
    intros X Y. rewrite Hget, (visible_dims w s s1 X Y Hd1). cbn [last_at fst snd].
    destruct (visible w s X Y) eqn:EV.
    + destruct (last_at t (X - fst (origin w)) (Y - snd (origin w))); [reflexivity|].
      destruct ((x =? X - fst (origin w)) && (y =? Y - snd (origin w))) eqn:EQ.
      * assert (X = X0 /\ Y = Y0) as [-> ->] by (unfold X0, Y0; lia).
        rewrite EV in H1. destruct H1 as (_ & _ & (old & _ & Hn) & _). exact Hn.
      * destruct (visible w s X0 Y0); [|subst s1; reflexivity].
        destruct H1 as (_ & _ & _ & Hrest). apply Hrest. unfold X0, Y0; lia.
    + destruct (visible w s X0 Y0) eqn:EV0; [|subst s1; reflexivity].
      destruct H1 as (_ & _ & _ & Hrest). apply Hrest.
      destruct (Z.eq_dec X X0) as [->|]; [|auto]. destruct (Z.eq_dec Y Y0) as [->|]; [|auto]. congruence.
Qed.


Lemma draw_places_clipped w ps s :
  WF s -> exists s', draw_places w s ps = Some s' /\ clipped w s s'.
Proof.
  intros H. destruct (draw_exact w ps s H) as (s' & E & Hwf & Hd & Hget).
  exists s'; split; [exact E|]. split; [exact Hwf|]. split; [exact Hd|].
  intros X Y HV. rewrite Hget, HV. reflexivity.
Qed.

(* ------------------------------------------------------------------ the text helpers are their layouts *)

Section TextProofs.
Variable measure : text -> Z.
Variable remeasure : bool.
Variable trailing : text -> bool.

Notation cwidth := (char_width measure remeasure).

Lemma draw_places_cons w s p ps :
  draw_places w s (p :: ps) =
  match win_setcell w s (fst (fst p)) (snd (fst p)) (snd p) with
  | None => None
  | Some s' => draw_places w s' ps
  end.
Proof. reflexivity. Qed.

Lemma print_loop_places w cols rows items : forall s col row,
  print_loop measure remeasure w cols rows items s col row =
  match draw_places w s (fst (print_places measure remeasure cols rows items col row)) with
  | None => None
  | Some s' => Some (s', snd (print_places measure remeasure cols rows items col row))
  end.
Proof.
  induction items as [|[ch st] t IH]; intros s col row; cbn [print_loop print_places].
  - reflexivity.
  - destruct (has_nl (gr ch)); [apply IH|].
    destruct (row >? rows); [reflexivity|].
    destruct (fit cols col row (cwidth ch)) as [[c1 r1]|]; [|apply IH].
    cbn [fst snd]. rewrite draw_places_cons; cbn [fst snd].
    destruct (win_setcell w s c1 r1 (mkCell (gr ch) (cwidth ch) st)) as [s1|]; [|reflexivity].
    destruct (c1 + cwidth ch >=? cols); apply IH.
Qed.

Lemma ptrunc_loop_places w cols items : forall s col row,
  ptrunc_loop measure remeasure w cols items s col row =
  draw_places w s (ptrunc_places measure remeasure cols items col row).
Proof.
  induction items as [|[ch st] t IH]; intros s col row; cbn [ptrunc_loop ptrunc_places].
  - reflexivity.
  - destruct (col + 1 + cwidth ch >? cols).
    + rewrite draw_places_cons; cbn [fst snd].
      destruct (win_setcell w s col row (mkCell ellipsis 1 st)); reflexivity.
    + rewrite draw_places_cons; cbn [fst snd].
      destruct (win_setcell w s col row (mkCell (gr ch) (cwidth ch) st)); [apply IH|reflexivity].
Qed.

Lemma println_loop_places w cols items : forall s col row,
  println_loop measure remeasure w cols items s col row =
  draw_places w s (println_places measure remeasure cols items col row).
Proof.
  induction items as [|[ch st] t IH]; intros s col row; cbn [println_loop println_places].
  - reflexivity.
  - destruct (col + cwidth ch >? cols); [reflexivity|].
    rewrite draw_places_cons; cbn [fst snd].
    destruct (win_setcell w s col row (mkCell (gr ch) (cwidth ch) st)); [apply IH|reflexivity].
Qed.

Lemma wrap_chars_places_eq w cols chars st : forall s col row,
  wrap_chars trailing w cols chars st s col row =
  match draw_places w s (fst (wrap_chars_places trailing cols chars st col row)) with
  | None => None
  | Some s' => Some (s', snd (wrap_chars_places trailing cols chars st col row))
  end.
Proof.
  induction chars as [|ch t IH]; intros s col row; cbn [wrap_chars wrap_chars_places].
  - reflexivity.
  - destruct (trailing (gr ch)); [apply IH|].
    destruct (fit cols col row (wd ch)) as [[c1 r1]|]; [|apply IH].
    cbn [fst snd]. rewrite draw_places_cons; cbn [fst snd].
    destruct (win_setcell w s c1 r1 (mkCell (gr ch) (wd ch) st)) as [s1|]; [|reflexivity].
    destruct (c1 + wd ch >=? cols); apply IH.
Qed.

Lemma wrap_loop_places w cols rows lsegs : forall s col row,
  wrap_loop measure remeasure trailing w cols rows lsegs s col row =
  match draw_places w s (fst (wrap_places measure remeasure trailing cols rows lsegs col row)) with
  | None => None
  | Some s' => Some (s', snd (wrap_places measure remeasure trailing cols rows lsegs col row))
  end.
Proof.
  induction lsegs as [|[cls st] t IH]; intros s col row; cbn [wrap_loop wrap_places].
  - reflexivity.
  - destruct (row >=? rows); [reflexivity|].
    set (chars := map (measured measure remeasure) (characters cls)). set (total := zsum (map wd chars)).
    unfold wrap_start.
    set (start := if total >? cols then (col, row) else if total + col >? cols then (0, row + 1) else (col, row)).
    destruct start as [c0 r0] eqn:Es. cbn [fst snd].
    rewrite wrap_chars_places_eq. rewrite draw_places_app.
    destruct (draw_places w s (fst (wrap_chars_places trailing cols chars st c0 r0))) as [s1|]; [|reflexivity].
    destruct (snd (wrap_chars_places trailing cols chars st c0 r0)) as [c2 r2]. cbn [fst snd].
    apply IH.
Qed.

End TextProofs.

(* ------------------------------------------------------------------ Fill *)

Definition fill_places (cols rows : Z) (c : cell) : list placement :=
  flat_map (fun row => map (fun col => (col, row, c)) (zrange cols)) (zrange rows).

Lemma foldM_map {A B S} (f : S -> B -> option S) (g : A -> B) (l : list A) (s : S) :
  foldM f (map g l) s = foldM (fun s x => f s (g x)) l s.
Proof. revert s; induction l as [|x t IH]; intros s; cbn [foldM map]; [reflexivity|]. destruct (f s (g x)); auto. Qed.

Lemma foldM_flat_map {A B S} (f : S -> B -> option S) (h : A -> list B) (l : list A) (s : S) :
  foldM f (flat_map h l) s = foldM (fun s x => foldM f (h x) s) l s.
Proof.
  revert s; induction l as [|x t IH]; intros s; cbn [foldM flat_map]; [reflexivity|].
  rewrite foldM_app. destruct (foldM f (h x) s); auto.
Qed.

Lemma win_fill_places w s c :
  win_fill w s c = draw_places w s (fill_places (fw (wframe w)) (fh (wframe w)) c).
Proof.
  unfold win_fill, win_size, draw_places, fill_places. rewrite foldM_flat_map.
  assert (E : forall (rows : list Z) s0,
    foldM (fun s1 row => foldM (fun s2 col => win_setcell w s2 col row c) (zrange (fw (wframe w))) s1) rows s0 =
    foldM (fun s1 x => foldM (fun s2 p => win_setcell w s2 (fst (fst p)) (snd (fst p)) (snd p))
                            (map (fun col => (col, x, c)) (zrange (fw (wframe w)))) s1) rows s0).
  { induction rows as [|r t IH]; intros s0; cbn [foldM]; [reflexivity|].
    rewrite foldM_map; cbn [fst snd].
    destruct (foldM (fun s2 x => win_setcell w s2 x r c) (zrange (fw (wframe w))) s0); auto. }
  apply E.
Qed.

Lemma In_zrange n i : In i (zrange n) <-> 0 <= i < n.
Proof.
  unfold zrange; rewrite in_map_iff; split.
  - intros (k & <- & Hk); apply in_seq in Hk; lia.
  - intros H; exists (Z.to_nat i); split; [lia|]. apply in_seq; lia.
Qed.

Lemma In_fill_places cols rows c p :
  In p (fill_places cols rows c) <-> snd p = c /\ 0 <= fst (fst p) < cols /\ 0 <= snd (fst p) < rows.
Proof.
  unfold fill_places; rewrite in_flat_map; split.
  - intros (r & Hr & Hp). apply in_map_iff in Hp as (cl & <- & Hc). apply In_zrange in Hr, Hc. cbn [fst snd]; auto.
  - intros (Hc & Hx & Hy). destruct p as [[x y] c']; cbn [fst snd] in *; subst c'.
    exists y; split; [apply In_zrange; exact Hy|]. apply in_map_iff; exists x; split; [reflexivity|apply In_zrange; exact Hx].
Qed.

Lemma last_at_some_in ps col row c :
  last_at ps col row = Some c -> exists p, In p ps /\ snd p = c /\ fst (fst p) = col /\ snd (fst p) = row.
Proof.
  induction ps as [|p t IH]; cbn [last_at]; [discriminate|].
  destruct (last_at t col row) as [c'|].
  - intros H; injection H as <-. destruct (IH eq_refl) as (q & Hq & Hr); exists q; split; [right; exact Hq|exact Hr].
  - destruct ((fst (fst p) =? col) && (snd (fst p) =? row)) eqn:E; [|discriminate].
    intros H; injection H as <-. exists p; split; [left; reflexivity|]. split; [reflexivity|lia].
Qed.

Lemma last_at_hit ps col row :
  (exists p, In p ps /\ fst (fst p) = col /\ snd (fst p) = row) -> last_at ps col row <> None.
Proof.
  induction ps as [|p t IH]; intros (q & Hin & Hx & Hy); [destruct Hin|]. cbn [last_at].
  destruct (last_at t col row) as [c'|] eqn:E; [discriminate|].
  destruct Hin as [->|Hin].
  - replace ((fst (fst q) =? col) && (snd (fst q) =? row)) with true by lia. discriminate.
  - exfalso; apply IH; eauto.
Qed.

Lemma last_at_uniform ps c col row :
  (forall p, In p ps -> snd p = c) ->
  (exists p, In p ps /\ fst (fst p) = col /\ snd (fst p) = row) ->
  last_at ps col row = Some c.
Proof.
  intros Hall Hex. destruct (last_at ps col row) as [c'|] eqn:E.
  - apply last_at_some_in in E as (p & Hp & <- & _). f_equal; apply Hall; exact Hp.
  - exfalso; revert E; apply last_at_hit; exact Hex.
Qed.

Lemma last_at_none ps col row :
  (forall p, In p ps -> fst (fst p) <> col \/ snd (fst p) <> row) -> last_at ps col row = None.
Proof.
  induction ps as [|p t IH]; intros H; cbn [last_at]; [reflexivity|].
  rewrite IH by (intros; apply H; right; auto).
  specialize (H p (or_introl eq_refl)).
  destruct ((fst (fst p) =? col) && (snd (fst p) =? row)) eqn:E; [lia|reflexivity].
Qed.

Lemma in_clip_in_rect w x y : in_clip w x y = true -> in_rect w x y = true.
Proof. destruct w; cbn [in_clip]; [auto|]. intros H; apply andb_prop in H; tauto. Qed.

Lemma in_rect_range w x y :
  in_rect w x y = true ->
  0 <= x - fst (origin w) < fw (wframe w) /\ 0 <= y - snd (origin w) < fh (wframe w).
Proof. unfold in_rect; destruct (origin w) as [ox oy]; cbn [fst snd]; lia. Qed.

(* Fill: afterwards exactly the clip carries the cell *)
Lemma fill_exact w s c :
  WF s -> exists s', win_fill w s c = Some s' /\ WF s' /\ same_dims s s' /\
    forall X Y, sget s' X Y = if visible w s X Y then Some c else sget s X Y.
Proof.
  intros H. rewrite win_fill_places.
  destruct (draw_exact w (fill_places (fw (wframe w)) (fh (wframe w)) c) s H) as (s' & E & Hwf & Hd & Hget).
  exists s'; split; [exact E|]. split; [exact Hwf|]. split; [exact Hd|].
  intros X Y; rewrite Hget. destruct (visible w s X Y) eqn:EV; [|reflexivity].
  unfold visible in EV. apply andb_prop in EV as [EC _]. apply in_clip_in_rect, in_rect_range in EC.
  rewrite (last_at_uniform _ c); [reflexivity| |].
  - intros p Hp; apply In_fill_places in Hp; tauto.
  - exists (X - fst (origin w), Y - snd (origin w), c); split; [|split; reflexivity].
    apply In_fill_places; cbn [fst snd]; tauto.
Qed.

(* ------------------------------------------------------------------ every drawing call as placements *)

Section Ops.
Variable measure : text -> Z.
Variable remeasure : bool.
Variable trailing : text -> bool.

Definition op_places (w : window) (o : op) : list placement :=
  let cols := fw (wframe w) in
  let rows := fh (wframe w) in
  match o with
  | OSetCell col row c => [(col, row, c)]
  | OSetStyle _ _ _ => []
  | OFill c => fill_places cols rows c
  | OClear => fill_places cols rows space_cell
  | OPrint segs => fst (print_places measure remeasure cols rows (items_of segs) 0 0)
  | OPrintTruncate row segs =>
      if row >=? rows then [] else ptrunc_places measure remeasure cols (items_of segs) 0 row
  | OPrintln row segs =>
      if row >=? rows then [] else println_places measure remeasure cols (items_of segs) 0 row
  | OWrap lsegs => fst (wrap_places measure remeasure trailing cols rows lsegs 0 0)
  end.

Definition is_setstyle (o : op) : bool := match o with OSetStyle _ _ _ => true | _ => false end.

Lemma run_op_places w s o :
  is_setstyle o = false ->
  exists ret, run_op_with measure remeasure trailing w s o =
    match draw_places w s (op_places w o) with None => None | Some s' => Some (s', ret) end.
Proof.
  destruct o as [col row c|col row st|c| |segs|row segs|row segs|lsegs]; intros Hs; try discriminate;
    cbn [run_op_with op_places].
  - exists (0, 0). unfold draw_places; cbn [foldM fst snd]. destruct (win_setcell w s col row c); reflexivity.
  - exists (0, 0). rewrite win_fill_places; reflexivity.
  - exists (0, 0). unfold win_clear; rewrite win_fill_places; reflexivity.
  - eexists. unfold win_print, win_size. rewrite print_loop_places. reflexivity.
  - exists (0, 0). unfold win_print_truncate, win_size. destruct (row >=? fh (wframe w)); [reflexivity|].
    rewrite ptrunc_loop_places; reflexivity.
  - exists (0, 0). unfold win_println, win_size. destruct (row >=? fh (wframe w)); [reflexivity|].
    rewrite println_loop_places; reflexivity.
  - eexists. unfold win_wrap, win_size. rewrite wrap_loop_places. reflexivity.
Qed.

(* draw_clip: no drawing call panics on a well-formed screen or changes anything outside
   the window, its ancestors and the screen *)
Lemma run_op_clipped w s o :
  WF s -> exists s' ret, run_op_with measure remeasure trailing w s o = Some (s', ret) /\ clipped w s s'.
Proof.
  intros H. destruct (is_setstyle o) eqn:Es.
  - destruct o as [| col row st | | | | | |]; try discriminate. cbn [run_op_with].
    destruct (setstyle_clip w s col row st H) as (s' & E & Hv). rewrite E. exists s', (0, 0); split; [reflexivity|].
    destruct (visible w s (fst (origin w) + col) (snd (origin w) + row)) eqn:EV.
    + destruct Hv as (Hwf & Hd & _ & Hrest). split; [exact Hwf|]. split; [exact Hd|].
      intros X Y HV. apply Hrest.
      destruct (Z.eq_dec X (fst (origin w) + col)) as [->|]; [|auto].
      destruct (Z.eq_dec Y (snd (origin w) + row)) as [->|]; [|auto]. congruence.
    + subst s'. split; [exact H|]. split; [apply same_dims_refl|reflexivity].
  - destruct (run_op_places w s o Es) as (ret & E). rewrite E.
    destruct (draw_places_clipped w (op_places w o) s H) as (s' & E' & Hc). rewrite E'.
    exists s', ret; split; [reflexivity|exact Hc].
Qed.

End Ops.

(* ------------------------------------------------------------------ the constructor *)

Lemma clamp_size_edge size off parent : off + clamp_size size off parent <= parent.
Proof. unfold clamp_size. destruct (size <? 0) eqn:E1; [lia|]. destruct (size + off >? parent) eqn:E2; lia. Qed.

Lemma clamp_size_keeps size off parent : 0 <= size -> size + off <= parent -> clamp_size size off parent = size.
Proof. intros H1 H2; unfold clamp_size. destruct (size <? 0) eqn:E1; [lia|]. destruct (size + off >? parent) eqn:E2; [lia|reflexivity]. Qed.

Lemma clamp_size_cases size off parent : clamp_size size off parent = size \/ clamp_size size off parent = parent - off.
Proof. unfold clamp_size. destruct (size <? 0); [auto|]. destruct (size + off >? parent); auto. Qed.

Lemma win_new_edges w col row cols rows C R :
  edges_ok (win_new w col row cols rows) C R = edges_ok w C R.
Proof.
  unfold win_new, win_size. cbn [edges_ok fcol frow fw fh].
  pose proof (clamp_size_edge cols col (fw (wframe w))). pose proof (clamp_size_edge rows row (fh (wframe w))).
  replace (col + clamp_size cols col (fw (wframe w)) <=? fw (wframe w)) with true by lia.
  replace (row + clamp_size rows row (fh (wframe w)) <=? fh (wframe w)) with true by lia.
  reflexivity.
Qed.

Lemma root_window_edges s : edges_ok (root_window s) (scols s) (srows s) = true.
Proof. unfold root_window; cbn [edges_ok fcol frow fw fh]. lia. Qed.

Lemma build_window_edges s ws :
  built_by_constructors ws = true -> edges_ok (build_window s ws) (scols s) (srows s) = true.
Proof.
  destruct ws as [[f|] steps]; unfold built_by_constructors, build_window; cbn [fst snd]; [discriminate|].
  generalize (root_window_edges s). generalize (root_window s).
  induction steps as [|[via [[[a b] c] d]] t IH]; intros w Hw Hall; cbn [fold_left forallb fst] in *; [exact Hw|].
  apply andb_prop in Hall as [Hv Ht]. rewrite Hv. apply IH; [|exact Ht]. rewrite win_new_edges; exact Hw.
Qed.

(* the rectangle of a child made by New at a non-negative offset lies in its parent's *)
Lemma win_new_inside_parent w col row cols rows x y :
  0 <= col -> 0 <= row ->
  in_rect (win_new w col row cols rows) x y = true -> in_rect w x y = true.
Proof.
  intros Hc Hr. unfold win_new, win_size, in_rect. cbn [origin wframe fcol frow fw fh].
  destruct (origin w) as [ox oy].
  pose proof (clamp_size_edge cols col (fw (wframe w))). pose proof (clamp_size_edge rows row (fh (wframe w))).
  lia.
Qed.

(* ------------------------------------------------------------------ glyph footprints *)

Lemma footprint_inside w : forall C R X Y k i,
  edges_ok w C R = true -> in_clip w X Y = true ->
  (X - fst (origin w)) + k <= fw (wframe w) -> 0 <= i < k ->
  in_clip w (X + i) Y = true /\ X + i < C.
Proof.
  induction w as [f|f p IH]; intros C R X Y k i He Hc Hk Hi; cbn [in_clip edges_ok origin wframe] in *.
  - unfold in_rect in *; cbn [origin wframe fst snd] in *. lia.
  - apply andb_prop in Hc as [Hr Hp].
    destruct (origin p) as [px py] eqn:Ep; cbn [fst snd] in *.
    assert (He' : edges_ok p C R = true) by lia.
    destruct (IH C R X Y k i He' Hp) as [H1 H2]; [cbn [fst]; lia|lia|].
    split; [|exact H2]. rewrite H1, andb_true_r.
    unfold in_rect in *; cbn [origin wframe] in *. rewrite Ep in Hr |- *. cbn [fst snd] in *. lia.
Qed.

Lemma glyph_inside w s X Y c :
  edges_ok w (scols s) (srows s) = true -> visible w s X Y = true ->
  (X - fst (origin w)) + cw c <= fw (wframe w) \/ cw c <= 1 ->
  forall i, 0 <= i < glyph_w c -> visible w s (X + i) Y = true.
Proof.
  intros He HV Hfit i Hi. unfold visible in *. apply andb_prop in HV as [Hc Hs].
  unfold glyph_w in Hi.
  destruct (Z_le_dec (cw c) 1) as [Hle|Hgt].
  - assert (i = 0) by lia; subst i. rewrite Z.add_0_r, Hc, Hs; reflexivity.
  - destruct Hfit as [Hfit|]; [|lia].
    destruct (footprint_inside w (scols s) (srows s) X Y (cw c) i He Hc Hfit) as [H1 H2]; [lia|].
    rewrite H1. unfold on_screen in *. lia.
Qed.

(* a cell that changed was put there by one of the placements *)
Lemma changed_by_placement w ps s s' X Y c :
  WF s -> draw_places w s ps = Some s' ->
  sget s' X Y = Some c -> sget s X Y <> Some c ->
  visible w s X Y = true /\
  exists p, In p ps /\ snd p = c /\ fst (fst p) = X - fst (origin w) /\ snd (fst p) = Y - snd (origin w).
Proof.
  intros H E Hn Ho. destruct (draw_exact w ps s H) as (s1 & E1 & _ & _ & Hget).
  rewrite E in E1; injection E1 as <-. rewrite Hget in Hn.
  destruct (visible w s X Y); [|congruence]. split; [reflexivity|].
  destruct (last_at ps (X - fst (origin w)) (Y - snd (origin w))) as [c'|] eqn:EL; [|congruence].
  injection Hn as ->. apply last_at_some_in in EL. exact EL.
Qed.

(* ------------------------------------------------------------------ layout of the text helpers *)

Lemma fit_some cols col row w c1 r1 :
  fit cols col row w = Some (c1, r1) ->
  c1 + w <= cols /\ ((c1 = col /\ r1 = row /\ col + w <= cols) \/ (c1 = 0 /\ r1 = row + 1 /\ cols < col + w)).
Proof.
  unfold fit. destruct (col + w >? cols) eqn:E1.
  - destruct (w >? cols) eqn:E2; [discriminate|]. intros H; injection H as <- <-. lia.
  - intros H; injection H as <- <-. lia.
Qed.

Lemma fit_none cols col row w : fit cols col row w = None -> cols < w /\ cols < col + w.
Proof.
  unfold fit. destruct (col + w >? cols) eqn:E1; [|discriminate].
  destruct (w >? cols) eqn:E2; [|discriminate]. lia.
Qed.


Lemma reach_refl a : reach a a.
Proof. left; auto. Qed.

Lemma reach_trans a b c : reach a b -> reach b c -> reach a c.
Proof. unfold reach; intros [[H1 H2]|[H1 H2]] [[H3 H4]|[H3 H4]]; [left|right|right|right]; lia. Qed.


Lemma path_ok_reach st st' ps en : reach st st' -> path_ok st' ps en -> path_ok st ps en.
Proof. destruct ps as [|p t]; cbn [path_ok]; [apply reach_trans|]. intros H [H1 H2]; split; [eapply reach_trans; eauto|exact H2]. Qed.

Lemma path_ok_app a ps1 b ps2 c : path_ok a ps1 b -> path_ok b ps2 c -> path_ok a (ps1 ++ ps2) c.
Proof.
  revert a; induction ps1 as [|p t IH]; intros a; cbn [path_ok app].
  - apply path_ok_reach.
  - intros [H1 H2] H3; split; [exact H1|]. apply IH; assumption.
Qed.


Lemma step_ok_weaken b cols p1 p2 : step_ok b cols p1 p2 -> step_ok false cols p1 p2.
Proof.
  destruct p1 as [[x1 y1] c1], p2 as [[x2 y2] c2]; cbn [step_ok].
  intros [H|(H1 & H2 & _)]; [left; exact H|right; split; [exact H1|split; [exact H2|discriminate]]].
Qed.

Lemma layout_ok_weaken b cols ps : layout_ok b cols ps -> layout_ok false cols ps.
Proof.
  induction ps as [|p1 [|p2 t] IH]; cbn [layout_ok]; auto.
  intros [H1 H2]; split; [eapply step_ok_weaken; eauto|apply IH; exact H2].
Qed.

Lemma path_ok_layout st ps en cols : path_ok st ps en -> layout_ok false cols ps.
Proof.
  revert st; induction ps as [|p1 [|p2 t] IH]; intros st; cbn [layout_ok]; auto.
  cbn [path_ok]. intros (_ & H2 & H3). split.
  - destruct p1 as [[x1 y1] c1], p2 as [[x2 y2] c2]; cbn [step_ok fst snd] in *.
    destruct H2 as [[Ha Hb]|[Ha Hb]]; cbn [fst snd] in *; [left; lia|right; split; [lia|split; [lia|discriminate]]].
  - apply (IH (fst (fst p1) + cw (snd p1), snd (fst p1))). cbn [path_ok]; auto.
Qed.

(* the loop shape shared by Print and by Wrap's inner loop *)
Section Gen.
Variable Itm : Type.
Variable isbreak : Itm -> bool.
Variable width : Itm -> Z.
Variable cellof : Itm -> cell.
Variable stop : Z -> bool.
Hypothesis cellof_width : forall it, cw (cellof it) = width it.

Fixpoint gen_places (cols : Z) (items : list Itm) (col row : Z) : list placement * (Z * Z) :=
  match items with
  | [] => ([], (col, row))
  | it :: t =>
      if isbreak it then gen_places cols t 0 (row + 1)
      else if stop row then ([], (col, row))
      else match fit cols col row (width it) with
           | None => gen_places cols t col row
           | Some (c1, r1) =>
               let rest := if c1 + width it >=? cols then gen_places cols t 0 (r1 + 1)
                           else gen_places cols t (c1 + width it) r1 in
               ((c1, r1, cellof it) :: fst rest, snd rest)
           end
  end.

(* no glyph overhangs the right edge of the window *)
Lemma gen_fits cols items : forall col row p,
  In p (fst (gen_places cols items col row)) -> fst (fst p) + cw (snd p) <= cols.
Proof.
  induction items as [|it t IH]; intros col row p; cbn [gen_places]; [intros []|].
  destruct (isbreak it); [apply IH|]. destruct (stop row); [intros []|].
  destruct (fit cols col row (width it)) as [[c1 r1]|] eqn:EF; [|apply IH].
  cbn [fst snd]. intros [<-|Hin].
  - cbn [fst snd]. rewrite cellof_width. apply fit_some in EF. lia.
  - destruct (c1 + width it >=? cols); eapply IH; eauto.
Qed.

(* reading order *)
Lemma gen_path cols items : forall col row,
  path_ok (col, row) (fst (gen_places cols items col row)) (snd (gen_places cols items col row)).
Proof.
  induction items as [|it t IH]; intros col row; cbn [gen_places].
  - apply reach_refl.
  - destruct (isbreak it).
    + eapply path_ok_reach; [|apply IH]. right; cbn [fst snd]; lia.
    + destruct (stop row); [apply reach_refl|].
      destruct (fit cols col row (width it)) as [[c1 r1]|] eqn:EF; [|apply IH].
      cbn [fst snd path_ok]. rewrite cellof_width. apply fit_some in EF as [_ EF]. split.
      * unfold reach; cbn [fst snd]. lia.
      * destruct (c1 + width it >=? cols).
        -- eapply path_ok_reach; [|apply IH]. right; cbn [fst snd]; lia.
        -- apply IH.
Qed.

Section NonNeg.
Variable cols : Z.
Variable items0 : list Itm.

Lemma gen_nonneg items : forall col row p,
  (forall it, In it items -> 0 <= width it) -> 0 <= col ->
  In p (fst (gen_places cols items col row)) -> 0 <= fst (fst p) /\ row <= snd (fst p).
Proof.
  induction items as [|it t IH]; intros col row p Hw Hc; cbn [gen_places]; [intros []|].
  assert (Hw' : forall i, In i t -> 0 <= width i) by (intros; apply Hw; right; auto).
  destruct (isbreak it).
  { intros H; apply IH in H; [lia|exact Hw'|lia]. }
  destruct (stop row); [intros []|].
  destruct (fit cols col row (width it)) as [[c1 r1]|] eqn:EF; [|apply IH; auto].
  apply fit_some in EF as [_ EF]. pose proof (Hw it (or_introl eq_refl)).
  cbn [fst snd]. intros [<-|Hin]; [cbn [fst snd]; lia|].
  destruct (c1 + width it >=? cols); apply IH in Hin; auto; lia.
Qed.
End NonNeg.

(* which clusters appear, and in which order *)
Definition placeable (cols : Z) (it : Itm) : bool := negb (isbreak it) && (width it <=? cols).

Lemma gen_content cols items : forall col row,
  (forall it, In it items -> 0 <= width it) -> 0 <= col ->
  let r := gen_places cols items col row in
  let all := map cellof (filter (placeable cols) items) in
  (exists n, map snd (fst r) = firstn n all) /\
  (stop (snd (snd r)) = false -> map snd (fst r) = all).
Proof.
  induction items as [|it t IH]; intros col row Hw Hc; cbn [gen_places filter].
  - split; [exists O; reflexivity|reflexivity].
  - assert (Hw' : forall i, In i t -> 0 <= width i) by (intros; apply Hw; right; auto).
    pose proof (Hw it (or_introl eq_refl)) as Hwi.
    destruct (isbreak it) eqn:EB.
    { replace (placeable cols it) with false by (unfold placeable; rewrite EB; reflexivity).
      apply IH; [exact Hw'|lia]. }
    destruct (stop row) eqn:ES.
    { cbn [fst snd map]. split; [exists O; reflexivity|]. rewrite ES; discriminate. }
    destruct (fit cols col row (width it)) as [[c1 r1]|] eqn:EF.
    + apply fit_some in EF as [EF1 EF2].
      replace (placeable cols it) with true by (unfold placeable; rewrite EB; cbn [negb andb]; lia).
      cbn [fst snd map].
      set (rest := if c1 + width it >=? cols then gen_places cols t 0 (r1 + 1) else gen_places cols t (c1 + width it) r1).
      assert (Hrest : (exists n, map snd (fst rest) = firstn n (map cellof (filter (placeable cols) t))) /\
                      (stop (snd (snd rest)) = false -> map snd (fst rest) = map cellof (filter (placeable cols) t))).
      { unfold rest; destruct (c1 + width it >=? cols); apply IH; auto; lia. }
      destruct Hrest as [[n Hn] Hfull]. split.
      * exists (S n); cbn [firstn]; rewrite Hn; reflexivity.
      * intros Hs; rewrite (Hfull Hs); reflexivity.
    + apply fit_none in EF.
      replace (placeable cols it) with false by (unfold placeable; rewrite EB; cbn [negb andb]; lia).
      apply IH; auto.
Qed.

(* without line breaks a new row is the next row, started only when the row is full or the
   next cluster does not fit *)
Definition no_break (items : list Itm) : bool := forallb (fun it => negb (isbreak it)) items.

Definition head_ok (nonl : bool) (cols col row : Z) (ps : list placement) : Prop :=
  match ps with
  | [] => True
  | p :: _ =>
      (snd (fst p) = row /\ fst (fst p) = col) \/
      (row < snd (fst p) /\ fst (fst p) = 0 /\
       (nonl = true -> snd (fst p) = row + 1 /\ cols < col + cw (snd p)))
  end.

Lemma gen_head cols items : forall col row,
  head_ok (no_break items) cols col row (fst (gen_places cols items col row)).
Proof.
  induction items as [|it t IH]; intros col row; cbn [gen_places no_break forallb]; [exact I|].
  destruct (isbreak it) eqn:EB; cbn [negb andb].
  - specialize (IH 0 (row + 1)). unfold head_ok in *.
    destruct (fst (gen_places cols t 0 (row + 1))) as [|p ps]; [exact I|].
    right. destruct IH as [[H1 H2]|(H1 & H2 & _)]; (split; [lia|split; [lia|discriminate]]).
  - destruct (stop row); [exact I|].
    destruct (fit cols col row (width it)) as [[c1 r1]|] eqn:EF; [|apply IH].
    cbn [fst snd head_ok]. rewrite cellof_width. apply fit_some in EF as [_ EF]. lia.
Qed.

Lemma gen_layout cols items : forall col row,
  layout_ok (no_break items) cols (fst (gen_places cols items col row)).
Proof.
  induction items as [|it t IH]; intros col row; cbn [gen_places no_break forallb]; [exact I|].
  destruct (isbreak it) eqn:EB; cbn [negb andb].
  - eapply layout_ok_weaken; apply IH.
  - destruct (stop row); [exact I|].
    destruct (fit cols col row (width it)) as [[c1 r1]|] eqn:EF; [|apply IH].
    cbn [fst snd]. fold (no_break t).
    set (rest := if c1 + width it >=? cols then gen_places cols t 0 (r1 + 1) else gen_places cols t (c1 + width it) r1).
    assert (Hl : layout_ok (no_break t) cols (fst rest)) by (unfold rest; destruct (c1 + width it >=? cols); apply IH).
    assert (Hfit : forall p, In p (fst rest) -> fst (fst p) + cw (snd p) <= cols).
    { unfold rest; destruct (c1 + width it >=? cols); intros p Hp; eapply gen_fits; eauto. }
    assert (Hh : if c1 + width it >=? cols then head_ok (no_break t) cols 0 (r1 + 1) (fst rest)
                 else head_ok (no_break t) cols (c1 + width it) r1 (fst rest)).
    { unfold rest; destruct (c1 + width it >=? cols); apply gen_head. }
    destruct (fst rest) as [|p2 ps] eqn:ER; [exact I|].
    cbn [layout_ok]. split; [|exact Hl].
    specialize (Hfit p2 (or_introl eq_refl)).
    destruct p2 as [[x2 y2] c2]; cbn [step_ok head_ok fst snd] in *. rewrite cellof_width.
    destruct (c1 + width it >=? cols) eqn:EC.
    + destruct Hh as [[H1 H2]|(H1 & H2 & H3)].
      * right. split; [lia|]. split; [lia|]. intros _; split; [lia|left; lia].
      * right. split; [lia|]. split; [lia|]. intros Hn. specialize (H3 Hn). lia.
    + destruct Hh as [[H1 H2]|(H1 & H2 & H3)].
      * left; lia.
      * right. split; [lia|]. split; [lia|]. intros Hn. specialize (H3 Hn). split; [lia|right; lia].
Qed.

(* rows only grow *)
Lemma gen_row_ge cols items : forall col row p,
  In p (fst (gen_places cols items col row)) -> row <= snd (fst p).
Proof.
  induction items as [|it t IH]; intros col row p; cbn [gen_places]; [intros []|].
  destruct (isbreak it). { intros H; apply IH in H; lia. }
  destruct (stop row); [intros []|].
  destruct (fit cols col row (width it)) as [[c1 r1]|] eqn:EF; [|apply IH].
  apply fit_some in EF as [_ EF]. cbn [fst snd]. intros [<-|Hin]; [cbn [fst snd]; lia|].
  destruct (c1 + width it >=? cols); apply IH in Hin; lia.
Qed.

Lemma gen_end_row_ge cols items : forall col row, row <= snd (snd (gen_places cols items col row)).
Proof.
  induction items as [|it t IH]; intros col row; cbn [gen_places]; [cbn [snd]; lia|].
  destruct (isbreak it). { specialize (IH 0 (row + 1)); lia. }
  destruct (stop row); [cbn [snd]; lia|].
  destruct (fit cols col row (width it)) as [[c1 r1]|] eqn:EF; [|apply IH].
  apply fit_some in EF as [_ EF]. cbn [fst snd].
  destruct (c1 + width it >=? cols); [specialize (IH 0 (r1 + 1))|specialize (IH (c1 + width it) r1)]; lia.
Qed.

Lemma gen_row_le_end cols items : forall col row p,
  In p (fst (gen_places cols items col row)) -> snd (fst p) <= snd (snd (gen_places cols items col row)).
Proof.
  induction items as [|it t IH]; intros col row p; cbn [gen_places]; [intros []|].
  destruct (isbreak it); [apply IH|]. destruct (stop row); [intros []|].
  destruct (fit cols col row (width it)) as [[c1 r1]|] eqn:EF; [|apply IH].
  cbn [fst snd]. intros [<-|Hin].
  - cbn [fst snd]. destruct (c1 + width it >=? cols);
      [pose proof (gen_end_row_ge cols t 0 (r1 + 1))|pose proof (gen_end_row_ge cols t (c1 + width it) r1)]; lia.
  - destruct (c1 + width it >=? cols); apply IH; exact Hin.
Qed.

(* a line break starts a new row: every cluster after it lies strictly below the row in
   which the text before it ended (and that text's clusters lie in or above that row) *)
Lemma gen_break_new_row cols a brk b : isbreak brk = true -> forall col row p,
  In p (fst (gen_places cols (a ++ brk :: b) col row)) ->
  In p (fst (gen_places cols a col row)) \/ snd (snd (gen_places cols a col row)) < snd (fst p).
Proof.
  intros Hb. induction a as [|it t IH]; intros col row p; cbn [app gen_places].
  - rewrite Hb. intros H; right. apply gen_row_ge in H. cbn [snd]. lia.
  - destruct (isbreak it); [apply IH|]. destruct (stop row); [intros []|].
    destruct (fit cols col row (width it)) as [[c1 r1]|] eqn:EF; [|apply IH].
    cbn [fst snd]. intros [<-|Hin]; [left; left; reflexivity|].
    destruct (c1 + width it >=? cols); apply IH in Hin as [Hin|Hin]; auto; left; right; exact Hin.
Qed.

End Gen.

(* ------------------------------------------------------------------ instances *)

Section Layouts.
Variable measure : text -> Z.
Variable remeasure : bool.
Variable trailing : text -> bool.

Notation cwidth := (char_width measure remeasure).

(* what Print puts into a cell for a cluster: the whole cluster, its width, the style *)
Definition item_cell (it : character * Z) : cell := mkCell (gr (fst it)) (cwidth (fst it)) (snd it).
Definition item_nl (it : character * Z) : bool := has_nl (gr (fst it)).
Definition item_width (it : character * Z) : Z := cwidth (fst it).

Lemma print_places_gen cols rows items : forall col row,
  print_places measure remeasure cols rows items col row =
  gen_places _ item_nl item_width item_cell (fun row => row >? rows) cols items col row.
Proof.
  induction items as [|[ch st] t IH]; intros col row; cbn [print_places gen_places]; [reflexivity|].
  change (item_nl (ch, st)) with (has_nl (gr ch)).
  change (item_width (ch, st)) with (cwidth ch).
  change (item_cell (ch, st)) with (mkCell (gr ch) (cwidth ch) st).
  destruct (has_nl (gr ch)); [apply IH|]. destruct (row >? rows); [reflexivity|].
  destruct (fit cols col row (cwidth ch)) as [[c1 r1]|]; [|apply IH].
  destruct (c1 + cwidth ch >=? cols); rewrite IH; reflexivity.
Qed.

Definition wchar_cell (st : Z) (ch : character) : cell := mkCell (gr ch) (wd ch) st.

Lemma wrap_chars_places_gen cols chars st : forall col row,
  wrap_chars_places trailing cols chars st col row =
  gen_places _ (fun ch => trailing (gr ch)) wd (wchar_cell st) (fun _ => false) cols chars col row.
Proof.
  induction chars as [|ch t IH]; intros col row; cbn [wrap_chars_places gen_places]; [reflexivity|].
  destruct (trailing (gr ch)); [apply IH|].
  destruct (fit cols col row (wd ch)) as [[c1 r1]|]; [|apply IH].
  change (wchar_cell st ch) with (mkCell (gr ch) (wd ch) st). destruct (c1 + wd ch >=? cols); rewrite IH; reflexivity.
Qed.


Lemma print_places_fits cols rows items col row p :
  In p (fst (print_places measure remeasure cols rows items col row)) -> fits_in cols p.
Proof. rewrite print_places_gen. intros H; left; revert H; apply gen_fits. reflexivity. Qed.

Lemma wrap_chars_places_fits cols chars st col row p :
  In p (fst (wrap_chars_places trailing cols chars st col row)) -> fits_in cols p.
Proof. rewrite wrap_chars_places_gen. intros H; left; revert H; apply gen_fits. reflexivity. Qed.

Lemma wrap_places_fits cols rows lsegs : forall col row p,
  In p (fst (wrap_places measure remeasure trailing cols rows lsegs col row)) -> fits_in cols p.
Proof.
  induction lsegs as [|[cls st] t IH]; intros col row p; cbn [wrap_places]; [intros []|].
  destruct (row >=? rows); [intros []|]. cbn [fst]. intros H; apply in_app_or in H as [H|H].
  - eapply wrap_chars_places_fits; eauto.
  - eapply IH; eauto.
Qed.

Lemma println_places_fits cols items : forall col row p,
  In p (println_places measure remeasure cols items col row) -> fits_in cols p.
Proof.
  induction items as [|[ch st] t IH]; intros col row p; cbn [println_places]; [intros []|].
  destruct (col + cwidth ch >? cols) eqn:E; [intros []|].
  intros [<-|H]; [left; cbn [fst snd cw]; lia|eapply IH; eauto].
Qed.

Lemma ptrunc_places_fits cols items : forall col row p,
  In p (ptrunc_places measure remeasure cols items col row) -> fits_in cols p.
Proof.
  induction items as [|[ch st] t IH]; intros col row p; cbn [ptrunc_places]; [intros []|].
  destruct (col + 1 + cwidth ch >? cols) eqn:E.
  - intros [<-|[]]. right; cbn [snd cw]; lia.
  - intros [<-|H]; [left; cbn [fst snd cw]; lia|eapply IH; eauto].
Qed.

Lemma op_places_fits w o p :
  is_text_op o = true -> In p (op_places measure remeasure trailing w o) -> fits_in (fw (wframe w)) p.
Proof.
  destruct o as [| | | |segs|row segs|row segs|lsegs]; try discriminate; intros _; cbn [op_places].
  - apply print_places_fits.
  - destruct (row >=? fh (wframe w)); [intros []|apply ptrunc_places_fits].
  - destruct (row >=? fh (wframe w)); [intros []|apply println_places_fits].
  - apply wrap_places_fits.
Qed.

(* text_no_overhang: on windows whose edges respect their parents (anything made by
   Vaxis.Window and New) a cell changed by a text helper has its whole glyph inside the
   window, all ancestors and the screen *)
Lemma text_no_overhang w s o s' ret X Y c :
  WF s -> edges_ok w (scols s) (srows s) = true -> is_text_op o = true ->
  run_op_with measure remeasure trailing w s o = Some (s', ret) ->
  sget s' X Y = Some c -> sget s X Y <> Some c ->
  forall i, 0 <= i < glyph_w c -> visible w s (X + i) Y = true.
Proof.
  intros H He Ht Hrun Hn Ho.
  destruct (run_op_places measure remeasure trailing w s o) as (ret' & E).
  { destruct o; try discriminate; reflexivity. }
  rewrite E in Hrun.
  destruct (draw_places w s (op_places measure remeasure trailing w o)) as [s1|] eqn:ED; [|discriminate].
  injection Hrun as <- <-.
  destruct (changed_by_placement w _ s s1 X Y c H ED Hn Ho) as (HV & p & Hp & Hc & Hx & Hy).
  apply (glyph_inside w s X Y c He HV).
  pose proof (op_places_fits w o p Ht Hp) as Hf. unfold fits_in in Hf. rewrite Hc, Hx in Hf. exact Hf.
Qed.

(* ---- Print ---- *)

Definition no_newline (items : list (character * Z)) : bool := no_break _ item_nl items.
Definition printable (cols : Z) (it : character * Z) : bool := placeable _ item_nl item_width cols it.

Lemma print_layout cols rows items :
  (forall it, In it items -> 0 <= item_width it) ->
  let r := print_places measure remeasure cols rows items 0 0 in
  let ps := fst r in
  let all := map item_cell (filter (printable cols) items) in
  (* inside the window horizontally, never above it *)
  (forall p, In p ps -> 0 <= fst (fst p) /\ fst (fst p) + cw (snd p) <= cols /\ 0 <= snd (fst p)) /\
  (* reading order, advance by width, new row rules *)
  path_ok (0, 0) ps (snd r) /\ layout_ok (no_newline items) cols ps /\
  (* every cluster whole, in one cell, in order; all of them unless the text ran below the window *)
  (exists n, map snd ps = firstn n all) /\ (snd (snd r) <= rows -> map snd ps = all).
Proof.
  intros Hw r ps all. unfold ps, r. rewrite print_places_gen.
  split; [|split; [|split; [|split]]].
  - intros p Hp. pose proof (gen_fits _ item_nl item_width item_cell _ (fun _ => eq_refl) _ _ _ _ _ Hp).
    pose proof (gen_nonneg _ item_nl item_width item_cell _ cols items 0 0 p Hw (Z.le_refl 0) Hp). lia.
  - apply gen_path. reflexivity.
  - apply gen_layout. reflexivity.
  - apply (gen_content _ item_nl item_width item_cell (fun row => row >? rows) cols items 0 0 Hw (Z.le_refl 0)).
  - intros Hr. apply (gen_content _ item_nl item_width item_cell (fun row => row >? rows) cols items 0 0 Hw (Z.le_refl 0)).
    lia.
Qed.

Lemma print_line_break cols rows a nl b col row p :
  item_nl nl = true ->
  In p (fst (print_places measure remeasure cols rows (a ++ nl :: b) col row)) ->
  let ra := print_places measure remeasure cols rows a col row in
  (In p (fst ra) /\ snd (fst p) <= snd (snd ra)) \/ snd (snd ra) < snd (fst p).
Proof.
  intros Hn Hin ra. unfold ra. rewrite print_places_gen in *.
  apply (gen_break_new_row _ item_nl item_width item_cell _ cols a nl b Hn) in Hin as [Hin|Hin]; [left|right; exact Hin].
  split; [exact Hin|]. apply gen_row_le_end; exact Hin.
Qed.

(* ---- Println / PrintTruncate: one row, left to right ---- *)

Lemma println_layout cols items : forall col row,
  let ps := println_places measure remeasure cols items col row in
  (forall p, In p ps -> snd (fst p) = row) /\
  (exists en, path_ok (col, row) ps en) /\
  (* the longest prefix that fits, each cluster whole *)
  (exists n, map snd ps = map item_cell (firstn n items)) .
Proof.
  induction items as [|[ch st] t IH]; intros col row; cbn [println_places].
  - split; [intros p []|]. split; [exists (col, row); apply reach_refl|exists O; reflexivity].
  - destruct (col + cwidth ch >? cols).
    + split; [intros p []|]. split; [exists (col, row); apply reach_refl|exists O; reflexivity].
    + destruct (IH (col + cwidth ch) row) as (H1 & [en H2] & [n H3]). split; [|split].
      * intros p [<-|Hp]; [reflexivity|auto].
      * exists en. cbn [path_ok fst snd cw]. split; [apply reach_refl|exact H2].
      * exists (S n). cbn [firstn map]. rewrite H3. reflexivity.
Qed.

Lemma ptrunc_layout cols items : forall col row,
  let ps := ptrunc_places measure remeasure cols items col row in
  (forall p, In p ps -> snd (fst p) = row) /\
  (exists en, path_ok (col, row) ps en) /\
  (* a prefix of the clusters, followed by the ellipsis iff a cluster was cut *)
  (exists n, map (fun p => cg (snd p)) ps = map (fun it => gr (fst it)) (firstn n items)
             \/ (n < length items)%nat /\
                map (fun p => cg (snd p)) ps = map (fun it => gr (fst it)) (firstn n items) ++ [ellipsis]).
Proof.
  induction items as [|[ch st] t IH]; intros col row; cbn [ptrunc_places].
  - split; [intros p []|]. split; [exists (col, row); apply reach_refl|exists O; left; reflexivity].
  - destruct (col + 1 + cwidth ch >? cols).
    + split; [intros p [<-|[]]; reflexivity|]. split.
      * exists (col + 1, row). cbn [path_ok fst snd cw]. split; apply reach_refl.
      * exists O. right. split; [cbn [length]; lia|reflexivity].
    + destruct (IH (col + cwidth ch) row) as (H1 & [en H2] & [n H3]). split; [|split].
      * intros p [<-|Hp]; [reflexivity|auto].
      * exists en. cbn [path_ok fst snd cw]. split; [apply reach_refl|exact H2].
      * exists (S n). cbn [firstn map length fst snd cg]. destruct H3 as [H3|[H3 H4]].
        -- left. rewrite H3; reflexivity.
        -- right. split; [lia|]. rewrite H4; reflexivity.
Qed.

(* ---- Wrap ---- *)

Lemma wrap_start_reach cols total col row : reach (col, row) (wrap_start cols total col row).
Proof.
  unfold wrap_start. destruct (total >? cols); [apply reach_refl|].
  destruct (total + col >? cols); [right; cbn [fst snd]; lia|apply reach_refl].
Qed.

Lemma wrap_places_path cols rows lsegs : forall col row,
  path_ok (col, row) (fst (wrap_places measure remeasure trailing cols rows lsegs col row))
          (snd (wrap_places measure remeasure trailing cols rows lsegs col row)).
Proof.
  induction lsegs as [|[cls st] t IH]; intros col row; cbn [wrap_places]; [apply reach_refl|].
  destruct (row >=? rows); [apply reach_refl|]. cbn [fst snd].
  pose proof (wrap_start_reach cols (zsum (map wd (map (measured measure remeasure) (characters cls)))) col row) as Hr.
  destruct (wrap_start cols (zsum (map wd (map (measured measure remeasure) (characters cls)))) col row) as [c0 r0]. cbn [fst snd].
  eapply path_ok_app; [|apply IH].
  eapply path_ok_reach; [exact Hr|].
  rewrite wrap_chars_places_gen. rewrite <- surjective_pairing. apply gen_path. reflexivity.
Qed.

End Layouts.

(* ------------------------------------------------------------------ Characters *)

(* Characters never splits or merges clusters: each character is a whole cluster with the
   width uniseg reported, or one of the eight spaces a tab stands for *)
Lemma characters_whole cls ch :
  In ch (characters cls) ->
  (In (gr ch, wd ch) cls /\ gr ch <> [9]) \/ (ch = mkChar [32] 1 /\ exists w, In ([9], w) cls).
Proof.
  unfold characters; rewrite in_flat_map. intros ([g w] & Hin & Hch); cbn [fst snd] in Hch.
  destruct (zlist_eqb g [9]) eqn:E.
  - right. apply repeat_spec in Hch. split; [exact Hch|]. exists w.
    assert (g = [9]); [|subst; exact Hin].
    destruct g as [|a [|b g']]; cbn in E; try discriminate.
    + apply andb_prop in E as [E _]. f_equal; lia.
    + apply andb_prop in E as [_ E]; discriminate.
  - destruct Hch as [<-|[]]. left; cbn [gr wd]. split; [exact Hin|].
    intros ->; cbn in E; discriminate.
Qed.

Lemma characters_app a b : characters (a ++ b) = characters a ++ characters b.
Proof. unfold characters; apply flat_map_app. Qed.

(* ------------------------------------------------------------------ the observation predicate *)

Lemma zlist_eqb_eq a b : zlist_eqb a b = true -> a = b.
Proof.
  revert b; induction a as [|x a IH]; intros [|y b]; cbn; try discriminate; [reflexivity|].
  intros H; apply andb_prop in H as [H1 H2]. f_equal; [lia|apply IH; exact H2].
Qed.

Lemma cell_eqb_eq a b : cell_eqb a b = true -> a = b.
Proof.
  unfold cell_eqb; intros H. apply andb_prop in H as [H H3]. apply andb_prop in H as [H1 H2].
  destruct a as [g1 w1 s1], b as [g2 w2 s2]; cbn [cg cw cst] in *. apply zlist_eqb_eq in H1. f_equal; [exact H1|lia|lia].
Qed.

Lemma cell_eqb_refl a : cell_eqb a a = true.
Proof.
  unfold cell_eqb. rewrite !Z.eqb_refl, !andb_true_r.
  induction (cg a) as [|x l IH]; cbn; [reflexivity|]. rewrite Z.eqb_refl; exact IH.
Qed.

Lemma frame_eqb_eq a b : frame_eqb a b = true -> a = b.
Proof. unfold frame_eqb; destruct a as [a1 a2 a3 a4], b as [b1 b2 b3 b4]; cbn [fcol frow fw fh]; intros H. f_equal; lia. Qed.

Lemma list_eqb_eq {A} (eqb : A -> A -> bool) (H : forall a b, eqb a b = true -> a = b) l1 l2 :
  list_eqb eqb l1 l2 = true -> l1 = l2.
Proof.
  revert l2; induction l1 as [|x l1 IH]; intros [|y l2]; cbn; try discriminate; [reflexivity|].
  intros E; apply andb_prop in E as [E1 E2]. f_equal; [apply H; exact E1|apply IH; exact E2].
Qed.

Lemma diff_eqb_eq a b : diff_eqb a b = true -> a = b.
Proof.
  apply list_eqb_eq. intros [[x1 y1] c1] [[x2 y2] c2]; cbn [fst snd]. intros H.
  apply andb_prop in H as [H H3]. apply andb_prop in H as [H1 H2]. apply cell_eqb_eq in H3.
  f_equal; [f_equal; lia|exact H3].
Qed.

Lemma window_of_frames_chain w : window_of_frames (wchain w) = Some w.
Proof.
  induction w as [f|f p IH]; cbn [wchain window_of_frames]; [reflexivity|].
  rewrite IH. destruct (wchain p) eqn:E; [destruct p; discriminate|reflexivity].
Qed.

(* positions paired with elements *)
Lemma combine_seq_in {A} (l : list A) : forall k i x,
  In (i, x) (combine (map Z.of_nat (seq k (length l))) l) ->
  exists j, i = Z.of_nat (k + j) /\ nth_error l j = Some x.
Proof.
  induction l as [|h t IH]; intros k i x; cbn [length seq map combine]; [intros []|].
  intros [E|Hin].
  - injection E as <- <-. exists O; split; [f_equal; lia|reflexivity].
  - apply IH in Hin as (j & -> & Hj). exists (S j); split; [f_equal; lia|exact Hj].
Qed.

Lemma combine_zrange_in {A} (l : list A) i x :
  In (i, x) (combine (zrange (zlen l)) l) -> zget l i = Some x.
Proof.
  unfold zrange, zlen. rewrite Nat2Z.id. intros H. apply combine_seq_in in H as (j & -> & Hj).
  unfold zget. replace (Z.of_nat (0 + j) <? 0) with false by lia. rewrite Nat2Z.id. exact Hj.
Qed.

Lemma screen_diff_in bg s x y c :
  In (x, y, c) (screen_diff bg s) -> sget s x y = Some c /\ cell_eqb c bg = false.
Proof.
  unfold screen_diff; rewrite in_flat_map. intros ([y' line] & Hl & Hr); cbn [fst snd] in Hr.
  apply combine_zrange_in in Hl. unfold row_diff in Hr; rewrite in_flat_map in Hr.
  destruct Hr as ([x' c'] & Hc & Hd); cbn [fst snd] in Hd. apply combine_zrange_in in Hc.
  destruct (cell_eqb c' bg) eqn:E; [destruct Hd|]. destruct Hd as [Hd|[]]. injection Hd as <- <- <-.
  unfold sget; rewrite Hl. split; [exact Hc|exact E].
Qed.

Lemma nth_error_repeat {A} (x : A) n k y : nth_error (repeat x n) k = Some y -> y = x.
Proof. intros H; apply nth_error_In in H; apply repeat_spec in H; exact H. Qed.

Lemma sget_bg_screen bg cols rows x y c : sget (bg_screen bg cols rows) x y = Some c -> c = bg.
Proof.
  unfold sget, bg_screen; cbn [sbuf]. unfold zget, zrepeat.
  destruct (y <? 0); [discriminate|].
  destruct (nth_error (repeat (repeat bg (Z.to_nat cols)) (Z.to_nat rows)) (Z.to_nat y)) as [line|] eqn:E; [|discriminate].
  apply nth_error_repeat in E; subst line. destruct (x <? 0); [discriminate|]. apply nth_error_repeat.
Qed.

Lemma combine_seq_in_conv {A} (l : list A) : forall k j x,
  nth_error l j = Some x -> In (Z.of_nat (k + j), x) (combine (map Z.of_nat (seq k (length l))) l).
Proof.
  induction l as [|h t IH]; intros k j x; destruct j as [|j]; cbn [nth_error length seq map combine]; try discriminate.
  - intros H; injection H as <-. left. f_equal. f_equal. lia.
  - intros H. right. replace (k + S j)%nat with (S k + j)%nat by lia. apply IH; exact H.
Qed.

Lemma combine_zrange_in_conv {A} (l : list A) i x :
  zget l i = Some x -> In (i, x) (combine (zrange (zlen l)) l).
Proof.
  unfold zget. destruct (i <? 0) eqn:E; [discriminate|]. intros H.
  unfold zrange, zlen. rewrite Nat2Z.id.
  replace i with (Z.of_nat (0 + Z.to_nat i)) at 1 by lia. apply combine_seq_in_conv; exact H.
Qed.

Lemma screen_diff_in_conv bg s x y c :
  sget s x y = Some c -> cell_eqb c bg = false -> In (x, y, c) (screen_diff bg s).
Proof.
  unfold sget. destruct (zget (sbuf s) y) as [line|] eqn:El; [|discriminate]. intros Hc Hne.
  unfold screen_diff; rewrite in_flat_map. exists (y, line); split; [apply combine_zrange_in_conv; exact El|].
  cbn [fst snd]. unfold row_diff; rewrite in_flat_map. exists (x, c); split; [apply combine_zrange_in_conv; exact Hc|].
  cbn [fst snd]. rewrite Hne. left; reflexivity.
Qed.

Lemma placement_eqb_refl p : placement_eqb p p = true.
Proof. unfold placement_eqb. rewrite !Z.eqb_refl, cell_eqb_refl. reflexivity. Qed.

(* one cell of a background screen replaced: the changed cells are exactly that one *)
Lemma single_change_diff w bg cols rows s' col row (f : cell -> cell) :
  let s := bg_screen bg cols rows in
  let X := fst (origin w) + col in
  let Y := snd (origin w) + row in
  (if visible w s X Y then updated_at s s' X Y f else s' = s) ->
  diff_same (screen_diff bg s') (expected_single w s bg col row (f bg)) = true.
Proof.
  intros s X Y H. unfold expected_single. destruct (origin w) as [ox oy] eqn:Eo; cbn [fst snd] in X, Y. fold X Y.
  assert (Hbg : forall x y c, sget s x y = Some c -> c = bg) by (intros x y c; apply sget_bg_screen).
  unfold diff_same. destruct (visible w s X Y) eqn:EV.
  - destruct H as (_ & _ & (old & Ho & Hn) & Hrest). apply Hbg in Ho; subst old.
    assert (Hall : forall x y c, In (x, y, c) (screen_diff bg s') -> x = X /\ y = Y /\ c = f bg /\ cell_eqb (f bg) bg = false).
    { intros x y c Hin. apply screen_diff_in in Hin as [Hg Hne].
      destruct (Z.eq_dec x X) as [->|Hx]; [destruct (Z.eq_dec y Y) as [->|Hy]|].
      - rewrite Hn in Hg; injection Hg as <-. auto.
      - rewrite Hrest in Hg by auto. apply Hbg in Hg; subst c. rewrite cell_eqb_refl in Hne; discriminate.
      - rewrite Hrest in Hg by auto. apply Hbg in Hg; subst c. rewrite cell_eqb_refl in Hne; discriminate. }
    destruct (cell_eqb (f bg) bg) eqn:EC; cbn [andb negb].
    + destruct (screen_diff bg s') as [|[[x y] c] t] eqn:ED; [reflexivity|].
      destruct (Hall x y c (or_introl eq_refl)) as (_ & _ & _ & Hf); discriminate.
    + apply andb_true_intro; split.
      * apply forallb_forall. intros [[x y] c] Hin. destruct (Hall x y c Hin) as (-> & -> & -> & _).
        cbn [existsb]. rewrite placement_eqb_refl; reflexivity.
      * cbn [forallb]. rewrite andb_true_r. apply existsb_exists. exists (X, Y, f bg); split; [|apply placement_eqb_refl].
        apply screen_diff_in_conv; assumption.
  - subst s'. cbn [andb].
    destruct (screen_diff bg s) as [|[[x y] c] t] eqn:ED; [reflexivity|].
    assert (Hin : In (x, y, c) (screen_diff bg s)) by (rewrite ED; left; reflexivity).
    apply screen_diff_in in Hin as [Hg Hne]. apply Hbg in Hg; subst c. rewrite cell_eqb_refl in Hne; discriminate.
Qed.

(* frames made by the steps of a window specification, outermost first *)
Definition build_step (w : window) (st : bool * (Z * Z * Z * Z)) : window :=
  let '(via_new, (a, b, c, d)) := st in
  if via_new then win_new w a b c d else Child (mkFrame a b c d) w.

Fixpoint frames_from (w : window) (steps : list (bool * (Z * Z * Z * Z))) : list frame :=
  match steps with
  | [] => []
  | st :: t => wframe (build_step w st) :: frames_from (build_step w st) t
  end.

Lemma build_chain steps : forall w,
  rev (wchain (fold_left build_step steps w)) = rev (wchain w) ++ frames_from w steps.
Proof.
  induction steps as [|st t IH]; intros w; cbn [fold_left frames_from]; [now rewrite app_nil_r|].
  rewrite IH. assert (E : wchain (build_step w st) = wframe (build_step w st) :: wchain w).
  { destruct st as [[] [[[a b] c] d]]; reflexivity. }
  rewrite E; cbn [rev]. rewrite <- app_assoc. reflexivity.
Qed.

Lemma frames_from_edges steps : forall w,
  new_edges_ok steps (wframe w :: frames_from w steps) = true.
Proof.
  induction steps as [|[via [[[a b] c] d]] t IH]; intros w; cbn [frames_from new_edges_ok]; [reflexivity|].
  rewrite IH, andb_true_r. destruct via; cbn [build_step]; [|reflexivity].
  unfold win_new, win_size; cbn [wframe fcol frow fw fh].
  pose proof (clamp_size_edge c a (fw (wframe w))). pose proof (clamp_size_edge d b (fh (wframe w))). lia.
Qed.

Lemma build_window_steps s ws :
  build_window s ws = fold_left build_step (snd ws) (match fst ws with None => root_window s | Some f => Root f end).
Proof. reflexivity. Qed.

Lemma build_window_new_edges s ws :
  new_edges_ok (snd ws) (rev (wchain (build_window s ws))) = true.
Proof.
  rewrite build_window_steps, build_chain.
  destruct (fst ws) as [f|]; cbn [wchain rev app root_window]; apply (frames_from_edges (snd ws) (Root _)).
Qed.

(* whatever the model outputs satisfies the core of the observation predicate: a case on
   which the implementation agrees with the model cannot violate it *)
Lemma agrees_core_holds c :
  0 <= c_cols c -> 0 <= c_rows c -> case_agrees c = true -> case_core_holds c = true.
Proof.
  intros Hc Hr. unfold case_agrees, case_core_holds.
  set (s := bg_screen (c_bg c) (c_cols c) (c_rows c)).
  set (w := build_window s (c_win c)).
  assert (HWF : WF s) by (apply bg_screen_WF; assumption).
  intros H. apply andb_prop in H as [H Hrun]. apply andb_prop in H as [H Horg]. apply andb_prop in H as [_ Hfr].
  apply (list_eqb_eq frame_eqb frame_eqb_eq) in Hfr. rewrite <- Hfr, window_of_frames_chain.
  unfold run_op in Hrun.
  destruct (run_op_clipped (tab_measure (c_tab c)) (c_remeasure c) (tab_trailing (c_tab c)) w s (c_op c) HWF)
    as (s' & ret & E & Hwf' & Hd & Hout).
  rewrite E in Hrun. apply andb_prop in Hrun as [Hrun _]. apply andb_prop in Hrun as [Ho Hdiff].
  apply diff_eqb_eq in Hdiff. rewrite Ho, <- Hdiff. cbn [andb].
  pose proof (build_window_new_edges s (c_win c)) as Hnew. fold w in Hnew. rewrite Hnew. cbn [andb].
  assert (Hvis : forall x y cl, In (x, y, cl) (screen_diff (c_bg c) s') ->
                 visible w s x y = true /\ sget s' x y = Some cl /\ sget s x y <> Some cl).
  { intros x y cl Hin. apply screen_diff_in in Hin as [Hg Hne].
    assert (Hs : sget s x y <> Some cl).
    { intros Hs. apply sget_bg_screen in Hs. subst cl. rewrite cell_eqb_refl in Hne; discriminate. }
    split; [|split; assumption].
    destruct (visible w s x y) eqn:EV; [reflexivity|]. rewrite (Hout x y EV) in Hg. contradiction. }
  apply andb_true_intro; split; [apply andb_true_intro; split|].
  - apply forallb_forall. intros [[x y] cl] Hin; cbn [fst snd]. apply (Hvis x y cl Hin).
  - destruct (c_op c) as [col row cl|col row st| | | | | |] eqn:Eop; try reflexivity; cbn [run_op_with] in E.
    + destruct (setcell_clip w s col row cl HWF) as (s1 & E1 & H1). rewrite E1 in E; injection E as <- _.
      apply (single_change_diff w (c_bg c) (c_cols c) (c_rows c) s1 col row (fun _ => cl) H1).
    + destruct (setstyle_clip w s col row st HWF) as (s1 & E1 & H1). rewrite E1 in E; injection E as <- _.
      apply (single_change_diff w (c_bg c) (c_cols c) (c_rows c) s1 col row (fun old => mkCell (cg old) (cw old) st) H1).
  - destruct (is_text_op (c_op c) && built_by_constructors (c_win c)) eqn:ET; [|reflexivity].
    apply andb_prop in ET as [ET EB].
    apply forallb_forall. intros [[x y] cl] Hin; cbn [fst snd]. apply forallb_forall. intros i Hi.
    apply In_zrange in Hi. destruct (Hvis x y cl Hin) as (_ & Hg & Hs).
    apply (text_no_overhang (tab_measure (c_tab c)) (c_remeasure c) (tab_trailing (c_tab c)) w s (c_op c) s' ret x y cl HWF); auto.
    apply build_window_edges; exact EB.
Qed.
(* ------------------------------------------------------------------ sequences of calls *)

Lemma run_seq_clipped m rem tr steps : forall s,
  WF s -> exists s', run_seq_with m rem tr s steps = Some s' /\ WF s' /\ same_dims s s' /\
    forall X Y, outside_all s steps X Y = true -> sget s' X Y = sget s X Y.
Proof.
  induction steps as [|[w o] t IH]; intros s H; cbn [run_seq_with outside_all forallb fst].
  - exists s. split; [reflexivity|]. split; [exact H|]. split; [apply same_dims_refl|reflexivity].
  - destruct (run_op_clipped m rem tr w s o H) as (s1 & ret & E & Hwf1 & Hd1 & Hout1). rewrite E.
    destruct (IH s1 Hwf1) as (s2 & E2 & Hwf2 & Hd2 & Hout2). exists s2.
    split; [exact E2|]. split; [exact Hwf2|]. split; [eapply same_dims_trans; eassumption|].
    intros X Y HV. apply andb_prop in HV as [HV1 HV2].
    rewrite Hout2.
    + apply Hout1. destruct (visible w s X Y); [discriminate|reflexivity].
    + unfold outside_all in *. rewrite forallb_forall in *. intros st Hst.
      rewrite (visible_dims (fst st) s s1 X Y Hd1). apply HV2; exact Hst.
Qed.

Lemma diff_at_some_in d x y c : diff_at d x y = Some c -> In (x, y, c) d.
Proof.
  induction d as [|[[x' y'] c'] t IH]; cbn [diff_at]; [discriminate|].
  destruct ((x' =? x) && (y' =? y)) eqn:E.
  - intros H; injection H as <-. apply andb_prop in E as [E1 E2]. left. replace x' with x by lia. replace y' with y by lia. reflexivity.
  - intros H; right; apply IH; exact H.
Qed.

Lemma diff_at_none d x y c : diff_at d x y = None -> ~ In (x, y, c) d.
Proof.
  induction d as [|[[x' y'] c'] t IH]; cbn [diff_at]; [intros _ []|].
  destruct ((x' =? x) && (y' =? y)) eqn:E; [discriminate|].
  intros H [Hin|Hin]; [|exact (IH H Hin)]. injection Hin as -> -> ->. rewrite !Z.eqb_refl in E; discriminate.
Qed.

Lemma cell_eqb_neq a b : cell_eqb a b = false -> a <> b.
Proof. intros H ->. rewrite cell_eqb_refl in H; discriminate. Qed.

(* reading a screen back from its difference list *)
Lemma obs_at_screen_diff bg s x y c : sget s x y = Some c -> obs_at bg (screen_diff bg s) x y = c.
Proof.
  intros Hg. unfold obs_at. destruct (diff_at (screen_diff bg s) x y) as [c'|] eqn:E.
  - apply diff_at_some_in in E. apply screen_diff_in in E as [E _]. congruence.
  - destruct (cell_eqb c bg) eqn:EC; [symmetry; apply cell_eqb_eq; exact EC|].
    exfalso. exact (diff_at_none _ _ _ c E (screen_diff_in_conv bg s x y c Hg EC)).
Qed.

Lemma changed_cells_in bg cols rows prev post x y c :
  In (x, y, c) (changed_cells bg cols rows prev post) <->
  0 <= x < cols /\ 0 <= y < rows /\ c = obs_at bg post x y /\ cell_eqb (obs_at bg prev x y) c = false.
Proof.
  unfold changed_cells. rewrite in_flat_map. split.
  - intros (y' & Hy & Hin). rewrite in_flat_map in Hin. destruct Hin as (x' & Hx & Hin).
    apply In_zrange in Hy, Hx. cbn zeta in Hin.
    destruct (cell_eqb (obs_at bg prev x' y') (obs_at bg post x' y')) eqn:E; [destruct Hin|].
    destruct Hin as [Hin|[]]. injection Hin as <- <- <-. auto.
  - intros (Hx & Hy & -> & Hne). exists y; split; [apply In_zrange; exact Hy|].
    rewrite in_flat_map. exists x; split; [apply In_zrange; exact Hx|]. cbn zeta. rewrite Hne. left; reflexivity.
Qed.

(* a changed cell between the difference lists of two well-formed screens of the given size *)
Lemma changed_cells_screens bg s s' x y c :
  WF s -> WF s' -> same_dims s s' ->
  In (x, y, c) (changed_cells bg (scols s) (srows s) (screen_diff bg s) (screen_diff bg s')) <->
  sget s' x y = Some c /\ exists c0, sget s x y = Some c0 /\ c0 <> c.
Proof.
  intros Hwf Hwf' [Hd1 Hd2]. rewrite changed_cells_in. split.
  - intros (Hx & Hy & -> & Hne).
    destruct (sget_in_range s x y Hwf Hx Hy) as (c0 & E0).
    destruct (sget_in_range s' x y Hwf') as (c1 & E1); [lia|lia|].
    rewrite (obs_at_screen_diff bg s x y c0 E0) in Hne. rewrite (obs_at_screen_diff bg s' x y c1 E1) in *.
    split; [exact E1|]. exists c0; split; [exact E0|apply cell_eqb_neq; exact Hne].
  - intros (E1 & c0 & E0 & Hne). destruct (sget_some_range s x y c0 Hwf E0) as [Hx Hy].
    rewrite (obs_at_screen_diff bg s x y c0 E0), (obs_at_screen_diff bg s' x y c E1).
    split; [exact Hx|]. split; [exact Hy|]. split; [reflexivity|].
    destruct (cell_eqb c0 c) eqn:E; [apply cell_eqb_eq in E; contradiction|reflexivity].
Qed.

(* one cell of any screen replaced: the changed cells are exactly that one (if it differs) *)
Lemma single_change_changed w bg s s' s0 col row (f : cell -> cell) :
  WF s -> same_dims s s0 ->
  let X := fst (origin w) + col in
  let Y := snd (origin w) + row in
  (if visible w s X Y then updated_at s s' X Y f else s' = s) ->
  diff_same (changed_cells bg (scols s) (srows s) (screen_diff bg s) (screen_diff bg s'))
            (expected_change w s0 bg (screen_diff bg s) col row f) = true.
Proof.
  intros Hwf Hd0 X Y H. unfold expected_change. destruct (origin w) as [ox oy] eqn:Eo; cbn [fst snd] in X, Y. fold X Y.
  rewrite (visible_dims w s s0 X Y Hd0).
  unfold diff_same. destruct (visible w s X Y) eqn:EV.
  - destruct H as (Hwf' & Hd & (old & Ho & Hn) & Hrest).
    rewrite (obs_at_screen_diff bg s X Y old Ho).
    assert (Hall : forall x y c, In (x, y, c) (changed_cells bg (scols s) (srows s) (screen_diff bg s) (screen_diff bg s')) ->
                                 x = X /\ y = Y /\ c = f old /\ old <> f old).
    { intros x y c Hin. apply (changed_cells_screens bg s s' x y c Hwf Hwf' Hd) in Hin as (E1 & c0 & E0 & Hne).
      destruct (Z.eq_dec x X) as [->|Hx]; [destruct (Z.eq_dec y Y) as [->|Hy]|].
      - rewrite Hn in E1; injection E1 as <-. rewrite Ho in E0; injection E0 as <-. auto.
      - rewrite Hrest in E1 by auto. congruence.
      - rewrite Hrest in E1 by auto. congruence. }
    destruct (cell_eqb old (f old)) eqn:EC; cbn [andb negb].
    + apply cell_eqb_eq in EC.
      destruct (changed_cells bg (scols s) (srows s) (screen_diff bg s) (screen_diff bg s')) as [|[[x y] c] t] eqn:ED; [reflexivity|].
      destruct (Hall x y c (or_introl eq_refl)) as (_ & _ & _ & Hf); contradiction.
    + apply andb_true_intro; split.
      * apply forallb_forall. intros [[x y] c] Hin. destruct (Hall x y c Hin) as (-> & -> & -> & _).
        cbn [existsb]. rewrite placement_eqb_refl; reflexivity.
      * cbn [forallb]. rewrite andb_true_r. apply existsb_exists. exists (X, Y, f old); split; [|apply placement_eqb_refl].
        apply (changed_cells_screens bg s s' X Y (f old) Hwf Hwf' Hd). split; [exact Hn|].
        exists old; split; [exact Ho|apply cell_eqb_neq; exact EC].
  - subst s'. cbn [andb].
    destruct (changed_cells bg (scols s) (srows s) (screen_diff bg s) (screen_diff bg s)) as [|[[x y] c] t] eqn:ED; [reflexivity|].
    assert (Hin : In (x, y, c) (changed_cells bg (scols s) (srows s) (screen_diff bg s) (screen_diff bg s))) by (rewrite ED; left; reflexivity).
    apply (changed_cells_screens bg s s x y c Hwf Hwf (same_dims_refl s)) in Hin as (E1 & c0 & E0 & Hne). congruence.
Qed.

Lemma build_window_dims s s0 ws : same_dims s s0 -> build_window s0 ws = build_window s ws.
Proof. intros [H1 H2]. unfold build_window, root_window. rewrite H1, H2. reflexivity. Qed.

Lemma pair_eqb_eq a b : pair_eqb a b = true -> a = b.
Proof. destruct a, b; unfold pair_eqb; cbn [fst snd]; intros H. f_equal; lia. Qed.

Lemma pair_eqb_refl a : pair_eqb a a = true.
Proof. unfold pair_eqb. rewrite !Z.eqb_refl; reflexivity. Qed.

(* one step of a sequence: whatever agrees with the model satisfies the step predicate *)
Lemma seq_agrees_core bg tab rem steps : forall s,
  WF s ->
  seq_agrees_from bg tab rem s steps = true ->
  seq_core_from bg (scols s) (srows s) (screen_diff bg s) steps = true.
Proof.
  induction steps as [|[[ws o] ob] t IH]; intros s HWF; cbn [seq_agrees_from seq_core_from]; [reflexivity|].
  set (w := build_window s ws). intros H.
  apply andb_prop in H as [H Hrun]. apply andb_prop in H as [H Horg]. apply andb_prop in H as [_ Hfr].
  apply (list_eqb_eq frame_eqb frame_eqb_eq) in Hfr. apply pair_eqb_eq in Horg.
  unfold run_op in Hrun.
  destruct (run_op_clipped (tab_measure tab) rem (tab_trailing tab) w s o HWF) as (s' & ret & E & Hwf' & Hd & Hout).
  rewrite E in Hrun. apply andb_prop in Hrun as [Hrun Hrest]. apply andb_prop in Hrun as [Hrun _].
  apply andb_prop in Hrun as [Ho Hdiff]. apply diff_eqb_eq in Hdiff.
  cbn [snd o_diff]. rewrite <- Hdiff.
  destruct Hd as [Hd1 Hd2]. rewrite <- Hd1, <- Hd2. rewrite (IH s' Hwf' Hrest), andb_true_r.
  rewrite Hd1, Hd2.
  unfold step_core_holds. rewrite <- Hfr, window_of_frames_chain. rewrite Ho, <- Hdiff, <- Horg. cbn [andb].
  set (s0 := bg_screen bg (scols s) (srows s)).
  assert (Hd0 : same_dims s s0) by (split; reflexivity).
  assert (Hd' : same_dims s s') by (split; assumption).
  pose proof (build_window_new_edges s ws) as Hnew. fold w in Hnew. rewrite Hnew. cbn [andb].
  rewrite win_origin_spec, pair_eqb_refl. cbn [andb].
  assert (Hvis : forall x y cl, In (x, y, cl) (changed_cells bg (scols s) (srows s) (screen_diff bg s) (screen_diff bg s')) ->
                 visible w s x y = true /\ sget s' x y = Some cl /\ sget s x y <> Some cl).
  { intros x y cl Hin. apply (changed_cells_screens bg s s' x y cl HWF Hwf' Hd') in Hin as (E1 & c0 & E0 & Hne).
    assert (Hs : sget s x y <> Some cl) by congruence.
    split; [|split; assumption].
    destruct (visible w s x y) eqn:EV; [reflexivity|]. rewrite (Hout x y EV) in E1. contradiction. }
  apply andb_true_intro; split; [apply andb_true_intro; split; [apply andb_true_intro; split|]|].
  - apply forallb_forall. intros [[x y] cl] Hin; cbn [fst snd]. apply screen_diff_in in Hin as [Hg _].
    destruct (sget_some_range s' x y cl Hwf' Hg) as [Hx Hy]. unfold on_screen, s0, bg_screen; cbn [scols srows]. lia.
  - apply forallb_forall. intros [[x y] cl] Hin; cbn [fst snd].
    rewrite (visible_dims w s s0 x y Hd0). apply (Hvis x y cl Hin).
  - destruct o as [col row cl|col row st| | | | | |] eqn:Eop; try reflexivity; cbn [run_op_with] in E.
    + destruct (setcell_clip w s col row cl HWF) as (s1 & E1 & H1). rewrite E1 in E; injection E as <- _.
      apply (single_change_changed w bg s s1 s0 col row (fun _ => cl) HWF Hd0 H1).
    + destruct (setstyle_clip w s col row st HWF) as (s1 & E1 & H1). rewrite E1 in E; injection E as <- _.
      apply (single_change_changed w bg s s1 s0 col row (fun old => mkCell (cg old) (cw old) st) HWF Hd0 H1).
  - destruct (is_text_op o && built_by_constructors ws) eqn:ET; [|reflexivity].
    apply andb_prop in ET as [ET EB].
    apply forallb_forall. intros [[x y] cl] Hin; cbn [fst snd]. apply forallb_forall. intros i Hi.
    apply In_zrange in Hi. destruct (Hvis x y cl Hin) as (_ & Hg & Hs).
    rewrite (visible_dims w s s0 (x + i) y Hd0).
    apply (text_no_overhang (tab_measure tab) rem (tab_trailing tab) w s o s' ret x y cl HWF); auto.
    apply build_window_edges; exact EB.
Qed.

Lemma screen_diff_bg bg cols rows : screen_diff bg (bg_screen bg cols rows) = [].
Proof.
  destruct (screen_diff bg (bg_screen bg cols rows)) as [|[[x y] c] t] eqn:E; [reflexivity|].
  assert (Hin : In (x, y, c) (screen_diff bg (bg_screen bg cols rows))) by (rewrite E; left; reflexivity).
  apply screen_diff_in in Hin as [Hg Hne]. apply sget_bg_screen in Hg; subst c. rewrite cell_eqb_refl in Hne; discriminate.
Qed.

Lemma scase_agrees_core_holds c :
  0 <= q_cols c -> 0 <= q_rows c -> scase_agrees c = true -> scase_core_holds c = true.
Proof.
  intros Hc Hr H. unfold scase_agrees in H. unfold scase_core_holds.
  pose proof (seq_agrees_core (q_bg c) (q_tab c) (q_remeasure c) (q_steps c) _ (bg_screen_WF (q_bg c) _ _ Hc Hr) H) as H1.
  rewrite screen_diff_bg in H1. exact H1.
Qed.

(* ------------------------------------------------------------------ measuring a line segment
   (Wrap's "total"): tab expansion and the measuring method in force *)

Lemma zsum_acc (l : list Z) : forall a, fold_left Z.add l a = a + zsum l.
Proof.
  unfold zsum. induction l as [|x t IH]; intros a; cbn [fold_left]; [lia|].
  rewrite (IH (a + x)), (IH (0 + x)). lia.
Qed.

Lemma zsum_cons x l : zsum (x :: l) = x + zsum l.
Proof. unfold zsum at 1. cbn [fold_left]. rewrite zsum_acc. lia. Qed.

Lemma zsum_app a b : zsum (a ++ b) = zsum a + zsum b.
Proof. induction a as [|x t IH]; cbn [app]; [reflexivity|]. rewrite !zsum_cons, IH. lia. Qed.

(* the width of a line segment as Wrap computes it ("total") is the sum over the EXPANDED
   characters under the measuring in force -- a tab counts as eight blanks, whatever width
   the segmenter attached to the tab cluster *)
Lemma wrap_total_expanded measure remeasure (cls : list (text * Z)) :
  zsum (map wd (map (measured measure remeasure) (characters cls))) =
  zsum (map (cluster_total measure remeasure) cls).
Proof.
  induction cls as [|cl t IH]; [reflexivity|].
  change (map (cluster_total measure remeasure) (cl :: t)) with (cluster_total measure remeasure cl :: map (cluster_total measure remeasure) t).
  rewrite zsum_cons, <- IH.
  unfold characters. cbn [flat_map]. rewrite !map_app, zsum_app.
  f_equal. unfold cluster_total. cbv beta.
  match goal with |- context [if ?b then repeat _ _ else _] => set (tb := b) end.
  change (zlist_eqb (fst cl) [9]) with tb. destruct tb.
  - cbn [repeat map]. unfold measured; cbn [wd gr]. rewrite !zsum_cons. unfold zsum; cbn [fold_left]. lia.
  - cbn [map]. unfold measured; cbn [wd gr]. rewrite zsum_cons. unfold zsum; cbn [fold_left]. lia.
Qed.

(* without re-measuring (unicodeCore and explicitWidth both set) a tab adds exactly 8 *)
Lemma wrap_total_tab measure (w : Z) (cls : list (text * Z)) :
  zsum (map wd (map (measured measure false) (characters (([9], w) :: cls)))) =
  8 + zsum (map wd (map (measured measure false) (characters cls))).
Proof.
  rewrite !wrap_total_expanded. cbn [map]. rewrite zsum_cons. f_equal.
Qed.
