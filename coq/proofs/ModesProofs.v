(* Proofs for property C04 (terminal state is restored on every exit path): lemmas over the model
   model/Modes.v (interpreter of the translated scripts of gen/GenModes.v, writer, render) and the
   reference terminal model/ModeTerm.v.  Statements of the theorems are in props/C04.v. *)
From Vx Require Import base.Prelude model.ParserTypes model.Parser model.ModeTerm model.ModesTypes gen.GenModes model.Modes.


(* ---------- generalities ---------- *)
Lemma sem_toks_app a b t : sem_toks (a ++ b) t = sem_toks b (sem_toks a t).
Proof. unfold sem_toks. apply fold_left_app. Qed.

Lemma zlist_eqb_eq a b : zlist_eqb a b = true -> a = b.
Proof.
  revert b; induction a as [|x a IH]; intros [|y b] H; cbn in H; try discriminate; auto.
  apply andb_true_iff in H as [H1 H2]. apply Z.eqb_eq in H1. subst. f_equal. auto.
Qed.

Lemma zlist_eqb_refl a : zlist_eqb a a = true.
Proof. induction a as [|x a IH]; cbn; auto. rewrite Z.eqb_refl. auto. Qed.

Lemma nonempty_app_r {A} (a b : list A) : nonempty b = true -> nonempty (a ++ b) = true.
Proof. destruct a, b; cbn; auto. Qed.

(* ---------- token classes ---------- *)
(* tokens that touch nothing but cursor visibility, cursor style, cursor position, pointer shape, text *)
Definition calm_tok (k : otok) : bool :=
  match k with
  | ODecset n | ODecrst n => n =? 25
  | OConst KFgReset | OConst KBoldDimReset => true
  | OParm FmCursorStyleSet [PInt _] => true
  | OParm FmMouseShape [PStr _] => true
  | OParm FmCup _ => true
  | OLit _ => true
  | _ => false
  end.
Definition pen_tok (k : otok) : bool :=
  match k with
  | OConst KBoldSet => true
  | OParm FmFgSet _ | OParm FmFgBrightSet _ | OParm FmFgIndexSet _ => true
  | _ => false
  end.
Definition link_tok (k : otok) : bool :=
  match k with OParm FmOsc8 [PStr _; PStr _] => true | _ => false end.
Definition body_tok (k : otok) : bool := calm_tok k || pen_tok k || link_tok k.

(* all fields except cursor visibility, cursor style, pointer shape *)
Definition stable_eq (a b : term) : Prop :=
  m_ckeys a = m_ckeys b /\ m_btn a = m_btn b /\ m_any a = m_any b /\ m_focus a = m_focus b /\
  m_sgrmouse a = m_sgrmouse b /\ m_alt a = m_alt b /\ m_paste a = m_paste b /\ m_sync a = m_sync b /\
  m_unicode a = m_unicode b /\ m_theme a = m_theme b /\ m_inband a = m_inband b /\
  m_sixelscroll a = m_sixelscroll b /\ m_other a = m_other b /\ t_keypad_app a = t_keypad_app b /\
  t_kitty a = t_kitty b /\ t_kitty_other a = t_kitty_other b /\ t_appid a = t_appid b /\ t_honours_inband a = t_honours_inband b /\
  t_poison a = t_poison b.
Definition calm_eq (a b : term) : Prop :=
  stable_eq a b /\ t_pen_default a = t_pen_default b /\ t_link_open a = t_link_open b.

Lemma stable_eq_refl t : stable_eq t t. Proof. repeat split. Qed.
Lemma stable_eq_trans a b c : stable_eq a b -> stable_eq b c -> stable_eq a c.
Proof. unfold stable_eq; intuition congruence. Qed.

Lemma calm_tok_ok k t : calm_tok k = true -> calm_eq (sem_tok k t) t.
Proof.
  intros H. destruct t.
  destruct k as [n|c|n|n|n|f ps|s|s]; cbn in H; try discriminate.
  - destruct c; try discriminate; repeat split.
  - apply Z.eqb_eq in H; subst; repeat split.
  - apply Z.eqb_eq in H; subst; repeat split.
  - destruct f; try discriminate.
    + destruct ps as [|[n|s] [|? ?]]; try discriminate; repeat split.
    + destruct ps as [|[n|s] [|? ?]]; try discriminate; repeat split.
    + destruct ps as [|[n|s] [|? ?]]; repeat split.
  - repeat split.
Qed.


Lemma pen_tok_ok k t : pen_tok k = true -> sem_tok k t = set_pen false t.
Proof.
  intros H. destruct k as [n|c|n|n|n|f ps|s|s]; cbn in H; try discriminate.
  - destruct c; try discriminate; reflexivity.
  - destruct f; try discriminate; reflexivity.
Qed.

Lemma link_tok_ok k t : link_tok k = true -> exists b, sem_tok k t = set_link b t.
Proof.
  intros H. destruct k as [n|c|n|n|n|f ps|s|s]; cbn in H; try discriminate.
  destruct f; try discriminate.
  destruct ps as [|[n|s] [|[n'|s'] [|? ?]]]; try discriminate. eexists; reflexivity.
Qed.

Lemma set_pen_stable b t : stable_eq (set_pen b t) t /\ t_link_open (set_pen b t) = t_link_open t
                           /\ m_cursor (set_pen b t) = m_cursor t.
Proof. destruct t; repeat split. Qed.
Lemma set_link_stable b t : stable_eq (set_link b t) t /\ t_pen_default (set_link b t) = t_pen_default t.
Proof. destruct t; repeat split. Qed.

Lemma body_tok_stable k t : body_tok k = true -> stable_eq (sem_tok k t) t.
Proof.
  unfold body_tok. intros H. apply orb_true_iff in H as [H|H]; [apply orb_true_iff in H as [H|H]|].
  - apply (calm_tok_ok k t H).
  - rewrite (pen_tok_ok k t H). apply set_pen_stable.
  - destruct (link_tok_ok k t H) as [b ->]. apply set_link_stable.
Qed.

Lemma body_toks_stable l t : forallb body_tok l = true -> stable_eq (sem_toks l t) t.
Proof.
  revert t; induction l as [|k l IH]; intros t H; cbn in H.
  - apply stable_eq_refl.
  - apply andb_true_iff in H as [H1 H2]. change (sem_toks (k :: l) t) with (sem_toks l (sem_tok k t)).
    eapply stable_eq_trans; [apply IH; exact H2|]. apply body_tok_stable; exact H1.
Qed.

(* calm tokens keep pen and link *)
Lemma calm_toks_ok l t : forallb calm_tok l = true -> calm_eq (sem_toks l t) t.
Proof.
  revert t; induction l as [|k l IH]; intros t H; cbn in H.
  - repeat split.
  - apply andb_true_iff in H as [H1 H2]. change (sem_toks (k :: l) t) with (sem_toks l (sem_tok k t)).
    destruct (IH (sem_tok k t) H2) as (A & B & C). destruct (calm_tok_ok k t H1) as (A' & B' & C').
    split; [eapply stable_eq_trans; eauto|]. split; congruence.
Qed.

(* ---------- the writer ---------- *)
Definition wr_toks (w : wr) : list otok := match w with WS ts | WR ts => ts end.
Definition wr_ok (w : wr) : bool := nonempty (toks_bytes (wr_toks w)).
Definition toks_of (ws : list wr) : list otok := flat_map wr_toks ws.

Lemma wr_ok_nonempty w : wr_ok w = true -> nonempty (wr_toks w) = true.
Proof. unfold wr_ok. destruct (wr_toks w); cbn; auto. Qed.

(* once the buffer is not empty, writes just append *)
Lemma do_wrs_nonempty ws m :
  buf_empty m = false -> forallb wr_ok ws = true ->
  do_wrs ws m = set_w (s_nuls m) (s_buf m ++ toks_of ws) (s_out m) m.
Proof.
  revert m; induction ws as [|w ws IH]; intros m He Hok; cbn in *.
  - rewrite app_nil_r. destruct m; reflexivity.
  - apply andb_true_iff in Hok as [H1 H2].
    assert (Hw : do_wr w m = set_w (s_nuls m) (s_buf m ++ wr_toks w) (s_out m) m).
    { unfold wr_ok in H1. destruct w as [ts|ts]; unfold wr_toks in *; unfold do_wr, w_write_string, w_write;
      rewrite H1, He; cbn [negb app]; reflexivity. }
    unfold do_wrs in *. cbn. rewrite Hw. rewrite IH; auto.
    + destruct m; cbn. rewrite <- app_assoc. reflexivity.
    + unfold buf_empty in *. destruct m; cbn in *.
      apply andb_false_iff in He as [He|He].
      * rewrite He. reflexivity.
      * apply andb_false_iff. right. apply negb_false_iff. apply negb_false_iff in He.
        destruct s_buf; cbn in *; auto. discriminate.
Qed.


Lemma toks_of_app a b : toks_of (a ++ b) = toks_of a ++ toks_of b.
Proof. unfold toks_of. apply flat_map_app. Qed.

Definition nolink_tok (k : otok) : bool := calm_tok k || pen_tok k.

Lemma nolink_tok_ok k t : nolink_tok k = true -> t_link_open (sem_tok k t) = t_link_open t.
Proof.
  unfold nolink_tok; intros H. apply orb_true_iff in H as [H|H].
  - apply (calm_tok_ok k t H).
  - rewrite (pen_tok_ok k t H). apply set_pen_stable.
Qed.
Lemma nolink_toks_ok l t : forallb nolink_tok l = true -> t_link_open (sem_toks l t) = t_link_open t.
Proof.
  revert t; induction l as [|k l IH]; intros t H; cbn in H; [reflexivity|].
  apply andb_true_iff in H as [H1 H2]. change (sem_toks (k :: l) t) with (sem_toks l (sem_tok k t)).
  rewrite IH by exact H2. apply nolink_tok_ok; exact H1.
Qed.
Lemma nolink_body k : nolink_tok k = true -> body_tok k = true.
Proof. unfold nolink_tok, body_tok. intros ->. reflexivity. Qed.
Lemma nolink_body_all l : forallb nolink_tok l = true -> forallb body_tok l = true.
Proof. induction l; cbn; auto. intros H. apply andb_true_iff in H as [H1 H2]. rewrite (nolink_body _ H1). auto. Qed.

Lemma forallb_app {A} (f : A -> bool) a b : forallb f (a ++ b) = forallb f a && forallb f b.
Proof. induction a; cbn; auto. rewrite IHa. apply andb_assoc. Qed.

(* the pieces of render_cell *)
Lemma fg_write_ok n : wr_ok (fg_write n) = true /\ forallb nolink_tok (wr_toks (fg_write n)) = true.
Proof. unfold fg_write. destruct (n <? 0), (n <? 8), (n <? 16); split; reflexivity. Qed.

Lemma osc8_link u t : t_link_open (sem_tok (osc8 u) t) = nonempty u.
Proof. destruct t; reflexivity. Qed.
Lemma osc8_body u : body_tok (osc8 u) = true. Proof. reflexivity. Qed.
Lemma osc8_ok u : wr_ok (WS [osc8 u]) = true. Proof. reflexivity. Qed.
Lemma cup_ok r c : wr_ok (WS [cup r c]) = true /\ nolink_tok (cup r c) = true. Proof. split; reflexivity. Qed.

(* link state: the terminal's hyperlink is open exactly when render's pen carries one *)
Lemma render_cell_link refresh row col lc nc pn rp ws pn' rp' t :
  render_cell refresh row col lc nc (pn, rp) = (ws, (pn', rp')) ->
  t_link_open t = nonempty (p_link pn) ->
  t_link_open (sem_toks (toks_of ws) t) = nonempty (p_link pn')
  /\ forallb body_tok (toks_of ws) = true /\ forallb wr_ok ws = true.
Proof.
  unfold render_cell. intros H Hl.
  destruct (cell_eqb nc lc && negb refresh).
  { inversion H; subst. cbn. auto. }
  inversion H; subst; clear H. cbn [p_link].
  set (closing := rp && nonempty (p_link pn)).
  set (w1 := if rp then (if closing then [WS [osc8 []]] else []) ++ [WS [cup row col]] else []).
  set (lk := if closing then [] else p_link pn).
  set (w2 := if p_fg pn =? cs_fg nc then [] else [fg_write (cs_fg nc)]).
  set (w3 := if Bool.eqb (p_bold pn) (cs_bold nc) then [] else if cs_bold nc then [WS [OConst KBoldSet]] else [WS [OConst KBoldDimReset]]).
  set (w4 := if zlist_eqb lk (cs_link nc) then [] else [WS [osc8 (cs_link nc)]]).
  set (w5 := [WS [OLit (if cs_g nc =? 0 then [32] else [cs_g nc])]]).
  (* w1 *)
  assert (A1 : t_link_open (sem_toks (toks_of w1) t) = nonempty lk
               /\ forallb body_tok (toks_of w1) = true /\ forallb wr_ok w1 = true).
  { subst w1 lk closing. destruct rp; cbn [andb].
    - destruct (nonempty (p_link pn)) eqn:E.
      + split; [|split; reflexivity]. destruct t; reflexivity.
      + split; [|split; reflexivity]. cbv iota. transitivity (t_link_open t); [destruct t; reflexivity | rewrite Hl; symmetry; exact E].
    - split; [|split; reflexivity]. exact Hl. }
  (* w2, w3, w5 do not touch the link *)
  assert (A2 : forallb nolink_tok (toks_of w2) = true /\ forallb wr_ok w2 = true).
  { subst w2. destruct (p_fg pn =? cs_fg nc); [split; reflexivity|].
    destruct (fg_write_ok (cs_fg nc)) as [a b]. unfold toks_of. cbn [flat_map forallb]. rewrite app_nil_r, a, b. auto. }
  assert (A3 : forallb nolink_tok (toks_of w3) = true /\ forallb wr_ok w3 = true).
  { subst w3. destruct (Bool.eqb (p_bold pn) (cs_bold nc)); [split; reflexivity|]. destruct (cs_bold nc); split; reflexivity. }
  assert (A5 : forallb nolink_tok (toks_of w5) = true /\ forallb wr_ok w5 = true).
  { subst w5. destruct (cs_g nc =? 0); split; reflexivity. }
  destruct A1 as (L1 & B1 & K1), A2 as (N2 & K2), A3 as (N3 & K3), A5 as (N5 & K5).
  assert (A4 : forall t', t_link_open t' = nonempty lk ->
               t_link_open (sem_toks (toks_of w4) t') = nonempty (cs_link nc)
               /\ forallb body_tok (toks_of w4) = true /\ forallb wr_ok w4 = true).
  { intros t' Ht'. subst w4. destruct (zlist_eqb lk (cs_link nc)) eqn:E.
    - apply zlist_eqb_eq in E. rewrite <- E. cbn. auto.
    - cbn. split; [|split; reflexivity]. apply osc8_link. }
  repeat rewrite toks_of_app. repeat rewrite sem_toks_app. repeat rewrite forallb_app.
  specialize (A4 (sem_toks (toks_of w3) (sem_toks (toks_of w2) (sem_toks (toks_of w1) t)))).
  destruct A4 as (L4 & B4 & K4).
  { rewrite (nolink_toks_ok _ _ N3), (nolink_toks_ok _ _ N2). exact L1. }
  split; [|split].
  - rewrite (nolink_toks_ok _ _ N5). exact L4.
  - rewrite B1, (nolink_body_all _ N2), (nolink_body_all _ N3), B4, (nolink_body_all _ N5). reflexivity.
  - rewrite K1, K2, K3, K4, K5. reflexivity.
Qed.


Lemma render_row_cons refresh row col lastr n nr acc :
  render_row refresh row col lastr (n :: nr) acc =
  let '(w, acc1) := render_cell refresh row col (match lastr with [] => blank | l :: _ => l end) n acc in
  let '(w', acc2) := render_row refresh row (col + 1) (tl lastr) nr acc1 in (w ++ w', acc2).
Proof. reflexivity. Qed.
Lemma render_rows_cons refresh row lastg n ng pn :
  render_rows refresh row lastg (n :: ng) pn =
  let '(w, (pn1, _)) := render_row refresh row 0 (match lastg with [] => [] | l :: _ => l end) n (pn, true) in
  let '(w', pn2) := render_rows refresh (row + 1) (tl lastg) ng pn1 in (w ++ w', pn2).
Proof. reflexivity. Qed.

Lemma render_row_link refresh row : forall nextr col lastr pn rp ws pn' rp' t,
  render_row refresh row col lastr nextr (pn, rp) = (ws, (pn', rp')) ->
  t_link_open t = nonempty (p_link pn) ->
  t_link_open (sem_toks (toks_of ws) t) = nonempty (p_link pn')
  /\ forallb body_tok (toks_of ws) = true /\ forallb wr_ok ws = true.
Proof.
  induction nextr as [|n nr IH]; intros col lastr pn rp ws pn' rp' t H Hl.
  - cbn in H. inversion H; subst. cbn. auto.
  - rewrite render_row_cons in H. destruct (render_cell refresh row col (match lastr with [] => blank | l :: _ => l end) n (pn, rp)) as [w [pn1 rp1]] eqn:E1.
    destruct (render_row refresh row (col + 1) (tl lastr) nr (pn1, rp1)) as [w' [pn2 rp2]] eqn:E2.
    inversion H; subst; clear H.
    destruct (render_cell_link _ _ _ _ _ _ _ _ _ _ t E1 Hl) as (L1 & B1 & K1).
    destruct (IH _ _ _ _ _ _ _ _ E2 L1) as (L2 & B2 & K2).
    rewrite toks_of_app, sem_toks_app, !forallb_app, B1, B2, K1, K2. auto.
Qed.

Lemma render_rows_link refresh : forall nextg row lastg pn ws pn' t,
  render_rows refresh row lastg nextg pn = (ws, pn') ->
  t_link_open t = nonempty (p_link pn) ->
  t_link_open (sem_toks (toks_of ws) t) = nonempty (p_link pn')
  /\ forallb body_tok (toks_of ws) = true /\ forallb wr_ok ws = true.
Proof.
  induction nextg as [|n ng IH]; intros row lastg pn ws pn' t H Hl.
  - cbn in H. inversion H; subst. cbn. auto.
  - rewrite render_rows_cons in H. destruct (render_row refresh row 0 (match lastg with [] => [] | l :: _ => l end) n (pn, true)) as [w [pn1 rp1]] eqn:E1.
    destruct (render_rows refresh (row + 1) (tl lastg) ng pn1) as [w' pn2] eqn:E2.
    inversion H; subst; clear H.
    destruct (render_row_link _ _ _ _ _ _ _ _ _ _ t E1 Hl) as (L1 & B1 & K1).
    destruct (IH _ _ _ _ _ _ E2 L1) as (L2 & B2 & K2).
    rewrite toks_of_app, sem_toks_app, !forallb_app, B1, B2, K1, K2. auto.
Qed.

Lemma show_cursor_ok m : wr_ok (WS (show_cursor m)) = true /\ forallb calm_tok (show_cursor m) = true.
Proof. split; reflexivity. Qed.

Lemma calm_nolink_all l : forallb calm_tok l = true -> forallb nolink_tok l = true.
Proof. induction l; cbn; auto. intros H. apply andb_true_iff in H as [H1 H2]. unfold nolink_tok at 1. rewrite H1. auto. Qed.

(* everything render writes: body tokens, non-empty writes, and the hyperlink is closed afterwards *)
Lemma render_writes_ok x t :
  t_link_open t = false ->
  t_link_open (sem_toks (toks_of (render_writes x)) t) = false
  /\ forallb body_tok (toks_of (render_writes x)) = true /\ forallb wr_ok (render_writes x) = true.
Proof.
  intros Hl. unfold render_writes.
  destruct (render_rows (s_refresh (x_m x)) 0 (x_glast x) (x_gnext x) pen0) as [cells pn] eqn:E.
  set (shape := if zlist_eqb (x_shape_last x) (x_shape_next x) then [] else [WS [OParm FmMouseShape [PStr (x_shape_next x)]]]).
  set (close := if nonempty (p_link pn) then [WS [osc8 []]] else []).
  set (sc := if c_vis (s_next (x_m x)) && negb (c_vis (s_last (x_m x))) then [WS (show_cursor (x_m x))] else []).
  assert (S1 : forallb nolink_tok (toks_of shape) = true /\ forallb wr_ok shape = true).
  { subst shape. destruct (zlist_eqb _ _); split; reflexivity. }
  assert (S3 : forallb nolink_tok (toks_of sc) = true /\ forallb wr_ok sc = true).
  { subst sc. destruct (_ && _); split; reflexivity. }
  destruct S1 as (N1 & K1), S3 as (N3 & K3).
  assert (Hl1 : t_link_open (sem_toks (toks_of shape) t) = nonempty (p_link pen0)).
  { rewrite (nolink_toks_ok _ _ N1). exact Hl. }
  destruct (render_rows_link _ _ _ _ _ _ _ _ E Hl1) as (L2 & B2 & K2).
  assert (S2 : forall t', t_link_open t' = nonempty (p_link pn) ->
               t_link_open (sem_toks (toks_of close) t') = false
               /\ forallb body_tok (toks_of close) = true /\ forallb wr_ok close = true).
  { intros t' Ht'. subst close. destruct (nonempty (p_link pn)).
    - split; [|split; reflexivity]. destruct t'; reflexivity.
    - split; [|split; reflexivity]. exact Ht'. }
  destruct (S2 _ L2) as (L3 & B3 & K3').
  rewrite !toks_of_app, !sem_toks_app, !forallb_app.
  split; [|split].
  - rewrite (nolink_toks_ok _ _ N3). exact L3.
  - rewrite (nolink_body_all _ N1), B2, B3, (nolink_body_all _ N3). reflexivity.
  - rewrite K1, K2, K3', K3. reflexivity.
Qed.

(* ---------- Flush after a sequence of writes ---------- *)
Definition pro_of (w : wr) (m : mst) : list otok :=
  match w with
  | WS _ => (if c_vis (s_last m) then [ODecrst mode_cursorVisibility] else [])
            ++ (if f_sync (s_fl m) then [ODecset mode_synchronizedUpdate] else [])
  | WR _ => (if f_sync (s_fl m) then [ODecset mode_synchronizedUpdate] else [])
            ++ (if c_vis (s_last m) && c_vis (s_next m) then [ODecrst mode_cursorVisibility] else [])
  end.
Definition tail_of (m : mst) : list otok :=
  [OConst KSgrReset] ++ (if c_vis (s_next m) && c_vis (s_last m) then show_cursor m else [])
  ++ (if f_sync (s_fl m) then [ODecrst mode_synchronizedUpdate] else []).

Lemma nonempty_app_l {A} (a b : list A) : nonempty a = true -> nonempty (a ++ b) = true.
Proof. destruct a; cbn; auto; discriminate. Qed.

Lemma flush_writes m w ws :
  s_nuls m = false -> s_buf m = [] -> forallb wr_ok (w :: ws) = true ->
  w_flush (do_wrs (w :: ws) m)
  = set_w false [] (s_out m ++ pro_of w m ++ toks_of (w :: ws) ++ tail_of m) m.
Proof.
  intros Hn Hb Hok. cbn in Hok. apply andb_true_iff in Hok as [H1 H2].
  assert (He : buf_empty m = true). { unfold buf_empty. rewrite Hn, Hb. reflexivity. }
  assert (Hw : do_wr w m = set_w false (pro_of w m ++ wr_toks w) (s_out m) m).
  { unfold wr_ok in H1. destruct w as [ts|ts]; unfold wr_toks in *; unfold do_wr, w_write_string, w_write, pro_of;
    rewrite H1, He, Hn, Hb; cbn [negb app]; reflexivity. }
  unfold do_wrs. cbn [fold_left]. rewrite Hw. fold (do_wrs ws (set_w false (pro_of w m ++ wr_toks w) (s_out m) m)).
  assert (Hne : buf_empty (set_w false (pro_of w m ++ wr_toks w) (s_out m) m) = false).
  { unfold buf_empty. destruct m; cbn. apply negb_false_iff. apply nonempty_app_r. apply wr_ok_nonempty. exact H1. }
  rewrite do_wrs_nonempty by assumption.
  unfold w_flush.
  match goal with |- (if ?c then _ else _) = _ => replace c with false end.
  2:{ symmetry. unfold buf_empty. destruct m; cbn [Modes.s_nuls Modes.s_buf set_w]. cbn [negb andb].
      apply negb_false_iff. apply nonempty_app_l. apply nonempty_app_r. apply wr_ok_nonempty. exact H1. }
  destruct m; cbn in *. subst. unfold tail_of, show_cursor; cbn. rewrite <- !app_assoc. reflexivity.
Qed.


(* ---------- invariants ---------- *)
(* all fields except cursor visibility, cursor style, pointer shape, pen, link, sync *)
Definition frame_eq (a b : term) : Prop :=
  m_ckeys a = m_ckeys b /\ m_btn a = m_btn b /\ m_any a = m_any b /\ m_focus a = m_focus b /\
  m_sgrmouse a = m_sgrmouse b /\ m_alt a = m_alt b /\ m_paste a = m_paste b /\
  m_unicode a = m_unicode b /\ m_theme a = m_theme b /\ m_inband a = m_inband b /\
  m_sixelscroll a = m_sixelscroll b /\ m_other a = m_other b /\ t_keypad_app a = t_keypad_app b /\
  t_kitty a = t_kitty b /\ t_kitty_other a = t_kitty_other b /\ t_appid a = t_appid b /\ t_honours_inband a = t_honours_inband b /\
  t_poison a = t_poison b.

Lemma stable_frame a b : stable_eq a b -> frame_eq a b.
Proof. unfold stable_eq, frame_eq; intuition. Qed.
Lemma frame_eq_trans a b c : frame_eq a b -> frame_eq b c -> frame_eq a c.
Proof. unfold frame_eq; intuition congruence. Qed.

(* the terminal while Vaxis runs (between two operations) *)
Definition run_inv (other kitty0 kalt0 appid0 : list Z) (honours : bool) (fl : flags) (d : data) (t : term) : Prop :=
  m_ckeys t = true /\ m_btn t = negb (f_nomouse fl) /\ m_any t = negb (f_nomouse fl) /\
  m_focus t = negb (f_nomouse fl) /\ m_sgrmouse t = negb (f_nomouse fl) /\ m_alt t = true /\ m_paste t = true /\
  m_sync t = false /\ m_unicode t = (f_unicode fl && negb (f_explicit fl)) /\ m_theme t = f_theme fl /\
  m_sixelscroll t = f_sixels fl /\ m_other t = other /\ t_keypad_app t = true /\
  (* Vaxis runs on the alternate screen: its flags sit on that screen's stack, the stack of the
     main screen (not shown) is the one the terminal had before start-up, untouched *)
  t_kitty t = (if f_kittykb fl then d_kflags d :: kalt0 else kalt0) /\ t_kitty_other t = kitty0 /\
  t_pen_default t = true /\ t_link_open t = false /\ t_honours_inband t = honours /\ t_poison t = false /\
  (f_osc176 fl = false -> t_appid t = appid0) /\
  (f_inband fl = true -> m_inband t = honours) /\ (m_inband t = true -> honours = true).

Lemma run_inv_transfer other kitty0 kalt0 appid0 honours fl d t t' :
  run_inv other kitty0 kalt0 appid0 honours fl d t -> frame_eq t' t ->
  m_sync t' = false -> t_pen_default t' = true -> t_link_open t' = false ->
  run_inv other kitty0 kalt0 appid0 honours fl d t'.
Proof.
  unfold run_inv, frame_eq.
  intros (a1&a2&a3&a4&a5&a6&a7&a8&a9&a10&a11&a12&a13&a14&a15&a16&a17&a18&a19&a20&a21&a22)
         (b1&b2&b3&b4&b5&b6&b7&b8&b9&b10&b11&b12&b13&b14&b15&b16&b17&b18) S P L.
  repeat split; try congruence.
  - intros H. rewrite b16. auto.
  - intros H. rewrite b10. auto.
  - intros H. rewrite b10 in H. auto.
Qed.

(* the model state between two operations while running *)
Definition st_run (fl : flags) (d : data) (x : sst) : Prop :=
  s_fl (x_m x) = fl /\ s_d (x_m x) = d /\ s_nuls (x_m x) = false /\ s_buf (x_m x) = [] /\
  s_parser_live (x_m x) = true /\ s_hung (x_m x) = false /\ x_suspended x = false /\ x_closed x = false.
Definition st_susp (fl : flags) (d : data) (x : sst) : Prop :=
  s_fl (x_m x) = fl /\ s_d (x_m x) = d /\ s_nuls (x_m x) = false /\ s_buf (x_m x) = [] /\
  s_parser_live (x_m x) = false /\ s_hung (x_m x) = false /\ x_suspended x = true /\ x_closed x = false.
Definition st_closed (x : sst) : Prop := x_closed x = true /\ s_hung (x_m x) = false.

(* ---------- prologue and epilogue of a flush ---------- *)
Lemma pro_ok w m t :
  let t1 := sem_toks (pro_of w m) t in
  frame_eq t1 t /\ t_link_open t1 = t_link_open t /\ m_sync t1 = (f_sync (s_fl m) || m_sync t).
Proof.
  destruct t. unfold pro_of.
  destruct w; destruct (c_vis (s_last m)), (f_sync (s_fl m)), (c_vis (s_next m)); cbn; repeat split; auto using orb_true_r.
Qed.

Lemma tail_ok m t :
  let t3 := sem_toks (tail_of m) t in
  frame_eq t3 t /\ t_pen_default t3 = true /\ t_link_open t3 = t_link_open t
  /\ m_sync t3 = (if f_sync (s_fl m) then false else m_sync t).
Proof.
  destruct t. unfold tail_of, show_cursor.
  destruct (c_vis (s_last m)), (f_sync (s_fl m)), (c_vis (s_next m)); cbn; repeat split.
Qed.

(* ---------- Render ---------- *)
Lemma render_preserves other kitty0 kalt0 appid0 honours fl d x t :
  st_run fl d x -> run_inv other kitty0 kalt0 appid0 honours fl d t ->
  let x' := do_render (clear_out x) in
  run_inv other kitty0 kalt0 appid0 honours fl d (sem_toks (s_out (x_m x')) t) /\ st_run fl d x'.
Proof.
  intros Hs Hi. destruct Hs as (Hfl & Hd & Hn & Hb & Hp & Hh & Hsu & Hcl).
  set (y := clear_out x).
  assert (Hy : s_fl (x_m y) = fl /\ s_d (x_m y) = d /\ s_nuls (x_m y) = false /\ s_buf (x_m y) = [] /\
               s_parser_live (x_m y) = true /\ s_hung (x_m y) = false /\ x_suspended y = false /\ x_closed y = false
               /\ s_out (x_m y) = []).
  { subst y. destruct x as [[? ? ? ? ? ? ? ? ? ?] ? ? ? ? ? ?]; cbn in *. repeat split; assumption. }
  clearbody y. destruct Hy as (Yfl & Yd & Yn & Yb & Yp & Yh & Ysu & Ycl & Yo).
  cbv zeta. unfold do_render.
  assert (Hlk : t_link_open t = false) by apply Hi.
  destruct (render_writes y) as [|w ws] eqn:Ew.
  - (* nothing was written: the cursor-only branch of Flush *)
    cbn [do_wrs fold_left]. unfold w_flush, buf_empty. rewrite Yn, Yb. cbn [negb nonempty andb].
    set (m := x_m y) in *.
    assert (K : forall l, forallb calm_tok l = true ->
                run_inv other kitty0 kalt0 appid0 honours fl d (sem_toks (s_out (emit l m)) t)).
    { intros l Hl. destruct m; cbn in *. subst. cbn. fold (sem_toks l t).
      destruct (calm_toks_ok l t Hl) as (A & B & C).
      eapply run_inv_transfer; [exact Hi|apply stable_frame; exact A| | |].
      - destruct A as (_&_&_&_&_&_&_&S&_). rewrite S. apply Hi.
      - rewrite B. apply Hi.
      - rewrite C. apply Hi. }
    assert (K0 : run_inv other kitty0 kalt0 appid0 honours fl d (sem_toks (s_out m) t)).
    { rewrite Yo. exact Hi. }
    assert (E : forall l, st_run fl d (mkS (set_refresh false (set_last (s_next (emit l m)) (emit l m)))
                    (x_shape_next y) (x_shape_next y) (x_gnext y) (x_gnext y) (x_suspended y) (x_closed y))).
    { intros l. destruct m; cbn in *. repeat split; assumption. }
    assert (E0 : st_run fl d (mkS (set_refresh false (set_last (s_next m) m))
                    (x_shape_next y) (x_shape_next y) (x_gnext y) (x_gnext y) (x_suspended y) (x_closed y))).
    { destruct m; cbn in *. repeat split; assumption. }
    destruct (negb (c_vis (s_next m)) && c_vis (s_last m)); [split; [apply K; reflexivity|apply E]|].
    destruct (negb (c_vis (s_next m))); [split; [exact K0|exact E0]|].
    destruct (negb (c_row (s_next m) =? c_row (s_last m))); [split; [apply K; reflexivity|apply E]|].
    destruct (negb (c_col (s_next m) =? c_col (s_last m))); [split; [apply K; reflexivity|apply E]|].
    destruct (negb (c_style (s_next m) =? c_style (s_last m))); [split; [apply K; reflexivity|apply E]|].
    split; [exact K0|exact E0].
  - (* prologue, body, epilogue *)
    destruct (render_writes_ok y) with (t := sem_toks (pro_of w (x_m y)) t) as (L & B & K).
    { destruct (pro_ok w (x_m y) t) as (_ & -> & _). exact Hlk. }
    rewrite Ew in *.
    rewrite (flush_writes (x_m y) w ws Yn Yb K). rewrite Yo. cbn [app].
    set (m := x_m y) in *.
    split.
    + replace (s_out (x_m _)) with (pro_of w m ++ toks_of (w :: ws) ++ tail_of m) by (destruct m; reflexivity).
      rewrite !sem_toks_app.
      destruct (pro_ok w m t) as (F1 & L1 & S1). cbv zeta in F1, L1, S1.
      set (t1 := sem_toks (pro_of w m) t) in *.
      pose proof (body_toks_stable _ t1 B) as St2.
      set (t2 := sem_toks (toks_of (w :: ws)) t1) in *.
      destruct (tail_ok m t2) as (F3 & P3 & L3 & S3). cbv zeta in F3, P3, L3, S3.
      eapply run_inv_transfer; [exact Hi| | | |].
      * eapply frame_eq_trans; [exact F3|]. eapply frame_eq_trans; [apply stable_frame; exact St2|exact F1].
      * rewrite S3. destruct (f_sync (s_fl m)) eqn:Es; [reflexivity|].
        destruct St2 as (_&_&_&_&_&_&_&S2&_). rewrite S2, S1. cbn. apply Hi.
      * exact P3.
      * rewrite L3. exact L.
    + destruct m; cbn in *. repeat split; assumption.
Qed.


(* the scripts run_leaf executes contain no call (run_leaf would skip it) *)
Lemma leaf_scripts_are_leaves :
  is_leaf enter_alt && is_leaf exit_alt && is_leaf enable_modes && is_leaf disable_modes = true.
Proof. reflexivity. Qed.

(* ---------- Suspend (and Close, which is Suspend) from the running state ---------- *)
Lemma suspend_restores other kitty0 kalt0 appid0 honours fl d x t o :
  st_run fl d x -> run_inv other kitty0 kalt0 appid0 honours fl d t ->
  (f_osc176 fl = true -> d_appid d = appid0) ->
  let x' := run_op o OpSuspend (clear_out x) in
  sem_toks (s_out (x_m x')) t = fresh_term other kitty0 kalt0 (d_ustyle d) appid0 honours
  /\ st_susp fl d x'.
Proof.
  intros Hs Hi Hc.
  destruct x as [[fl' d' [nr nc ns nv] [lr lc ls lv] rf nu bf out pl hg] shn shl gn gl su cl].
  unfold st_run, st_susp in Hs; cbn in Hs; destruct Hs as (? & ? & ? & ? & ? & ? & ? & ?); subst fl' d' nu bf pl hg su cl.
  destruct t as [ck cu bt an fo sg al pa sy' un' th' ib ss ot ka ki ko cs po ap pe li ho px].
  unfold run_inv in Hi; cbn in Hi.
  destruct Hi as (?&?&?&?&?&?&?&?&?&?&?&?&?&?&?&?&?&?&?&Hap&Hib1&Hib2); subst ck bt an fo sg al pa sy' un' th' ss ot ka ki ko pe li ho px.
  destruct fl as [sy un ex kk sx th a176 inb nm]; destruct d as [kf aid us]; cbn in Hc, Hap.
  destruct a176; [rewrite (Hc eq_refl) | rewrite (Hap eq_refl)]; clear Hc Hap Hib1 Hib2.
  all: destruct sy, un, ex, kk, sx, th, nm, nv, lv.
  all: cbv zeta.
  all: split.
  all: try reflexivity.
  all: vm_compute.
  all: repeat split.
Qed.

(* Close (not yet closed) is Suspend followed by console.Close: same writes, same state *)
Lemma close_is_suspend o x p :
  (p = OpClose \/ p = OpKill \/ p = OpPanic) -> x_closed x = false ->
  x_m (run_op o p x) = x_m (run_op o OpSuspend x) /\
  (s_hung (x_m x) = false -> x_closed (run_op o p x) = true).
Proof.
  intros Hp Hc.
  assert (E : run_op o p x = run_op o OpClose x) by (destruct Hp as [->|[->| ->]]; reflexivity).
  rewrite E. unfold run_op. destruct (s_hung (x_m x)) eqn:Eh.
  - split; [reflexivity|discriminate].
  - unfold do_close, do_suspend. rewrite Hc, andb_false_r.
    cbv beta iota delta [run_calls run_calls_f close_calls]. cbn [x_m x_closed]. split; reflexivity.
Qed.

Lemma close_restores other kitty0 kalt0 appid0 honours fl d x t o p :
  (p = OpClose \/ p = OpKill \/ p = OpPanic) ->
  st_run fl d x -> run_inv other kitty0 kalt0 appid0 honours fl d t ->
  (f_osc176 fl = true -> d_appid d = appid0) ->
  let x' := run_op o p (clear_out x) in
  sem_toks (s_out (x_m x')) t = fresh_term other kitty0 kalt0 (d_ustyle d) appid0 honours
  /\ st_closed x'.
Proof.
  intros Hp Hs Hi Hc. cbv zeta.
  assert (Hcl : x_closed (clear_out x) = false /\ s_hung (x_m (clear_out x)) = false).
  { destruct x as [[? ? ? ? ? ? ? ? ? ?] ? ? ? ? ? ?]; cbn. split; apply Hs. }
  destruct Hcl as [Hcl Hhu].
  destruct (close_is_suspend o (clear_out x) p Hp Hcl) as [E1 E2].
  destruct (suspend_restores other kitty0 kalt0 appid0 honours fl d x t o Hs Hi Hc) as [A B].
  rewrite E1. split; [exact A|]. split; [apply E2; exact Hhu|]. rewrite E1. apply B.
Qed.


(* the terminal while Vaxis runs, in closed form *)
Definition running_term (other kitty0 kalt0 : list Z) (honours : bool) (fl : flags) (d : data)
                        (cu : bool) (cs : Z) (po ap : list Z) (ib : bool) : term :=
  mkTerm true cu (negb (f_nomouse fl)) (negb (f_nomouse fl)) (negb (f_nomouse fl)) (negb (f_nomouse fl))
         true true false (f_unicode fl && negb (f_explicit fl)) (f_theme fl) ib (f_sixels fl) other true
         (if f_kittykb fl then d_kflags d :: kalt0 else kalt0) kitty0 cs po ap true false honours false.

Lemma running_term_inv other kitty0 kalt0 appid0 honours fl d cu cs po ap ib :
  (f_osc176 fl = false -> ap = appid0) -> (f_inband fl = true -> ib = honours) -> (ib = true -> honours = true) ->
  run_inv other kitty0 kalt0 appid0 honours fl d (running_term other kitty0 kalt0 honours fl d cu cs po ap ib).
Proof. intros H1 H2 H3. unfold run_inv, running_term; cbn. repeat split; auto. Qed.

(* ---------- Resume from the suspended state ---------- *)
Lemma resume_establishes other kitty0 kalt0 appid0 honours fl d x o :
  st_susp fl d x ->
  let x' := run_op o OpResume (clear_out x) in
  run_inv other kitty0 kalt0 appid0 honours fl d
          (sem_toks (s_out (x_m x')) (fresh_term other kitty0 kalt0 (d_ustyle d) appid0 honours))
  /\ st_run fl d x'.
Proof.
  intros Hs.
  destruct x as [[fl' d' [nr nc ns nv] [lr lc ls lv] rf nu bf out pl hg] shn shl gn gl su cl].
  unfold st_susp in Hs; cbn in Hs; destruct Hs as (? & ? & ? & ? & ? & ? & ? & ?); subst fl' d' nu bf pl hg su cl.
  cbv zeta. split.
  - match goal with |- run_inv _ _ _ _ _ _ _ ?T =>
      replace T with (running_term other kitty0 kalt0 honours fl d (nv && lv) (if nv && lv then ns else d_ustyle d)
                                   text_shape appid0 (f_inband fl && honours)) end.
    + apply running_term_inv; auto. destruct (f_inband fl); cbn; auto; discriminate.
      destruct (f_inband fl), honours; cbn; auto.
    + destruct fl as [sy un ex kk sx th a176 inb nm]; destruct d as [kf aid us].
      destruct sy, un, ex, kk, sx, th, a176, inb, nm, nv, lv; reflexivity.
  - destruct fl as [sy un ex kk sx th a176 inb nm]; destruct d as [kf aid us].
    destruct sy, un, ex, kk, sx, th, a176, inb, nm, nv, lv.
    all: unfold st_run.
    all: vm_compute.
    all: repeat split.
Qed.

(* ---------- start-up ---------- *)
Definition startup_from (fl : flags) (nm : bool) (d : data) : mst :=
  let m0 := mkM (flags0 nm) d cur0 cur0 false false [] [] false false in
  let m1 := set_parser true (set_w true [] (s_out m0) m0) in
  let m2 := set_fl fl (run_top send_queries m1) in
  let m3 := run_leaf enable_modes (run_leaf enter_alt m2) in
  set_next (mkCur (c_row (s_next m3)) (c_col (s_next m3)) cursor_block (c_vis (s_next m3))) m3.

(* New: capability detection and the quirks come after the query phase and before
   enterAltScreen / enableModes, with no output in between *)
Lemma startup_factor o det d :
  startup o det d = startup_from (apply_quirks o (with_nomouse (o_nomouse o) det)) (o_nomouse o) d.
Proof.
  unfold startup, startup_from, new_state.
  cbv beta iota delta [run_calls run_calls_f new_calls]. cbv zeta.
  set (M := run_top send_queries _). destruct M. reflexivity.
Qed.

Lemma startup_from_establishes other kitty0 kalt0 cstyle0 appid0 honours fl nm d :
  let m := startup_from fl nm d in
  run_inv other kitty0 kalt0 appid0 honours fl d (sem_toks (s_out m) (fresh_term other kitty0 kalt0 cstyle0 appid0 honours))
  /\ s_fl m = fl /\ s_d m = d /\ s_nuls m = false /\ s_buf m = [] /\ s_parser_live m = true /\ s_hung m = false.
Proof.
  cbv zeta. split.
  - match goal with |- run_inv _ _ _ _ _ _ _ ?T =>
      replace T with (running_term other kitty0 kalt0 honours fl d false cstyle0 text_shape appid0 honours) end.
    + apply running_term_inv; auto.
    + destruct fl as [sy un ex kk sx th a176 inb nm']; destruct d as [kf aid us].
      destruct sy, un, ex, kk, sx, th, a176, inb, nm', nm; reflexivity.
  - destruct fl as [sy un ex kk sx th a176 inb nm']; destruct d as [kf aid us].
    destruct sy, un, ex, kk, sx, th, a176, inb, nm', nm.
    all: vm_compute.
    all: repeat split.
Qed.


(* ---------- the API protocol of a session ---------- *)
(* ---------- New fails after start-up ---------- *)
Definition failed_from (fl : flags) (nm : bool) (d : data) : mst :=
  let m0 := mkM (flags0 nm) d cur0 cur0 false false [] [] false false in
  let m1 := set_parser true (set_w true [] (s_out m0) m0) in
  let m2 := set_fl fl (run_top send_queries m1) in
  run_top suspend_script (run_leaf enable_modes (run_leaf enter_alt m2)).

Lemma failed_new_factor o det d :
  failed_new o det d = failed_from (apply_quirks o (with_nomouse (o_nomouse o) det)) (o_nomouse o) d.
Proof.
  unfold failed_new, failed_from, new_state.
  cbv beta iota delta [run_calls_f new_calls]. cbv zeta.
  set (M := run_top send_queries _). destruct M. reflexivity.
Qed.

Lemma failed_from_restores other kitty0 kalt0 cstyle0 appid0 honours fl nm d :
  (f_osc176 fl = true -> d_appid d = appid0) ->
  sem_toks (s_out (failed_from fl nm d)) (fresh_term other kitty0 kalt0 cstyle0 appid0 honours)
  = fresh_term other kitty0 kalt0 (d_ustyle d) appid0 honours
  /\ s_hung (failed_from fl nm d) = false.
Proof.
  intros Hc.
  destruct fl as [sy un ex kk sx th a176 inb nm']; destruct d as [kf aid us]; cbn in Hc.
  destruct a176; [rewrite (Hc eq_refl)|]; clear Hc.
  all: destruct sy, un, ex, kk, sx, th, inb, nm', nm.
  all: split; reflexivity.
Qed.

Inductive phase := PRun | PSusp | PClosed.

(* Which operation may follow in which phase.  Rendering or SetAppID while suspended, Resume while
   running and anything but another Close after Close are outside the API's contract; SetAppID is
   only meaningful when the terminal answered the OSC 176 query (vx.CanSetAppID()).  Suspend and a
   first Close WHILE SUSPENDED are allowed by the API -- they are excluded from the theorem by the
   separate guard [hits_suspended_shutdown] (the recorded finding: they never return). *)
Definition protocol_step (fl : flags) (ph : phase) (p : op) : option phase :=
  match ph, p with
  | PRun, (OpFrame _ | OpRender | OpRefresh | OpShowCursor _ _ _ | OpHideCursor | OpSetMouseShape _) => Some PRun
  | PRun, OpSetAppID _ => if f_osc176 fl then Some PRun else None
  | PRun, OpSuspend => Some PSusp
  | PRun, (OpClose | OpKill | OpPanic) => Some PClosed
  | PSusp, (OpShowCursor _ _ _ | OpHideCursor | OpSetMouseShape _) => Some PSusp
  | PSusp, OpResume => Some PRun
  | PSusp, OpSuspend => Some PSusp
  | PSusp, (OpClose | OpKill | OpPanic) => Some PClosed
  | PClosed, OpClose => Some PClosed
  | _, _ => None
  end.

Fixpoint protocol (fl : flags) (ph : phase) (ops : list op) : option phase :=
  match ops with
  | [] => Some ph
  | p :: r => match protocol_step fl ph p with Some ph1 => protocol fl ph1 r | None => None end
  end.

Definition phase_flags (ph : phase) (suspended closed : bool) : Prop :=
  match ph with
  | PRun => suspended = false /\ closed = false
  | PSusp => suspended = true /\ closed = false
  | PClosed => closed = true
  end.

(* the same run as [run_ops], keeping the state *)
Fixpoint run_ops_st (o : opts) (ops : list op) (x : sst) : sst :=
  match ops with [] => x | p :: r => run_ops_st o r (run_op o p (clear_out x)) end.

Section Session.
Variables (other kitty0 kalt0 appid0 : list Z) (honours : bool) (fl : flags) (d : data) (o : opts).
Hypothesis Happ : f_osc176 fl = true -> d_appid d = appid0.

Definition T0 : term := fresh_term other kitty0 kalt0 (d_ustyle d) appid0 honours.

Definition inv (ph : phase) (x : sst) (t : term) : Prop :=
  match ph with
  | PRun => st_run fl d x /\ run_inv other kitty0 kalt0 appid0 honours fl d t
  | PSusp => st_susp fl d x /\ t = T0
  | PClosed => st_closed x /\ t = T0
  end.

Lemma st_run_hung x : st_run fl d x -> s_hung (x_m x) = false. Proof. intros H; apply H. Qed.

Lemma step_inv ph ph1 p x t sus clo :
  inv ph x t -> protocol_step fl ph p = Some ph1 -> phase_flags ph sus clo ->
  hits_suspended_shutdown [p] sus clo = false ->
  let x1 := run_op o p (clear_out x) in
  inv ph1 x1 (sem_toks (s_out (x_m x1)) t) /\ s_hung (x_m x1) = false.
Proof.
  intros Hi Hp Hf Hh. cbv zeta.
  destruct ph.
  - (* running *)
    destruct Hi as [Hs Hr].
    assert (Hy : s_hung (x_m (clear_out x)) = false).
    { destruct x as [[? ? ? ? ? ? ? ? ? ?] ? ? ? ? ? ?]; cbn. apply Hs. }
    destruct p; cbn in Hp; try discriminate.
    + (* OpFrame *) inversion Hp; subst ph1.
      set (xg := mkS (x_m x) (x_shape_next x) (x_shape_last x) g (x_glast x) (x_suspended x) (x_closed x)).
      assert (Hsg : st_run fl d xg) by (destruct x; exact Hs).
      assert (E : run_op o (OpFrame g) (clear_out x) = do_render (clear_out xg)).
      { unfold run_op. rewrite Hy. destruct x; reflexivity. }
      rewrite E. destruct (render_preserves _ _ _ _ _ _ _ _ _ Hsg Hr) as [A B]. split; [split; assumption|apply B].
    + (* OpRender *) inversion Hp; subst ph1.
      assert (E : run_op o OpRender (clear_out x) = do_render (clear_out x)).
      { unfold run_op. rewrite Hy. reflexivity. }
      rewrite E. destruct (render_preserves _ _ _ _ _ _ _ _ _ Hs Hr) as [A B]. split; [split; assumption|apply B].
    + (* OpRefresh *) inversion Hp; subst ph1.
      set (xr := set_m (set_refresh true (x_m x)) x).
      assert (Hsr : st_run fl d xr) by (destruct x as [[? ? ? ? ? ? ? ? ? ?] ? ? ? ? ? ?]; exact Hs).
      assert (E : run_op o OpRefresh (clear_out x) = do_render (clear_out xr)).
      { unfold run_op. rewrite Hy. destruct x as [[? ? ? ? ? ? ? ? ? ?] ? ? ? ? ? ?]; reflexivity. }
      rewrite E. destruct (render_preserves _ _ _ _ _ _ _ _ _ Hsr Hr) as [A B]. split; [split; assumption|apply B].
    + (* OpShowCursor *) inversion Hp; subst ph1. unfold run_op. rewrite Hy.
      destruct x as [[? ? ? ? ? ? ? ? ? ?] ? ? ? ? ? ?]; cbn in *. split; [split; [exact Hs|exact Hr]|apply Hs].
    + (* OpHideCursor *) inversion Hp; subst ph1. unfold run_op. rewrite Hy.
      destruct x as [[? ? ? ? ? ? ? ? ? ?] ? ? ? ? ? ?]; cbn in *. split; [split; [exact Hs|exact Hr]|apply Hs].
    + (* OpSetMouseShape *) inversion Hp; subst ph1. unfold run_op. rewrite Hy.
      destruct x as [[? ? ? ? ? ? ? ? ? ?] ? ? ? ? ? ?]; cbn in *. split; [split; [exact Hs|exact Hr]|apply Hs].
    + (* OpSetAppID *) destruct (f_osc176 fl) eqn:E176; [|discriminate]. inversion Hp; subst ph1.
      unfold run_op. rewrite Hy.
      destruct x as [[? ? ? ? ? ? ? ? ? ?] ? ? ? ? ? ?]; cbn in *. split; [split; [exact Hs|]|apply Hs].
      destruct t. unfold run_inv in *. cbn in *. rewrite E176.
      destruct Hr as (?&?&?&?&?&?&?&?&?&?&?&?&?&?&?&?&?&?&?&?&?&?). repeat split; auto. discriminate.
    + (* OpSuspend *) inversion Hp; subst ph1.
      destruct (suspend_restores _ _ _ _ _ _ _ _ _ o Hs Hr Happ) as [A B]. split; [split; [exact B|exact A]|apply B].
    + (* OpClose *) inversion Hp; subst ph1.
      destruct (close_restores _ _ _ _ _ _ _ _ _ o OpClose (or_introl eq_refl) Hs Hr Happ) as [A B]. split; [split; [exact B|exact A]|apply B].
    + (* OpKill *) inversion Hp; subst ph1.
      destruct (close_restores _ _ _ _ _ _ _ _ _ o OpKill (or_intror (or_introl eq_refl)) Hs Hr Happ) as [A B]. split; [split; [exact B|exact A]|apply B].
    + (* OpPanic *) inversion Hp; subst ph1.
      destruct (close_restores _ _ _ _ _ _ _ _ _ o OpPanic (or_intror (or_intror eq_refl)) Hs Hr Happ) as [A B]. split; [split; [exact B|exact A]|apply B].
  - (* suspended *)
    destruct Hi as [Hs Ht]. destruct Hf as [-> ->].
    assert (Hy : s_hung (x_m (clear_out x)) = false).
    { destruct x as [[? ? ? ? ? ? ? ? ? ?] ? ? ? ? ? ?]; cbn. apply Hs. }
    destruct p; cbn in Hp; try discriminate; cbn in Hh; try discriminate.
    + inversion Hp; subst ph1. unfold run_op. rewrite Hy.
      destruct x as [[? ? ? ? ? ? ? ? ? ?] ? ? ? ? ? ?]; cbn in *. split; [split; [exact Hs|exact Ht]|apply Hs].
    + inversion Hp; subst ph1. unfold run_op. rewrite Hy.
      destruct x as [[? ? ? ? ? ? ? ? ? ?] ? ? ? ? ? ?]; cbn in *. split; [split; [exact Hs|exact Ht]|apply Hs].
    + inversion Hp; subst ph1. unfold run_op. rewrite Hy.
      destruct x as [[? ? ? ? ? ? ? ? ? ?] ? ? ? ? ? ?]; cbn in *. split; [split; [exact Hs|exact Ht]|apply Hs].
    + (* OpResume *) inversion Hp; subst ph1. subst t.
      destruct (resume_establishes other kitty0 kalt0 appid0 honours _ _ _ o Hs) as [A B]. split; [split; [exact B|exact A]|apply B].
  - (* closed: only another Close, which does nothing *)
    destruct Hi as [Hs Ht].
    destruct p; cbn in Hp; try discriminate. inversion Hp; subst ph1.
    assert (E : run_op o OpClose (clear_out x) = clear_out x).
    { destruct Hs as [Hc Hh']. destruct x as [[? ? ? ? ? ? ? ? ? ?] ? ? ? ? ? ?]; cbn in *. subst. reflexivity. }
    rewrite E. destruct x as [[? ? ? ? ? ? ? ? ? ?] ? ? ? ? ? ?]; cbn in *. split; [split; [exact Hs|exact Ht]|apply Hs].
Qed.
End Session.


Lemma hits_cons_false p r sus clo :
  hits_suspended_shutdown (p :: r) sus clo = false -> hits_suspended_shutdown [p] sus clo = false.
Proof.
  cbn. destruct p; auto; try (intros H; apply orb_false_iff in H as [-> _]; reflexivity).
  all: destruct clo; auto; intros H; apply orb_false_iff in H as [-> _]; reflexivity.
Qed.

(* the (suspended, closed) flags the guard tracks follow the protocol's phase *)
Lemma hits_next fl ph ph1 p r sus clo :
  protocol_step fl ph p = Some ph1 -> phase_flags ph sus clo ->
  hits_suspended_shutdown (p :: r) sus clo = false ->
  exists sus' clo', phase_flags ph1 sus' clo' /\ hits_suspended_shutdown r sus' clo' = false.
Proof.
  intros Hp Hf Hh. destruct ph; cbn in Hf.
  - destruct Hf as [-> ->]. destruct p; cbn in Hp; try discriminate;
      try (destruct (f_osc176 fl); [|discriminate]); inversion Hp; subst ph1; cbn in Hh;
      first [ exists false, false; split; [split; reflexivity|exact Hh]
            | exists true, false; split; [split; reflexivity|exact Hh]
            | exists true, true; split; [reflexivity|exact Hh] ].
  - destruct Hf as [-> ->]. destruct p; cbn in Hp; try discriminate; inversion Hp; subst ph1; cbn in Hh; try discriminate;
      first [ exists true, false; split; [split; reflexivity|exact Hh]
            | exists false, false; split; [split; reflexivity|exact Hh] ].
  - subst clo. destruct p; cbn in Hp; try discriminate. inversion Hp; subst ph1. cbn in Hh.
    exists sus, true. split; [reflexivity|exact Hh].
Qed.

Section Session2.
Variables (other kitty0 kalt0 appid0 : list Z) (honours : bool) (fl : flags) (d : data) (o : opts).
Hypothesis Happ : f_osc176 fl = true -> d_appid d = appid0.

Lemma ops_inv : forall ops ph ph' x t sus clo,
  inv other kitty0 kalt0 appid0 honours fl d ph x t -> protocol fl ph ops = Some ph' -> phase_flags ph sus clo ->
  hits_suspended_shutdown ops sus clo = false ->
  inv other kitty0 kalt0 appid0 honours fl d ph' (run_ops_st o ops x) (sem_toks (flat_map snd (run_ops o ops x)) t)
  /\ forallb (fun c => fst c =? 0) (run_ops o ops x) = true.
Proof.
  induction ops as [|p r IH]; intros ph ph' x t sus clo Hi Hp Hf Hh.
  - cbn in Hp. inversion Hp; subst. cbn [run_ops run_ops_st flat_map forallb]. split; [exact Hi|reflexivity].
  - cbn [protocol] in Hp. destruct (protocol_step fl ph p) as [ph1|] eqn:Es; [|discriminate].
    pose proof (hits_cons_false _ _ _ _ Hh) as Hh1.
    destruct (step_inv other kitty0 kalt0 appid0 honours fl d o Happ ph ph1 p x t sus clo Hi Es Hf Hh1) as [Hi1 Hhung].
    destruct (hits_next _ _ _ _ _ _ _ Es Hf Hh) as (sus' & clo' & Hf' & Hh').
    specialize (IH ph1 ph' _ _ sus' clo' Hi1 Hp Hf' Hh'). destruct IH as [IH1 IH2].
    cbn [run_ops run_ops_st flat_map snd forallb fst]. rewrite sem_toks_app. split; [exact IH1|].
    rewrite Hhung, andb_false_r. cbn. exact IH2.
Qed.
End Session2.

(* ---------- the session theorem ---------- *)
Definition ends_restored (ph : phase) : bool := match ph with PRun => false | _ => true end.

Theorem session_restores :
  forall (o : opts) (det : flags) (d : data) (rows cols : Z) (ops : list op)
         (other kitty0 kalt0 appid0 : list Z) (honours : bool) (ph : phase),
  let fl := apply_quirks o (with_nomouse (o_nomouse o) det) in
  let t0 := fresh_term other kitty0 kalt0 (d_ustyle d) appid0 honours in
  (f_osc176 fl = true -> d_appid d = appid0) ->
  protocol fl PRun ops = Some ph ->
  hits_suspended_shutdown ops false false = false ->
  let chunks := session_chunks o det d rows cols ops in
  forallb (fun c => fst c =? 0) chunks = true
  /\ (ends_restored ph = true -> sem_toks (flat_map snd chunks) t0 = t0).
Proof.
  intros o det d rows cols ops other kitty0 kalt0 appid0 honours ph fl t0 Happ Hp Hh chunks.
  subst chunks. unfold session_chunks.
  set (x0 := start_session o det d rows cols).
  assert (H0 : inv other kitty0 kalt0 appid0 honours fl d PRun x0 (sem_toks (s_out (x_m x0)) t0)).
  { subst x0. unfold start_session. cbn [x_m]. rewrite startup_factor. fold fl.
    destruct (startup_from_establishes other kitty0 kalt0 (d_ustyle d) appid0 honours fl (o_nomouse o) d) as (A & B1 & B2 & B3 & B4 & B5 & B6).
    split; [|exact A]. unfold st_run; cbn [x_m x_suspended x_closed]. repeat split; assumption. }
  destruct (ops_inv other kitty0 kalt0 appid0 honours fl d o Happ ops PRun ph x0 _ false false H0 Hp (conj eq_refl eq_refl) Hh) as [A B].
  cbn [forallb fst flat_map snd]. rewrite sem_toks_app. split; [exact B|].
  intros He. destruct ph; try discriminate; apply A.
Qed.



(* ---------- prefixes ---------- *)
Lemma protocol_app fl : forall a b ph ph', protocol fl ph (a ++ b) = Some ph' ->
  exists ph1, protocol fl ph a = Some ph1 /\ protocol fl ph1 b = Some ph'.
Proof.
  induction a as [|p a IH]; intros b ph ph' H; cbn in *.
  - eauto.
  - destruct (protocol_step fl ph p); [|discriminate]. eauto.
Qed.

Lemma hits_app : forall a b sus clo, hits_suspended_shutdown (a ++ b) sus clo = false ->
  hits_suspended_shutdown a sus clo = false.
Proof.
  induction a as [|p a IH]; intros b sus clo H; [reflexivity|].
  cbn in *. destruct p; eauto.
  - apply orb_false_iff in H as [-> H]. cbn. eauto.
  - destruct clo; eauto. apply orb_false_iff in H as [-> H]. cbn. eauto.
  - destruct clo; eauto. apply orb_false_iff in H as [-> H]. cbn. eauto.
  - destruct clo; eauto. apply orb_false_iff in H as [-> H]. cbn. eauto.
Qed.

Lemma run_ops_app o : forall a b x, run_ops o (a ++ b) x = run_ops o a x ++ run_ops o b (run_ops_st o a x).
Proof. induction a as [|p a IH]; intros b x; cbn; [reflexivity|]. rewrite IH. reflexivity. Qed.

(* what a longer session writes begins with what its prefix writes *)
Lemma session_chunks_app o det d rows cols a b :
  exists rest, session_chunks o det d rows cols (a ++ b) = session_chunks o det d rows cols a ++ rest.
Proof. unfold session_chunks. rewrite run_ops_app. eexists. rewrite app_comm_cons. reflexivity. Qed.

(* ---------- Close twice ---------- *)
Lemma close_idempotent o x : x_closed x = true -> run_op o OpClose x = x.
Proof.
  intros H. unfold run_op, do_close. rewrite H.
  destruct (s_hung (x_m x)); reflexivity.
Qed.

(* ---------- Resume re-establishes what start-up established ---------- *)
(* everything Vaxis establishes while it runs: all reference-terminal state except the cursor's
   visibility and style, the pointer shape and the application id, which belong to the application *)
Definition established (t : term) :=
  (m_ckeys t, m_btn t, m_any t, m_focus t, m_sgrmouse t, m_alt t, m_paste t, m_sync t, m_unicode t, m_theme t,
   m_inband t, m_sixelscroll t, m_other t, t_keypad_app t, t_kitty t, t_kitty_other t, t_pen_default t, t_link_open t, t_poison t).

Lemma run_inv_established other kitty0 kalt0 appid0 honours fl d t t' :
  (honours = true -> f_inband fl = true) ->
  run_inv other kitty0 kalt0 appid0 honours fl d t -> run_inv other kitty0 kalt0 appid0 honours fl d t' ->
  established t = established t'.
Proof.
  intros Hh (a1&a2&a3&a4&a5&a6&a7&a8&a9&a10&a11&a12&a13&a14&a15&a16&a17&a18&a19&a20&a21&a22)
            (b1&b2&b3&b4&b5&b6&b7&b8&b9&b10&b11&b12&b13&b14&b15&b16&b17&b18&b19&b20&b21&b22).
  assert (Ei : forall u, (f_inband fl = true -> m_inband u = honours) -> (m_inband u = true -> honours = true) ->
               m_inband u = honours).
  { intros u H1 H2. destruct honours; [auto|]. destruct (m_inband u); auto. }
  unfold established. rewrite (Ei t a21 a22), (Ei t' b21 b22). congruence.
Qed.

Theorem resume_reestablishes :
  forall (o : opts) (det : flags) (d : data) (rows cols : Z) (ops : list op)
         (other kitty0 kalt0 appid0 : list Z) (honours : bool),
  let fl := apply_quirks o (with_nomouse (o_nomouse o) det) in
  let t0 := fresh_term other kitty0 kalt0 (d_ustyle d) appid0 honours in
  (f_osc176 fl = true -> d_appid d = appid0) ->
  (honours = true -> f_inband fl = true) ->
  protocol fl PRun (ops ++ [OpResume]) = Some PRun ->
  hits_suspended_shutdown (ops ++ [OpResume]) false false = false ->
  established (sem_toks (flat_map snd (session_chunks o det d rows cols (ops ++ [OpResume]))) t0)
  = established (sem_toks (s_out (startup o det d)) t0).
Proof.
  intros o det d rows cols ops other kitty0 kalt0 appid0 honours fl t0 Happ Hin Hp Hh.
  unfold session_chunks.
  set (x0 := start_session o det d rows cols).
  assert (H0 : inv other kitty0 kalt0 appid0 honours fl d PRun x0 (sem_toks (s_out (x_m x0)) t0)).
  { subst x0. unfold start_session. cbn [x_m]. rewrite startup_factor. fold fl.
    destruct (startup_from_establishes other kitty0 kalt0 (d_ustyle d) appid0 honours fl (o_nomouse o) d) as (A & B1 & B2 & B3 & B4 & B5 & B6).
    split; [|exact A]. unfold st_run; cbn [x_m x_suspended x_closed]. repeat split; assumption. }
  destruct (ops_inv other kitty0 kalt0 appid0 honours fl d o Happ _ PRun PRun x0 _ false false H0 Hp (conj eq_refl eq_refl) Hh) as [A B].
  cbn [flat_map snd]. rewrite sem_toks_app.
  eapply run_inv_established; [exact Hin|apply A|apply H0].
Qed.

(* ---------- the recorded finding: Suspend / Close while suspended never returns ---------- *)
Lemma suspended_shutdown_hangs fl d x o p :
  st_susp fl d x -> (p = OpSuspend \/ p = OpClose \/ p = OpKill \/ p = OpPanic) ->
  s_hung (x_m (run_op o p (clear_out x))) = true.
Proof.
  intros Hs Hp.
  destruct x as [[fl' d' nx ls rf nu bf out pl hg] shn shl gn gl su cl].
  unfold st_susp in Hs; cbn in Hs; destruct Hs as (? & ? & ? & ? & ? & ? & ? & ?); subst.
  destruct Hp as [->|[->|[->| ->]]]; reflexivity.
Qed.

(* ---------- the translated lists are balanced ---------- *)
Fixpoint script_modes (want_set : bool) (fl : flags) (sc : script) : list Z :=
  match sc with
  | [] => []
  | (c, s) :: r =>
      let here := match s with
                  | SWriteString (TDecset n) | SFprintf (TDecset n) | SDirect (TDecset n) => if want_set then [n] else []
                  | SWriteString (TDecrst n) | SFprintf (TDecrst n) | SDirect (TDecrst n) => if want_set then [] else [n]
                  | _ => []
                  end in
      (if ceval fl c then here else []) ++ script_modes want_set fl r
  end.
Definition sets_of := script_modes true.
Definition resets_of := script_modes false.
Definition subset_b (a b : list Z) : bool := forallb (fun n => mem_z n b) a.

Lemma subset_b_spec a b : subset_b a b = true -> forall n, In n a -> In n b.
Proof.
  unfold subset_b. intros H n Hn. rewrite forallb_forall in H. specialize (H n Hn).
  unfold mem_z in H. apply existsb_exists in H as (m & Hm & E). apply Z.eqb_eq in E. subst. exact Hm.
Qed.

(* every private mode set by the query phase, enterAltScreen or enableModes under a capability set
   is reset by disableModes or exitAltScreen under the same capability set *)
Lemma enable_disable_balanced fl n :
  In n (sets_of fl (send_queries ++ enter_alt ++ enable_modes)) -> In n (resets_of fl (disable_modes ++ exit_alt)).
Proof.
  apply subset_b_spec.
  destruct fl as [sy un ex kk sx th a176 inb nm]; destruct sy, un, ex, kk, sx, th, a176, inb, nm; reflexivity.
Qed.

(* the only mode reset on the way in (the cursor, hidden) is set again on the way out *)
Lemma hidden_cursor_balanced fl n :
  In n (resets_of fl (enter_alt ++ enable_modes)) -> In n (sets_of fl (exit_alt ++ suspend_script)).
Proof.
  apply subset_b_spec.
  destruct fl as [sy un ex kk sx th a176 inb nm]; destruct sy, un, ex, kk, sx, th, a176, inb, nm; reflexivity.
Qed.

(* ---------- bridge: the bytes of the vocabulary mean what the token semantics says ---------- *)
Lemma bridge_const k t : binterp_bytes (const_bytes k) t = sem_tok (OConst k) t.
Proof. destruct k; reflexivity. Qed.

Definition managed_modes : list Z := [1; 25; 1002; 1003; 1004; 1006; 1049; 2004; 2026; 2027; 2031; 2048; 8452].

Lemma bridge_decset n t : In n managed_modes ->
  binterp_bytes (tok_bytes (ODecset n)) t = sem_tok (ODecset n) t /\
  binterp_bytes (tok_bytes (ODecrst n)) t = sem_tok (ODecrst n) t.
Proof.
  intros H. cbn in H. destruct t.
  repeat (destruct H as [<-|H]; [split; reflexivity|]). destruct H.
Qed.

Lemma bridge_kitty_push n t : In n (map Z.of_nat (seq 0 32)) ->
  binterp_bytes (tok_bytes (OParm FmKittyKBEnable [PInt n])) t = sem_tok (OParm FmKittyKBEnable [PInt n]) t.
Proof.
  intros H. cbn in H. destruct t.
  repeat (destruct H as [<-|H]; [reflexivity|]). destruct H.
Qed.

Lemma bridge_cursor_style n t : In n [0; 1; 2; 3; 4; 5; 6] ->
  binterp_bytes (tok_bytes (OParm FmCursorStyleSet [PInt n])) t = sem_tok (OParm FmCursorStyleSet [PInt n]) t.
Proof.
  intros H. cbn in H. destruct t.
  repeat (destruct H as [<-|H]; [reflexivity|]). destruct H.
Qed.

Lemma bridge_text_shape t :
  binterp_bytes (tok_bytes (OParm FmMouseShape [PStr text_shape])) t = sem_tok (OParm FmMouseShape [PStr text_shape]) t.
Proof. destruct t; reflexivity. Qed.
(* ---------- the overlapped shutdown ---------- *)
Lemma split_wait sc : before_wait sc ++ from_wait sc = sc.
Proof. induction sc as [|[c s] r IH]; [reflexivity|]. destruct s; cbn; rewrite ?IH; reflexivity. Qed.

Lemma run_top_aux_pre : forall a b ds m,
  run_top_aux (a ++ b) ds m = run_top_aux b (fst (run_pre a ds m)) (snd (run_pre a ds m)).
Proof.
  induction a as [|[c s] r IH]; intros b ds m; [reflexivity|].
  cbn [app run_top_aux run_pre].
  destruct (ceval (s_fl m) c && negb (s_hung m)); [|apply IH].
  destruct s; apply IH.
Qed.

(* the Close of the input goroutine, held at the parser wait and released, is the plain Close *)
Lemma close_split early o x : x_closed x = false ->
  close_end o (fst (close_begin_with early o x)) (snd (close_begin_with early o x)) = do_close o x.
Proof.
  intros Hc. unfold do_close. rewrite Hc, andb_false_r.
  unfold close_begin_with.
  change (calls_before_suspend close_calls) with (@nil callname).
  change (run_calls [] o (s_fl (x_m x)) (x_m x)) with (x_m x).
  destruct (run_pre (before_wait suspend_script) [] (x_m x)) as [ds m1] eqn:E.
  cbn [fst snd]. unfold close_end. cbn [x_m x_shape_next x_shape_last x_gnext x_glast].
  change (calls_after_suspend close_calls) with [CnConsoleClose].
  change (run_calls close_calls o (s_fl (x_m x)) (x_m x)) with (run_top_aux suspend_script [] (x_m x)).
  rewrite <- (split_wait suspend_script) at 2. rewrite run_top_aux_pre, E. cbn [fst snd].
  reflexivity.
Qed.

(* what a goroutine writes does not depend on what was written before *)
Definition pre (l : list otok) (m : mst) : mst := set_w (s_nuls m) (s_buf m) (l ++ s_out m) m.

Lemma pre_out l m : s_out (pre l m) = l ++ s_out m. Proof. destruct m; reflexivity. Qed.

Lemma pre_emit l k m : emit k (pre l m) = pre l (emit k m).
Proof. destruct m; unfold emit, pre, set_w; cbn. rewrite app_assoc. reflexivity. Qed.

Lemma pre_wws l ts m : w_write_string ts (pre l m) = pre l (w_write_string ts m).
Proof. destruct m; unfold w_write_string, pre, buf_empty; cbn. destruct (negb (nonempty (toks_bytes ts))); reflexivity. Qed.

Lemma pre_ww l ts m : w_write ts (pre l m) = pre l (w_write ts m).
Proof. destruct m; unfold w_write, pre, buf_empty; cbn. destruct (negb (nonempty (toks_bytes ts))); reflexivity. Qed.

Lemma pre_flush l m : w_flush (pre l m) = pre l (w_flush m).
Proof.
  destruct m as [fl d nx ls rf nu bf out pl hg]. unfold w_flush, buf_empty, pre, emit, show_cursor, set_w; cbn.
  destruct (negb nu && negb (nonempty bf)).
  - repeat match goal with |- context [if ?c then _ else _] => destruct c end; cbn; rewrite <- ?app_assoc; reflexivity.
  - cbn. rewrite <- app_assoc. reflexivity.
Qed.

Lemma pre_step l s m : run_step s (pre l m) = pre l (run_step s m).
Proof.
  unfold run_step. replace (s_hung (pre l m)) with (s_hung m) by (destruct m; reflexivity).
  destruct (s_hung m); [reflexivity|].
  replace (s_d (pre l m)) with (s_d m) by (destruct m; reflexivity).
  destruct s; try reflexivity; try apply pre_wws; try apply pre_ww; try apply pre_emit; try apply pre_flush;
    try (destruct m; reflexivity).
  destruct m as [fl d nx ls rf nu bf out pl hg]; cbn. destruct pl; reflexivity.
Qed.

Lemma pre_fl l m : s_fl (pre l m) = s_fl m. Proof. destruct m; reflexivity. Qed.
Lemma pre_hung l m : s_hung (pre l m) = s_hung m. Proof. destruct m; reflexivity. Qed.

Lemma pre_leaf l : forall sc m, run_leaf sc (pre l m) = pre l (run_leaf sc m).
Proof.
  induction sc as [|[c s] r IH]; intros m; [reflexivity|]. cbn [run_leaf]. rewrite pre_fl.
  destruct (ceval (s_fl m) c); [rewrite pre_step|]; apply IH.
Qed.

Lemma pre_top l : forall sc ds m, run_top_aux sc ds (pre l m) = pre l (run_top_aux sc ds m).
Proof.
  induction sc as [|[c s] r IH]; intros ds m.
  - cbn [run_top_aux]. revert m. induction ds as [|f ds IHd]; intros m; [reflexivity|].
    cbn [fold_left]. rewrite pre_leaf. apply IHd.
  - cbn [run_top_aux]. rewrite pre_fl, pre_hung.
    destruct (ceval (s_fl m) c && negb (s_hung m)); [|apply IH].
    destruct s; try (rewrite pre_step; apply IH); try apply IH.
    rewrite pre_leaf. apply IH.
Qed.

Lemma clear_pre x : x_m x = pre (s_out (x_m x)) (x_m (clear_out x)).
Proof. destruct x as [[? ? ? ? ? ? ? ? ? ?] ? ? ? ? ? ?]; unfold pre; cbn. rewrite app_nil_r. reflexivity. Qed.

(* the output of the released Close: what was written up to the wait, then what the rest writes *)
Lemma close_end_out o y ds :
  s_out (x_m (close_end o y ds)) = s_out (x_m y) ++ s_out (x_m (close_end o (clear_out y) ds)).
Proof.
  unfold close_end. cbn [x_m].
  change (calls_after_suspend close_calls) with [CnConsoleClose].
  change (run_calls [CnConsoleClose] o ?a ?m) with m.
  rewrite (clear_pre y) at 1. rewrite pre_top, pre_out. reflexivity.
Qed.

Lemma clear_clear x : clear_out (clear_out x) = clear_out x.
Proof. destruct x as [[? ? ? ? ? ? ? ? ? ?] ? ? ? ? ? ?]; reflexivity. Qed.

Lemma idle_all_zero n : forallb (fun c : Z * list otok => fst c =? 0) (idle_chunks n) = true.
Proof. induction n; [reflexivity|exact IHn]. Qed.

Lemma idle_no_output n : flat_map snd (idle_chunks n) = @nil otok.
Proof. induction n; [reflexivity|exact IHn]. Qed.

(* with the flag set, the application's Close calls return at the guard and write nothing *)
Lemma app_closes_guarded o : forall n y, x_closed y = true ->
  exists y', app_closes o n y = (idle_chunks n, (y', false)) /\ clear_out y' = clear_out y.
Proof.
  induction n as [|n IH]; intros y Hc.
  - exists y. split; reflexivity.
  - cbn [app_closes]. unfold app_close, do_close.
    assert (Hc' : x_closed (clear_out y) = true) by (destruct y as [[? ? ? ? ? ? ? ? ? ?] ? ? ? ? ? ?]; exact Hc).
    rewrite Hc'. change (close_guarded && true) with true. cbv iota.
    destruct (IH (clear_out y) Hc') as (y' & E & Ey). rewrite E.
    exists y'. split.
    + destruct y as [[? ? ? ? ? ? ? ? ? ?] ? ? ? ? ? ?]; reflexivity.
    + rewrite Ey. apply clear_clear.
Qed.

(* without it the first one does not return, and the rest is never issued *)
Lemma app_closes_unguarded o n y : x_closed y = false ->
  app_closes o (S n) y = ((2, []) :: idle_chunks n, (y, true)).
Proof.
  intros Hc. cbn [app_closes]. unfold app_close.
  assert (Hc' : x_closed (clear_out y) = false) by (destruct y as [[? ? ? ? ? ? ? ? ? ?] ? ? ? ? ? ?]; exact Hc).
  rewrite Hc', andb_false_r. reflexivity.
Qed.

Lemma later_closes o : forall n z, x_closed z = true -> s_hung (x_m z) = false ->
  run_ops o (repeat OpClose n) z = idle_chunks n.
Proof.
  induction n as [|n IH]; intros z Hc Hh; [reflexivity|].
  cbn [repeat run_ops idle_chunks].
  assert (E : run_op o OpClose (clear_out z) = clear_out z).
  { apply close_idempotent. destruct z as [[? ? ? ? ? ? ? ? ? ?] ? ? ? ? ? ?]; exact Hc. }
  rewrite E.
  assert (Hh' : s_hung (x_m (clear_out z)) = false) by (destruct z as [[? ? ? ? ? ? ? ? ? ?] ? ? ? ? ? ?]; exact Hh).
  rewrite Hh, Hh'. cbn [negb andb].
  replace (s_out (x_m (clear_out z))) with (@nil otok) by (destruct z as [[? ? ? ? ? ? ? ? ? ?] ? ? ? ? ? ?]; reflexivity).
  f_equal. apply IH; [destruct z as [[? ? ? ? ? ? ? ? ? ?] ? ? ? ? ? ?]; exact Hc|exact Hh'].
Qed.

Lemma later_closes_hung o : forall n w, s_hung (x_m w) = true -> run_ops o (repeat OpClose n) w = idle_chunks n.
Proof.
  induction n as [|n IH]; intros w Hw; [reflexivity|]. cbn [repeat run_ops idle_chunks].
  assert (Hw' : s_hung (x_m (clear_out w)) = true) by (destruct w as [[? ? ? ? ? ? ? ? ? ?] ? ? ? ? ? ?]; exact Hw).
  assert (E : run_op o OpClose (clear_out w) = clear_out w) by (unfold run_op; rewrite Hw'; reflexivity).
  rewrite E, Hw. cbn [negb andb].
  replace (s_out (x_m (clear_out w))) with (@nil otok) by (destruct w as [[? ? ? ? ? ? ? ? ? ?] ? ? ? ? ? ?]; reflexivity).
  f_equal. apply IH. exact Hw'.
Qed.

Lemma ops_state_is o : forall ops x, ops_state o ops x = run_ops_st o ops x.
Proof. induction ops as [|p r IH]; intros x; [reflexivity|apply IH]. Qed.

(* from a running state: the overlapped shutdown in closed form *)
Lemma overlap_tail_running o x during after :
  s_hung (x_m x) = false -> x_suspended x = false -> x_closed x = false ->
  let z := run_op o OpKill (clear_out x) in
  exists b e,
    overlap_tail o x during after = Some ((0, b) :: idle_chunks during ++ (if s_hung (x_m z) then 2 else 0, e) :: idle_chunks after)
    /\ s_out (x_m z) = b ++ e.
Proof.
  intros Hh Hs Hc z.
  assert (Hc0 : x_closed (clear_out x) = false) by (destruct x as [[? ? ? ? ? ? ? ? ? ?] ? ? ? ? ? ?]; exact Hc).
  assert (Hh0 : s_hung (x_m (clear_out x)) = false) by (destruct x as [[? ? ? ? ? ? ? ? ? ?] ? ? ? ? ? ?]; exact Hh).
  assert (Ez : z = do_close o (clear_out x)) by (subst z; unfold run_op; rewrite Hh0; reflexivity).
  pose proof (close_split close_flag_early o (clear_out x) Hc0) as Sp.
  unfold overlap_tail, overlap_tail_with. rewrite Hh, Hs, Hc. cbn [orb].
  fold close_begin. unfold close_begin in Sp. fold close_begin in Sp.
  destruct (close_begin o (clear_out x)) as [y ds] eqn:Eb. cbn [fst snd] in Sp.
  assert (Hy : x_closed y = true).
  { unfold close_begin, close_begin_with in Eb.
    destruct (run_pre _ _ _) in Eb. inversion Eb. reflexivity. }
  destruct (app_closes_guarded o during y Hy) as (y1 & Ea & Ey). rewrite Ea.
  rewrite Ey.
  set (z' := close_end o (clear_out y) ds).
  assert (Eo : s_out (x_m z) = s_out (x_m y) ++ s_out (x_m z')).
  { rewrite Ez, <- Sp. apply close_end_out. }
  assert (Hz : s_hung (x_m z') = s_hung (x_m z) /\ x_closed z' = true).
  { split; [|reflexivity]. rewrite Ez, <- Sp. subst z'. unfold close_end. cbn [x_m].
    change (calls_after_suspend close_calls) with [CnConsoleClose].
    change (run_calls [CnConsoleClose] o ?a ?m) with m.
    rewrite (clear_pre y) at 1. rewrite pre_top, pre_hung. reflexivity. }
  destruct Hz as [Hz1 Hz2].
  exists (s_out (x_m y)), (s_out (x_m z')). split; [|exact Eo].
  rewrite Hz1. destruct (s_hung (x_m z)) eqn:Ehz.
  - (* excluded later by the caller; the closed form still holds *)
    rewrite (later_closes_hung o after z' Hz1). reflexivity.
  - rewrite (later_closes o after z' Hz2 Hz1). reflexivity.
Qed.

(* a second Close that overlaps the shutdown started by a signal / panic is harmless *)
Theorem overlapping_close_harmless :
  forall (o : opts) (det : flags) (d : data) (rows cols : Z) (ops : list op) (during after : nat)
         (other kitty0 kalt0 appid0 : list Z) (honours : bool),
  let fl := apply_quirks o (with_nomouse (o_nomouse o) det) in
  let t0 := fresh_term other kitty0 kalt0 (d_ustyle d) appid0 honours in
  (f_osc176 fl = true -> d_appid d = appid0) ->
  protocol fl PRun ops = Some PRun ->
  hits_suspended_shutdown ops false false = false ->
  let before := session_chunks o det d rows cols ops in
  exists b e,
    overlap_chunks o det d rows cols ops during after
      = Some (before ++ (0, b) :: idle_chunks during ++ (0, e) :: idle_chunks after)
    /\ session_chunks o det d rows cols (ops ++ [OpKill]) = before ++ [(0, b ++ e)]
    /\ sem_toks (flat_map snd before ++ b ++ e) t0 = t0.
Proof.
  intros o det d rows cols ops during after other kitty0 kalt0 appid0 honours fl t0 Happ Hp Hh before.
  subst before. unfold overlap_chunks, session_chunks.
  set (x0 := start_session o det d rows cols).
  assert (H0 : inv other kitty0 kalt0 appid0 honours fl d PRun x0 (sem_toks (s_out (x_m x0)) t0)).
  { subst x0. unfold start_session. cbn [x_m]. rewrite startup_factor. fold fl.
    destruct (startup_from_establishes other kitty0 kalt0 (d_ustyle d) appid0 honours fl (o_nomouse o) d) as (A & B1 & B2 & B3 & B4 & B5 & B6).
    split; [|exact A]. unfold st_run; cbn [x_m x_suspended x_closed]. repeat split; assumption. }
  destruct (ops_inv other kitty0 kalt0 appid0 honours fl d o Happ ops PRun PRun x0 _ false false H0 Hp (conj eq_refl eq_refl) Hh) as [A B].
  rewrite ops_state_is. set (x := run_ops_st o ops x0) in *.
  destruct A as [Sx Rx].
  assert (Hx : s_hung (x_m x) = false /\ x_suspended x = false /\ x_closed x = false).
  { destruct Sx as (_ & _ & _ & _ & _ & a & b & c). auto. }
  destruct Hx as (Hx1 & Hx2 & Hx3).
  destruct (overlap_tail_running o x during after Hx1 Hx2 Hx3) as (b & e & E1 & E2). cbv zeta in E1, E2.
  destruct (close_restores other kitty0 kalt0 appid0 honours fl d x _ o OpKill (or_intror (or_introl eq_refl)) Sx Rx Happ) as [R1 R2].
  cbv zeta in R1, R2. destruct R2 as [_ Hz].
  rewrite Hz in E1. rewrite E1.
  exists b, e. split; [reflexivity|]. split.
  - rewrite run_ops_app. fold x. cbn [run_ops]. rewrite Hz, andb_false_r, E2. reflexivity.
  - cbn [flat_map snd]. rewrite <- E2, <- !app_assoc, !sem_toks_app. exact R1.
Qed.

(* the order of `vx.closed = true` and Suspend matters, and the model sees it: a Close that sets the flag
   only when it returns leaves the application's overlapping Close inside a second Suspend *)
Theorem close_flag_late_refuted : forall (o : opts) (x : sst) (n a : nat),
  s_hung (x_m x) = false -> x_suspended x = false -> x_closed x = false ->
  exists b rest, overlap_tail_with false o x (S n) a = Some ((0, b) :: (2, []) :: rest).
Proof.
  intros o x n a Hh Hs Hc. unfold overlap_tail_with. rewrite Hh, Hs, Hc. cbn [orb].
  destruct (close_begin_with false o (clear_out x)) as [y ds] eqn:Eb.
  assert (Hy : x_closed y = false).
  { unfold close_begin_with in Eb. destruct (run_pre _ _ _) in Eb. inversion Eb. cbn.
    destruct x as [[? ? ? ? ? ? ? ? ? ?] ? ? ? ? ? ?]; exact Hc. }
  rewrite (app_closes_unguarded o n y Hy). eexists. eexists. reflexivity.
Qed.
