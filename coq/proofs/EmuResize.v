(* C12 - the resize case.  The host resizes the emulator with T.resize (term.go resize: both
   screens reallocated, the old primary screen re-printed up to the cursor row, each cell with
   its own style, wrapping and scrolling as print does, then the pen restored - fix 63dc3f8).
   From every well-formed emulator state in Vaxis' modes the result is a well-formed state of
   the new size in Vaxis' modes whose pen, cursor shape and DECTCEM are unchanged and whose
   deferred-wrap flag is only set on the last column - so it is related by [emu_rel] to the
   resized reference terminal [ref_resized] (all cells unknown: the cell clause is vacuous).
   [resize_leaky] is the resize before the fix: it left [resize_pen] in the pen. *)
From Vx Require Import base.Prelude base.ListX model.Colour model.RenderTypes model.Render model.RefTerm
  model.RenderSpec model.RenderCheck model.Gate model.EmuSpec model.EmuBridge.
From Vx Require model.Sgr model.Term proofs.TermProofs proofs.TermRefine.
From Vx Require Import proofs.EmuRefine.
Require Import ZifyBool Lia.
Local Open Scope Z_scope.

(* ------------------------------------------------------------------ inversion of the emulator's monad *)

Lemma tbind_ok {A B} (m : T.tres A) (k : A -> T.tres B) b :
  T.tbind m k = T.TOk b -> exists a, m = T.TOk a /\ k a = T.TOk b.
Proof. destruct m; cbn; intros H; try discriminate. eauto. Qed.

Lemma of_opt_ok {A} (o : option A) a : T.of_opt o = T.TOk a -> o = Some a.
Proof. destruct o; cbn; intros H; inversion H; reflexivity. Qed.

Lemma zupd_Forall {A} (P : A -> Prop) (l l' : list A) i x :
  zupd l i x = Some l' -> Forall P l -> P x -> Forall P l'.
Proof.
  unfold zupd. destruct ((i <? 0) || (zlen l <=? i)); [discriminate|].
  intros H; inversion H; subst. now apply TP.upd_nat_Forall.
Qed.

Lemma zget_Forall {A} (P : A -> Prop) (l : list A) i x : zget l i = Some x -> Forall P l -> P x.
Proof. intros H HF. rewrite Forall_forall in HF. apply HF. eapply zget_In; eauto. Qed.

Lemma mapi_opt_Forall {A} (P Q : A -> Prop) (f : Z -> A -> option A) : forall l i l',
  T.mapi_opt f i l = Some l' -> Forall P l -> (forall j x y, P x -> f j x = Some y -> Q y) -> Forall Q l'.
Proof.
  induction l as [|x t IH]; intros i l' H HP Hf; cbn [T.mapi_opt] in H.
  - inversion H; constructor.
  - inversion HP as [|? ? Hx Ht]; subst.
    destruct (f i x) as [y|] eqn:E; [|discriminate].
    destruct (T.mapi_opt f (i + 1) t) as [t'|] eqn:E2; [|discriminate].
    inversion H; subst. constructor; [eapply Hf; eauto | eapply IH; eauto].
Qed.

(* ------------------------------------------------------------------ what re-printing keeps *)

(* the fields a print / line feed never touches (the pen is handled separately: resize sets
   it before every cell) *)
Definition frame_eq (t t' : T.term) : Prop :=
  T.t_onalt t' = T.t_onalt t /\ T.t_pen t' = T.t_pen t /\ T.t_shape t' = T.t_shape t /\
  T.t_top t' = T.t_top t /\ T.t_bot t' = T.t_bot t /\ T.t_md t' = T.t_md t /\ T.t_cs t' = T.t_cs t /\
  (T.t_onalt t = false -> T.t_alt t' = T.t_alt t).

Lemma frame_refl t : frame_eq t t.
Proof. repeat split. Qed.

Lemma frame_trans a b c : frame_eq a b -> frame_eq b c -> frame_eq a c.
Proof.
  intros (A1 & A2 & A3 & A4 & A5 & A6 & A7 & A8) (B1 & B2 & B3 & B4 & B5 & B6 & B7 & B8).
  repeat split; try congruence. intros H. rewrite B8 by congruence. now apply A8.
Qed.

Lemma frame_set_active t g : frame_eq t (T.set_active t g).
Proof. unfold frame_eq, T.set_active. destruct (T.t_onalt t) eqn:E; cbn; repeat split; auto; intros; discriminate. Qed.

Lemma cur_set_active t g :
  T.t_last (T.set_active t g) = T.t_last t /\ T.t_row (T.set_active t g) = T.t_row t /\
  T.t_col (T.set_active t g) = T.t_col t.
Proof. unfold T.set_active. destruct (T.t_onalt t); cbn; repeat split. Qed.

Section Reprint.
(* a property of styles that erasing with a good pen keeps: "anything" for the general case,
   "shows the default pen" for a Vaxis application on the alternate screen *)
Variable P : S.style -> Prop.
Hypothesis Perase : forall c p, P (T.c_st c) -> P p -> P (T.c_st (T.erase_cell (S.bg (S.spen p)) c)).
Hypothesis P0 : P S.style0.

Definition Pc (c : T.tcell) : Prop := P (T.c_st c).
Definition cellsP (t : T.term) : Prop := Forall (Forall Pc) (T.active t).

(* one step: the frame is kept and good cells stay good *)
Definition stepR (t t' : T.term) : Prop := frame_eq t t' /\ (cellsP t -> P (T.t_pen t) -> cellsP t').

Lemma stepR_refl t : stepR t t.
Proof. split; [apply frame_refl|auto]. Qed.

Lemma stepR_trans a b c : stepR a b -> stepR b c -> stepR a c.
Proof.
  intros [F1 C1] [F2 C2]. split; [eapply frame_trans; eauto|].
  intros Hc Hp. apply C2; [now apply C1|]. destruct F1 as (_ & E & _). now rewrite E.
Qed.

Lemma on_row_inv t r f t' : T.on_row t r f = T.TOk t' ->
  exists line line' g', zget (T.active t) r = Some line /\ f line = Some line' /\
    zupd (T.active t) r line' = Some g' /\ t' = T.set_active t g'.
Proof.
  unfold T.on_row. intros H.
  apply tbind_ok in H as [line [H1 H]]. apply of_opt_ok in H1.
  apply tbind_ok in H as [line' [H2 H]]. apply of_opt_ok in H2.
  apply tbind_ok in H as [g' [H3 H]]. apply of_opt_ok in H3.
  inversion H; subst. eauto 8.
Qed.

Lemma on_row_step t r f t' : T.on_row t r f = T.TOk t' ->
  (forall line line', Forall Pc line -> P (T.t_pen t) -> f line = Some line' -> Forall Pc line') ->
  stepR t t' /\ T.t_last t' = T.t_last t /\ T.t_row t' = T.t_row t /\ T.t_col t' = T.t_col t.
Proof.
  intros H Hf. apply on_row_inv in H as (line & line' & g' & H1 & H2 & H3 & ->).
  split; [|apply cur_set_active]. split; [apply frame_set_active|].
  intros Hc Hp. unfold cellsP. rewrite TR.active_set_active.
  apply (zupd_Forall (Forall Pc) _ _ _ _ H3 Hc).
  apply (Hf line line'); [|exact Hp|exact H2]. exact (zget_Forall _ _ _ _ H1 Hc).
Qed.

Lemma range_in_row_step t r f lo hi t' : T.range_in_row t r f lo hi = T.TOk t' ->
  (forall c, P (T.t_pen t) -> Pc c -> Pc (f c)) ->
  stepR t t' /\ T.t_last t' = T.t_last t /\ T.t_row t' = T.t_row t /\ T.t_col t' = T.t_col t.
Proof.
  unfold T.range_in_row. intros H Hf. destruct (lo <? hi).
  - eapply on_row_step; eauto. intros line line' Hl Hp Hu.
    eapply TP.upd_range_Forall; eauto.
  - inversion H; subst. split; [apply stepR_refl|auto].
Qed.

Lemma erase_cells_P bgp lo hi line line' p :
  T.erase_cells (S.bg (S.spen p)) lo hi line = Some line' -> P p -> bgp = S.bg (S.spen p) ->
  Forall Pc line -> Forall Pc line'.
Proof.
  intros H Hp _ Hl. unfold T.erase_cells in H. eapply TP.upd_range_Forall; eauto.
  intros c Hc. now apply Perase.
Qed.

Lemma scroll_up_step t n t' : T.scroll_up t n = T.TOk t' ->
  stepR t t' /\ T.t_last t' = T.t_last t /\ T.t_row t' = T.t_row t /\ T.t_col t' = T.t_col t.
Proof.
  unfold T.scroll_up. intros H. apply tbind_ok in H as [g' [H1 H]]. apply of_opt_ok in H1.
  inversion H; subst. split; [|apply cur_set_active]. split; [apply frame_set_active|].
  intros Hc Hp. unfold cellsP. rewrite TR.active_set_active.
  eapply mapi_opt_Forall; [exact H1|exact Hc|].
  intros j line y Hl Hy. cbv beta in Hy.
  destruct ((j >? T.t_bot t) || (j <? T.t_top t)); [inversion Hy; subst; exact Hl|].
  destruct (j + n >? T.t_bot t).
  - unfold T.pen_bg in Hy. eapply erase_cells_P; eauto.
  - destruct (zget (T.active t) (j + n)) as [src|] eqn:Es; [|discriminate]. inversion Hy; subst.
    apply TP.copy_row_Forall; [exact Hl|]. eapply zget_Forall; eauto.
Qed.

(* a line feed with carriage return: the deferred-wrap flag is cleared *)
Lemma nel_step t t' : T.nel t = T.TOk t' -> stepR t t' /\ T.t_last t' = false.
Proof.
  unfold T.nel, T.ind. intros H. apply tbind_ok in H as [t1 [H1 H]]. inversion H; subst. clear H.
  assert (S0 : stepR t (T.set_last t false)) by (split; [repeat split|auto]).
  assert (H2 : stepR (T.set_last t false) t1 /\ T.t_last t1 = false).
  { cbv zeta in H1.
    destruct (T.t_row (T.set_last t false) =? T.t_bot (T.set_last t false)).
    - apply scroll_up_step in H1 as (A & B & _). split; [exact A|]. rewrite B. reflexivity.
    - destruct (T.t_row (T.set_last t false) >=? T.height (T.set_last t false) - 1);
        inversion H1; subst; (split; [split; [repeat split|auto]|reflexivity]). }
  destruct H2 as [S1 L1]. split.
  - eapply stepR_trans; [exact S0|]. eapply stepR_trans; [exact S1|]. split; [repeat split|auto].
  - exact L1.
Qed.

(* the extra invariant of the re-print loop, next to C05's well-formedness *)
Record RI (e w h : Z) (t : T.term) : Prop := mkRI {
  ri_wf : TP.WFs0 e w h t;
  ri_awm : T.m_awm (T.t_md t) = true;
  ri_irm : T.m_irm (T.t_md t) = false;
  ri_ss : T.cs_ss (T.t_cs t) = false;
  ri_cells : cellsP t;
  ri_last : T.t_last t = true -> T.t_col t = w - 1
}.

Lemma RI_frame e w h t t' :
  RI e w h t -> TP.WFs0 e w h t' -> frame_eq t t' -> cellsP t' -> (T.t_last t' = true -> T.t_col t' = w - 1) ->
  RI e w h t'.
Proof.
  intros [W A B C D E] W' (F1 & F2 & F3 & F4 & F5 & F6 & F7 & F8) Hc Hl.
  constructor; auto; congruence.
Qed.

(* print, from any state of the loop, any cluster of non-negative width *)
Lemma print_ri e w h t g k : RI e w h t -> 0 <= k -> P (T.t_pen t) ->
  exists t', T.print t g k = T.TOk t' /\ RI e w h t' /\ frame_eq t t'.
Proof.
  intros HRI Hk Hp. pose proof HRI as [W A B C D E].
  destruct (TP.print_ok e w h t g k W Hk) as [t' [Ep W']].
  exists t'. split; [exact Ep|].
  rewrite TR4.print_split in Ep. cbv zeta in Ep. rewrite C in Ep.
  apply tbind_ok in Ep as [ta [Ewrap Eplace]].
  (* phase 1 *)
  assert (H1 : stepR t ta /\ T.t_last ta = false).
  { unfold TR4.print_wrap in Ewrap. cbv zeta in Ewrap. rewrite A, Bool.andb_true_r in Ewrap.
    destruct (T.t_last t || (T.t_col t + k - 1 >? T.t_right t)) eqn:Ew.
    - apply tbind_ok in Ewrap as [tb [Eb En]].
      apply on_row_step in Eb as (Sb & _).
      2:{ intros line line' Hl _ Hu. eapply TP.upd_range_Forall; eauto. }
      apply nel_step in En as [Sn Ln]. split; [|exact Ln].
      eapply stepR_trans; [|eapply stepR_trans; [exact Sb|exact Sn]]. split; [repeat split|auto].
    - inversion Ewrap; subst. split; [apply stepR_refl|].
      apply Bool.orb_false_iff in Ew. tauto. }
  destruct H1 as [[Fa Ca] La].
  assert (Hpa : P (T.t_pen ta)) by (destruct Fa as (_ & Q & _); now rewrite Q).
  assert (Hca : cellsP ta) by (now apply Ca).
  (* phase 2 *)
  unfold TR4.print_place in Eplace. cbv zeta in Eplace.
  assert (Hirm : T.m_irm (T.t_md ta) = false) by (destruct Fa as (_ & _ & _ & _ & _ & Q & _); now rewrite Q).
  assert (Hawm : T.m_awm (T.t_md ta) = true) by (destruct Fa as (_ & _ & _ & _ & _ & Q & _); now rewrite Q).
  rewrite Hirm in Eplace. cbn [T.tbind] in Eplace.
  destruct (k =? 0) eqn:Ek.
  { inversion Eplace; subst. split; [|exact Fa].
    apply (RI_frame e w h t _ HRI W' Fa Hca). intros Hl. congruence. }
  apply tbind_ok in Eplace as [t3 [E3 Eplace]].
  apply on_row_step in E3 as (S3 & L3 & R3 & C3).
  2:{ intros line line' Hl Hpp Hu. eapply zupd_Forall; eauto. }
  apply tbind_ok in Eplace as [t4 [E4 Eplace]].
  apply range_in_row_step in E4 as (S4 & L4 & R4 & C4).
  2:{ intros c Hpp _. exact Hpp. }
  pose proof (stepR_trans _ _ _ S3 S4) as [F34 C34].
  pose proof (frame_trans _ _ _ Fa F34) as F4.
  assert (Hc4 : cellsP t4) by (now apply C34).
  assert (Hawm4 : T.m_awm (T.t_md t4) = true) by (destruct F34 as (_ & _ & _ & _ & _ & Q & _); now rewrite Q).
  assert (Hl4 : T.t_last t4 = false) by congruence.
  rewrite Hawm4 in Eplace. cbn [negb andb] in Eplace.
  cbn [T.t_col T.t_right T.t_md T.set_col T.set_cursor] in Eplace. rewrite Hawm4, Bool.andb_true_r in Eplace.
  assert (Hr' : T.t_right t' = w - 1) by (destruct W'; assumption).
  destruct (T.t_col t4 + k >=? T.t_right t4 + 1); inversion Eplace; subst; clear Eplace.
  - assert (F' : frame_eq t (T.set_col (T.set_last (T.set_col t4 (T.t_col t4 + k)) true) (T.t_right t4)))
      by (eapply frame_trans; [exact F4|]; repeat split).
    split; [|exact F'].
    apply (RI_frame e w h t _ HRI W' F'); [exact Hc4|].
    cbn in Hr'. cbn. intros _. exact Hr'.
  - assert (F' : frame_eq t (T.set_col t4 (T.t_col t4 + k)))
      by (eapply frame_trans; [exact F4|]; repeat split).
    split; [|exact F'].
    apply (RI_frame e w h t _ HRI W' F'); [exact Hc4|].
    cbn. intros Hl. congruence.
Qed.

Lemma nel_ri e w h t : RI e w h t -> P (T.t_pen t) -> exists t', T.nel t = T.TOk t' /\ RI e w h t' /\ frame_eq t t'.
Proof.
  intros HRI Hp. pose proof HRI as [W A B C D E].
  destruct (TP.nel_ok e w h t W) as [t' [En W']].
  exists t'. split; [exact En|]. apply nel_step in En as [[F Cc] L].
  split; [|exact F]. apply (RI_frame e w h t _ HRI W' F); [now apply Cc|]. intros Hl. congruence.
Qed.

(* the fields of frame_eq except the pen *)
Definition frame_np (t t' : T.term) : Prop :=
  T.t_onalt t' = T.t_onalt t /\ T.t_shape t' = T.t_shape t /\
  T.t_top t' = T.t_top t /\ T.t_bot t' = T.t_bot t /\ T.t_md t' = T.t_md t /\ T.t_cs t' = T.t_cs t /\
  (T.t_onalt t = false -> T.t_alt t' = T.t_alt t).

Lemma frame_np_of t t' : frame_eq t t' -> frame_np t t'.
Proof. intros (A1 & A2 & A3 & A4 & A5 & A6 & A7 & A8). repeat split; auto. Qed.

Lemma frame_np_trans a b c : frame_np a b -> frame_np b c -> frame_np a c.
Proof.
  intros (A1 & A3 & A4 & A5 & A6 & A7 & A8) (B1 & B3 & B4 & B5 & B6 & B7 & B8).
  repeat split; try congruence. intros H. rewrite B8 by congruence. now apply A8.
Qed.

Lemma RI_set_pen e w h t p : RI e w h t -> RI e w h (T.set_pen t p).
Proof. intros [W A B C D E]. constructor; auto. now apply TP.WFs_set_pen. Qed.

Lemma reprint_cells_ri e w h : forall cells t wr,
  RI e w h t -> P (T.t_pen t) -> Forall Pc cells -> Forall TP.cell_ok cells ->
  exists t' b, T.reprint_cells cells t wr = T.TOk (t', b) /\ RI e w h t' /\ frame_np t t' /\
               T.t_pen t' = last_style cells (T.t_pen t) /\ P (T.t_pen t').
Proof.
  induction cells as [|c rest IH]; intros t wr HRI Hp HPc Hok; cbn [T.reprint_cells].
  - exists t, wr. split; [reflexivity|]. split; [exact HRI|]. split; [repeat split|]. split; [reflexivity|exact Hp].
  - inversion HPc as [|? ? Hc1 Hc2]; subst. inversion Hok as [|? ? Ho1 Ho2]; subst.
    destruct (print_ri e w h (T.set_pen t (T.c_st c)) (T.c_g c) (T.c_w c)) as [t1 [E1 [R1 F1]]];
      [now apply RI_set_pen|exact Ho1|exact Hc1|].
    rewrite E1. cbn [T.tbind].
    assert (Hp1 : T.t_pen t1 = T.c_st c) by (destruct F1 as (_ & Q & _); exact Q).
    destruct (IH t1 (T.c_wr c) R1 ltac:(rewrite Hp1; exact Hc1) Hc2 Ho2) as [t' [b [E' [R' [F' [Pn' Pp']]]]]].
    exists t', b. split; [exact E'|]. split; [exact R'|]. split.
    + eapply frame_np_trans; [|exact F']. apply frame_np_of in F1. exact F1.
    + split; [|exact Pp']. rewrite Pn', Hp1. unfold last_style. cbn [fold_left]. reflexivity.
Qed.

Lemma reprint_rows_ri e w h n0 : forall rows r last t,
  RI e w h t -> P (T.t_pen t) ->
  Forall (fun l => zlen l = n0 /\ Forall TP.cell_ok l /\ Forall Pc l) rows ->
  exists t', T.reprint_rows n0 rows r last t = T.TOk t' /\ RI e w h t' /\ frame_np t t' /\
             T.t_pen t' = resize_pen_rows n0 rows r last (T.t_pen t) /\ P (T.t_pen t').
Proof.
  induction rows as [|line rest IH]; intros r last t HRI Hp HF; cbn [T.reprint_rows resize_pen_rows].
  - exists t. split; [reflexivity|]. split; [exact HRI|]. split; [repeat split|]. split; [reflexivity|exact Hp].
  - inversion HF as [|? ? (Hl & Hok & HPl) Hrest]; subst.
    destruct (r =? last);
      [exists t; split; [reflexivity|]; split; [exact HRI|]; split; [repeat split|]; split; [reflexivity|exact Hp]|].
    destruct (zlen line <? zlen line) eqn:E; [lia|]. clear E.
    destruct (reprint_cells_ri e w h (firstn (Z.to_nat (zlen line)) line) t false HRI Hp
                (TP.Forall_firstn' _ _ _ HPl) (TP.Forall_firstn' _ _ _ Hok)) as [t1 [b [E1 [R1 [F1 [Pn1 Pp1]]]]]].
    rewrite E1. cbn [T.tbind].
    assert (H2 : exists t2, (if b then T.TOk t1 else T.nel t1) = T.TOk t2 /\ RI e w h t2 /\ frame_eq t1 t2).
    { destruct b; [exists t1; split; [reflexivity|split; [exact R1|apply frame_refl]]|].
      now apply nel_ri. }
    destruct H2 as [t2 [E2 [R2 F2]]]. rewrite E2. cbn [T.tbind].
    assert (Hp2 : T.t_pen t2 = T.t_pen t1) by (destruct F2 as (_ & Q & _); exact Q).
    destruct (IH (r + 1) last t2 R2 ltac:(rewrite Hp2; exact Pp1) Hrest) as [t' [E' [R' [F' [Pn' Pp']]]]].
    exists t'. split; [exact E'|]. split; [exact R'|]. split.
    + eapply frame_np_trans; [exact F1|]. eapply frame_np_trans; [apply frame_np_of; exact F2|exact F'].
    + split; [|exact Pp']. rewrite Pn', Hp2, Pn1. reflexivity.
Qed.

(* the state the re-print loop starts from, and the loop *)
Definition resize_init (t : T.term) (w2 h2 : Z) : T.term :=
  let g := T.blank_grid w2 h2 in
  T.set_last (T.set_cursor (T.set_margins (T.set_grids t g g false) 0 (h2 - 1) (T.t_left (T.set_grids t g g false)) (w2 - 1)) 0 0) false.

Lemma reprint_stage e w h t w2 h2 :
  TP.WFs0 e w h t -> vaxis_modes t = true -> 1 <= w2 -> 1 <= h2 ->
  Forall (Forall Pc) (T.t_prim t) -> P (T.t_pen t) ->
  exists t1, T.reprint_rows (match T.t_prim t with [] => 0 | l :: _ => zlen l end) (T.t_prim t) 0 (T.t_row t)
               (resize_init t w2 h2) = T.TOk t1 /\
    TP.WFs0 e w2 h2 t1 /\ T.t_md t1 = T.t_md t /\ T.t_cs t1 = T.t_cs t /\ T.t_top t1 = 0 /\ T.t_bot t1 = h2 - 1 /\
    T.t_shape t1 = T.t_shape t /\ T.t_onalt t1 = false /\
    T.t_pen t1 = resize_pen t /\ P (T.t_pen t1) /\
    (T.t_last t1 = true -> T.t_col t1 = w2 - 1) /\ Forall (Forall Pc) (T.t_prim t1).
Proof.
  intros HW HM Hw Hh HPp Hp.
  pose proof (TP.blank_grid_ok w2 h2 ltac:(lia) ltac:(lia)) as Hg.
  unfold resize_init. cbv zeta.
  set (g := T.blank_grid w2 h2) in *.
  set (t0 := T.set_last (T.set_cursor (T.set_margins (T.set_grids t g g false) 0 (h2 - 1) (T.t_left (T.set_grids t g g false)) (w2 - 1)) 0 0) false).
  destruct (vaxis_modes_facts t HM) as (Hawm & Hirm & Hss & Hdes & _ & _).
  assert (W0 : TP.WFs0 e w2 h2 t0).
  { destruct HW. constructor; simpl; auto; lia. }
  assert (R0 : RI e w2 h2 t0).
  { constructor; auto.
    - unfold cellsP. change (T.active t0) with g. unfold g, T.blank_grid, zrepeat.
      apply TP.Forall_repeat. apply TP.Forall_repeat. exact P0.
    - cbn. intros; discriminate. }
  destruct (reprint_rows_ri e w2 h2 (match T.t_prim t with [] => 0 | l :: _ => zlen l end) (T.t_prim t) 0 (T.t_row t) t0 R0 Hp)
    as [t1 [E' [R1 [F1 [Pn1 Pp1]]]]].
  { destruct HW as [_ _ [_ Hprim] _ _ _ _ _ _ _ _ _ _ _ _].
    destruct (T.t_prim t) as [|l rest] eqn:Eprim; [constructor|].
    assert (Hl : zlen l = w) by (inversion Hprim as [|? ? [Q _] _]; exact Q).
    rewrite Forall_forall. intros x Hx. rewrite Forall_forall in Hprim, HPp.
    destruct (Hprim x Hx) as [Q1 Q2]. split; [lia|]. split; [exact Q2|]. now apply HPp. }
  destruct F1 as (G1 & G3 & G4 & G5 & G6 & G7 & G8).
  pose proof R1 as [W1 A1 B1 C1 D1 L1].
  change (T.t_md t0) with (T.t_md t) in *. change (T.t_cs t0) with (T.t_cs t) in *.
  change (T.t_top t0) with 0 in *. change (T.t_bot t0) with (h2 - 1) in *.
  change (T.t_shape t0) with (T.t_shape t) in *. change (T.t_pen t0) with (T.t_pen t) in *.
  change (T.t_onalt t0) with false in *.
  exists t1. split; [exact E'|]. split; [exact W1|]. split; [exact G6|]. split; [exact G7|].
  split; [exact G4|]. split; [exact G5|]. split; [exact G3|]. split; [exact G1|].
  split; [exact Pn1|]. split; [exact Pp1|].
  split; [exact L1|]. unfold cellsP, T.active in D1. rewrite G1 in D1. exact D1.
Qed.

Lemma resize_unfold t w2 h2 : 1 <= w2 -> 1 <= h2 ->
  T.resize t w2 h2 =
  T.tbind (T.reprint_rows (match T.t_prim t with [] => 0 | l :: _ => zlen l end) (T.t_prim t) 0 (T.t_row t) (resize_init t w2 h2))
          (fun t1 => T.TOk (T.set_onalt (T.set_pen t1 (T.t_pen t)) (T.m_smcup (T.t_md (T.set_pen t1 (T.t_pen t)))))).
Proof.
  intros Hw Hh. unfold T.resize. cbv zeta. unfold T.make_grid.
  destruct (h2 <? 0) eqn:E1; [lia|]. destruct ((0 <? h2) && (w2 <? 0)) eqn:E2; [lia|]. reflexivity.
Qed.

Lemma resize_leaky_unfold t w2 h2 : 1 <= w2 -> 1 <= h2 ->
  resize_leaky t w2 h2 =
  T.tbind (T.reprint_rows (match T.t_prim t with [] => 0 | l :: _ => zlen l end) (T.t_prim t) 0 (T.t_row t) (resize_init t w2 h2))
          (fun t1 => T.TOk (T.set_onalt t1 (T.m_smcup (T.t_md t1)))).
Proof.
  intros Hw Hh. unfold resize_leaky. cbv zeta. unfold T.make_grid.
  destruct (h2 <? 0) eqn:E1; [lia|]. destruct ((0 <? h2) && (w2 <? 0)) eqn:E2; [lia|]. reflexivity.
Qed.

(* T.resize from a well-formed state in Vaxis' modes: the pen is the pen *)
Theorem resize_ri e w h t w2 h2 :
  TP.WFs0 e w h t -> vaxis_modes t = true -> 1 <= w2 -> 1 <= h2 ->
  Forall (Forall Pc) (T.t_prim t) -> P (T.t_pen t) ->
  exists t2, T.resize t w2 h2 = T.TOk t2 /\ TP.WFs0 e w2 h2 t2 /\ vaxis_modes t2 = true /\
    T.t_pen t2 = T.t_pen t /\ T.t_shape t2 = T.t_shape t /\ T.t_md t2 = T.t_md t /\
    (T.t_last t2 = true -> T.t_col t2 = w2 - 1) /\ T.t_onalt t2 = T.m_smcup (T.t_md t) /\
    Forall (Forall Pc) (T.t_prim t2).
Proof.
  intros HW HM Hw Hh HPp Hp.
  destruct (vaxis_modes_facts t HM) as (Hawm & Hirm & Hss & Hdes & _ & _).
  destruct (reprint_stage e w h t w2 h2 HW HM Hw Hh HPp Hp) as
    (t1 & E1 & W1 & Md & Cs & Tp & Bt & Sh & Oa & _ & _ & L1 & C1).
  rewrite (resize_unfold t w2 h2 Hw Hh), E1. cbn [T.tbind].
  eexists. split; [reflexivity|].
  assert (W2 : TP.WFs0 e w2 h2 (T.set_onalt (T.set_pen t1 (T.t_pen t)) (T.m_smcup (T.t_md (T.set_pen t1 (T.t_pen t))))))
    by (apply TP.WFs_set_onalt, TP.WFs_set_pen; exact W1).
  split; [exact W2|].
  split.
  { unfold vaxis_modes. rewrite (TP.WFs_height e w2 h2 _ W2).
    cbn [T.set_onalt T.set_grids T.set_pen T.t_md T.t_cs T.t_top T.t_bot].
    rewrite Md, Cs, Tp, Bt, Hawm, Hirm, Hss, Hdes. cbn. rewrite !Z.eqb_refl. reflexivity. }
  split; [reflexivity|]. split; [exact Sh|]. split; [exact Md|].
  split; [exact L1|]. split; [cbn; now rewrite Md|]. exact C1.
Qed.

(* the resize before the fix 63dc3f8 (no restore): it left [resize_pen] in the pen *)
Theorem resize_leaky_pen e w h t w2 h2 :
  TP.WFs0 e w h t -> vaxis_modes t = true -> 1 <= w2 -> 1 <= h2 ->
  Forall (Forall Pc) (T.t_prim t) -> P (T.t_pen t) ->
  exists t2, resize_leaky t w2 h2 = T.TOk t2 /\ T.t_pen t2 = resize_pen t.
Proof.
  intros HW HM Hw Hh HPp Hp.
  destruct (reprint_stage e w h t w2 h2 HW HM Hw Hh HPp Hp) as
    (t1 & E1 & W1 & Md & Cs & Tp & Bt & Sh & Oa & Pn & _).
  rewrite (resize_leaky_unfold t w2 h2 Hw Hh), E1. cbn [T.tbind].
  eexists. split; [reflexivity|]. exact Pn.
Qed.

End Reprint.

(* ------------------------------------------------------------------ the decidable predicates *)

Lemma zlist_eqb_true a b : zlist_eqb a b = true -> a = b.
Proof.
  unfold zlist_eqb. revert b; induction a as [|x a IH]; intros [|y b]; simpl; intros H;
    try reflexivity; try discriminate.
  apply andb_prop in H as [H1 H2]. apply Z.eqb_eq in H1. apply IH in H2. congruence.
Qed.

Lemma tpen_eqb_true a b : tpen_eqb a b = true -> a = b.
Proof.
  destruct a, b. unfold tpen_eqb. cbn. intros H.
  repeat (apply andb_prop in H; destruct H as [H ?]).
  apply zlist_eqb_true in H. repeat match goal with Hz : zlist_eqb _ _ = true |- _ => apply zlist_eqb_true in Hz end.
  f_equal; auto; lia.
Qed.

Lemma tlink_eqb_true a b : tlink_eqb a b = true -> a = b.
Proof.
  destruct a, b. unfold tlink_eqb. cbn. intros H. apply andb_prop in H as [H1 H2].
  apply zlist_eqb_true in H1, H2. congruence.
Qed.

Lemma pen_showsb_ok p tp tl : pen_showsb p tp tl = true -> pen_shows p tp tl.
Proof.
  unfold pen_showsb, pen_shows. intros H.
  apply andb_prop in H as [H H4]. apply andb_prop in H as [H H3]. apply andb_prop in H as [H1 H2].
  split; [now apply tpen_eqb_true|]. split; [now apply tlink_eqb_true|lia].
Qed.

Lemma pen_shows_b p tp tl : pen_shows p tp tl -> pen_showsb p tp tl = true.
Proof.
  unfold pen_showsb, pen_shows. intros (<- & <- & H). rewrite tpen_eqb_refl, tlink_eqb_refl. cbn [andb]. lia.
Qed.

(* a style that shows the default pen and no hyperlink *)
Definition plain (st : S.style) : Prop := pen_shows st tpen0 ([], []).

Lemma plain0 : plain S.style0.
Proof. unfold plain, pen_shows. cbn. repeat split; lia. Qed.

Lemma plain_erase c p : plain (T.c_st c) -> plain p -> plain (T.c_st (T.erase_cell (S.bg (S.spen p)) c)).
Proof.
  unfold plain, pen_shows. destruct (T.c_st c) as [sp l lp] eqn:Ec. destruct p as [pp pl plp].
  rewrite !shown_to. intros (H1 & _ & _) (H2 & _ & _).
  unfold T.erase_cell. rewrite Ec. cbn [T.c_st S.spen S.bg S.fg S.ul].
  rewrite shown_to, shown_link_to. cbn [nonempty].
  unfold shown_pen in *. cbn [S.fg S.bg S.ul S.uls S.attr] in *.
  injection H1 as F1 F2 F3 F4 F5. injection H2 as G1 G2 G3 G4 G5.
  split; [|split; [reflexivity|cbn; lia]].
  unfold tpen0. rewrite F1, G2, F3. reflexivity.
Qed.

Lemma cell_plainb_ok c : cell_plainb c = true -> plain (T.c_st c).
Proof. apply pen_showsb_ok. Qed.

Definition alt_plain (t : T.term) : Prop :=
  T.t_onalt t = true /\ T.m_smcup (T.t_md t) = true /\ Forall (Forall (fun c => plain (T.c_st c))) (T.t_prim t).

Lemma alt_plainb_ok t : alt_plainb t = true -> alt_plain t.
Proof.
  unfold alt_plainb, alt_plain. intros H. apply andb_prop in H as [H H3]. apply andb_prop in H as [H1 H2].
  split; [exact H1|]. split; [exact H2|].
  rewrite forallb_forall in H3. rewrite Forall_forall. intros row Hrow. specialize (H3 row Hrow).
  rewrite forallb_forall in H3. rewrite Forall_forall. intros c Hc. apply cell_plainb_ok. now apply H3.
Qed.

(* ------------------------------------------------------------------ the relation after a resize *)

(* an emulator state against a reference terminal about whose cells and cursor nothing is
   known: only the pen, DECTCEM, the shape and the deferred-wrap discipline matter *)
Lemma emu_rel_resized e w h (r : term) (t2 : T.term) :
  TP.WFs0 e w h t2 -> (T.t_last t2 = true -> T.t_col t2 = w - 1) ->
  pen_shows (T.t_pen t2) (tm_pen r) (tm_link r) -> T.m_tcem (T.t_md t2) = tm_vis r -> T.t_shape t2 = tm_shape r ->
  emu_rel t2 (ref_resized r t2).
Proof.
  intros W L Hp Hv Hs. pose proof (TP.WFs_width e w h t2 W) as Hw. pose proof W as [? ? ? ? ? Hcol ? ? ? ? ? ? ? ? ?].
  constructor; cbn [ref_resized tm_rows tm_cols tm_grid tm_row tm_col tm_pen tm_link tm_vis tm_shape]; auto.
  - intros row col c _. exact I.
  - destruct (T.t_last t2) eqn:El.
    + right. rewrite Hw. repeat split. now apply L.
    + left. rewrite Hw. repeat split; lia.
Qed.

Lemma resized_ref r t2 e w h : TP.WFs0 e w h t2 -> RenderHistory.resized r (ref_resized r t2) h w.
Proof.
  intros W. unfold RenderHistory.resized, ref_resized. cbn.
  rewrite (TP.WFs_height e w h t2 W), (TP.WFs_width e w h t2 W). repeat split.
Qed.

(* The resize case of the history theorem: T.resize never fails from a well-formed state in
   Vaxis' modes; the result is well-formed in Vaxis' modes at the new size and related to the
   resized reference terminal, which is one of the terminals RenderHistory.resized allows.  The
   pen clause holds because resize restores the pen (fix 63dc3f8) *)
Lemma all_true (g : T.grid) : Forall (Forall (fun _ : T.tcell => True)) g.
Proof. induction g as [|row g IH]; constructor; auto. induction row; constructor; auto. Qed.

Theorem resize_rel e w h t r w2 h2 :
  TP.WFs0 e w h t -> vaxis_modes t = true -> emu_rel t r -> 1 <= w2 -> 1 <= h2 ->
  exists t2, T.resize t w2 h2 = T.TOk t2 /\ TP.WFs0 e w2 h2 t2 /\ vaxis_modes t2 = true /\
    emu_rel t2 (ref_resized r t2) /\ RenderHistory.resized r (ref_resized r t2) h2 w2.
Proof.
  intros HW HM HR Hw Hh.
  destruct (resize_ri (fun _ => True) ltac:(auto) I e w h t w2 h2 HW HM Hw Hh (all_true _) I) as
    (t2 & E & W2 & M2 & Pn & Sh & Md & L & _).
  exists t2. split; [exact E|]. split; [exact W2|]. split; [exact M2|]. split; [|now apply (resized_ref r t2 e)].
  pose proof HR as [_ _ _ _ _ A6 A7 A8].
  apply (emu_rel_resized e w2 h2); auto.
  - rewrite Pn. exact A6.
  - rewrite Md. exact A7.
  - rewrite Sh. exact A8.
Qed.

(* ... and for a Vaxis application on the alternate screen over a primary screen in the default
   style that situation is re-established (no longer needed for the pen; kept: the primary
   screen underneath stays in the default style through every resize) *)
Theorem resize_rel_alt e w h t r w2 h2 :
  TP.WFs0 e w h t -> vaxis_modes t = true -> emu_rel t r -> 1 <= w2 -> 1 <= h2 ->
  tm_pen r = tpen0 -> tm_link r = ([], []) -> alt_plain t ->
  exists t2, T.resize t w2 h2 = T.TOk t2 /\ TP.WFs0 e w2 h2 t2 /\ vaxis_modes t2 = true /\
    emu_rel t2 (ref_resized r t2) /\ RenderHistory.resized r (ref_resized r t2) h2 w2 /\ alt_plain t2.
Proof.
  intros HW HM HR Hw Hh Hp0 Hl0 (Ho & Hs & Hc).
  pose proof HR as [_ _ _ _ _ A6 A7 A8].
  assert (Hpl : plain (T.t_pen t)) by (unfold plain; rewrite <- Hp0, <- Hl0; exact A6).
  destruct (resize_ri plain plain_erase plain0 e w h t w2 h2 HW HM Hw Hh Hc Hpl) as
    (t2 & E & W2 & M2 & Pn & Sh & Md & L & Oa & Cp).
  exists t2. split; [exact E|]. split; [exact W2|]. split; [exact M2|].
  split; [|split; [now apply (resized_ref r t2 e)|]].
  - apply (emu_rel_resized e w2 h2); auto.
    + rewrite Pn. exact A6.
    + rewrite Md. exact A7.
    + rewrite Sh. exact A8.
  - split; [rewrite Oa; exact Hs|]. split; [rewrite Md; exact Hs|exact Cp].
Qed.

(* tokens of the vocabulary keep the situation *)
Lemma alt_plain_keeps t t' : keeps_prim t t' -> alt_plain t -> alt_plain t'.
Proof.
  intros (K1 & K2 & K3) (A1 & A2 & A3). split; [congruence|]. split; [congruence|]. now rewrite K3.
Qed.

(* ------------------------------------------------------------------ which pen the unfixed resize left *)

Lemma zget_in_range {A} (l : list A) i : 0 <= i < zlen l -> exists x, zget l i = Some x.
Proof.
  intros H. destruct (zget l i) as [x|] eqn:E; [eauto|]. exfalso.
  unfold zget in E. destruct (i <? 0) eqn:E0; [lia|]. apply nth_error_None in E. unfold zlen in *. lia.
Qed.

Lemma last_style_closed : forall l p, l <> [] ->
  last_style l p = match zget l (zlen l - 1) with Some c => T.c_st c | None => p end.
Proof.
  induction l as [|c l IH]; intros p Hne; [congruence|].
  destruct l as [|c2 l'].
  - reflexivity.
  - change (last_style (c :: c2 :: l') p) with (last_style (c2 :: l') (T.c_st c)).
    rewrite (IH (T.c_st c)) by discriminate.
    pose proof (zlen_nonneg l'). rewrite (zlen_cons c).
    rewrite (zget_cons_S c) by (rewrite zlen_cons; lia).
    replace (zlen (c2 :: l') + 1 - 1 - 1) with (zlen (c2 :: l') - 1) by lia.
    destruct (zget_in_range (c2 :: l') (zlen (c2 :: l') - 1)) as [x Hx]; [rewrite zlen_cons; lia|].
    rewrite Hx. reflexivity.
Qed.

Lemma resize_pen_rows_closed n0 : 1 <= n0 -> forall rows r last p,
  Forall (fun l => zlen l = n0) rows -> 0 <= last - r <= zlen rows ->
  resize_pen_rows n0 rows r last p =
  if last =? r then p
  else match gget rows (last - r - 1) (n0 - 1) with Some c => T.c_st c | None => p end.
Proof.
  intros Hn. induction rows as [|line rest IH]; intros r last p HF Hr; cbn [resize_pen_rows].
  - unfold zlen in Hr. cbn [length] in Hr. assert (last = r) by lia. subst. rewrite Z.eqb_refl. reflexivity.
  - inversion HF as [|? ? Hl Hrest]; subst. rewrite zlen_cons in Hr.
    rewrite (Z.eqb_sym last r). destruct (r =? last) eqn:E; [reflexivity|].
    rewrite (IH (r + 1) last _ Hrest) by lia.
    assert (Hfn : firstn (Z.to_nat (zlen line)) line = line) by (apply firstn_all2; unfold zlen; lia).
    rewrite Hfn.
    assert (Hne : line <> []) by (intros ->; rewrite zlen_nil in Hn; lia).
    destruct (last =? r + 1) eqn:E2.
    + assert (last - r - 1 = 0) as -> by lia. unfold gget. cbn [zget]. 
      change (zget (line :: rest) 0) with (Some line).
      apply last_style_closed. exact Hne.
    + unfold gget. rewrite (zget_cons_S line) by lia.
      replace (last - r - 1 - 1) with (last - (r + 1) - 1) by lia.
      unfold T.trow, T.grid in *.
      destruct (zget_in_range rest (last - (r + 1) - 1)) as [l2 Eg]; [lia|]. rewrite Eg.
      assert (Hl2 : zlen l2 = zlen line).
      { rewrite Forall_forall in Hrest. apply Hrest. eapply zget_In; eauto. }
      destruct (zget_in_range l2 (zlen line - 1)) as [c Ec]; [lia|]. rewrite Ec. reflexivity.
Qed.

(* under C05's invariant: the style of the last cell of the row above the cursor on the OLD
   PRIMARY screen (wherever the application draws), or the pen itself on the first row *)
Theorem resize_pen_closed e w h t : TP.WFs0 e w h t ->
  resize_pen t = if T.t_row t =? 0 then T.t_pen t
                 else match gget (T.t_prim t) (T.t_row t - 1) (w - 1) with
                      | Some c => T.c_st c
                      | None => T.t_pen t
                      end.
Proof.
  intros [Hw Hh [Hlen Hprim] _ Hrow _ _ _ _ _ _ _ _ _ _].
  unfold resize_pen. cbv zeta. unfold T.trow, T.grid in *.
  assert (Hall : Forall (fun l => zlen l = w) (T.t_prim t)).
  { eapply Forall_impl; [|exact Hprim]. intros l [Q _]. exact Q. }
  match goal with |- resize_pen_rows ?n _ _ _ _ = _ => assert (Hn0 : n = w) end.
  { destruct (T.t_prim t) as [|l rest]; [unfold zlen in Hlen; cbn [length] in Hlen; lia|]. inversion Hall; subst. reflexivity. }
  rewrite Hn0. rewrite (resize_pen_rows_closed w Hw (T.t_prim t) 0 (T.t_row t) (T.t_pen t) Hall) by lia.
  replace (T.t_row t - 0 - 1) with (T.t_row t - 1) by lia. reflexivity.
Qed.
