(* Everything the renderer model writes is in the vocabulary the bytes bridge covers, as long as
   the application's content is printable text: graphemes, hyperlinks and the pointer shape free
   of C0 controls and made of code points Go encodes as themselves, hyperlink parameters free of
   ';', widths and cursor coordinates non-negative Go ints. *)
From Coq Require Import Lia ZifyBool.
From Vx Require Import base.Prelude base.ListX model.Colour model.RenderTypes model.Render model.RenderCheck
  model.RenderBytes.
Ltac Zify.zify_post_hook ::= Z.div_mod_to_equations.

Definition tok_okb (k : tok) : bool := tok_wfb k && tok_utf8b k.

Lemma toks_okb_wfb ks : forallb tok_okb ks = true -> toks_wfb ks = true.
Proof.
  intros H. unfold toks_wfb. apply andb_true_intro. split; apply forallb_forall; intros k Hk;
    rewrite forallb_forall in H; specialize (H k Hk); unfold tok_okb in H; apply andb_prop in H; tauto.
Qed.

Definition text_okb (s : list Z) : bool := printable s && forallb rune_okb s.
Definition style_wfb (st : style) : bool :=
  smallb (s_uls st) && text_okb (s_link st) && text_okb (s_linkp st) && forallb (fun r => negb (r =? 59)) (s_linkp st).
Definition cell_wfb (c : cell) : bool :=
  text_okb (c_g c) && (eff_width c <? 9223372036854775808) && style_wfb (c_st c).
Definition cursor_wfb (c : cursor) : bool := smallb (cu_row c + 1) && smallb (cu_col c + 1) && smallb (cu_style c).
Definition dim_ok (n : Z) : Prop := n < 4611686018427387904.
Definition content_wf (s : vstate) : Prop :=
  forallb (forallb cell_wfb) (v_next s) = true /\ cursor_wfb (v_cnext s) = true /\ text_okb (v_mnext s) = true /\
  dim_ok (zlen (v_next s)) /\ Forall (fun r => dim_ok (zlen r)) (v_next s).

Lemma small_byte x : smallb (x mod 256) = true.
Proof. unfold smallb. lia. Qed.

Lemma col_params_wf cp c : colour_wfb (col_params cp c) = true.
Proof.
  unfold col_params, color_params. set (c' := if cap_rgb cp then c else as_index c).
  destruct (is_indexed c'); [unfold u8; cbn; apply small_byte|].
  destruct (is_rgb c'); [|reflexivity]. unfold chR, chG, chB. cbn. rewrite !small_byte. reflexivity.
Qed.

Lemma attr_codes_ok a b : forallb tok_okb (map KSgr (attr_codes a b)) = true.
Proof.
  unfold attr_codes. destruct (a =? b); [reflexivity|].
  rewrite !map_app, !forallb_app. unfold whenz.
  repeat (apply andb_true_intro; split);
    repeat match goal with |- context [if ?c then _ else _] => destruct c end; reflexivity.
Qed.

Lemma text_okb_split s : text_okb s = true -> printable s = true /\ forallb rune_okb s = true.
Proof. unfold text_okb. intros H. apply andb_prop in H. exact H. Qed.

Lemma emit_delta_ok cp pen n : style_wfb n = true -> forallb tok_okb (emit_delta cp pen n) = true.
Proof.
  intros Hn. unfold style_wfb in Hn.
  apply andb_prop in Hn; destruct Hn as [Hn Hsemi]. apply andb_prop in Hn; destruct Hn as [Hn Hlp].
  apply andb_prop in Hn; destruct Hn as [Huls Hl].
  destruct (text_okb_split _ Hl) as [Hl1 Hl2]. destruct (text_okb_split _ Hlp) as [Hp1 Hp2].
  unfold emit_delta, emit_fg, emit_bg, emit_ul, emit_attr, emit_uls, emit_link.
  rewrite !forallb_app. repeat (apply andb_true_intro; split).
  - destruct (s_fg pen =? s_fg n); [reflexivity|]. cbn. unfold tok_okb. cbn. now rewrite col_params_wf.
  - destruct (s_bg pen =? s_bg n); [reflexivity|]. cbn. unfold tok_okb. cbn. now rewrite col_params_wf.
  - destruct (cap_styled_ul cp); [|reflexivity].
    destruct (s_ul pen =? s_ul n); [reflexivity|]. cbn. unfold tok_okb. cbn. now rewrite col_params_wf.
  - apply attr_codes_ok.
  - destruct (s_uls pen =? s_uls n); [reflexivity|].
    destruct (cap_styled_ul cp); [cbn; unfold tok_okb; cbn; now rewrite Huls|].
    destruct (s_uls n =? 0); reflexivity.
  - destruct (_ || _); [|reflexivity]. cbn [forallb]. rewrite andb_true_r.
    unfold tok_okb. cbn [tok_wfb tok_utf8b].
    destruct (nonempty (s_link n)); rewrite ?Hl1, ?Hl2, ?Hp1, ?Hp2, ?Hsemi; reflexivity.
Qed.

Lemma cell_text_ok cp c : cell_wfb c = true -> tok_okb (cell_text cp c) = true.
Proof.
  intros H. unfold cell_wfb in H. apply andb_prop in H; destruct H as [H _]. apply andb_prop in H; destruct H as [Hg Hw].
  destruct (text_okb_split _ Hg) as [Hg1 Hg2].
  unfold cell_text. destruct (eff_width c =? 0); [reflexivity|].
  destruct ((1 <? eff_width c) && cap_explicit_width cp) eqn:E; unfold tok_okb; cbn [tok_wfb tok_utf8b].
  - apply andb_prop in E as [E _]. rewrite Hg1, Hg2. unfold smallb. lia.
  - rewrite Hg1, Hg2. reflexivity.
Qed.

Lemma cell_style_wf c : cell_wfb c = true -> style_wfb (c_st c) = true.
Proof. unfold cell_wfb. intros H. apply andb_prop in H. tauto. Qed.

Lemma cup_ok r c : 0 <= r -> 0 <= c -> dim_ok r -> dim_ok c -> tok_okb (KCup (r + 1) (c + 1)) = true.
Proof. unfold dim_ok, tok_okb. cbn. unfold smallb. lia. Qed.

Lemma render_cells_ok cp refresh row ns : forall ls col skip repos pen,
  forallb cell_wfb ns = true -> 0 <= row -> dim_ok row -> 0 <= col -> dim_ok (col + zlen ns) ->
  let '(o, _, _) := render_cells cp refresh row ns ls col skip repos pen in
  forallb tok_okb o = true.
Proof.
  induction ns as [|n ns IH]; intros ls col skip repos pen Hc Hr Hrd Hcol Hd; [reflexivity|].
  destruct ls as [|l ls]; [reflexivity|]. cbn [render_cells].
  cbn [forallb] in Hc. apply andb_prop in Hc. destruct Hc as [Hn Hns].
  assert (Hd' : dim_ok (col + 1 + zlen ns)).
  { unfold dim_ok in *. rewrite zlen_cons in Hd. lia. }
  assert (Hcol' : 0 <= col + 1) by lia.
  assert (Hcd : dim_ok col).
  { unfold dim_ok in *. rewrite zlen_cons in Hd. pose proof (zlen_nonneg ns). lia. }
  destruct (0 <? skip).
  { specialize (IH ls (col + 1) (skip - 1) repos pen Hns Hr Hrd Hcol' Hd'). destruct (render_cells _ _ _ ns ls _ _ _ _) as [[o l'] p]. exact IH. }
  destruct (c_sixel n).
  { specialize (IH ls (col + 1) 0 true pen Hns Hr Hrd Hcol' Hd'). destruct (render_cells _ _ _ ns ls _ _ _ _) as [[o l'] p]. exact IH. }
  destruct (cell_eqb n l && negb refresh).
  { specialize (IH ls (col + 1) (span n - 1) true pen Hns Hr Hrd Hcol' Hd'). destruct (render_cells _ _ _ ns ls _ _ _ _) as [[o l'] p]. exact IH. }
  specialize (IH ls (col + 1) (span n - 1) false (c_st n) Hns Hr Hrd Hcol' Hd').
  destruct (render_cells _ _ _ ns ls _ _ _ _) as [[o l'] p].
  rewrite !forallb_app. rewrite IH, (emit_delta_ok _ _ _ (cell_style_wf n Hn)). cbn [forallb]. rewrite (cell_text_ok cp n Hn).
  destruct repos; cbn [when andb forallb app]; [|reflexivity].
  destruct (nonempty (s_link pen)); cbn [when app forallb]; rewrite (cup_ok row col Hr Hcol Hrd Hcd); reflexivity.
Qed.

Lemma render_rows_ok cp refresh nss : forall lss row pen,
  forallb (forallb cell_wfb) nss = true -> Forall (fun r => dim_ok (zlen r)) nss -> 0 <= row -> dim_ok (row + zlen nss) ->
  let '(o, _, _) := render_rows cp refresh row nss lss pen in
  forallb tok_okb o = true.
Proof.
  induction nss as [|ns nss IH]; intros lss row pen Hc Hdim Hr Hd; [reflexivity|].
  destruct lss as [|ls lss]; [reflexivity|]. cbn [render_rows].
  cbn [forallb] in Hc. apply andb_prop in Hc. destruct Hc as [Hns Hnss].
  inversion Hdim as [|? ? Hd1 Hd2]; subst.
  assert (Hrd : dim_ok row).
  { unfold dim_ok in *. rewrite zlen_cons in Hd. pose proof (zlen_nonneg nss). lia. }
  pose proof (render_cells_ok cp refresh row ns ls 0 0 true pen Hns Hr Hrd ltac:(lia) ltac:(exact Hd1)) as H1.
  destruct (render_cells cp refresh row ns ls 0 0 true pen) as [[o1 l1] p1].
  assert (Hd' : dim_ok (row + 1 + zlen nss)).
  { unfold dim_ok in *. rewrite zlen_cons in Hd. lia. }
  specialize (IH lss (row + 1) p1 Hnss Hd2 ltac:(lia) Hd'). destruct (render_rows cp refresh (row + 1) nss lss p1) as [[o2 l2] p2].
  rewrite forallb_app. now rewrite H1, IH.
Qed.

Lemma show_cursor_ok c : cursor_wfb c = true -> forallb tok_okb (show_cursor c) = true.
Proof.
  unfold cursor_wfb, show_cursor. intros H. apply andb_prop in H; destruct H as [H Hs]. apply andb_prop in H; destruct H as [Hr Hc].
  cbn [forallb]. unfold tok_okb. cbn [tok_wfb tok_utf8b]. now rewrite Hr, Hc, Hs.
Qed.

Theorem render_ok s : content_wf s -> toks_wfb (snd (do_render s)) = true.
Proof.
  intros [Hc [Hcur [Hm [Hd Hdr]]]]. apply toks_okb_wfb.
  unfold do_render, render_body.
  pose proof (render_rows_ok (v_caps s) (v_refresh s) (v_next s) (v_last s) 0 style0 Hc Hdr ltac:(lia) ltac:(exact Hd)) as H.
  destruct (render_rows (v_caps s) (v_refresh s) 0 (v_next s) (v_last s) style0) as [[o l] pen].
  cbn [snd]. unfold flush.
  destruct (text_okb_split _ Hm) as [Hm1 Hm2].
  set (body := _ ++ o ++ _ ++ _).
  assert (Hb : forallb tok_okb body = true).
  { unfold body. rewrite !forallb_app. rewrite H. unfold when.
    repeat (apply andb_true_intro; split); try reflexivity.
    - destruct (negb _); [|reflexivity]. cbn [forallb]. unfold tok_okb. cbn [tok_wfb tok_utf8b]. now rewrite Hm1, Hm2.
    - destruct (nonempty _); reflexivity.
    - destruct (_ && _); [apply show_cursor_ok; exact Hcur|reflexivity]. }
  destruct body eqn:Eb.
  - repeat match goal with |- context [if ?c then _ else _] => destruct c end; try reflexivity; apply show_cursor_ok; exact Hcur.
  - rewrite <- Eb in *. rewrite !forallb_app, Hb. unfold when.
    repeat (apply andb_true_intro; split); try reflexivity;
      repeat match goal with |- context [if ?c then _ else _] => destruct c end; try reflexivity;
      apply show_cursor_ok; exact Hcur.
Qed.

(* a frame: drawing calls, then Render / Refresh / a size change *)
Theorem frame_ok_wf s ops e :
  content_wf (fold_left apply_op ops s) -> toks_wfb (snd (do_frame s ops e)) = true.
Proof.
  intros H. unfold do_frame. destruct e.
  - apply render_ok. exact H.
  - unfold do_refresh. apply (render_ok (set_refresh (fold_left apply_op ops s))). exact H.
  - reflexivity.
Qed.
