(* The spec_float model of asIndex's arithmetic (model/ColourFloat.v) IS Flocq's binary64:
   the same expression written with IEEE754.BinarySingleNaN's Bmult / Bplus / Bdiv /
   binary_normalize at precision 53, emax 1024, mode_NE has, for ALL integer differences, the
   spec_float image fdist.  Flocq's operations carry, inside their definitions, proofs about the
   real numbers (Bmult_correct_aux ...), so this file - and only this file of C07 - depends on the
   axioms of the standard library's Reals (ClassicalDedekindReals.sig_forall_dec, sig_not_dec,
   FunctionalExtensionality.functional_extensionality_dep) and Classical_Prop.classic. *)
From Coq Require Import Floats.SpecFloat ZArith Lia.
From Flocq Require Import Core.FLX Calc.Round IEEE754.BinarySingleNaN.
From Vx Require Import base.Prelude base.ListX gen.GenPalette model.Colour.
From Vx Require Import model.ColourFloat.
Local Open Scope Z_scope.

(* Flocq's binary64 (BinarySingleNaN.binary_float 53 1024) with round to nearest even *)
Definition b64 := binary_float 53 1024.
Definition Hprec : FLX.Prec_gt_0 53 := eq_refl.
Definition Hmax : Prec_lt_emax 53 1024 := eq_refl.

(* SpecFloat's rounding is Flocq's rounding in mode_NE (as in Flocq's IEEE754/PrimFloat.v, repeated
   here so that primitive floats and their axioms stay out of the context) *)
Lemma round_nearest_even_equiv s m l : round_nearest_even m l = choice_mode mode_NE s m l.
Proof.
  destruct l as [|c]; [reflexivity|]. destruct c; try reflexivity.
  cbn. unfold Round.cond_incr. now destruct (Z.even m).
Qed.

Lemma binary_round_aux_equiv sx mx ex lx :
  SpecFloat.binary_round_aux 53 1024 sx mx ex lx = binary_round_aux 53 1024 mode_NE sx mx ex lx.
Proof.
  unfold SpecFloat.binary_round_aux, binary_round_aux.
  destruct (shr_fexp 53 1024 mx ex lx) as [mrs' e']. cbn [fst snd].
  now rewrite (round_nearest_even_equiv sx).
Qed.

Lemma binary_round_equiv s m e :
  SpecFloat.binary_round 53 1024 s m e = binary_round 53 1024 mode_NE s m e.
Proof.
  unfold SpecFloat.binary_round, binary_round, shl_align_fexp.
  destruct (shl_align m e (fexp 53 1024 (Z.pos (digits2_pos m) + e))) as [mz ez].
  apply binary_round_aux_equiv.
Qed.

Lemma binary_normalize_equiv m e szero :
  SpecFloat.binary_normalize 53 1024 m e szero
  = B2SF (binary_normalize 53 1024 Hprec Hmax mode_NE m e szero).
Proof.
  destruct m as [|p|p]; [reflexivity| |]; cbn [SpecFloat.binary_normalize binary_normalize];
    rewrite B2SF_SF2B; apply binary_round_equiv.
Qed.
Definition b64mul : b64 -> b64 -> b64 := @Bmult 53 1024 Hprec Hmax mode_NE.
Definition b64add : b64 -> b64 -> b64 := @Bplus 53 1024 Hprec Hmax mode_NE.
Definition b64div : b64 -> b64 -> b64 := @Bdiv 53 1024 Hprec Hmax mode_NE.
Definition b64_of_int (n : Z) : b64 := binary_normalize 53 1024 Hprec Hmax mode_NE n 0 false.

Lemma b64mul_sf x y : B2SF (b64mul x y) = f64mul (B2SF x) (B2SF y).
Proof.
  unfold b64mul, f64mul.
  destruct x as [sx|sx| |sx mx ex Bx]; destruct y as [sy|sy| |sy my ey By]; try reflexivity.
  cbn [Bmult]. rewrite B2SF_SF2B. symmetry. apply binary_round_aux_equiv.
Qed.

Lemma b64add_sf x y : B2SF (b64add x y) = f64add (B2SF x) (B2SF y).
Proof.
  unfold b64add, f64add.
  destruct x as [sx|sx| |sx mx ex Bx]; destruct y as [sy|sy| |sy my ey By];
    try reflexivity; try (cbn; now destruct (Bool.eqb _ _)).
  symmetry. apply binary_normalize_equiv.
Qed.

Lemma b64_of_int_sf n : B2SF (b64_of_int n) = f64_of_int n.
Proof. symmetry. apply binary_normalize_equiv. Qed.

Lemma b64div_sf x y : B2SF (b64div x y) = f64div (B2SF x) (B2SF y).
Proof.
  unfold b64div, f64div.
  destruct x as [sx|sx| |sx mx ex Bx]; destruct y as [sy|sy| |sy my ey By]; try reflexivity.
  cbn [Bdiv]. rewrite B2SF_SF2B. cbn [B2SF SFdiv].
  destruct (SFdiv_core_binary 53 1024 (Z.pos mx) ex (Z.pos my) ey) as [[mz ez] lz].
  symmetry. apply binary_round_aux_equiv.
Qed.

(* the constants: nearest doubles of 3/10, 59/100, 11/100 *)
Definition C30 : b64 := b64div (b64_of_int 3) (b64_of_int 10).
Definition C59 : b64 := b64div (b64_of_int 59) (b64_of_int 100).
Definition C11 : b64 := b64div (b64_of_int 11) (b64_of_int 100).

Definition bterm (c : b64) (x : Z) : b64 := let p := b64mul (b64_of_int x) c in b64mul p p.
Definition bdist (dr dg db : Z) : b64 := b64add (b64add (bterm C30 dr) (bterm C59 dg)) (bterm C11 db).

Lemma C30_sf : B2SF C30 = c30. Proof. unfold C30. rewrite b64div_sf, !b64_of_int_sf. reflexivity. Qed.
Lemma C59_sf : B2SF C59 = c59. Proof. unfold C59. rewrite b64div_sf, !b64_of_int_sf. reflexivity. Qed.
Lemma C11_sf : B2SF C11 = c11. Proof. unfold C11. rewrite b64div_sf, !b64_of_int_sf. reflexivity. Qed.

(* the model's trial is Flocq's binary64 computation, for all integers *)
Theorem bdist_sf dr dg db : B2SF (bdist dr dg db) = fdist dr dg db.
Proof.
  unfold bdist, fdist, bterm, fterm.
  rewrite !b64add_sf, !b64mul_sf, !b64_of_int_sf, C30_sf, C59_sf, C11_sf. reflexivity.
Qed.

Theorem bltb_sf (x y : b64) : Bltb x y = f64ltb (B2SF x) (B2SF y).
Proof. reflexivity. Qed.
Theorem beqb_sf (x y : b64) : Beqb x y = f64eqb (B2SF x) (B2SF y).
Proof. reflexivity. Qed.
