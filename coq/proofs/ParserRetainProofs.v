(* the model's retention observation always satisfies the hand-off predicate: "no mismatch"
   implies "no violation" on the retain stream *)
From Vx Require Import base.Prelude base.ListX model.ParserTypes gen.GenParser model.Parser model.ParserCheck
  proofs.ParserLife model.ParserRetain.

Lemma zlist_eqb_refl' (a : list Z) : zlist_eqb a a = true.
Proof. induction a as [|x a IH]; cbn; [reflexivity|]. now rewrite Z.eqb_refl. Qed.

Lemma zll_eqb_refl (a : list (list Z)) : zll_eqb a a = true.
Proof. induction a as [|x a IH]; cbn; [reflexivity|]. now rewrite zlist_eqb_refl'. Qed.

Lemma item_eqb_refl (i : item) : item_eqb i i = true.
Proof. destruct i; cbn; rewrite ?zlist_eqb_refl', ?zll_eqb_refl, ?Z.eqb_refl; reflexivity. Qed.

Lemma zlist_eqb_true (a : list Z) : forall b, zlist_eqb a b = true -> a = b.
Proof.
  induction a as [|x a IH]; intros [|y b] H; cbn in H; try discriminate; [reflexivity|].
  apply andb_prop in H as [H1 H2]. apply Z.eqb_eq in H1. subst. f_equal. now apply IH.
Qed.

Lemma zll_eqb_true (a : list (list Z)) : forall b, zll_eqb a b = true -> a = b.
Proof.
  induction a as [|x a IH]; intros [|y b] H; cbn in H; try discriminate; [reflexivity|].
  apply andb_prop in H as [H1 H2]. apply zlist_eqb_true in H1. subst. f_equal. now apply IH.
Qed.

Lemma item_eqb_true (a b : item) : item_eqb a b = true -> a = b.
Proof.
  destruct a, b; cbn; intros H; try discriminate; try reflexivity;
    repeat match goal with
    | H : _ && _ = true |- _ => apply andb_prop in H as [? ?]
    end;
    repeat match goal with
    | H : (_ =? _) = true |- _ => apply Z.eqb_eq in H; subst
    | H : zlist_eqb _ _ = true |- _ => apply zlist_eqb_true in H; subst
    | H : zll_eqb _ _ = true |- _ => apply zll_eqb_true in H; subst
    end; reflexivity.
Qed.

Lemma items_eqb_true (a : list item) : forall b, items_eqb a b = true -> a = b.
Proof.
  induction a as [|x a IH]; intros [|y b] H; cbn in H; try discriminate; [reflexivity|].
  apply andb_prop in H as [H1 H2]. apply item_eqb_true in H1. subst. f_equal. now apply IH.
Qed.

Lemma one_eof_last_b_app body :
  Forall (fun i => is_eof i = false) body -> one_eof_last_b (body ++ [IEof]) = true.
Proof.
  induction body as [|x t IH]; intros F; [reflexivity|].
  inversion F as [|? ? Hx Ft]; subst. specialize (IH Ft).
  cbn [app]. destruct (t ++ [IEof]) as [|y r] eqn:E; [destruct t; discriminate|].
  change (negb (is_eof_b x) && one_eof_last_b (y :: r) = true). rewrite IH.
  destruct x; cbn in *; try reflexivity; discriminate.
Qed.

Lemma parse_one_eof_last_b segs : one_eof_last_b (parse_segments segs) = true.
Proof.
  destruct (one_eof_last segs) as [body [E F]]. rewrite E. apply one_eof_last_b_app.
  eapply Forall_impl; [|exact F]. cbn. tauto.
Qed.

Theorem model_retain_holds : forall (segs : list (list Z)) (kept : list Z),
  c08_retain_holds (segs, fst (model_retain segs kept), snd (model_retain segs kept)) = true.
Proof.
  intros segs kept. unfold model_retain. cbn [fst snd c08_retain_holds].
  rewrite parse_one_eof_last_b. cbn [andb]. apply forallb_forall. intros [i it] Hin.
  apply in_flat_map in Hin as [j [_ Hj]].
  destruct (zget (parse_segments segs) j) as [x|] eqn:E; [|contradiction].
  destruct Hj as [Hj|[]]. injection Hj as <- <-. unfold reads_as. cbn [fst snd]. rewrite E. apply item_eqb_refl.
Qed.

(* hence: a case on which model and implementation agree satisfies the predicate *)
Theorem retain_no_mismatch_no_violation : forall c : rcase,
  c08_retain_mismatches [c] = [] -> c08_retain_violations [c] = [].
Proof.
  intros [[segs delivered] later]. unfold c08_retain_mismatches, c08_retain_violations, bad_indices. cbn [bad_from].
  pose proof (model_retain_holds segs (map fst later)) as M.
  destruct (model_retain segs (map fst later)) as [d l] eqn:Em. cbn [fst snd] in M.
  destruct (items_eqb d delivered && later_eqb l later) eqn:E; cbn [negb]; [|discriminate].
  intros _. apply andb_prop in E as [E1 E2].
  assert (Hd : d = delivered) by (now apply items_eqb_true).
  subst d.
  assert (Hl : forallb (reads_as delivered) later = forallb (reads_as delivered) l).
  { clear - E2. revert later E2. induction l as [|p l IH]; intros [|q later] H; cbn in H; try discriminate; [reflexivity|].
    apply andb_prop in H as [H1 H2]. apply andb_prop in H1 as [Hf Hs]. apply Z.eqb_eq in Hf.
    cbn [forallb]. rewrite (IH later H2). f_equal. unfold reads_as. rewrite Hf.
    destruct (zget delivered (fst q)) as [it|]; [|reflexivity].
    apply item_eqb_true in Hs. now rewrite Hs. }
  unfold c08_retain_holds in M |- *. rewrite Hl. rewrite M. reflexivity.
Qed.
