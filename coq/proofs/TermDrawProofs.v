(* C05 - Draw into a host window of any size and position (model/TermDraw.v): what reaches
   the screen lies in the visible part of the window, the cursor handed to the host lies in
   the window's rectangle, and the decidable statement [wdraw_holds] evaluated by the
   differential run is sound for the model ("no mismatch" implies "no violation"). *)
From Vx Require Import base.Prelude base.ListX model.Colour model.Sgr model.Term model.TermCheck
  model.TermDraw proofs.SgrProofs proofs.TermProofs proofs.TermSafe proofs.TermObs.
Require Import ZifyBool Lia.

Local Open Scope Z_scope.

(* ------------------------------------------------------------------ windows *)

(* Window.SetCell writes at the window's origin plus the position, and only in the visible part *)
Lemma setcell_clip : forall ch sc c r x y,
  win_setcell ch sc c r = Some (x, y) ->
  x = c + fst (win_origin ch) /\ y = r + snd (win_origin ch) /\ in_clip ch sc x y = true.
Proof.
  induction ch as [|l ps IH]; intros sc c r x y H; cbn [win_setcell win_origin in_clip fst snd] in *.
  - destruct ((c <? 0) || (r <? 0) || (fst sc <=? c) || (snd sc <=? r)) eqn:E; [discriminate|].
    inversion H; subst. repeat split; lia.
  - destruct ((wl_h l <=? r) || (wl_w l <=? c) || (r <? 0) || (c <? 0)) eqn:E; [discriminate|].
    destruct (IH _ _ _ _ _ H) as (Hx & Hy & Hc). rewrite Hc.
    unfold in_rect; cbn [win_origin fst snd]. repeat split; lia.
Qed.

Lemma host_writes_in ch sc calls x y cell :
  In (x, y, cell) (host_writes ch sc calls) ->
  in_clip ch sc x y = true /\
  exists c r, In (c, r, cell) calls /\ win_setcell ch sc c r = Some (x, y).
Proof.
  unfold host_writes; intros H. apply in_flat_map in H. destruct H as [[[c r] k] [Hin H]].
  cbn [fst snd] in H. destruct (win_setcell ch sc c r) as [[ax ay]|] eqn:E; [|destruct H].
  destruct H as [H|[]]. inversion H; subst.
  split; [apply (setcell_clip _ _ _ _ _ _ E)|]. exists c, r; auto.
Qed.

(* inside its parent chain the rectangle of a window is its visible part *)
Lemma nested_rect_clip : forall ch sc x y,
  chain_nested ch sc = true -> in_rect ch x y = true -> in_clip ch sc x y = true.
Proof.
  induction ch as [|l ps IH]; intros sc x y N R; [discriminate R|].
  cbn [in_clip]. rewrite R. cbn [andb].
  cbn [chain_nested] in N. apply andb_true_iff in N; destruct N as [N N2].
  destruct ps as [|p ps'].
  - unfold in_rect in R; cbn [win_origin fst snd in_clip] in *. lia.
  - apply IH; [exact N2|].
    unfold in_rect in *; cbn [win_origin fst snd] in *. lia.
Qed.

(* ------------------------------------------------------------------ the host screen *)

Lemma find_draw_in : forall l c r x, find_draw l c r = Some x -> In (c, r, x) l.
Proof.
  induction l as [|[[c' r'] x'] rest IH]; intros c r x H; cbn [find_draw] in H; [discriminate|].
  destruct ((c =? c') && (r =? r')) eqn:E.
  - inversion H; subst. assert (c = c' /\ r = r') as [-> ->] by lia. now left.
  - right; now apply IH.
Qed.

Lemma sentinel_self : dcell_eqb sentinel sentinel = true.
Proof. reflexivity. Qed.

(* a cell of the host screen outside the visible part of the window keeps the sentinel *)
Lemma mcell_outside ch sc calls x y :
  in_clip ch sc x y = false -> mcell (host_writes ch sc calls) x y = sentinel.
Proof.
  intros Hc. unfold mcell. destruct (find_draw (rev (host_writes ch sc calls)) x y) as [k|] eqn:F; [|reflexivity].
  apply find_draw_in in F. apply in_rev in F. apply host_writes_in in F. destruct F as [F _]. congruence.
Qed.

Lemma msparse_in f sc x y c :
  In (x, y, c) (msparse f sc) -> dcell_eqb sentinel (f x y) = false.
Proof.
  unfold msparse; intros H. apply in_flat_map in H; destruct H as [y' [_ H]].
  apply in_flat_map in H; destruct H as [x' [_ H]].
  destruct (dcell_eqb sentinel (f x' y')) eqn:E; [destruct H|].
  destruct H as [H|[]]. inversion H; subst. exact E.
Qed.

Lemma msparse_clip ch sc calls x y c :
  In (x, y, c) (msparse (mcell (host_writes ch sc calls)) sc) -> in_clip ch sc x y = true.
Proof.
  intros H. apply msparse_in in H.
  destruct (in_clip ch sc x y) eqn:E; [reflexivity|].
  rewrite (mcell_outside _ _ _ _ _ E), sentinel_self in H. discriminate.
Qed.

Lemma hcell_eqb_forall (P : Z -> Z -> bool) : forall a b,
  list_eqb hcell_eqb a b = true ->
  (forall x y c, In (x, y, c) a -> P x y = true) ->
  forallb (fun k : hcell => P (fst (fst k)) (snd (fst k))) b = true.
Proof.
  induction a as [|[[x y] c] a IH]; intros [|[[x' y'] c'] b] E H; cbn [list_eqb] in E; try discriminate; [reflexivity|].
  apply andb_true_iff in E; destruct E as [E1 E2]. cbn [forallb fst snd].
  unfold hcell_eqb in E1; cbn [fst snd] in E1.
  assert (x = x' /\ y = y') as [-> ->] by lia.
  rewrite (H x' y' c (or_introl eq_refl)). cbn [andb].
  apply IH; [exact E2|]. intros; eapply H; right; eauto.
Qed.

(* ------------------------------------------------------------------ Draw *)

(* Draw into a window of at least one cell: no panic, the terminal afterwards is well formed at
   the window's size, no SetCell call relies on the window's clipping, the cursor is inside *)
Theorem draw_win_ok e w h t ww wh foc :
  WFs0 e w h t -> 1 <= ww -> 1 <= wh ->
  exists t' cur, draw_win t ww wh foc = TOk (t', draw t', cur) /\ WFs0 e ww wh t' /\
    (forall c r x, In (c, r, x) (draw t') -> 0 <= c < ww /\ 0 <= r < wh) /\
    (forall c r, cur = Some (c, r) -> 0 <= c < ww /\ 0 <= r < wh).
Proof.
  intros W Hw Hh. unfold draw_win.
  replace ((ww <? 1) || (wh <? 1)) with false by lia. unfold draw_win_unfixed.
  assert (Hfin : forall t', WFs0 e ww wh t' ->
     exists t'0 cur, TOk (t', draw t', if m_tcem (t_md t') && foc then Some (t_col t', t_row t') else None)
                     = TOk (t'0, draw t'0, cur) /\ WFs0 e ww wh t'0 /\
       (forall c r x, In (c, r, x) (draw t'0) -> 0 <= c < ww /\ 0 <= r < wh) /\
       (forall c r, cur = Some (c, r) -> 0 <= c < ww /\ 0 <= r < wh)).
  { intros t' W'. eexists; eexists; split; [reflexivity|]. split; [exact W'|].
    destruct (draw_inside _ _ _ _ W') as [Hd [Hc Hr]]. split; [exact Hd|].
    intros c r E. destruct (m_tcem (t_md t') && foc); inversion E; subst; auto. }
  destruct ((ww =? width t) && (wh =? height t)) eqn:E; cbn [tbind].
  - rewrite (WFs_width _ _ _ _ W), (WFs_height _ _ _ _ W) in E.
    assert (ww = w /\ wh = h) as [-> ->] by lia. now apply Hfin.
  - destruct (resize_ok e t ww wh (WFs_resizable e w h t W) Hw Hh) as [t1 [E1 W1]].
    rewrite E1; cbn [tbind]. now apply Hfin.
Qed.

(* Draw into a window without a cell does nothing *)
Lemma draw_win_empty t ww wh foc :
  (1 <=? ww) && (1 <=? wh) = false -> draw_win t ww wh foc = TOk (t, [], None).
Proof. intros H. unfold draw_win. replace ((ww <? 1) || (wh <? 1)) with true by lia. reflexivity. Qed.

(* on the host, for every chain of windows (any offsets, any sizes): Draw does not panic and the
   terminal stays well formed - at the window's size if the window has a cell, untouched (and
   nothing is written, no cursor is shown) if it has none; every cell written lies in the
   visible part of the window (inside the window, inside every ancestor, on the screen); the
   cursor handed to Vaxis.ShowCursor lies in the window's rectangle, and in its visible part if
   the chain is nested *)
Theorem draw_window_inside e w h t l ps sc foc :
  WFs0 e w h t ->
  exists t' calls cur w' h', draw_win t (wl_w l) (wl_h l) foc = TOk (t', calls, cur) /\
    WFs0 e w' h' t' /\
    (if win_ok (l :: ps) then w' = wl_w l /\ h' = wl_h l else t' = t /\ calls = [] /\ cur = None) /\
    (forall c r x, In (c, r, x) calls -> 0 <= c < wl_w l /\ 0 <= r < wl_h l) /\
    (forall x y x0, In (x, y, x0) (host_writes (l :: ps) sc calls) -> in_clip (l :: ps) sc x y = true) /\
    (forall c r, cur = Some (c, r) ->
       in_rect (l :: ps) (fst (win_cursor (l :: ps) c r)) (snd (win_cursor (l :: ps) c r)) = true /\
       (chain_nested (l :: ps) sc = true ->
        in_clip (l :: ps) sc (fst (win_cursor (l :: ps) c r)) (snd (win_cursor (l :: ps) c r)) = true)).
Proof.
  intros W. destruct (win_ok (l :: ps)) eqn:Hok; cbn [win_ok] in Hok.
  - destruct (draw_win_ok e w h t (wl_w l) (wl_h l) foc W ltac:(lia) ltac:(lia)) as (t' & cur & E & W' & Hd & Hc).
    exists t', (draw t'), cur, (wl_w l), (wl_h l).
    split; [exact E|]. split; [exact W'|]. split; [split; reflexivity|]. split; [exact Hd|]. split.
    + intros x y x0 Hin. now apply host_writes_in in Hin.
    + intros c r Ec. specialize (Hc c r Ec).
      assert (R : in_rect (l :: ps) (fst (win_cursor (l :: ps) c r)) (snd (win_cursor (l :: ps) c r)) = true).
      { unfold in_rect, win_cursor; cbn [win_origin fst snd]. lia. }
      split; [exact R|]. intros N. now apply nested_rect_clip.
  - exists t, [], None, w, h. rewrite (draw_win_empty _ _ _ _ Hok).
    split; [reflexivity|]. split; [exact W|]. split; [repeat split|].
    split; [intros c r x []|]. split; [intros x y x0 []|]. intros c r Ec; discriminate Ec.
Qed.

(* ------------------------------------------------------------------ the observed Draw *)

Lemma final_term_run : forall (l : hist_case) t,
  final_term t l = match run t (map fst l) with TOk t' => Some t' | _ => None end.
Proof.
  induction l as [|[s o] rest IH]; intros t; cbn [final_term map fst run]; [reflexivity|].
  destruct (hstep_run t s); cbn [tbind]; auto.
Qed.

Lemma firstn_all' {A} (l : list A) : firstn (length l) l = l.
Proof. induction l; simpl; congruence. Qed.

(* "no mismatch" implies "no violation": an observed Draw (after a stall-free history from
   New(), into any window) that the model reproduces satisfies [wdraw_holds] *)
Theorem wdraw_agreeing_holds w h o0 (rest : hist_case) sc ch foc ob :
  1 <= w -> 1 <= h -> Forall hstep_ok (map fst rest) -> stall_free (map fst rest) = true ->
  wdraw_model_ok ((HResize w h, o0) :: rest, (sc, ch, foc), ob) = true ->
  wdraw_holds ((HResize w h, o0) :: rest, (sc, ch, foc), ob) = true.
Proof.
  intros Hw Hh Hok Hsf M.
  destruct ob as [[[out o] [[vis ccol] crow]] cells].
  unfold wdraw_model_ok in M. apply andb_true_iff in M; destruct M as [_ M].
  rewrite final_term_run in M. cbn [map fst] in M.
  destruct (term_safe_run w h (map fst rest) Hw Hh Hok Hsf (length (map fst rest))) as (t & Er & (e & w1 & h1 & W)).
  rewrite firstn_all' in Er. rewrite Er in M.
  destruct ch as [|l ps]; [discriminate|].
  destruct (draw_window_inside e w1 h1 t l ps sc foc W) as (t' & calls & cur & w' & h' & E & W' & Hk & _ & Hwr & Hcur).
  rewrite E in M.
  repeat (apply andb_true_iff in M; destruct M as [M ?]).
  rename H into Mcur, H0 into Mcells, H1 into Mobs, H2 into Mo.
  assert (Ho : o_out o = 0) by lia.
  pose proof (obs_matches_wf _ _ _ _ _ W' Ho Mobs) as Hwf.
  pose proof (WFs_height _ _ _ _ W') as Hh'. pose proof (WFs_width _ _ _ _ W') as Hw'.
  assert (Hsz : negb (win_ok (l :: ps)) || ((o_cols o =? wl_w l) && (o_rows o =? wl_h l)) = true).
  { destruct (win_ok (l :: ps)); [|reflexivity]. destruct Hk as [-> ->].
    unfold obs_matches in Mobs. repeat (apply andb_true_iff in Mobs; destruct Mobs as [Mobs ?]). cbn [negb orb]. lia. }
  unfold wdraw_holds. rewrite M, Hwf, Hsz. cbn [andb].
  rewrite (hcell_eqb_forall (in_clip (l :: ps) sc) _ _ Mcells).
  2:{ intros x y c Hin. eapply msparse_clip; exact Hin. }
  cbn [andb]. rewrite andb_true_r.
  destruct cur as [[cc cr]|].
  - destruct (Hcur cc cr eq_refl) as [R _].
    repeat (apply andb_true_iff in Mcur; destruct Mcur as [Mcur ?]).
    assert (ccol = fst (win_cursor (l :: ps) cc cr)) as -> by lia.
    assert (crow = snd (win_cursor (l :: ps) cc cr)) as -> by lia.
    rewrite R. now rewrite orb_true_r.
  - destruct vis; [discriminate|reflexivity].
Qed.
