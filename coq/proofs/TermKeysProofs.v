(* Proofs for property C13 (model/TermKeys.v, model/TermMouse.v). *)
From Coq Require Import ZifyBool.
From Vx Require Import base.Prelude gen.GenKeys gen.GenTermKeys gen.GenParser model.Keys model.ParserTypes model.Parser
  model.TermMouse model.TermKeys.
Local Open Scope Z_scope.

(* ================= generalities ================= *)

Lemma zrange_In x : forall n a, a <= x < a + Z.of_nat n -> In x (zrange a n).
Proof.
  induction n as [|n IH]; intros a Hx; [lia|].
  cbn [zrange]. destruct (Z.eq_dec a x) as [->|Hne]; [now left|right].
  apply IH. lia.
Qed.

Lemma bools_In (b : bool) : In b [true; false].
Proof. destruct b; cbn; auto. Qed.

(* ---------- decodeKey on anything but a printed character does not look at the oracle for the
              key code, the modifiers and the event type ---------- *)
Definition is_print (s : kseq) : bool := match s with SPrint _ => true | _ => false end.

Lemma decode_finish_fields u k :
  k_code (decode_finish u k) = k_code k /\ k_mods (decode_finish u k) = k_mods k /\
  k_event (decode_finish u k) = k_event k /\ k_shifted (decode_finish u k) = k_shifted k.
Proof.
  unfold decode_finish. destruct (k_text k); [|auto].
  destruct (_ && _); cbn; auto.
Qed.

Lemma decode_key_fields u u' s : is_print s = false ->
  k_code (decode_key u s) = k_code (decode_key u' s) /\ k_mods (decode_key u s) = k_mods (decode_key u' s) /\
  k_event (decode_key u s) = k_event (decode_key u' s).
Proof.
  intros Hs. unfold decode_key.
  destruct (decode_finish_fields u (decode_pre u s)) as (A & B & C & _).
  destruct (decode_finish_fields u' (decode_pre u' s)) as (A' & B' & C' & _).
  rewrite A, B, C, A', B', C'.
  destruct s; cbn in Hs; try discriminate; cbn [decode_pre]; auto.
Qed.

(* events up to the text of keys *)
Definition hev_sim (a b : hevent) : Prop :=
  match a, b with
  | HKey x, HKey y => k_code x = k_code y /\ k_mods x = k_mods y /\ k_event x = k_event y
  | HMouse x, HMouse y => x = y
  | HPasteStart, HPasteStart | HPasteEnd, HPasteEnd | HFocusIn, HFocusIn | HFocusOut, HFocusOut
  | HInternal, HInternal | HPanic, HPanic => True
  | _, _ => False
  end.

Lemma hev_sim_refl a : hev_sim a a.
Proof. destruct a; cbn; auto. Qed.

Lemma Forall2_refl_sim l : Forall2 hev_sim l l.
Proof. induction l; constructor; auto using hev_sim_refl. Qed.

Definition no_print (its : list item) : bool :=
  forallb (fun it => match it with IPrint _ => false | _ => true end) its.

Lemma mark_paste_fields p k :
  k_code (mark_paste p k) = k_code k /\ k_mods (mark_paste p k) = k_mods k /\
  k_event (mark_paste p k) = if p then EventPaste else k_event k.
Proof. unfold mark_paste. destruct p; cbn; auto. Qed.

Lemma key_sim u u' p s : is_print s = false ->
  hev_sim (HKey (mark_paste p (decode_key u s))) (HKey (mark_paste p (decode_key u' s))).
Proof.
  intros Hs. destruct (decode_key_fields u u' s Hs) as (A & B & C).
  destruct (mark_paste_fields p (decode_key u s)) as (A1 & B1 & C1).
  destruct (mark_paste_fields p (decode_key u' s)) as (A2 & B2 & C2).
  cbn. rewrite A1, B1, C1, A2, B2, C2, A, B. destruct p; auto.
Qed.

Lemma host_items_sim u u' seg seg' : forall its p, no_print its = true ->
  Forall2 hev_sim (host_items u seg p its) (host_items u' seg' p its).
Proof.
  induction its as [|it t IH]; intros p Hnp; [constructor|].
  cbn [no_print forallb] in Hnp. apply andb_true_iff in Hnp. destruct Hnp as [Hit Ht].
  fold (no_print t) in Ht.
  destruct it; cbn [host_items]; try discriminate; try (constructor; [apply key_sim; reflexivity|auto]); auto.
  - (* ICsi *)
    unfold host_csi. destruct (classify_csi p inter ps final) as [|evs p'].
    + cbn [app]. constructor; [apply key_sim; reflexivity|auto].
    + apply Forall2_app; [apply Forall2_refl_sim|auto].
  - constructor; [exact I|auto].
Qed.

(* rule 1 of Key.Matches does not consult the oracle *)
Lemma matches_rule1 u k r mods :
  (k_code k =? r) = true -> (strip2 mods =? strip2 (k_mods k)) = true -> matches u k r mods = true.
Proof.
  intros H1 H2. unfold matches. cbv zeta. rewrite H1, H2. reflexivity.
Qed.

(* ================= special keys: a finite domain ================= *)

(* encodeXterm for a key of xtermKeymap: a function of the key code, Shift/Alt/Ctrl and the modes *)
Definition special_bytes (c xm : Z) (kp ck : bool) : list Z :=
  match (if xm =? 0 then encode_plain c kp ck else None) with
  | Some v => v
  | None =>
      if (c =? KeyTab) && (xm =? ModShift) then [27; 91; 90]
      else match lookup_kc xtermKeymap c with
           | Some (num, fin) => [27; 91] ++ dec num ++ [59] ++ dec (i64 (xm + 1)) ++ fmt_c fin
           | None => []
           end
  end.

Lemma existsb_lookup_kc c : existsb (Z.eqb c) (map fst xtermKeymap) = true -> lookup_kc xtermKeymap c <> None.
Proof.
  unfold lookup_kc. generalize xtermKeymap. induction l as [|e t IH]; cbn; [discriminate|].
  intros H. rewrite (Z.eqb_sym (fst e) c). destruct (c =? fst e); [discriminate|]. cbn in H. auto.
Qed.

Lemma encode_special u k kp ck : existsb (Z.eqb (k_code k)) special_keys = true ->
  encode_xterm u k kp ck = special_bytes (k_code k) (xterm_mods (k_mods k)) kp ck.
Proof.
  intros H. apply existsb_lookup_kc in H.
  unfold encode_xterm, special_bytes. cbv zeta.
  destruct (if xterm_mods (k_mods k) =? 0 then _ else None); [reflexivity|].
  destruct (_ && _); [reflexivity|].
  destruct (lookup_kc xtermKeymap (k_code k)) as [[num fin]|]; [reflexivity|contradiction].
Qed.

Definition rune_seg (rs : list Z) : list (list Z) := map (fun r => [r]) rs.

(* the check evaluated on every key of xtermKeymap, every modifier mask below 256 and the four mode sets *)
Definition special_check (c m : Z) (kp ck : bool) : bool :=
  if Z.land m 56 =? 0 then
    let its := parse_segments [special_bytes c (xterm_mods m) kp ck; []] in
    no_print its &&
    match host_items ascii_uni rune_seg false its with
    | [HKey k'] => (k_code k' =? c) && (strip2 m =? strip2 (k_mods k'))
                   && (nonshift (strip_locks (k_mods k')) =? nonshift (Z.ldiff m 192))
                   && (k_mods k' =? Z.ldiff m 192)
                   && (k_event k' =? EventPress)
    | _ => false
    end
  else true.

Lemma special_all :
  forallb (fun c => forallb (fun m => forallb (fun kp => forallb (fun ck => special_check c m kp ck)
    [true; false]) [true; false]) (zrange 0 256)) special_keys = true.
Proof. vm_compute. reflexivity. Qed.

Lemma special_roundtrip u seg k kp ck md :
  existsb (Z.eqb (k_code k)) special_keys = true -> mods_in_scope k = true ->
  m_deckpam md = kp -> m_decckm md = ck ->
  exists k', forward u seg md (TKey k) = [HKey k'] /\ roundtrip_ok u k [HKey k'] = true /\
             k_code k' = k_code k /\ k_mods k' = chord_mods k.
Proof.
  intros Hc Hm Hkp Hck. unfold forward, term_update, host_read. rewrite Hkp, Hck.
  rewrite (encode_special u k kp ck Hc).
  unfold mods_in_scope in Hm. apply andb_true_iff in Hm. destruct Hm as [Hr H56].
  assert (Hin : In (k_mods k) (zrange 0 256)) by (apply zrange_In; unfold in_range in Hr; lia).
  assert (Hcin : In (k_code k) special_keys).
  { apply existsb_exists in Hc. destruct Hc as (x & Hx & Hxe). apply Z.eqb_eq in Hxe. now subst. }
  pose proof special_all as Hall.
  rewrite forallb_forall in Hall. specialize (Hall _ Hcin).
  rewrite forallb_forall in Hall. specialize (Hall _ Hin).
  rewrite forallb_forall in Hall. specialize (Hall _ (bools_In kp)).
  rewrite forallb_forall in Hall. specialize (Hall _ (bools_In ck)).
  unfold special_check in Hall. rewrite H56 in Hall. cbv zeta in Hall.
  apply andb_true_iff in Hall. destruct Hall as [Hnp Hall].
  pose proof (host_items_sim u ascii_uni seg rune_seg _ false Hnp) as Hsim.
  destruct (host_items ascii_uni rune_seg false _) as [|[k0| | | | | | |] [|? ?]]; try discriminate.
  inversion Hsim as [|a b l l' Hab Hl Ea Eb]; subst. inversion Hl; subst.
  destruct a as [k'| | | | | | |]; cbn in Hab; try contradiction.
  destruct Hab as (Ec & Em & Ee).
  exists k'. split; [reflexivity|].
  repeat (apply andb_true_iff in Hall; destruct Hall as [Hall ?]).
  rewrite <- Ec, <- Em, <- Ee in *.
  assert (Hcode : k_code k' = k_code k) by lia.
  assert (Hmods : k_mods k' = chord_mods k) by (unfold chord_mods; lia).
  split; [|auto].
  unfold roundtrip_ok. rewrite matches_rule1; [|lia|lia].
  unfold chord_mods. cbn [andb]. apply andb_true_iff. split; lia.
Qed.
