(* Proofs for property C13 (model/TermKeys.v, model/TermMouse.v). *)
From Coq Require Import ZifyBool.
From Vx Require Import base.Prelude gen.GenKeys gen.GenTermKeys gen.GenParser model.Keys model.ParserTypes model.Parser
  model.Vt500Spec proofs.ParserConform model.TermMouse model.TermKeys.
Local Open Scope Z_scope.

Ltac Zify.zify_post_hook ::= Z.div_mod_to_equations.

(* ================= generalities ================= *)

Lemma zrange_In x : forall n a, a <= x < a + Z.of_nat n -> In x (zrange a n).
Proof.
  induction n as [|n IH]; intros a Hx; [lia|].
  cbn [zrange]. destruct (Z.eq_dec a x) as [->|Hne]; [now left|right].
  apply IH. lia.
Qed.

Lemma bools_In (b : bool) : In b [true; false].
Proof. destruct b; cbn; auto. Qed.

(* ---------- decodeKey on anything but a printed character does not look at the oracle for the
              key code, the modifiers and the event type ---------- *)
Definition is_print (s : kseq) : bool := match s with SPrint _ => true | _ => false end.

Lemma decode_finish_fields u k :
  k_code (decode_finish u k) = k_code k /\ k_mods (decode_finish u k) = k_mods k /\
  k_event (decode_finish u k) = k_event k /\ k_shifted (decode_finish u k) = k_shifted k.
Proof.
  unfold decode_finish. destruct (k_text k); [|auto].
  destruct (_ && _); cbn; auto.
Qed.

Lemma decode_key_fields u u' s : is_print s = false ->
  k_code (decode_key u s) = k_code (decode_key u' s) /\ k_mods (decode_key u s) = k_mods (decode_key u' s) /\
  k_event (decode_key u s) = k_event (decode_key u' s).
Proof.
  intros Hs. unfold decode_key.
  destruct (decode_finish_fields u (decode_pre u s)) as (A & B & C & _).
  destruct (decode_finish_fields u' (decode_pre u' s)) as (A' & B' & C' & _).
  rewrite A, B, C, A', B', C'.
  destruct s; cbn in Hs; try discriminate; cbn [decode_pre]; auto.
Qed.

(* events up to the text of keys *)
Definition hev_sim (a b : hevent) : Prop :=
  match a, b with
  | HKey x, HKey y => k_code x = k_code y /\ k_mods x = k_mods y /\ k_event x = k_event y
  | HMouse x, HMouse y => x = y
  | HPasteStart, HPasteStart | HPasteEnd, HPasteEnd | HFocusIn, HFocusIn | HFocusOut, HFocusOut
  | HInternal, HInternal | HPanic, HPanic => True
  | _, _ => False
  end.

Lemma hev_sim_refl a : hev_sim a a.
Proof. destruct a; cbn; auto. Qed.

Lemma Forall2_refl_sim l : Forall2 hev_sim l l.
Proof. induction l; constructor; auto using hev_sim_refl. Qed.

Definition no_print (its : list item) : bool :=
  forallb (fun it => match it with IPrint _ => false | _ => true end) its.

Lemma mark_paste_fields p k :
  k_code (mark_paste p k) = k_code k /\ k_mods (mark_paste p k) = k_mods k /\
  k_event (mark_paste p k) = if p then EventPaste else k_event k.
Proof. unfold mark_paste. destruct p; cbn; auto. Qed.

Lemma key_sim u u' p s : is_print s = false ->
  hev_sim (HKey (mark_paste p (decode_key u s))) (HKey (mark_paste p (decode_key u' s))).
Proof.
  intros Hs. destruct (decode_key_fields u u' s Hs) as (A & B & C).
  destruct (mark_paste_fields p (decode_key u s)) as (A1 & B1 & C1).
  destruct (mark_paste_fields p (decode_key u' s)) as (A2 & B2 & C2).
  cbn. rewrite A1, B1, C1, A2, B2, C2, A, B. destruct p; auto.
Qed.

Lemma host_items_sim u u' seg seg' : forall its p, no_print its = true ->
  Forall2 hev_sim (host_items u seg p its) (host_items u' seg' p its).
Proof.
  induction its as [|it t IH]; intros p Hnp; [constructor|].
  cbn [no_print forallb] in Hnp. apply andb_true_iff in Hnp. destruct Hnp as [Hit Ht].
  fold (no_print t) in Ht.
  destruct it; cbn [host_items]; try discriminate; try (constructor; [apply key_sim; reflexivity|auto]); auto.
  - (* ICsi *)
    unfold host_csi. destruct (classify_csi p inter ps final) as [|evs p'].
    + cbn [app]. constructor; [apply key_sim; reflexivity|auto].
    + apply Forall2_app; [apply Forall2_refl_sim|auto].
  - constructor; [exact I|auto].
Qed.

(* rule 1 of Key.Matches does not consult the oracle *)
Lemma matches_rule1 u k r mods :
  (k_code k =? r) = true -> (strip2 mods =? strip2 (k_mods k)) = true -> matches u k r mods = true.
Proof.
  intros H1 H2. unfold matches. cbv zeta. rewrite H1, H2. reflexivity.
Qed.

(* ================= finite domains: a check evaluated by the kernel ================= *)
Definition rune_seg (rs : list Z) : list (list Z) := map (fun r => [r]) rs.

(* [bs] read back by the host is one key event with the code [c] and the modifiers [m] without locks *)
Definition finite_check (bs : list Z) (c m : Z) : bool :=
  let its := parse_segments [bs; []] in
  no_print its &&
  match host_items ascii_uni rune_seg false its with
  | [HKey k'] => (k_code k' =? c) && (strip2 m =? strip2 (k_mods k'))
                 && (nonshift (strip_locks (k_mods k')) =? nonshift (Z.ldiff m 192))
                 && (k_mods k' =? Z.ldiff m 192)
                 && (k_event k' =? EventPress)
  | _ => false
  end.

Lemma finite_transfer u seg k bs : finite_check bs (k_code k) (k_mods k) = true ->
  exists k', host_read u seg bs = [HKey k'] /\ roundtrip_ok u k [HKey k'] = true /\
             k_code k' = k_code k /\ k_mods k' = chord_mods k.
Proof.
  intros Hall. unfold host_read. unfold finite_check in Hall. cbv zeta in Hall.
  apply andb_true_iff in Hall. destruct Hall as [Hnp Hall].
  pose proof (host_items_sim u ascii_uni seg rune_seg _ false Hnp) as Hsim.
  destruct (host_items ascii_uni rune_seg false _) as [|[k0| | | | | | |] [|? ?]]; try discriminate.
  inversion Hsim as [|a b l l' Hab Hl Ea Eb]; subst. inversion Hl; subst.
  destruct a as [k'| | | | | | |]; cbn in Hab; try contradiction.
  destruct Hab as (Ec & Em & Ee).
  exists k'. split; [reflexivity|].
  repeat (apply andb_true_iff in Hall; destruct Hall as [Hall ?]).
  rewrite <- Ec, <- Em, <- Ee in *.
  assert (Hcode : k_code k' = k_code k) by lia.
  assert (Hmods : k_mods k' = chord_mods k) by (unfold chord_mods; lia).
  split; [|auto].
  unfold roundtrip_ok. rewrite matches_rule1; [|lia|lia].
  unfold chord_mods. cbn [andb]. apply andb_true_iff. split; lia.
Qed.

(* a table of such checks: key codes [cs] x every modifier mask below 256 that passes [guard] *)
Definition table_check (cs : list Z) (bytes : Z -> Z -> list Z) (guard : Z -> bool) : bool :=
  forallb (fun c => forallb (fun m => if (Z.land m 56 =? 0) && guard m then finite_check (bytes c m) c m else true)
                            (zrange 0 256)) cs.

Lemma table_check_use cs bytes guard c m : table_check cs bytes guard = true ->
  In c cs -> in_range m 0 255 = true -> Z.land m 56 = 0 -> guard m = true ->
  finite_check (bytes c m) c m = true.
Proof.
  intros Ht Hc Hm H56 Hg. unfold table_check in Ht.
  rewrite forallb_forall in Ht. specialize (Ht _ Hc).
  rewrite forallb_forall in Ht.
  assert (Hin : In m (zrange 0 256)) by (apply zrange_In; unfold in_range in Hm; lia).
  specialize (Ht _ Hin). rewrite H56, Hg in Ht. exact Ht.
Qed.

Lemma scope_split k : mods_in_scope k = true -> in_range (k_mods k) 0 255 = true /\ Z.land (k_mods k) 56 = 0.
Proof. unfold mods_in_scope. intros H. apply andb_true_iff in H. destruct H. split; [assumption|lia]. Qed.

(* facts about a modifier mask in scope, by enumeration *)
Definition mods_facts_check (m : Z) : bool :=
  if Z.land m 56 =? 0 then
    (xterm_mods m =? Z.ldiff m 192) && (strip2 m =? Z.ldiff m 192) && in_range (Z.ldiff m 192) 0 7 &&
    (Z.land m ModCtrl =? Z.land (Z.ldiff m 192) 4) && (Z.land m ModAlt =? Z.land (Z.ldiff m 192) 2)
  else true.

Lemma mods_facts m : in_range m 0 255 = true -> Z.land m 56 = 0 ->
  xterm_mods m = Z.ldiff m 192 /\ strip2 m = Z.ldiff m 192 /\ 0 <= Z.ldiff m 192 <= 7 /\
  Z.land m ModCtrl = Z.land (Z.ldiff m 192) 4 /\ Z.land m ModAlt = Z.land (Z.ldiff m 192) 2.
Proof.
  intros Hm H56.
  assert (Hall : forallb mods_facts_check (zrange 0 256) = true) by (vm_compute; reflexivity).
  rewrite forallb_forall in Hall.
  assert (Hin : In m (zrange 0 256)) by (apply zrange_In; unfold in_range in Hm; lia).
  specialize (Hall _ Hin). unfold mods_facts_check in Hall. rewrite H56 in Hall. cbn [Z.eqb] in Hall.
  unfold in_range in Hall. lia.
Qed.

(* ================= special keys ================= *)

(* encodeXterm for a key of xtermKeymap: a function of the key code, Shift/Alt/Ctrl and the modes *)
Definition special_bytes (kp ck : bool) (c m : Z) : list Z :=
  let xm := xterm_mods m in
  match (if xm =? 0 then encode_plain_maps c kp ck else None) with
  | Some v => v
  | None =>
      if (c =? KeyTab) && (xm =? ModShift) then [27; 91; 90]
      else match lookup_kc xtermKeymap c with
           | Some (num, fin) => [27; 91] ++ dec num ++ [59] ++ dec (i64 (xm + 1)) ++ fmt_c fin
           | None => []
           end
  end.

Lemma existsb_lookup_kc c : existsb (Z.eqb c) (map fst xtermKeymap) = true -> lookup_kc xtermKeymap c <> None.
Proof.
  unfold lookup_kc. generalize xtermKeymap. induction l as [|e t IH]; cbn; [discriminate|].
  intros H. rewrite (Z.eqb_sym (fst e) c). destruct (c =? fst e); [discriminate|]. cbn in H. auto.
Qed.

(* every key of xtermKeymap is in one of the three unmodified tables, whatever the modes *)
Lemma special_in_maps : forallb (fun c => forallb (fun kp => forallb (fun ck =>
    match encode_plain_maps c kp ck with Some _ => true | None => false end) [true; false]) [true; false]) special_keys = true.
Proof. vm_compute. reflexivity. Qed.

Lemma encode_special u k kp ck : existsb (Z.eqb (k_code k)) special_keys = true ->
  encode_xterm u k kp ck = special_bytes kp ck (k_code k) (k_mods k).
Proof.
  intros H.
  assert (Hin : In (k_code k) special_keys).
  { apply existsb_exists in H. destruct H as (x & Hx & Hxe). apply Z.eqb_eq in Hxe. now subst. }
  assert (Hmaps : exists v, encode_plain_maps (k_code k) kp ck = Some v).
  { pose proof special_in_maps as T. rewrite forallb_forall in T. specialize (T _ Hin).
    rewrite forallb_forall in T. specialize (T _ (bools_In kp)).
    rewrite forallb_forall in T. specialize (T _ (bools_In ck)).
    destruct (encode_plain_maps (k_code k) kp ck) as [v|]; [eauto|discriminate]. }
  destruct Hmaps as (v & Hv).
  apply existsb_lookup_kc in H.
  unfold encode_xterm, special_bytes. cbv zeta. unfold encode_plain. rewrite Hv.
  destruct (xterm_mods (k_mods k) =? 0); [reflexivity|].
  destruct (_ && _); [reflexivity|].
  destruct (lookup_kc xtermKeymap (k_code k)) as [[num fin]|]; [reflexivity|contradiction].
Qed.

Lemma special_all :
  forallb (fun kp => forallb (fun ck => table_check special_keys (special_bytes kp ck) (fun _ => true))
    [true; false]) [true; false] = true.
Proof. vm_compute. reflexivity. Qed.

Lemma special_roundtrip u seg k md :
  existsb (Z.eqb (k_code k)) special_keys = true -> mods_in_scope k = true ->
  exists k', forward u seg md (TKey k) = [HKey k'] /\ roundtrip_ok u k [HKey k'] = true /\
             k_code k' = k_code k /\ k_mods k' = chord_mods k.
Proof.
  intros Hc Hm. unfold forward, term_update.
  rewrite (encode_special u k _ _ Hc).
  destruct (scope_split k Hm) as [Hr H56].
  assert (Hcin : In (k_code k) special_keys).
  { apply existsb_exists in Hc. destruct Hc as (x & Hx & Hxe). apply Z.eqb_eq in Hxe. now subst. }
  pose proof special_all as Hall.
  rewrite forallb_forall in Hall. specialize (Hall _ (bools_In (m_deckpam md))).
  rewrite forallb_forall in Hall. specialize (Hall _ (bools_In (m_decckm md))).
  apply finite_transfer.
  exact (table_check_use _ _ _ _ _ Hall Hcin Hr H56 eq_refl).
Qed.

(* ================= UTF-8: what encodeXterm writes is what the parser's reader decodes ================= *)
Lemma decode_all_utf8 r : rune_valid r = true -> decode_all (utf8_enc r) = [r].
Proof.
  intros Hv. unfold rune_valid in Hv. unfold utf8_enc, fmt_c, MaxRune in *.
  replace ((0 <=? r) && (r <=? 1114111) && negb ((55296 <=? r) && (r <=? 57343))) with true by lia.
  cbv zeta.
  destruct (r <? 128) eqn:E1.
  { unfold decode_all. cbn [length decode_fuel decode1]. rewrite E1. reflexivity. }
  destruct (r <? 2048) eqn:E2.
  { unfold decode_all. cbn [length decode_fuel decode1].
    replace (192 + r / 64 <? 128) with false by lia.
    replace (in_range (192 + r / 64) 194 223) with true by (unfold in_range; lia).
    replace (cont (128 + r mod 64)) with true by (unfold cont, in_range; lia).
    cbn [decode1]. f_equal. lia. }
  destruct (r <? 65536) eqn:E3.
  { unfold decode_all. cbn [length decode_fuel decode1].
    replace (224 + r / 4096 <? 128) with false by lia.
    replace (in_range (224 + r / 4096) 194 223) with false by (unfold in_range; lia).
    replace (in_range (224 + r / 4096) 224 239) with true by (unfold in_range; lia).
    replace (in_range (128 + (r / 64) mod 64) (if 224 + r / 4096 =? 224 then 160 else 128)
               (if 224 + r / 4096 =? 237 then 159 else 191)) with true
      by (unfold in_range; destruct (224 + r / 4096 =? 224) eqn:Ea; destruct (224 + r / 4096 =? 237) eqn:Eb; lia).
    replace (cont (128 + r mod 64)) with true by (unfold cont, in_range; lia).
    cbn [andb decode1]. f_equal. lia. }
  unfold decode_all. cbn [length decode_fuel decode1].
  replace (240 + r / 262144 <? 128) with false by lia.
  replace (in_range (240 + r / 262144) 194 223) with false by (unfold in_range; lia).
  replace (in_range (240 + r / 262144) 224 239) with false by (unfold in_range; lia).
  replace (in_range (240 + r / 262144) 240 244) with true by (unfold in_range; lia).
  replace (in_range (128 + (r / 4096) mod 64) (if 240 + r / 262144 =? 240 then 144 else 128)
             (if 240 + r / 262144 =? 244 then 143 else 191)) with true
    by (unfold in_range; destruct (240 + r / 262144 =? 240) eqn:Ea; destruct (240 + r / 262144 =? 244) eqn:Eb; lia).
  replace (cont (128 + (r / 64) mod 64)) with true by (unfold cont, in_range; lia).
  replace (cont (128 + r mod 64)) with true by (unfold cont, in_range; lia).
  cbn [andb decode1]. f_equal. lia.
Qed.

(* ================= the parser on one forwarded event ================= *)
Lemma finish_idle p : exitf p = None -> finish p = [IEof].
Proof.
  intros He. unfold finish. rewrite step_is_spec_step.
  destruct p as [s e i ps ig o a d t]. cbn in He. subst e. reflexivity.
Qed.

Lemma timer_fire_idle p : timer p = false -> timer_fire p = (p, []).
Proof. intros Ht. unfold timer_fire. rewrite Ht. reflexivity. Qed.

(* bytes after which the parser waits for nothing (no armed timer, no open string) *)
Lemma parse_one bs p o : feed pinit (decode_all bs) = (p, o, true) -> timer p = false -> exitf p = None ->
  parse_segments [bs; []] = canon (o ++ [IEof]).
Proof.
  intros Hf Ht He. unfold parse_segments. cbn [feed_segments]. rewrite Hf.
  rewrite (timer_fire_idle p Ht). cbn [decode_all length decode_fuel feed app].
  rewrite (finish_idle p He). rewrite app_nil_r. reflexivity.
Qed.

Lemma step_ground_print r : 32 <= r -> step pinit r = (pinit, [IPrint [r]], true).
Proof.
  intros Hr. rewrite step_is_spec_step. unfold spec_step. cbn [andb].
  unfold spec_anywhere, eof_rune.
  replace (r =? -1) with false by lia. replace ((r =? 24) || (r =? 26)) with false by lia.
  replace (r =? 27) with false by lia.
  cbn [set_timer pinit st]. unfold spec_trans, c0exec.
  replace (in_range r 0 23 || (r =? 25) || in_range r 28 31) with false by (unfold in_range; lia).
  reflexivity.
Qed.

Lemma parse_printed r : 32 <= r -> rune_valid r = true ->
  parse_segments [utf8_enc r; []] = [IPrint [r]; IEof].
Proof.
  intros Hr Hv. rewrite (parse_one _ pinit [IPrint [r]]); [reflexivity| |reflexivity|reflexivity].
  rewrite (decode_all_utf8 r Hv). cbn [feed]. rewrite (step_ground_print r Hr). reflexivity.
Qed.

(* ================= printable keys, symbolically ================= *)
Lemma lookup_str_none t c : forallb (fun e => MaxRune <? fst e) t = true -> c <= MaxRune -> lookup_str t c = None.
Proof.
  unfold lookup_str. induction t as [|e t IH]; intros H Hc; [reflexivity|].
  cbn [forallb] in H. apply andb_true_iff in H. destruct H as [He Ht].
  cbn [find]. replace (fst e =? c) with false by lia. auto.
Qed.

Lemma lookup_kc_none c : c <= MaxRune -> lookup_kc xtermKeymap c = None.
Proof.
  intros Hc. unfold lookup_kc.
  assert (H : forallb (fun e => MaxRune <? fst e) xtermKeymap = true) by (vm_compute; reflexivity).
  revert H. generalize xtermKeymap. induction l as [|e t IH]; intros H; [reflexivity|].
  cbn [forallb] in H. apply andb_true_iff in H. destruct H as [He Ht].
  cbn [find]. replace (fst e =? c) with false by lia. auto.
Qed.

Lemma tables_beyond_unicode :
  forallb (fun e => MaxRune <? fst e) keymap = true /\
  forallb (fun e => MaxRune <? fst e) cursorKeysApplicationMode = true /\
  forallb (fun e => MaxRune <? fst e) cursorKeysNormalMode = true /\
  forallb (fun e => MaxRune <? fst e) applicationKeymap = true /\
  forallb (fun e => MaxRune <? fst e) numericKeymap = true.
Proof. vm_compute. repeat split; reflexivity. Qed.

Lemma encode_plain_maps_none c kp ck : c <= MaxRune -> encode_plain_maps c kp ck = None.
Proof.
  intros Hc. unfold encode_plain_maps.
  destruct tables_beyond_unicode as (T1 & T2 & T3 & T4 & T5).
  rewrite (lookup_str_none keymap c T1 Hc).
  assert (E2 : lookup_str (if ck then cursorKeysApplicationMode else cursorKeysNormalMode) c = None)
    by (destruct ck; apply lookup_str_none; assumption).
  rewrite E2. destruct kp; apply lookup_str_none; assumption.
Qed.

(* no Shift/Alt/Ctrl and no text: the key code is sent *)
Lemma encode_unmodified u k kp ck : xterm_mods (k_mods k) = 0 -> k_code k < MaxRune -> k_text k = [] ->
  encode_xterm u k kp ck = utf8_enc (k_code k).
Proof.
  intros Hm Hc Ht. unfold encode_xterm. cbv zeta. rewrite Hm. cbn [Z.eqb].
  unfold encode_plain. rewrite encode_plain_maps_none by lia. rewrite Ht.
  apply Z.ltb_lt in Hc. rewrite Hc. reflexivity.
Qed.

(* no Shift/Alt/Ctrl and some text: the text is sent *)
Lemma encode_unmodified_text u k kp ck : xterm_mods (k_mods k) = 0 -> k_code k <= MaxRune -> k_text k <> [] ->
  encode_xterm u k kp ck = utf8 (k_text k).
Proof.
  intros Hm Hc Ht. unfold encode_xterm. cbv zeta. rewrite Hm. cbn [Z.eqb].
  unfold encode_plain. rewrite encode_plain_maps_none by lia.
  destruct (k_text k); [contradiction|reflexivity].
Qed.

(* ================= chords with text: unmodified and Shift ================= *)
Definition oracle_ok (u : uni) : Prop :=
  u_upper u 127 = false /\ (forall r, u_upper u r = true -> u_tolower u r <> 127) /\
  (forall c, 0 <= c <= 127 -> u_lower u c = in_range c 97 122).

Lemma host_read_printed u seg r : seg [r] = [[r]] -> 32 <= r -> rune_valid r = true ->
  host_read u seg (utf8_enc r) = [HKey (decode_key u (SPrint [r]))].
Proof.
  intros Hs Hr Hv. unfold host_read. rewrite (parse_printed r Hr Hv).
  cbn [host_items]. rewrite Hs. reflexivity.
Qed.

(* decodeKey on one printed rune other than DEL *)
Lemma decode_printed u r : (forall r, u_upper u r = true -> u_tolower u r <> 127) -> r <> 127 ->
  decode_key u (SPrint [r]) =
    if u_upper u r then mkKey [r] (u_tolower u r) r 0 ModShift 0 else mkKey [r] r 0 0 0 0.
Proof.
  intros H127 Hr. unfold decode_key, decode_pre, decode_print.
  destruct (u_upper u r) eqn:Eu; cbn [k_code k_shifted k_base k_mods k_text k_event].
  - specialize (H127 r Eu). unfold KeyBackspace. replace (u_tolower u r =? 127) with false by lia. reflexivity.
  - unfold KeyBackspace. replace (r =? 127) with false by lia. reflexivity.
Qed.

Lemma matches_rule3 u k r mods :
  (k_shifted k =? r) = true -> (strip2 mods =? Z.ldiff (strip2 (k_mods k)) ModShift) = true -> matches u k r mods = true.
Proof.
  intros H1 H2. unfold matches. cbv zeta. rewrite H1, H2. cbn [andb].
  repeat (rewrite orb_true_r || cbn [orb]). reflexivity.
Qed.

Lemma matches_rule5 u k r mods :
  u_letter u r = false -> u_graphic u r = true -> (k_code k =? r) = true ->
  (Z.ldiff (strip2 (k_mods k)) ModShift =? Z.ldiff (strip2 mods) ModShift) = true -> matches u k r mods = true.
Proof.
  intros H1 H2 H3 H4. unfold matches. cbv zeta. rewrite H1, H2, H3, H4. cbn [andb negb orb].
  repeat (rewrite orb_true_r || cbn [orb]). reflexivity.
Qed.

Lemma matches_rule6 u k r mods :
  (Z.land (strip2 mods) ModShift =? 0) = false -> u_lower u r = true ->
  k_text k = [rune_fix (u_toupper u r)] ->
  (Z.ldiff (strip2 mods) ModShift =? Z.ldiff (strip2 (k_mods k)) ModShift) = true -> matches u k r mods = true.
Proof.
  intros H1 H2 H3 H4. unfold matches. cbv zeta. rewrite H1, H2, H3, H4.
  replace (zlist_eqb [rune_fix (u_toupper u r)] [rune_fix (u_toupper u r)]) with true
    by (unfold zlist_eqb; cbn [list_eqb]; rewrite Z.eqb_refl; reflexivity).
  cbn [andb negb]. repeat (rewrite orb_true_r || cbn [orb]). reflexivity.
Qed.

Lemma xterm_mods_zero m : xterm_mods m = 0 -> Z.land m ModCtrl = 0 /\ Z.land m ModAlt = 0.
Proof.
  unfold xterm_mods. intros H. apply Z.lor_eq_0_iff in H. destruct H as [H H3].
  apply Z.lor_eq_0_iff in H. destruct H as [H1 H2]. auto.
Qed.

Lemma utf8_single r : utf8 [r] = utf8_enc r.
Proof. unfold utf8. cbn [flat_map]. apply app_nil_r. Qed.

(* an unmodified printable key with its text: the code is written *)
Lemma encode_chord_plain u k kp ck : xterm_mods (k_mods k) = 0 -> 32 <= k_code k -> rune_valid (k_code k) = true ->
  k_text k = [k_code k] -> encode_xterm u k kp ck = utf8_enc (k_code k).
Proof.
  intros Hm Hr Hv Ht.
  assert (Hle : k_code k <= MaxRune) by (unfold rune_valid, MaxRune in *; lia).
  rewrite encode_unmodified_text; [|assumption|assumption|rewrite Ht; discriminate].
  rewrite Ht. apply utf8_single.
Qed.

Lemma zlist_eqb_eq : forall a b, zlist_eqb a b = true -> a = b.
Proof.
  unfold zlist_eqb. induction a as [|x a IH]; destruct b as [|y b]; cbn [list_eqb]; intros H; try discriminate; auto.
  apply andb_true_iff in H. destruct H as [H1 H2]. apply Z.eqb_eq in H1. subst. f_equal. auto.
Qed.

Lemma zlist_eqb_refl a : zlist_eqb a a = true.
Proof. unfold zlist_eqb. induction a; cbn [list_eqb]; auto. rewrite Z.eqb_refl. auto. Qed.

Lemma plain_roundtrip u seg k md : (forall r, seg [r] = [[r]]) -> oracle_ok u ->
  mods_in_scope k = true -> chord_plain k = true ->
  roundtrip_ok u k (forward u seg md (TKey k)) = true /\ text_ok k (forward u seg md (TKey k)) = true.
Proof.
  intros Hseg (_ & H127 & _) Hsc Hp.
  destruct (scope_split k Hsc) as [Hr H56]. destruct (mods_facts _ Hr H56) as (Hx & Hs2 & _ & _ & _).
  unfold chord_plain, chord_mods in Hp.
  repeat (apply andb_true_iff in Hp; destruct Hp as [Hp ?]).
  match goal with H : printable_rune _ = true |- _ =>
    unfold printable_rune in H; apply andb_true_iff in H; destruct H as [Hge Hv] end.
  assert (Hm0 : Z.ldiff (k_mods k) 192 = 0) by lia.
  assert (Ht : k_text k = [k_code k]) by (apply zlist_eqb_eq; assumption).
  unfold forward, term_update.
  rewrite encode_chord_plain; [|lia|lia|assumption|assumption].
  rewrite host_read_printed; [|apply Hseg|lia|assumption].
  rewrite decode_printed; [|assumption|lia].
  unfold roundtrip_ok, text_ok, chord_mods. rewrite Hm0.
  destruct (u_upper u (k_code k)) eqn:Eu; cbn [k_text k_mods k_event k_code k_shifted].
  - rewrite matches_rule3; [|cbn [k_shifted]; lia|cbn [k_mods]; rewrite Hs2, Hm0; vm_compute; reflexivity].
    rewrite Ht. split; [vm_compute; reflexivity|apply zlist_eqb_refl].
  - rewrite matches_rule1; [|cbn [k_code]; lia|cbn [k_mods]; rewrite Hs2, Hm0; vm_compute; reflexivity].
    rewrite Ht. split; [vm_compute; reflexivity|apply zlist_eqb_refl].
Qed.

(* Shift with text: the text is written *)
Lemma encode_chord_shift u k kp ck s : xterm_mods (k_mods k) = ModShift ->
  Z.land (k_mods k) ModCtrl = 0 -> Z.land (k_mods k) ModAlt = 0 ->
  32 <= k_code k <= MaxRune -> k_text k = [s] -> encode_xterm u k kp ck = utf8_enc s.
Proof.
  intros Hm Hc Ha Hr Ht. unfold encode_xterm. cbv zeta. rewrite Hm. cbn [Z.eqb ModShift Pos.eqb].
  replace (k_code k =? KeyTab) with false by (unfold KeyTab; lia). cbn [andb].
  rewrite (lookup_kc_none (k_code k)) by lia. rewrite Ht, Hc, Ha. cbn [negb andb Z.eqb].
  apply utf8_single.
Qed.

Lemma shift_roundtrip u seg k md : (forall r, seg [r] = [[r]]) -> oracle_ok u ->
  mods_in_scope k = true -> chord_shift u k = true ->
  roundtrip_ok u k (forward u seg md (TKey k)) = true /\ text_ok k (forward u seg md (TKey k)) = true.
Proof.
  intros Hseg (_ & H127 & _) Hsc Hp.
  destruct (scope_split k Hsc) as [Hr H56]. destruct (mods_facts _ Hr H56) as (Hx & Hs2 & _ & Hctl & Halt).
  unfold chord_shift, chord_mods in Hp.
  apply andb_true_iff in Hp. destruct Hp as [Hm1 Hp].
  destruct (k_text k) as [|s [|? ?]] eqn:Ht; try discriminate.
  repeat (apply andb_true_iff in Hp; destruct Hp as [Hp ?]).
  unfold printable_rune in *.
  repeat match goal with H : _ && _ = true |- _ => apply andb_true_iff in H; destruct H end.
  assert (Hm0 : Z.ldiff (k_mods k) 192 = 1) by (unfold ModShift in *; lia).
  assert (Hcv : 32 <= k_code k <= MaxRune) by (unfold rune_valid, MaxRune in *; lia).
  unfold forward, term_update.
  rewrite (encode_chord_shift u k _ _ s); [|rewrite Hx, Hm0; reflexivity|rewrite Hctl, Hm0; reflexivity|rewrite Halt, Hm0; reflexivity|assumption|exact Ht].
  rewrite host_read_printed; [|apply Hseg|lia|assumption].
  rewrite decode_printed; [|assumption|lia].
  unfold roundtrip_ok, text_ok, chord_mods. rewrite Hm0, Ht.
  match goal with H : _ || _ = true |- _ => apply orb_true_iff in H; destruct H as [Hl|Hn] end.
  - (* a lower-case letter and its upper-case text: the last rule of Matches *)
    apply andb_true_iff in Hl. destruct Hl as [Hlow Hs].
    assert (Es : s = u_toupper u (k_code k)) by lia.
    assert (Efix : rune_fix (u_toupper u (k_code k)) = s) by (unfold rune_fix; rewrite <- Es; replace (rune_valid s) with true by auto; reflexivity).
    destruct (u_upper u s) eqn:Eu; cbn [k_text k_mods k_event].
    + rewrite matches_rule6; [|rewrite Hs2, Hm0; reflexivity|assumption|cbn [k_text]; rewrite Efix; reflexivity|cbn [k_mods]; rewrite Hs2, Hm0; vm_compute; reflexivity].
      split; [vm_compute; reflexivity|apply zlist_eqb_refl].
    + rewrite matches_rule6; [|rewrite Hs2, Hm0; reflexivity|assumption|cbn [k_text]; rewrite Efix; reflexivity|cbn [k_mods]; rewrite Hs2, Hm0; vm_compute; reflexivity].
      split; [vm_compute; reflexivity|apply zlist_eqb_refl].
  - (* a non-letter that Shift leaves alone: rule 5 *)
    repeat (apply andb_true_iff in Hn; destruct Hn as [Hn ?]).
    assert (Es : s = k_code k) by lia.
    replace (u_upper u s) with false by (destruct (u_upper u s); [discriminate|reflexivity]).
    cbn [k_text k_mods k_event].
    rewrite matches_rule5; [|rewrite <- Es; destruct (u_letter u s); [discriminate|reflexivity]|rewrite <- Es; assumption|cbn [k_code]; lia|cbn [k_mods]; rewrite Hs2, Hm0; vm_compute; reflexivity].
    split; [vm_compute; reflexivity|apply zlist_eqb_refl].
Qed.

(* ================= Alt, Ctrl, Tab/Enter/Esc/Backspace: finite domains ================= *)
Lemma fmt_c_ascii c : 0 <= c < 128 -> fmt_c c = [c].
Proof.
  intros Hc. unfold fmt_c.
  replace ((0 <=? c) && (c <=? 1114111) && negb ((55296 <=? c) && (c <=? 57343))) with true by lia.
  cbv zeta. replace (c <? 128) with true by lia. reflexivity.
Qed.

Lemma encode_alt u k kp ck : xterm_mods (k_mods k) = ModAlt -> Z.land (k_mods k) ModAlt = 2 ->
  48 <= k_code k <= 127 -> encode_xterm u k kp ck = [27; k_code k].
Proof.
  intros Hm Ha Hc. unfold encode_xterm. cbv zeta. rewrite Hm. cbn [Z.eqb ModAlt].
  replace (k_code k =? KeyTab) with false by (unfold KeyTab; lia). cbn [andb].
  rewrite (lookup_kc_none (k_code k)) by (unfold MaxRune; lia).
  rewrite Ha. cbn [Z.eqb]. rewrite andb_false_r.
  unfold encode_buf. replace (k_code k <? MaxRune) with true by (unfold MaxRune; lia).
  cbv zeta. change (land_ne0 ModAlt ModAlt) with true. change (land_ne0 ModAlt ModCtrl) with false.
  change (land_ne0 ModAlt ModShift) with false. cbv iota.
  unfold utf8_enc. rewrite fmt_c_ascii by lia. reflexivity.
Qed.

Lemma i32_small x : 0 <= x < 2147483648 -> i32 x = x.
Proof. intros H. unfold i32. cbv zeta. rewrite Z.mod_small by lia. replace (x <? 2147483648) with true by lia. reflexivity. Qed.

(* Ctrl + an ASCII character: a function of the key code *)
Definition ctrl_bytes (c : Z) : list Z :=
  if in_range c 97 122 then fmt_c (i32 (c - 96))
  else match lookup_ctrl ctrlSwitch c with
       | Some (Some w) => fmt_c w
       | Some None => []
       | None => fmt_c (i32 (c - ctrlDefaultOffset))
       end.

Lemma encode_ctrl u k kp ck : oracle_ok u ->
  xterm_mods (k_mods k) = ModCtrl -> Z.land (k_mods k) ModAlt = 0 -> Z.land (k_mods k) ModCtrl = 4 ->
  32 <= k_code k <= 126 -> encode_xterm u k kp ck = ctrl_bytes (k_code k).
Proof.
  intros (_ & _ & Hlow) Hm Ha Hc Hr. unfold encode_xterm. cbv zeta. rewrite Hm. cbn [Z.eqb ModCtrl].
  replace (k_code k =? KeyTab) with false by (unfold KeyTab; lia). cbn [andb].
  rewrite (lookup_kc_none (k_code k)) by (unfold MaxRune; lia).
  rewrite Hc. cbn [Z.eqb]. rewrite andb_false_r. cbn [andb].
  unfold encode_buf. replace (k_code k <? MaxRune) with true by (unfold MaxRune; lia).
  cbv zeta. change (land_ne0 ModCtrl ModAlt) with false. change (land_ne0 ModCtrl ModCtrl) with true. cbv iota.
  rewrite Hlow by lia. unfold ctrl_bytes, utf8_enc. cbn [app].
  destruct (in_range (k_code k) 97 122); [reflexivity|].
  destruct (lookup_ctrl ctrlSwitch (k_code k)) as [[w|]|]; reflexivity.
Qed.

Lemma encode_backtab u k kp ck : xterm_mods (k_mods k) = ModShift -> k_code k = KeyTab ->
  encode_xterm u k kp ck = [27; 91; 90].
Proof.
  intros Hm Hc. unfold encode_xterm. cbv zeta. rewrite Hm, Hc. reflexivity.
Qed.

Definition alt_chars : list Z := filter alt_char (zrange 48 80).
Definition ctrl_chars : list Z := filter ctrl_char (zrange 32 95).

Lemma alt_all : table_check alt_chars (fun c _ => [27; c]) (fun m => Z.ldiff m 192 =? ModAlt) = true.
Proof. vm_compute. reflexivity. Qed.
Lemma ctrl_all : table_check ctrl_chars (fun c _ => ctrl_bytes c) (fun m => Z.ldiff m 192 =? ModCtrl) = true.
Proof. vm_compute. reflexivity. Qed.

(* the C0 codes are xterm's, for every ASCII character xterm maps *)
Lemma ctrl_codes_table :
  forallb (fun c => match xterm_ctrl_code c with Some b => zlist_eqb (ctrl_bytes c) [b] | None => true end) (zrange 32 95) = true.
Proof. vm_compute. reflexivity. Qed.
Lemma c0_all : table_check [KeyTab; KeyEnter; KeyEsc] (fun c _ => [c]) (fun m => Z.ldiff m 192 =? 0) = true.
Proof. vm_compute. reflexivity. Qed.
Lemma backtab_all : table_check [KeyTab] (fun _ _ => [27; 91; 90]) (fun m => Z.ldiff m 192 =? ModShift) = true.
Proof. vm_compute. reflexivity. Qed.

Lemma roundtrip_of_transfer u k evs :
  (exists k', evs = [HKey k'] /\ roundtrip_ok u k [HKey k'] = true /\ k_code k' = k_code k /\ k_mods k' = chord_mods k) ->
  roundtrip_ok u k evs = true.
Proof. intros (k' & -> & H & _). exact H. Qed.

Lemma alt_roundtrip u seg k md : mods_in_scope k = true -> chord_alt k = true ->
  roundtrip_ok u k (forward u seg md (TKey k)) = true.
Proof.
  intros Hsc Hp. destruct (scope_split k Hsc) as [Hr H56]. destruct (mods_facts _ Hr H56) as (Hx & Hs2 & _ & Hctl & Halt).
  unfold chord_alt, chord_mods in Hp. apply andb_true_iff in Hp. destruct Hp as [Hm Hc].
  assert (Hm0 : Z.ldiff (k_mods k) 192 = 2) by (unfold ModAlt in *; lia).
  assert (Hin : In (k_code k) alt_chars).
  { unfold alt_chars. apply filter_In. split; [|assumption].
    apply zrange_In. unfold alt_char, in_range in Hc. lia. }
  unfold forward, term_update.
  rewrite encode_alt; [|rewrite Hx, Hm0; reflexivity|rewrite Halt, Hm0; reflexivity|unfold alt_char, in_range in Hc; lia].
  apply roundtrip_of_transfer. apply finite_transfer.
  apply (table_check_use _ _ _ _ _ alt_all Hin Hr H56). rewrite Hm0. reflexivity.
Qed.

Lemma ctrl_roundtrip u seg k md : oracle_ok u -> mods_in_scope k = true -> chord_ctrl k = true ->
  roundtrip_ok u k (forward u seg md (TKey k)) = true.
Proof.
  intros Ho Hsc Hp. destruct (scope_split k Hsc) as [Hr H56]. destruct (mods_facts _ Hr H56) as (Hx & Hs2 & _ & Hctl & Halt).
  unfold chord_ctrl, chord_mods in Hp. apply andb_true_iff in Hp. destruct Hp as [Hm Hc].
  assert (Hm0 : Z.ldiff (k_mods k) 192 = 4) by (unfold ModCtrl in *; lia).
  assert (Hrange : 32 <= k_code k <= 126) by (unfold ctrl_char, ctrl_letter, in_range in Hc; lia).
  assert (Hin : In (k_code k) ctrl_chars).
  { unfold ctrl_chars. apply filter_In. split; [|assumption]. apply zrange_In. lia. }
  unfold forward, term_update.
  rewrite encode_ctrl; [|assumption|rewrite Hx, Hm0; reflexivity|rewrite Halt, Hm0; reflexivity|rewrite Hctl, Hm0; reflexivity|assumption].
  apply roundtrip_of_transfer. apply finite_transfer.
  apply (table_check_use _ (fun c _ => ctrl_bytes c) _ _ _ ctrl_all Hin Hr H56). rewrite Hm0. reflexivity.
Qed.

(* Ctrl + an ASCII character is written as the C0 code xterm sends for it *)
Theorem ctrl_codes_xterm u k kp ck b : oracle_ok u -> mods_in_scope k = true -> chord_mods k = ModCtrl ->
  xterm_ctrl_code (k_code k) = Some b -> encode_xterm u k kp ck = [b].
Proof.
  intros Ho Hsc Hm Hb. destruct (scope_split k Hsc) as [Hr H56]. destruct (mods_facts _ Hr H56) as (Hx & Hs2 & _ & Hctl & Halt).
  unfold chord_mods in Hm.
  assert (Hrange : 32 <= k_code k <= 126).
  { unfold xterm_ctrl_code, in_range in Hb.
    repeat match type of Hb with (if ?c then _ else _) = _ => destruct c eqn:?; [lia|] end. discriminate. }
  rewrite encode_ctrl; [|assumption|rewrite Hx, Hm; reflexivity|rewrite Halt, Hm; reflexivity|rewrite Hctl, Hm; reflexivity|assumption].
  pose proof ctrl_codes_table as T. rewrite forallb_forall in T.
  specialize (T (k_code k) (zrange_In (k_code k) 95 32 ltac:(lia))). rewrite Hb in T.
  apply zlist_eqb_eq. exact T.
Qed.

Lemma c0_roundtrip u seg k md : (forall r, seg [r] = [[r]]) -> oracle_ok u -> mods_in_scope k = true -> chord_c0 k = true ->
  roundtrip_ok u k (forward u seg md (TKey k)) = true.
Proof.
  intros Hseg (Hu127 & H127 & _) Hsc Hp. destruct (scope_split k Hsc) as [Hr H56].
  destruct (mods_facts _ Hr H56) as (Hx & Hs2 & _ & Hctl & Halt).
  unfold chord_c0, chord_mods in Hp. apply andb_true_iff in Hp. destruct Hp as [Hnt Hp].
  assert (Ht : k_text k = []) by (unfold no_text in Hnt; destruct (k_text k); [reflexivity|discriminate]).
  apply orb_true_iff in Hp. destruct Hp as [Hp|Hp].
  - apply andb_true_iff in Hp. destruct Hp as [Hm Hc].
    assert (Hm0 : Z.ldiff (k_mods k) 192 = 0) by lia.
    unfold forward, term_update.
    rewrite encode_unmodified; [|lia|unfold KeyTab, KeyEnter, KeyEsc, KeyBackspace, MaxRune in *; lia|assumption].
    destruct (k_code k =? KeyBackspace) eqn:Eb.
    + (* Backspace is DEL, a printed character for the parser *)
      assert (Ec : k_code k = 127) by (unfold KeyBackspace in Eb; lia). rewrite Ec.
      rewrite host_read_printed; [|apply Hseg|lia|reflexivity].
      unfold decode_key, decode_pre, decode_print. rewrite Hu127. cbn.
      unfold roundtrip_ok. rewrite matches_rule1; [|cbn [k_code]; lia|cbn [k_mods]; rewrite Hs2, Hm0; vm_compute; reflexivity].
      unfold chord_mods. rewrite Hm0. vm_compute. reflexivity.
    + assert (Hin : In (k_code k) [KeyTab; KeyEnter; KeyEsc]) by (cbn [In]; lia).
      unfold utf8_enc. rewrite fmt_c_ascii by (unfold KeyTab, KeyEnter, KeyEsc in *; lia).
      apply roundtrip_of_transfer. apply finite_transfer.
      apply (table_check_use _ (fun c _ => [c]) _ _ _ c0_all Hin Hr H56). rewrite Hm0. reflexivity.
  - apply andb_true_iff in Hp. destruct Hp as [Hm Hc].
    assert (Hm0 : Z.ldiff (k_mods k) 192 = 1) by (unfold ModShift in *; lia).
    assert (Hc' : k_code k = KeyTab) by lia.
    unfold forward, term_update.
    rewrite encode_backtab; [|rewrite Hx, Hm0; reflexivity|assumption].
    apply roundtrip_of_transfer. apply finite_transfer.
    assert (Hin : In (k_code k) [KeyTab]) by (cbn [In]; lia).
    apply (table_check_use _ (fun _ _ => [27; 91; 90]) _ _ _ backtab_all Hin Hr H56). rewrite Hm0. reflexivity.
Qed.

(* ================= key_forward_roundtrip ================= *)
Theorem key_forward_roundtrip u seg k md : (forall r, seg [r] = [[r]]) -> oracle_ok u ->
  xterm_expressible u k = true -> roundtrip_ok u k (forward u seg md (TKey k)) = true.
Proof.
  intros Hseg Ho Hx. unfold xterm_expressible in Hx. apply andb_true_iff in Hx. destruct Hx as [Hsc Hx].
  apply orb_true_iff in Hx. destruct Hx as [Hx|Hx]; [|apply c0_roundtrip; assumption].
  apply orb_true_iff in Hx. destruct Hx as [Hx|Hx]; [|unfold chord_special in Hx; apply andb_true_iff in Hx; destruct Hx as [Hc _];
    apply roundtrip_of_transfer; apply special_roundtrip; assumption].
  apply orb_true_iff in Hx. destruct Hx as [Hx|Hx]; [|apply ctrl_roundtrip; assumption].
  apply orb_true_iff in Hx. destruct Hx as [Hx|Hx]; [|apply alt_roundtrip; assumption].
  apply orb_true_iff in Hx. destruct Hx as [Hx|Hx]; [|apply shift_roundtrip; assumption].
  apply plain_roundtrip; assumption.
Qed.


Theorem key_forward_text u seg k md : (forall r, seg [r] = [[r]]) -> oracle_ok u ->
  mods_in_scope k = true -> chord_plain k || chord_shift u k = true ->
  text_ok k (forward u seg md (TKey k)) = true.
Proof.
  intros Hseg Ho Hsc Hx. apply orb_true_iff in Hx. destruct Hx as [Hx|Hx].
  - apply plain_roundtrip; assumption.
  - apply shift_roundtrip; assumption.
Qed.

(* any key that produced one printable code point with at most Shift held: the text arrives *)
Theorem key_forward_textchord u seg k md : (forall r, seg [r] = [[r]]) -> oracle_ok u ->
  mods_in_scope k = true -> chord_text k = true -> textchord_ok u k (forward u seg md (TKey k)) = true.
Proof.
  intros Hseg (_ & H127 & _) Hsc Hp.
  destruct (scope_split k Hsc) as [Hr H56]. destruct (mods_facts _ Hr H56) as (Hx & Hs2 & _ & Hctl & Halt).
  unfold chord_text, chord_mods in Hp.
  apply andb_true_iff in Hp. destruct Hp as [Hp Htx].
  apply andb_true_iff in Hp. destruct Hp as [Hm Hcode].
  destruct (k_text k) as [|t [|? ?]] eqn:Ht; try discriminate.
  apply andb_true_iff in Htx. destruct Htx as [Hpt Hne].
  unfold printable_rune in Hcode, Hpt.
  apply andb_true_iff in Hcode. destruct Hcode as [Hc32 Hcv].
  apply andb_true_iff in Hpt. destruct Hpt as [Ht32 Htv].
  assert (Hcr : 32 <= k_code k <= MaxRune) by (unfold rune_valid, MaxRune in *; lia).
  assert (Hbytes : encode_xterm u k (m_deckpam md) (m_decckm md) = utf8_enc t).
  { apply orb_true_iff in Hm. destruct Hm as [Hm|Hm].
    - assert (Hm0 : Z.ldiff (k_mods k) 192 = 0) by lia.
      rewrite encode_unmodified_text; [|lia|lia|rewrite Ht; discriminate]. rewrite Ht. apply utf8_single.
    - assert (Hm0 : Z.ldiff (k_mods k) 192 = 1) by (unfold ModShift in *; lia).
      apply encode_chord_shift; [rewrite Hx, Hm0; reflexivity|rewrite Hctl, Hm0; reflexivity|rewrite Halt, Hm0; reflexivity|assumption|exact Ht]. }
  unfold forward, term_update. rewrite Hbytes.
  rewrite host_read_printed; [|apply Hseg|lia|assumption].
  rewrite decode_printed; [|assumption|lia].
  unfold textchord_ok. rewrite Ht.
  destruct (u_upper u t) eqn:Eu; cbn [k_text k_event].
  - rewrite matches_rule3; [|cbn [k_shifted]; lia|cbn [k_mods]; vm_compute; reflexivity].
    rewrite zlist_eqb_refl. reflexivity.
  - rewrite matches_rule1; [|cbn [k_code]; lia|cbn [k_mods]; vm_compute; reflexivity].
    rewrite zlist_eqb_refl. reflexivity.
Qed.

(* the recorded finding keypad-mode-ignored, on its corpus case: keypad 0 is written as "0" in both keypad modes *)
Lemma keypad_mode_refuted :
  exists k, keypad_guard k = true /\ encode_xterm ascii_uni k true false = encode_xterm ascii_uni k false false.
Proof. exists (mkKey [48] KeyKeyPad0 0 0 0 0). split; vm_compute; reflexivity. Qed.

(* ================= the child's cursor-key and keypad modes ================= *)
Lemma cursor_plain c x kp : lookup1 cursor_finals c = Some x ->
  encode_plain_maps c kp true = Some [27; 79; x] /\ encode_plain_maps c kp false = Some [27; 91; x].
Proof.
  unfold lookup1, cursor_finals. cbn [find fst snd].
  repeat match goal with
  | |- context [?K =? c] => destruct (K =? c) eqn:E;
      [apply Z.eqb_eq in E; subst c; intros Hx; injection Hx as <-; destruct kp; vm_compute; split; reflexivity|clear E]
  end.
  discriminate.
Qed.

Theorem cursor_mode_selects u k kp x : xterm_mods (k_mods k) = 0 -> lookup1 cursor_finals (k_code k) = Some x ->
  encode_xterm u k kp true = [27; 79; x] /\ encode_xterm u k kp false = [27; 91; x].
Proof.
  intros Hm Hl. destruct (cursor_plain _ _ kp Hl) as [A B].
  unfold encode_xterm. cbv zeta. rewrite Hm. cbn [Z.eqb]. unfold encode_plain. rewrite A, B. split; reflexivity.
Qed.

Lemma lookup_str_in t c v : lookup_str t c = Some v -> In c (map fst t).
Proof.
  unfold lookup_str. induction t as [|e t IH]; cbn [find map]; [discriminate|].
  destruct (fst e =? c) eqn:E; [intros _; left; lia|intros H; right; auto].
Qed.

Lemma lookup1_notin t c : lookup1 t c = None -> ~ In c (map fst t).
Proof.
  unfold lookup1. induction t as [|e t IH]; cbn [find map In]; [tauto|].
  destruct (fst e =? c) eqn:E; [discriminate|]. intros H [H1|H1]; [lia|exact (IH H H1)].
Qed.

Lemma cursor_tables_keys :
  forallb (fun e => existsb (Z.eqb (fst e)) (map fst cursor_finals)) cursorKeysApplicationMode = true /\
  forallb (fun e => existsb (Z.eqb (fst e)) (map fst cursor_finals)) cursorKeysNormalMode = true.
Proof. vm_compute. split; reflexivity. Qed.

Lemma lookup_str_other t c : forallb (fun e => existsb (Z.eqb (fst e)) (map fst cursor_finals)) t = true ->
  lookup1 cursor_finals c = None -> lookup_str t c = None.
Proof.
  intros Ht Hl. destruct (lookup_str t c) as [v|] eqn:E; [|reflexivity]. exfalso.
  apply lookup_str_in in E. apply in_map_iff in E. destruct E as (e & He & Hin).
  rewrite forallb_forall in Ht. specialize (Ht _ Hin). apply existsb_exists in Ht.
  destruct Ht as (y & Hy & Hye). apply Z.eqb_eq in Hye.
  apply (lookup1_notin _ _ Hl). rewrite <- He, Hye. exact Hy.
Qed.

(* DECCKM matters for the unmodified cursor keys only *)
Theorem cursor_mode_only_cursor u k kp :
  xterm_mods (k_mods k) <> 0 \/ lookup1 cursor_finals (k_code k) = None ->
  encode_xterm u k kp true = encode_xterm u k kp false.
Proof.
  intros [Hm|Hl]; unfold encode_xterm; cbv zeta.
  - replace (xterm_mods (k_mods k) =? 0) with false by lia. reflexivity.
  - destruct cursor_tables_keys as [T1 T2]. unfold encode_plain, encode_plain_maps.
    rewrite (lookup_str_other _ _ T1 Hl), (lookup_str_other _ _ T2 Hl). reflexivity.
Qed.

(* DECKPAM selects nothing: the two keypad tables are equal *)
Theorem keypad_mode_selects_nothing u k ck : encode_xterm u k true ck = encode_xterm u k false ck.
Proof. unfold encode_xterm, encode_plain, encode_plain_maps. change applicationKeymap with numericKeymap. reflexivity. Qed.

(* ================= paste brackets ================= *)
Theorem paste_forward u seg md :
  (m_paste md = true -> forward u seg md TPasteStart = [HPasteStart] /\ forward u seg md TPasteEnd = [HPasteEnd]) /\
  (m_paste md = false -> term_update u md TPasteStart = [] /\ term_update u md TPasteEnd = []).
Proof.
  split; intros Hp; unfold forward, term_update; rewrite Hp; split; reflexivity.
Qed.

(* ================= mouse: gating ================= *)
Lemma handle_mouse_enabled md m : m_sgr md = true -> mouse_enabled md m = true ->
  handle_mouse md m =
    sgr_report (if ms_type m =? EventMotion then i64 (ms_button m + 32) else ms_button m) (ms_col m) (ms_row m)
               (if ms_type m =? EventRelease then 109 else 77).
Proof.
  intros Hs He. unfold mouse_enabled, is_click, is_drag, is_plain_motion, tracking in He.
  unfold handle_mouse. rewrite Hs. unfold EventMotion, EventPress, EventRelease in *.
  generalize dependent sgr_report. intros rep.
  destruct (m_buttons md), (m_drag md), (m_motion md);
  destruct (ms_type m =? 3) eqn:E3; destruct (ms_type m =? 0) eqn:E0; destruct (ms_type m =? 2) eqn:E2;
  destruct (ms_button m =? MouseNoButton) eqn:Eb; cbn [negb andb orb] in He |- *;
  try discriminate; try reflexivity; exfalso; lia.
Qed.

Theorem nothing_unless_enabled md m :
  is_click m || (ms_type m =? EventMotion) = true -> mouse_enabled md m = false ->
  handle_mouse md m =
    if altscroll_applies md m
    then (if ms_button m =? MouseWheelUp then ss3_up ++ ss3_up ++ ss3_up else ss3_down ++ ss3_down ++ ss3_down)
    else [].
Proof.
  intros Ht He. unfold handle_mouse, altscroll_applies.
  destruct (tracking md) eqn:Etr.
  - (* some tracking mode is on: the event is a motion event the child did not ask for *)
    unfold tracking in Etr. rewrite <- !negb_orb, Etr. cbn [negb andb].
    unfold mouse_enabled, is_click, is_drag, is_plain_motion in He. unfold tracking in He. rewrite Etr in He.
    unfold is_click in Ht.
    destruct ((ms_type m =? EventPress) || (ms_type m =? EventRelease)) eqn:Ec; cbn [andb orb] in He; [discriminate|].
    cbn [orb] in Ht. rewrite Ht in He |- *. cbn [andb] in He |- *.
    destruct (ms_button m =? MouseNoButton) eqn:Eb; cbn [negb andb orb] in He |- *.
    + rewrite He. reflexivity.
    + rewrite orb_false_r in He. apply orb_false_iff in He. destruct He as [Hd Hm].
      rewrite Hd, Hm. cbn [negb andb]. reflexivity.
  - unfold tracking in Etr. rewrite <- !negb_orb, Etr. cbn [negb andb].
    destruct (m_altscroll md && m_smcup md); [|reflexivity].
    destruct (ms_button m =? MouseWheelUp) eqn:Eu; destruct (ms_button m =? MouseWheelDown) eqn:Ed; cbn [orb].
    + unfold MouseWheelUp, MouseWheelDown in *. lia.
    + apply app_nil_r.
    + reflexivity.
    + reflexivity.
Qed.

(* ================= mouse: decimal printing and the parser's CSI states ================= *)
Lemma i64_small x : 0 <= x < 9223372036854775808 -> i64 x = x.
Proof.
  intros H. unfold i64. cbv zeta. rewrite Z.mod_small by lia.
  replace (x <? 9223372036854775808) with true by lia. reflexivity.
Qed.

Lemma dec_fuel_app : forall f n tail, dec_fuel f n tail = dec_fuel f n [] ++ tail.
Proof.
  induction f as [|f IH]; intros n tail; cbn [dec_fuel]; [reflexivity|].
  destruct (n <? 10); [reflexivity|].
  rewrite (IH (n / 10) ((48 + n mod 10) :: tail)), (IH (n / 10) [48 + n mod 10]).
  rewrite <- app_assoc. reflexivity.
Qed.

Definition pbyte (d : Z) : Prop := 48 <= d <= 57 \/ d = 59.

Lemma dec_fuel_digits : forall f n, 0 <= n -> Forall pbyte (dec_fuel f n []).
Proof.
  induction f as [|f IH]; intros n Hn; cbn [dec_fuel]; [constructor|].
  destruct (n <? 10) eqn:E.
  - constructor; [left; lia|constructor].
  - rewrite dec_fuel_app. apply Forall_app. split; [apply IH; lia|].
    constructor; [left; lia|constructor].
Qed.

Lemma dec_fuel_nonempty f n tail : dec_fuel (S f) n tail <> [].
Proof.
  cbn [dec_fuel]. destruct (n <? 10); [discriminate|].
  rewrite dec_fuel_app. intros H. apply app_eq_nil in H. destruct H; discriminate.
Qed.

(* csiDispatch's parameter decoder reads back what %d printed *)
Lemma csi_params_dec : forall f n tail cur acc, 0 <= n < 10 ^ Z.of_nat f -> n < 9223372036854775808 ->
  csi_params (dec_fuel f n tail) 0 cur acc = csi_params tail n cur acc.
Proof.
  induction f as [|f IH]; intros n tail cur acc Hn Hb.
  - cbn [dec_fuel]. replace n with 0 by (cbn in Hn; lia). reflexivity.
  - cbn [dec_fuel]. destruct (n <? 10) eqn:E.
    + cbn [csi_params]. replace (48 + n =? 59) with false by lia. replace (48 + n =? 58) with false by lia.
      f_equal. rewrite (i64_small (0 * 10)) by lia. rewrite i64_small by lia. lia.
    + assert (Hp : 10 ^ Z.of_nat (S f) = 10 * 10 ^ Z.of_nat f).
      { rewrite Nat2Z.inj_succ, Z.pow_succ_r by lia. reflexivity. }
      rewrite IH by (rewrite Hp in Hn; lia).
      cbn [csi_params]. replace (48 + n mod 10 =? 59) with false by lia. replace (48 + n mod 10 =? 58) with false by lia.
      f_equal. rewrite (i64_small (n / 10 * 10)) by lia. rewrite i64_small by lia. lia.
Qed.

Lemma dec_to_nonneg n tail : 0 <= n -> dec_to n tail = dec_fuel 20 n tail.
Proof. intros H. unfold dec_to. replace (n <? 0) with false by lia. reflexivity. Qed.

Definition pcsi (i ps : list Z) : pst :=
  {| st := CsiParam; exitf := None; inter := i; params := ps; ignoreST := false;
     oscData := []; apcData := []; dcs := dcs_empty; timer := false |}.

Lemma step_param i ps d : pbyte d -> step (pcsi i ps) d = (pcsi i (ps ++ [d]), [], true).
Proof.
  intros Hd.
  assert (H : d = 48 \/ d = 49 \/ d = 50 \/ d = 51 \/ d = 52 \/ d = 53 \/ d = 54 \/ d = 55 \/ d = 56 \/ d = 57 \/ d = 59)
    by (unfold pbyte in Hd; lia).
  repeat (destruct H as [H|H]; [subst d; reflexivity|]). subst d; reflexivity.
Qed.

Lemma feed_cons p r rest p1 : step p r = (p1, [], true) -> feed p (r :: rest) = feed p1 rest.
Proof. intros H. cbn [feed]. rewrite H. destruct (feed p1 rest) as [[p2 o2] go2]. reflexivity. Qed.

Lemma feed_params i : forall ds ps rest, Forall pbyte ds -> feed (pcsi i ps) (ds ++ rest) = feed (pcsi i (ps ++ ds)) rest.
Proof.
  induction ds as [|d ds IH]; intros ps rest Hf; [rewrite app_nil_r; reflexivity|].
  inversion Hf as [|? ? Hd Hds]; subst. cbn [app].
  rewrite (feed_cons _ _ _ _ (step_param i ps d Hd)). rewrite IH by assumption.
  rewrite <- app_assoc. reflexivity.
Qed.

Lemma step_final i ps fin : fin = 77 \/ fin = 109 -> ps <> [] ->
  step (pcsi i ps) fin = (set_st (pcsi i ps) Ground, [ICsi i (csi_params ps 0 [] []) fin], true).
Proof.
  intros Hf Hps. destruct ps as [|a ps]; [contradiction|].
  destruct Hf; subst fin; reflexivity.
Qed.

Lemma decode_all_ascii : forall bs, Forall (fun b => b < 128) bs -> decode_all bs = bs.
Proof.
  unfold decode_all. induction bs as [|b bs IH]; intros Hf; [reflexivity|].
  inversion Hf as [|? ? Hb Hbs]; subst. cbn [length decode_fuel decode1].
  replace (b <? 128) with true by lia. rewrite IH by assumption. reflexivity.
Qed.

Lemma pbyte_ascii ds : Forall pbyte ds -> Forall (fun b => b < 128) ds.
Proof. intros H. eapply Forall_impl; [|exact H]. unfold pbyte. intros a Ha. lia. Qed.

(* an SGR report is parsed into one CSI with the three numbers *)
Local Opaque dec_fuel.
Lemma parse_sgr b c r fin : fin = 77 \/ fin = 109 ->
  0 <= b < 9223372036854775808 -> 0 <= c < 9223372036854775808 -> 0 <= r < 9223372036854775808 ->
  parse_segments [27 :: 91 :: 60 :: dec_to b (59 :: dec_to c (59 :: dec_to r [fin])); []] =
  [ICsi [60] [[b]; [c]; [r]] fin; IEof].
Proof.
  intros Hf Hb Hc Hr.
  rewrite !dec_to_nonneg by lia.
  set (ds := dec_fuel 20 b (59 :: dec_fuel 20 c (59 :: dec_fuel 20 r []))).
  assert (Hbytes : dec_fuel 20 b (59 :: dec_fuel 20 c (59 :: dec_fuel 20 r [fin])) = ds ++ [fin]).
  { unfold ds. rewrite (dec_fuel_app 20 r [fin]). set (R := dec_fuel 20 r []).
    rewrite (dec_fuel_app 20 c (59 :: R ++ [fin])), (dec_fuel_app 20 c (59 :: R)). set (C := dec_fuel 20 c []).
    rewrite (dec_fuel_app 20 b (59 :: C ++ 59 :: R ++ [fin])), (dec_fuel_app 20 b (59 :: C ++ 59 :: R)).
    rewrite <- !app_assoc. cbn [app]. rewrite <- !app_assoc. reflexivity. }
  assert (Hds : Forall pbyte ds).
  { unfold ds. rewrite (dec_fuel_app 20 b), (dec_fuel_app 20 c).
    apply Forall_app. split; [apply dec_fuel_digits; lia|].
    constructor; [right; reflexivity|]. apply Forall_app. split; [apply dec_fuel_digits; lia|].
    constructor; [right; reflexivity|]. apply dec_fuel_digits; lia. }
  assert (Hne : ds <> []) by (unfold ds; apply dec_fuel_nonempty).
  assert (Hpar : csi_params ds 0 [] [] = [[b]; [c]; [r]]).
  { assert (P20 : 10 ^ Z.of_nat 20 = 100000000000000000000) by (vm_compute; reflexivity).
    unfold ds. rewrite csi_params_dec by (rewrite ?P20; lia). cbn [csi_params Z.eqb Pos.eqb].
    rewrite csi_params_dec by (rewrite ?P20; lia). cbn [csi_params Z.eqb Pos.eqb].
    rewrite csi_params_dec by (rewrite ?P20; lia). reflexivity. }
  rewrite Hbytes.
  rewrite (parse_one _ (set_st (pcsi [60] ds) Ground) [ICsi [60] [[b]; [c]; [r]] fin]); [reflexivity| |reflexivity|reflexivity].
  rewrite decode_all_ascii.
  2:{ repeat (constructor; [lia|]). apply Forall_app. split; [apply pbyte_ascii; assumption|].
      constructor; [lia|constructor]. }
  rewrite (feed_cons pinit 27 _ (fst (fst (step pinit 27)))) by (vm_compute; reflexivity).
  rewrite (feed_cons _ 91 _ (fst (fst (step (fst (fst (step pinit 27))) 91)))) by (vm_compute; reflexivity).
  rewrite (feed_cons _ 60 _ (pcsi [60] [])) by (vm_compute; reflexivity).
  rewrite feed_params by assumption. cbn [app feed].
  rewrite (step_final [60] ds fin Hf Hne). rewrite Hpar. reflexivity.
Qed.
Local Transparent dec_fuel.

(* ================= mouse: the round trip ================= *)
Lemma button_ok_range b : button_ok b = true -> 0 <= b < 256.
Proof.
  unfold button_ok, mouse_buttonBits. intros H. apply Z.eqb_eq in H.
  assert (E : Z.land b 195 = Z.land (Z.land b 195) (Z.ones 8)).
  { rewrite <- Z.land_assoc. reflexivity. }
  rewrite Z.land_ones in E by lia. rewrite H in E.
  pose proof (Z.mod_pos_bound b (2 ^ 8) ltac:(lia)) as Hb. rewrite <- E in Hb. lia.
Qed.

Definition mouse_mods_of (b : Z) : Z :=
  Z.lor (Z.lor (if land_ne0 b mouseModShift then ModShift else 0) (if land_ne0 b mouseModAlt then ModAlt else 0))
        (if land_ne0 b mouseModCtrl then ModCtrl else 0).

Definition button_check (b : Z) : bool :=
  if button_ok b then
    (Z.land b mouse_buttonBits =? b) && negb (land_ne0 b mouse_motion) && (mouse_mods_of b =? 0)
    && (Z.land (b + 32) mouse_buttonBits =? b) && land_ne0 (b + 32) mouse_motion && (mouse_mods_of (b + 32) =? 0)
  else true.

Lemma button_facts b : button_ok b = true ->
  Z.land b mouse_buttonBits = b /\ land_ne0 b mouse_motion = false /\ mouse_mods_of b = 0 /\
  Z.land (b + 32) mouse_buttonBits = b /\ land_ne0 (b + 32) mouse_motion = true /\ mouse_mods_of (b + 32) = 0.
Proof.
  intros Hb. pose proof (button_ok_range b Hb) as Hr.
  assert (Hall : forallb button_check (zrange 0 256) = true) by (vm_compute; reflexivity).
  rewrite forallb_forall in Hall. specialize (Hall b (zrange_In b 256 0 ltac:(lia))).
  unfold button_check in Hall. rewrite Hb in Hall.
  repeat (apply andb_true_iff in Hall; destruct Hall as [Hall ?]).
  repeat split; try lia; try assumption. destruct (land_ne0 b mouse_motion); [discriminate|reflexivity].
Qed.

Lemma parse_mouse_sgr B C R fin :
  parse_mouse [60] [[B]; [C]; [R]] fin =
  PMSome (mkMouse (Z.land B mouse_buttonBits) (i64 (R - 1)) (i64 (C - 1))
                  (if land_ne0 B mouse_motion then EventMotion
                   else if fin =? 77 then EventPress else if fin =? 109 then EventRelease else 0)
                  (mouse_mods_of B)).
Proof. reflexivity. Qed.

Lemma host_sgr u seg B C R fin : fin = 77 \/ fin = 109 ->
  host_items u seg false [ICsi [60] [[B]; [C]; [R]] fin; IEof] =
  [HMouse (mkMouse (Z.land B mouse_buttonBits) (i64 (R - 1)) (i64 (C - 1))
                   (if land_ne0 B mouse_motion then EventMotion
                    else if fin =? 77 then EventPress else if fin =? 109 then EventRelease else 0)
                   (mouse_mods_of B))].
Proof.
  intros [->| ->]; cbn [host_items]; unfold host_csi, classify_csi; cbn [Z.eqb Pos.eqb orb];
  rewrite parse_mouse_sgr; reflexivity.
Qed.

Theorem mouse_forward_roundtrip u seg md m :
  m_sgr md = true -> mouse_enabled md m = true -> button_ok (ms_button m) = true ->
  in_i63 (ms_col m) = true -> in_i63 (ms_row m) = true ->
  forward u seg md (TMouse m) = [HMouse (mkMouse (ms_button m) (ms_row m) (ms_col m) (ms_type m) 0)].
Proof.
  intros Hs He Hb Hc Hr. unfold in_i63 in Hc, Hr.
  assert (Hc' : 0 <= ms_col m < 9223372036854775807) by lia.
  assert (Hr' : 0 <= ms_row m < 9223372036854775807) by lia. clear Hc Hr.
  destruct (button_facts _ Hb) as (F1 & F2 & F3 & F4 & F5 & F6).
  pose proof (button_ok_range _ Hb) as Hbr.
  unfold forward, term_update, host_read. rewrite (handle_mouse_enabled md m Hs He).
  unfold sgr_report. rewrite (i64_small (ms_col m + 1)), (i64_small (ms_row m + 1)) by lia.
  assert (Hty : ms_type m = EventMotion \/ ms_type m = EventPress \/ ms_type m = EventRelease).
  { unfold mouse_enabled, is_click, is_drag, is_plain_motion in He. unfold EventMotion, EventPress, EventRelease in *.
    destruct (ms_type m =? 3) eqn:E3; destruct (ms_type m =? 0) eqn:E0; destruct (ms_type m =? 2) eqn:E2;
    cbn [andb orb] in He; try discriminate; lia. }
  destruct Hty as [Ht|[Ht|Ht]]; rewrite Ht; cbn [Z.eqb EventMotion EventPress EventRelease Pos.eqb].
  - rewrite (i64_small (ms_button m + 32)) by lia.
    rewrite parse_sgr; [|left; reflexivity|lia|lia|lia].
    rewrite host_sgr by (left; reflexivity). rewrite F4, F5, F6.
    rewrite (i64_small (ms_row m + 1 - 1)), (i64_small (ms_col m + 1 - 1)) by lia.
    replace (ms_row m + 1 - 1) with (ms_row m) by lia. replace (ms_col m + 1 - 1) with (ms_col m) by lia. reflexivity.
  - rewrite parse_sgr; [|left; reflexivity|lia|lia|lia].
    rewrite host_sgr by (left; reflexivity). rewrite F1, F2, F3.
    rewrite (i64_small (ms_row m + 1 - 1)), (i64_small (ms_col m + 1 - 1)) by lia.
    replace (ms_row m + 1 - 1) with (ms_row m) by lia. replace (ms_col m + 1 - 1) with (ms_col m) by lia. reflexivity.
  - rewrite parse_sgr; [|right; reflexivity|lia|lia|lia].
    rewrite host_sgr by (right; reflexivity). rewrite F1, F2, F3.
    rewrite (i64_small (ms_row m + 1 - 1)), (i64_small (ms_col m + 1 - 1)) by lia.
    replace (ms_row m + 1 - 1) with (ms_row m) by lia. replace (ms_col m + 1 - 1) with (ms_col m) by lia. reflexivity.
Qed.

(* what is lost: the modifiers held with the mouse event are not forwarded *)
Theorem mouse_modifiers_dropped md m : handle_mouse md m = handle_mouse md (mkMouse (ms_button m) (ms_row m) (ms_col m) (ms_type m) 0).
Proof. reflexivity. Qed.

(* the built-in ASCII oracle satisfies the hypotheses *)
Lemma ascii_oracle_ok : oracle_ok ascii_uni.
Proof.
  unfold oracle_ok. split; [reflexivity|]. split.
  - intros r Hu. unfold ascii_uni, uni_of in *. cbn [u_upper u_tolower] in *. unfold info_of in *.
    cbn [find] in *. destruct (in_range r 0 127) eqn:E; [|cbn in Hu; discriminate].
    unfold ascii_info in *.
    destruct (in_range r 65 90) eqn:E1; destruct (in_range r 97 122) eqn:E2; destruct (in_range r 32 126) eqn:E3;
    cbn in Hu |- *; try discriminate; unfold in_range in *; lia.
  - intros c Hc. unfold ascii_uni, uni_of. cbn [u_lower]. unfold info_of.
    replace (in_range c 0 127) with true by (unfold in_range; lia). unfold ascii_info.
    destruct (in_range c 65 90); destruct (in_range c 97 122); destruct (in_range c 32 126); reflexivity.
Qed.
