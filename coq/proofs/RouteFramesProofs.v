(* C15 — proofs about ticks that are laid out twice (model/Route.v: frame2, fstep, frun) and
   about the observation predicate of the frames stream (f_step_ok, f_next). *)
From Coq Require Import Permutation.
From Vx Require Import base.Prelude base.ListX model.Route proofs.RouteProofs.
Local Open Scope Z_scope.

Section Frames.
Variable oracle : list entry -> wid -> event -> phase -> cmd.
Variable capturer : wid -> bool.

Lemma frame2_same fuel s t : frame2 oracle fuel s t t = frame oracle fuel s t.
Proof.
  unfold frame2, frame. destruct (negb (f_redraw (co s))); [reflexivity|].
  destruct (mouse_update oracle fuel (with_co s (set_redraw (co s) false)) t) as [s1|]; [|reflexivity].
  cbn [obind]. destruct (f_redraw (co s1)); reflexivity.
Qed.

Definition clear_flags (s1 : st) : st :=
  with_co s1 (set_debug (set_refresh (set_redraw (co s1) false) false) false).

(* the parts of a tick with a redraw pending *)
Lemma frame2_parts fuel s t1 t2 s' :
  f_redraw (co s) = true -> frame2 oracle fuel s t1 t2 = Some s' ->
  exists s1 s3 lay,
    mouse_update oracle fuel (with_co s (set_redraw (co s) false)) t1 = Some s1 /\
    lay = (if f_redraw (co s1) then 2 else 1) /\
    layouts oracle fuel s t1 = Some lay /\
    update_path oracle fuel (clear_flags s1) (shown_tree lay t1 t2) = Some s3 /\
    s' = with_frame s3 (shown_tree lay t1 t2).
Proof.
  intros R H. unfold frame2 in H. unfold layouts. rewrite R in *. cbn [negb] in *.
  destruct (mouse_update oracle fuel (with_co s (set_redraw (co s) false)) t1) as [s1|] eqn:E1; [|discriminate].
  cbn [obind] in *.
  match type of H with obind (update_path _ _ ?s2 ?t) _ = _ => destruct (update_path oracle fuel s2 t) as [s3|] eqn:E3; [|discriminate] end.
  cbn [obind] in H. injection H as <-.
  exists s1, s3, (if f_redraw (co s1) then 2 else 1).
  split; [reflexivity|]. split; [reflexivity|]. split; [reflexivity|].
  unfold shown_tree, clear_flags. destruct (f_redraw (co s1)); cbn [Z.eqb Pos.eqb]; auto.
Qed.

Lemma frame2_idle fuel s t1 t2 s' :
  f_redraw (co s) = false -> frame2 oracle fuel s t1 t2 = Some s' ->
  s' = s /\ layouts oracle fuel s t1 = Some 0.
Proof.
  intros R H. unfold frame2 in H. unfold layouts. rewrite R in *. cbn [negb] in *. injection H as <-. auto.
Qed.

(* ---------------------------------------------------------------- the hover tracker *)

Lemma tracks_frame2 fuel s t1 t2 s' h lay :
  hov_tracks h s -> wf16 t1 -> wf16 t2 ->
  frame2 oracle fuel s t1 t2 = Some s' -> layouts oracle fuel s t1 = Some lay ->
  hov_tracks (f_hov h (FFrame2 t1 t2) lay) s'.
Proof.
  intros T W1 W2 H L. destruct (f_redraw (co s)) eqn:R.
  - destruct (frame2_parts _ _ _ _ _ R H) as (s1 & s3 & lay' & E1 & El & L' & E3 & ->).
    rewrite L in L'. injection L' as <-.
    assert (Hl : (lay =? 0) = false) by (subst lay; destruct (f_redraw (co s1)); reflexivity).
    cbn [f_hov]. rewrite Hl.
    assert (T0 : hov_tracks h (with_co s (set_redraw (co s) false))) by (eapply tracks_same; eauto).
    pose proof (tracks_mouse_update _ _ _ _ _ _ T0 W1 E1) as T1.
    assert (T2 : hov_tracks (mkHov (hv_frame h) (hv_mouse h) (hov_at t1 (hv_mouse h) (hv_set h))) s3).
    { eapply tracks_update_path; [|exact E3]. eapply tracks_same; [exact T1| | |]; reflexivity. }
    apply (tracks_frame _ _ (shown_tree lay t1 t2) T2).
    unfold shown_tree. apply sort_tree_wf16. destruct (lay =? 2); assumption.
  - destruct (frame2_idle _ _ _ _ _ R H) as [-> L']. rewrite L in L'. injection L' as ->. exact T.
Qed.

Lemma hov_track_app_input b b' h i :
  match i with IFrame _ => False | _ => True end -> hov_track b h i = hov_track b' h i.
Proof. destruct i; cbn; tauto. Qed.

Definition ftrees (i : finput) : list tree :=
  match i with
  | FI i => match tree_of_input i with Some t => [t] | None => [] end
  | FFrame2 t1 t2 => [t1; t2]
  end.

Definition not_iframe (i : finput) : Prop := match i with FI (IFrame _) => False | _ => True end.

Lemma tracks_fstep fuel s i s' h lay :
  hov_tracks h s -> Forall wf16 (ftrees i) -> not_iframe i ->
  fstep oracle capturer fuel s i = Some s' ->
  match i with FFrame2 t1 _ => layouts oracle fuel s t1 = Some lay | _ => True end ->
  hov_tracks (f_hov h i lay) s'.
Proof.
  intros T W N H L. destruct i as [i|t1 t2]; cbn [fstep f_hov] in *.
  - rewrite (hov_track_app_input _ (f_redraw (co s))) by (destruct i; auto).
    eapply hov_tracks_step; eauto. unfold tree_wf. cbn [ftrees] in W.
    destruct (tree_of_input i); [inversion W; auto|exact I].
  - cbn [ftrees] in W. inversion W as [|? ? W1 W']; subst. inversion W' as [|? ? W2 _]; subst.
    exact (tracks_frame2 _ _ _ _ _ _ _ T W1 W2 H L).
Qed.

(* ---------------------------------------------------------------- enter/leave balance *)

Section Hov.
  Variable excl : wid -> Prop.
  Variable r : wid.

  Lemma hov_frame2 fuel s t1 t2 s' :
    hov_inv excl r s -> NoDup (ids t1) -> NoDup (ids t2) ->
    frame2 oracle fuel s t1 t2 = Some s' -> hov_inv excl r s'.
  Proof.
    intros J N1 N2 H. destruct (f_redraw (co s)) eqn:R.
    - destruct (frame2_parts _ _ _ _ _ R H) as (s1 & s3 & lay & E1 & El & _ & E3 & ->).
      apply hov_frame_set.
      + eapply hov_update_path; [|exact E3]. unfold clear_flags. apply hov_co_flags; [|reflexivity].
        eapply hov_mouse_update; [|exact N1|exact E1]. apply hov_co_flags; auto.
      + unfold shown_tree. apply sort_tree_NoDup. destruct (lay =? 2); assumption.
    - destruct (frame2_idle _ _ _ _ _ R H) as [-> _]. exact J.
  Qed.

  Definition fhov_good (i : finput) : Prop :=
    Forall (fun t => NoDup (ids t)) (ftrees i) /\
    match i with FI (IEv e) => is_hover_ev e = false | FI ITermFocusIn => excl r | _ => True end.

  Lemma hov_fstep fuel s i s' :
    hov_inv excl r s -> fhov_good i -> fstep oracle capturer fuel s i = Some s' -> hov_inv excl r s'.
  Proof.
    intros J [Gt Gi] H. destruct i as [i|t1 t2]; cbn [fstep ftrees] in *.
    - eapply hov_step; [exact J| |exact H]. split.
      + destruct (tree_of_input i); [inversion Gt; auto|exact I].
      + destruct i; auto.
    - inversion Gt as [|? ? N1 G']; subst. inversion G' as [|? ? N2 _]; subst.
      exact (hov_frame2 _ _ _ _ _ J N1 N2 H).
  Qed.

  Lemma hov_frun fuel l : forall s s',
    hov_inv excl r s -> Forall fhov_good l -> frun oracle capturer fuel s l = Some s' -> hov_inv excl r s'.
  Proof.
    induction l as [|i l IH]; intros s s' J F H; cbn [frun] in H.
    - injection H as <-. exact J.
    - destruct (fstep oracle capturer fuel s i) as [s1|] eqn:E; [|discriminate]. cbn [obind] in H.
      inversion F; subst. pose proof (hov_fstep _ _ _ _ J H2 E) as J1.
      destruct (negb (f_is_tick i) && f_quit (co s1)); [injection H as <-; exact J1|eauto].
  Qed.
End Hov.

Lemma hov_inv_obs r s h :
  hov_inv (fun _ => False) r s -> hov_tracks h s ->
  hover_obs (fun _ => false) (log (co s)) (hv_set h) = true.
Proof.
  intros (_ & _ & _ & Hv) (_ & _ & Hs & _).
  unfold hover_obs. apply forallb_forall. intros w _. rewrite orb_false_r.
  rewrite Hv by tauto. rewrite Hs. unfold wmem. cbn [option_eqb]. apply Bool.eqb_reflx.
Qed.

Definition fobs_good (i : finput) : Prop :=
  Forall (fun t => NoDup (ids t)) (ftrees i) /\
  match i with FI (IEv e) => is_hover_ev e = false | FI ITermFocusIn => False | _ => True end.

(* every widget's notifications alternate and end with MouseEnter exactly when the observer
   expects it hovered, over every history with ticks that are laid out twice with two
   different trees *)
Lemma frames_hover_obs fuel r l s0 s' h :
  root s0 = r -> log (co s0) = [] -> last_hits s0 = [] -> NoDup (ids (last_frame s0)) ->
  Forall fobs_good l ->
  frun oracle capturer fuel s0 l = Some s' -> hov_tracks h s' ->
  hover_obs (fun _ => false) (log (co s')) (hv_set h) = true.
Proof.
  intros R0 L0 H0 N0 F H T. eapply hov_inv_obs; [|exact T].
  eapply (hov_frun (fun _ => False) r); [|exact F|exact H].
  unfold hov_inv. rewrite L0, H0. repeat split; auto. constructor.
Qed.

(* ---------------------------------------------------------------- the path after a tick *)

Lemma focus_after_quiet f d : existsb focus_entry d = false -> focus_after f d = f.
Proof.
  induction d as [|x d IH]; [reflexivity|]. cbn [existsb]. intros E. apply orb_false_iff in E as [E1 E2].
  rewrite focus_after_cons_non; [auto|].
  unfold is_focusin_entry, focus_entry in *. destruct (e_ev x); cbn in *; auto.
Qed.

Lemma all_focus_quiet d : all_focus d -> existsb focus_entry d = false -> d = [].
Proof. intros F E. destruct d as [|x d]; [reflexivity|]. inversion F; subst. cbn in E. rewrite H1 in E. discriminate. Qed.

Lemma focus_widget_quiet fuel c w c' :
  focus_widget oracle fuel c w = Some c' -> log c' = log c -> focused c = w /\ c' = c.
Proof.
  unfold focus_widget. destruct (focused c =? w) eqn:E.
  - intros H _. injection H as <-. split; [lia|reflexivity].
  - intros H L. exfalso.
    destruct (call oracle fuel c (focused c) EFocusOut Target) as [c1|] eqn:E1; [|discriminate].
    cbn [obind] in H.
    destruct (call_ext _ _ _ _ _ _ _ E1) as (d1 & e1 & [(L1 & _) _] & _).
    destruct (call_ext _ _ _ _ _ _ _ H) as (d2 & e2 & [(L2 & _) _] & _).
    cbn [log set_focused] in L2. rewrite L2, L1, <- app_assoc in L.
    apply (f_equal (@length entry)) in L. rewrite !app_length in L. cbn [length] in L. lia.
Qed.

Lemma chain_to_root_none t f : chain_to t f = None -> t_wid t <> f.
Proof. destruct t as [w x y kids]. cbn [chain_to t_wid]. destruct (w =? f) eqn:E; [discriminate|lia]. Qed.

(* After a tick (redraw pending) in which no FocusIn/FocusOut was delivered, the focus has not
   moved and the stored path is the chain from the App's root to the focused widget in the
   tree that is SHOWN: the second layout when the tick was laid out twice. *)
Lemma frame2_path_shown fuel s t1 t2 s' lay :
  f_redraw (co s) = true ->
  frame2 oracle fuel s t1 t2 = Some s' -> layouts oracle fuel s t1 = Some lay ->
  exists D, log (co s') = log (co s) ++ D /\ root s' = root s /\
    last_frame s' = shown_tree lay t1 t2 /\
    (existsb focus_entry D = false ->
       focused (co s') = focused (co s) /\
       focus_chain_ws (root s) (shown_tree lay t1 t2) (focused (co s)) = Some (path s')).
Proof.
  intros R H L.
  destruct (frame2_parts _ _ _ _ _ R H) as (s1 & s3 & lay' & E1 & _ & L' & E3 & ->).
  rewrite L in L'. injection L' as <-.
  set (t := shown_tree lay t1 t2) in *.
  destruct (focused_last_focusin_step oracle capturer fuel _ (PUpdate t1) s1 I E1) as (D1 & L1 & F1).
  cbn [co with_co log set_redraw focused] in L1, F1.
  assert (R1 : root s1 = root s /\ path s1 = path s).
  { pose proof (mouse_update_spec _ _ _ _ _ E1) as U. cbn [mouse with_co] in U.
    destruct (mouse s); [destruct U as (? & ? & _ & _ & _ & _ & Rr & Pp & _); auto|subst s1; auto]. }
  destruct (update_path_shape _ _ _ _ _ E3) as (D2 & L2 & A2 & Rt & _).
  cbn [co clear_flags with_co log set_debug set_refresh set_redraw root] in L2, Rt.
  exists (D1 ++ D2). cbn [co with_frame root last_frame].
  split; [rewrite L2, L1, app_assoc; reflexivity|]. split; [etransitivity; [exact Rt|apply R1]|]. split; [reflexivity|].
  rewrite existsb_app. intros Q. apply orb_false_iff in Q as [Q1 Q2].
  pose proof (all_focus_quiet _ A2 Q2) as ->. rewrite app_nil_r in L2.
  rewrite (focus_after_quiet _ _ Q1) in F1.
  assert (Fc : focused (co (clear_flags s1)) = focused (co s)) by exact F1.
  assert (Rc : root (clear_flags s1) = root s) by apply R1.
  destruct (chain_to t (focused (co s))) as [l|] eqn:Ec.
  - rewrite (update_path_found oracle fuel (clear_flags s1) t l) in E3 by (rewrite Fc; exact Ec).
    injection E3 as <-. cbn [co with_path path with_frame]. split; [exact F1|].
    unfold focus_chain_ws. rewrite Ec. destruct R1 as [Rs1 _]. rewrite ?Rc, ?Rs1. reflexivity.
  - rewrite (update_path_lost oracle fuel (clear_flags s1) t) in E3 by (rewrite Fc; exact Ec).
    destruct (focus_widget oracle fuel (co (clear_flags s1)) (root (clear_flags s1))) as [c|] eqn:Ew; [|discriminate].
    cbn [obind] in E3. injection E3 as <-.
    assert (Lc : log c = log (co (clear_flags s1))) by exact L2.
    destruct (focus_widget_quiet _ _ _ _ Ew Lc) as [Fr ->].
    rewrite Fc, Rc in Fr.
    cbn [co with_path with_co path with_frame].
    split; [exact F1|]. unfold focus_chain_ws. rewrite Ec.
    destruct R1 as [Rs1 _]. rewrite ?Rc, ?Rs1.
    assert ((focused (co s) =? root s) = true) as -> by lia.
    pose proof (chain_to_root_none _ _ Ec) as Ne.
    assert ((root s =? t_wid t) = false) as -> by lia. reflexivity.
Qed.

(* ... so a key event that arrives after such a tick is offered capture-target-bubble along
   the chain of the tree on screen *)
Lemma frames_key_after_tick fuel s t1 t2 s1 lay ev s2 :
  f_redraw (co s) = true ->
  frame2 oracle fuel s t1 t2 = Some s1 -> layouts oracle fuel s t1 = Some lay ->
  existsb focus_entry (skipn (length (log (co s))) (log (co s1))) = false ->
  is_focus_ev ev = false -> focus_handle oracle capturer fuel s1 ev = Some s2 ->
  exists ws D,
    focus_chain_ws (root s) (shown_tree lay t1 t2) (focused (co s)) = Some ws /\
    log (co s2) = log (co s1) ++ D /\ key_route_obs capturer ws (focused (co s)) ev D = true.
Proof.
  intros R H L Q Hev K.
  destruct (frame2_path_shown _ _ _ _ _ _ R H L) as (D1 & L1 & _ & _ & P).
  rewrite L1, skipn_app, skipn_all, Nat.sub_diag in Q. cbn [skipn app] in Q.
  destruct (P Q) as [Ef Ep].
  destruct (key_route_obs_model oracle capturer _ _ _ _ Hev K) as (D & LD & KR).
  exists (path s1), D. split; [exact Ep|]. split; [exact LD|]. rewrite <- Ef. exact KR.
Qed.

(* ---------------------------------------------------------------- the observation predicate *)

Lemma skipn_exact {A} (a b : list A) : skipn (length a) (a ++ b) = b.
Proof. rewrite skipn_app, skipn_all, Nat.sub_diag. reflexivity. Qed.

Lemma run_single fuel s i s' :
  step oracle capturer fuel s i = Some s' -> run oracle capturer fuel s [i] = Some s'.
Proof. intros H. cbn [run]. rewrite H. cbn [obind]. destruct (negb (is_tick i) && f_quit (co s')); reflexivity. Qed.

Definition nonfocus_input (i : input) : Prop := match i with IEv e => is_focus_ev e = false | _ => True end.

Lemma step_fa fuel s i s' :
  nonfocus_input i -> step oracle capturer fuel s i = Some s' -> K_fa (co s) (co s').
Proof. exact (focused_last_focusin_step oracle capturer fuel s i s'). Qed.

Lemma step_chain (G : no_focus_from_focusout oracle) fuel s i s' :
  nonfocus_input i -> step oracle capturer fuel s i = Some s' -> K_chain (co s) (co s').
Proof.
  intros Hi H. apply (focus_change_once_run oracle capturer G fuel [i] s s').
  - constructor; [exact Hi|constructor].
  - apply run_single. exact H.
Qed.

Lemma K_chain_same c c' : log c' = log c -> focused c' = focused c -> K_chain c c'.
Proof. intros L F. exists []. rewrite app_nil_r. split; [exact L|]. cbn. now rewrite F. Qed.

Lemma frame2_K (K : core -> core -> Prop)
  (Ksame : forall c c', log c' = log c -> focused c' = focused c -> K c c')
  (Ktrans : forall a b c, K a b -> K b c -> K a c)
  (Kstep : forall fuel s i s', nonfocus_input i -> step oracle capturer fuel s i = Some s' -> K (co s) (co s'))
  fuel s t1 t2 s' :
  frame2 oracle fuel s t1 t2 = Some s' -> K (co s) (co s').
Proof.
  intros H. destruct (f_redraw (co s)) eqn:R.
  - destruct (frame2_parts _ _ _ _ _ R H) as (s1 & s3 & lay & E1 & _ & _ & E3 & ->).
    cbn [co with_frame].
    eapply Ktrans; [apply (Ksame (co s) (co (with_co s (set_redraw (co s) false)))); reflexivity|].
    eapply Ktrans; [apply (Kstep fuel _ (PUpdate t1) s1 I E1)|].
    eapply Ktrans; [apply (Ksame (co s1) (co (clear_flags s1))); reflexivity|].
    apply (Kstep fuel _ (PUpdatePath (shown_tree lay t1 t2)) s3 I E3).
  - destruct (frame2_idle _ _ _ _ _ R H) as [-> _]. apply Ksame; reflexivity.
Qed.

Definition f_nonfocus (i : finput) : Prop := match i with FI i => nonfocus_input i | _ => True end.

(* over one input: the focus deliveries form one chain and the holder of the focus is the
   receiver of the last FocusIn *)
Lemma fstep_focus (G : no_focus_from_focusout oracle) fuel s i s' :
  f_nonfocus i -> fstep oracle capturer fuel s i = Some s' ->
  exists D, log (co s') = log (co s) ++ D /\
    focused (co s') = focus_after (focused (co s)) D /\
    focus_chain (focused (co s)) (focus_log D) = Some (focused (co s')).
Proof.
  intros Hi H.
  assert (A : K_fa (co s) (co s') /\ K_chain (co s) (co s')).
  { destruct i as [i|t1 t2]; cbn [fstep f_nonfocus] in *.
    - split; [eapply step_fa; eauto|eapply step_chain; eauto].
    - split.
      + apply (frame2_K K_fa K_fa_same K_fa_trans step_fa _ _ _ _ _ H).
      + apply (frame2_K K_chain K_chain_same K_chain_trans (step_chain G) _ _ _ _ _ H). }
  destruct A as [(D1 & L1 & F1) (D2 & L2 & C2)].
  rewrite L1 in L2. apply app_inv_head in L2. subst D2. exists D1. auto.
Qed.

Definition f_app_input (i : finput) : bool :=
  match i with
  | FI (IEv e) => is_app_ev e
  | FI (IMouse _ _) | FI ITermFocusOut | FI IRedrawReq | FI (IStart _) | FFrame2 _ _ => true
  | _ => false
  end.

(* what links the observer of the frames stream to a state of the model *)
Definition f_inv (rt : wid) (sp : fspec) (s : st) : Prop :=
  hov_inv (fun _ => False) rt s /\ hov_tracks (fs_hv sp) s /\ fs_log sp = log (co s) /\
  fs_foc sp = focused (co s) /\
  (fs_moved sp = false -> fs_path rt sp = Some (path s)).

Definition f_lay (fuel : nat) (s : st) (i : finput) (lay : Z) : Prop :=
  match i with FFrame2 t1 _ => layouts oracle fuel s t1 = Some lay | _ => lay = 0 end.

Lemma f_init_inv rt : f_inv rt (f_spec_init rt) (init_st rt).
Proof.
  unfold f_inv, f_spec_init, init_st. cbn. split; [apply init_hov_inv|].
  split; [split; [reflexivity|]; split; [reflexivity|]; split; [reflexivity|]; constructor; [lia|lia|constructor]|].
  split; [reflexivity|]. split; [reflexivity|]. intros _. unfold fs_path. cbn. now rewrite Z.eqb_refl.
Qed.

Lemma app_input_good i :
  f_app_input i = true -> Forall (fun t => NoDup (ids t) /\ wf16 t) (ftrees i) ->
  fhov_good (fun _ => False) 0 i /\ Forall wf16 (ftrees i) /\ not_iframe i /\ f_nonfocus i.
Proof.
  intros A F. split; [split|split; [|split]].
  - eapply Forall_impl; [|exact F]. cbn. tauto.
  - destruct i as [[]|]; cbn in A; try discriminate A; auto. destruct e; try discriminate A; reflexivity.
  - eapply Forall_impl; [|exact F]. cbn. tauto.
  - destruct i as [[]|]; cbn in A; try discriminate A; exact I.
  - destruct i as [[]|]; cbn in A; try discriminate A; try exact I. cbn. destruct e; try discriminate A; reflexivity.
Qed.

(* the path clause is kept by an input that leaves path and shown tree alone *)
Lemma keep_path rt sp s s' d :
  (fs_moved sp = false -> fs_path rt sp = Some (path s)) -> path s' = path s ->
  fs_moved sp || existsb focus_entry d = false ->
  match fs_shown sp with
  | None => if focus_after (fs_foc sp) d =? rt then Some [rt] else None
  | Some t => focus_chain_ws rt t (focus_after (fs_foc sp) d)
  end = Some (path s').
Proof.
  intros P Pa Q. apply orb_false_iff in Q as [Q1 Q2].
  rewrite (focus_after_quiet _ _ Q2), Pa. apply P. exact Q1.
Qed.

(* Every step of the model on an input of App.Run (ticks with two layouts included) satisfies
   the predicate the frames stream evaluates on the implementation's observation, and the
   observer's state stays linked to the model's: with "no mismatch" the predicate cannot
   raise a false alarm on code the model describes. *)
Lemma frames_step_sound (G : no_focus_from_focusout oracle) fuel rt sp s i s' lay :
  f_inv rt sp s -> f_app_input i = true ->
  Forall (fun t => NoDup (ids t) /\ wf16 t) (ftrees i) ->
  fstep oracle capturer fuel s i = Some s' -> f_lay fuel s i lay ->
  let d := skipn (length (log (co s))) (log (co s')) in
  f_step_ok capturer rt sp i d lay = true /\ f_inv rt (f_next sp i d lay) s'.
Proof.
  intros (J & T & Lg & Fo & Pc) A Ft H Ly.
  destruct (app_input_good i A Ft) as ((Gt & Gi) & Wt & Nf & Nn).
  assert (Gd : fhov_good (fun _ => False) rt i).
  { split; [exact Gt|]. destruct i as [[]|]; cbn in A; try discriminate A; auto. }
  pose proof (hov_fstep _ _ _ _ _ _ J Gd H) as J'.
  assert (T' : hov_tracks (f_hov (fs_hv sp) i lay) s').
  { eapply tracks_fstep; eauto. destruct i; [exact I|exact Ly]. }
  destruct (fstep_focus G _ _ _ _ Nn H) as (D & LD & FD & CD).
  cbv zeta. rewrite LD, skipn_exact.
  assert (Rs : root s = rt) by apply J.
  (* the clauses that do not depend on the kind of input *)
  assert (Hov : hover_obs (fun _ => false) (fs_log sp ++ D) (hv_set (f_hov (fs_hv sp) i lay)) = true).
  { rewrite Lg, <- LD. eapply hov_inv_obs; eauto. }
  assert (Foc : match focus_chain (fs_foc sp) (focus_log D) with Some _ => true | None => false end = true).
  { rewrite Fo, CD. reflexivity. }
  assert (Inv : (snd (match i with
                      | FFrame2 t1 t2 => if lay =? 0 then (fs_shown sp, fs_moved sp || existsb focus_entry D)
                                         else (Some (shown_tree lay t1 t2), existsb focus_entry D)
                      | FI (IFrame t) => if lay =? 0 then (fs_shown sp, fs_moved sp || existsb focus_entry D)
                                         else (Some (sort_tree t), existsb focus_entry D)
                      | _ => (fs_shown sp, fs_moved sp || existsb focus_entry D)
                      end) = false ->
                 match fst (match i with
                      | FFrame2 t1 t2 => if lay =? 0 then (fs_shown sp, fs_moved sp || existsb focus_entry D)
                                         else (Some (shown_tree lay t1 t2), existsb focus_entry D)
                      | FI (IFrame t) => if lay =? 0 then (fs_shown sp, fs_moved sp || existsb focus_entry D)
                                         else (Some (sort_tree t), existsb focus_entry D)
                      | _ => (fs_shown sp, fs_moved sp || existsb focus_entry D)
                      end) with
                 | None => if focus_after (fs_foc sp) D =? rt then Some [rt] else None
                 | Some t => focus_chain_ws rt t (focus_after (fs_foc sp) D)
                 end = Some (path s')) ->
          f_inv rt (f_next sp i D lay) s').
  { intros P. unfold f_inv, f_next. cbn [fs_hv fs_log fs_foc fs_moved fs_shown].
    split; [exact J'|]. split; [exact T'|]. split; [rewrite Lg, LD; reflexivity|].
    split; [rewrite Fo; symmetry; exact FD|]. unfold fs_path. cbn [fs_shown fs_foc]. exact P. }
  assert (Ok : forall route_ok lay_ok : bool, route_ok = true -> lay_ok = true ->
               route_ok && match focus_chain (fs_foc sp) (focus_log D) with Some _ => true | None => false end &&
               hover_obs (fun _ => false) (fs_log sp ++ D) (hv_set (f_hov (fs_hv sp) i lay)) && lay_ok = true).
  { intros a b -> ->. rewrite Foc, Hov. reflexivity. }
  assert (KeyOk : forall e s0, is_focus_ev e = false -> path s0 = path s -> focused (co s0) = focused (co s) ->
                  log (co s0) = log (co s) -> log (co s') = log (co s0) ++ D ->
                  (forall D0, log (co s') = log (co s0) ++ D0 -> key_route_obs capturer (path s0) (focused (co s0)) e D0 = true) ->
                  match fs_path rt sp with Some ws => key_route_obs capturer ws (fs_foc sp) e D | None => false end || fs_moved sp = true).
  { intros e s0 He Pa F0 L0 L1 KR. destruct (fs_moved sp) eqn:M; [apply orb_true_r|]. rewrite orb_false_r.
    rewrite (Pc eq_refl), Fo, <- Pa, <- F0. apply KR. exact L1. }
  destruct i as [i|t1 t2]; [destruct i; cbn in A; try discriminate A|]; cbn [fstep step] in H; unfold f_step_ok; cbn [f_lay] in Ly.
  - (* key / application event *)
    assert (He : is_focus_ev e = false) by (destruct e; try discriminate; reflexivity).
    destruct (key_route_order_b oracle capturer _ _ _ _ He H) as (D1 & tgt & L1 & (_ & Pa & _) & _).
    destruct (key_route_obs_model oracle capturer _ _ _ _ He H) as (D2 & L2 & KR).
    rewrite LD in L2. apply app_inv_head in L2. subst D2.
    split.
    + apply Ok; [|reflexivity]. rewrite He. cbn [orb].
      apply (KeyOk e s He eq_refl eq_refl eq_refl LD). intros D0 L0. rewrite LD in L0. apply app_inv_head in L0. subst D0. exact KR.
    + apply Inv. cbn [fst snd]. intros Q. eapply keep_path; eauto.
  - (* mouse *)
    destruct (mouse_route_order oracle capturer _ _ _ _ _ H) as (Dh & Dr & e0 & b & _ & _ & _ & _ & _ & _ & Pa & _).
    destruct T as (Tf & _ & _ & Wf).
    destruct (mouse_route_obs_model oracle capturer _ _ _ _ _ Wf H) as (D2 & L2 & MR).
    rewrite LD in L2. apply app_inv_head in L2. subst D2.
    split.
    + apply Ok; [|reflexivity]. rewrite Tf. exact MR.
    + apply Inv. cbn [fst snd]. intros Q. eapply keep_path; eauto.
  - (* terminal FocusOut *)
    assert (Pa : path s' = path s).
    { unfold mouse_exit in H.
      match type of H with obind (Route.calls _ _ _ ?l) _ = _ => destruct (calls oracle fuel (co (with_mouse s None)) l) as [c|]; [|discriminate] end.
      cbn [obind] in H. injection H as <-. reflexivity. }
    split; [apply Ok; reflexivity|]. apply Inv. cbn [fst snd]. intros Q. eapply keep_path; eauto.
  - (* Resize / Redraw *)
    assert (Pa : path s' = path s) by (injection H as <-; reflexivity).
    split; [apply Ok; reflexivity|]. apply Inv. cbn [fst snd]. intros Q. eapply keep_path; eauto.
  - (* the prologue of App.Run *)
    destruct (focus_handle oracle capturer fuel s EInit) as [s1|] eqn:E; [|discriminate].
    cbn [obind] in H. injection H as <-. cbn [co with_frame path] in *.
    destruct (key_route_order_b oracle capturer fuel s EInit s1 eq_refl E) as (D1 & tgt & L1 & (_ & Pa & _) & _).
    destruct (key_route_obs_model oracle capturer fuel s EInit s1 eq_refl E) as (D2 & L2 & KR).
    rewrite LD in L2. apply app_inv_head in L2. subst D2.
    split.
    + apply Ok; [|reflexivity].
      apply (KeyOk EInit s eq_refl eq_refl eq_refl eq_refl LD). intros D0 L0. rewrite LD in L0. apply app_inv_head in L0. subst D0. exact KR.
    + apply Inv. cbn [fst snd]. intros Q. eapply keep_path; eauto.
  - (* a tick *)
    destruct (f_redraw (co s)) eqn:R.
    + destruct (frame2_path_shown _ _ _ _ _ _ R H Ly) as (D2 & L2 & _ & _ & P).
      rewrite LD in L2. apply app_inv_head in L2. subst D2.
      destruct (frame2_parts _ _ _ _ _ R H) as (s1 & s3 & lay' & _ & El & Ly' & _).
      rewrite Ly in Ly'. injection Ly' as <-.
      assert (Hl : (lay =? 0) = false /\ (0 <=? lay) && (lay <=? 2) = true)
        by (subst lay; destruct (f_redraw (co s1)); split; reflexivity).
      destruct Hl as [Hl0 Hl1]. split.
      * apply Ok; [reflexivity|]. rewrite Hl1, Hl0. reflexivity.
      * apply Inv. rewrite Hl0. cbn [fst snd]. intros Q. destruct (P Q) as [Ef Ep].
        rewrite (focus_after_quiet _ _ Q), Fo, <- Rs. exact Ep.
    + destruct (frame2_idle _ _ _ _ _ R H) as [-> Ly']. rewrite Ly in Ly'. injection Ly' as ->.
      rewrite <- (app_nil_r (log (co s))) in LD at 1. apply app_inv_head in LD. subst D.
      split; [apply Ok; reflexivity|]. apply Inv. cbn [Z.eqb fst snd]. intros Q. eapply keep_path; eauto.
Qed.

End Frames.
