(* Proofs about model/Keys.v (property C09). *)
From Coq Require Import ZifyBool.
From Vx Require Import base.Prelude base.ListX gen.GenKeys model.Keys.
Local Open Scope Z_scope.

(* ---------- bits ---------- *)
Lemma strip2_eq m : strip2 m = strip_locks m.
Proof. unfold strip2, strip_locks. rewrite Z.ldiff_ldiff_l. reflexivity. Qed.

Lemma testbit_small_const (c n : Z) : 0 <= c -> Z.log2 c < n -> Z.testbit c n = false.
Proof. intros Hc Hn. destruct (Z.eq_dec c 0) as [->|Hz]; [apply Z.bits_0|]. apply Z.bits_above_log2; lia. Qed.

Lemma strip_locks_bit m n : 0 <= n -> n <> 6 -> n <> 7 -> Z.testbit (strip_locks m) n = Z.testbit m n.
Proof.
  intros Hn H6 H7. unfold strip_locks. rewrite Z.ldiff_spec.
  assert (Hb : Z.testbit 192 n = false).
  { destruct (Z_lt_dec 7 n) as [Hgt|Hle]; [apply testbit_small_const; [lia|exact Hgt]|].
    assert (Hc : n = 0 \/ n = 1 \/ n = 2 \/ n = 3 \/ n = 4 \/ n = 5) by lia.
    destruct Hc as [->|[->|[->|[->|[->| ->]]]]]; reflexivity. }
  rewrite Hb. apply andb_true_r.
Qed.

Lemma nonshift_bit m n : 0 <= n -> n <> 0 -> Z.testbit (nonshift m) n = Z.testbit m n.
Proof.
  intros Hn H0. unfold nonshift. rewrite Z.ldiff_spec.
  assert (Hb : Z.testbit 1 n = false) by (apply testbit_small_const; [lia|simpl; lia]).
  rewrite Hb. apply andb_true_r.
Qed.

Lemma nonshift_idem m : nonshift (nonshift m) = nonshift m.
Proof. unfold nonshift. rewrite Z.ldiff_ldiff_l. reflexivity. Qed.

Lemma shift_of_strip m : shift_of (strip_locks m) = shift_of m.
Proof. unfold shift_of. apply strip_locks_bit; lia. Qed.

Lemma shift_of_nonshift m : shift_of (nonshift m) = false.
Proof. unfold shift_of, nonshift. rewrite Z.ldiff_spec. simpl. apply andb_false_r. Qed.

Lemma land1_shift m : (Z.land m 1 =? 0) = negb (shift_of m).
Proof.
  unfold shift_of. rewrite Z.bit0_odd.
  replace (Z.land m 1) with (Z.land m (Z.ones 1)) by reflexivity.
  rewrite Z.land_ones by lia. change (2 ^ 1) with 2. rewrite Zmod_odd.
  destruct (Z.odd m); reflexivity.
Qed.

(* the lock bits of a mask: toggling them does not change the stripped mask *)
Lemma strip_locks_lxor m l : Z.ldiff l 192 = 0 -> strip_locks (Z.lxor m l) = strip_locks m.
Proof.
  intros Hl. unfold strip_locks. apply Z.bits_inj'. intros n Hn.
  rewrite !Z.ldiff_spec, Z.lxor_spec.
  assert (Hb : Z.testbit (Z.ldiff l 192) n = false) by (rewrite Hl; apply Z.bits_0).
  rewrite Z.ldiff_spec in Hb.
  destruct (Z.testbit 192 n); simpl in *; [rewrite !andb_false_r; reflexivity|].
  rewrite andb_true_r in Hb. rewrite Hb, xorb_false_r. reflexivity.
Qed.

Lemma zlist_eqb_eq a b : zlist_eqb a b = true -> a = b.
Proof.
  unfold zlist_eqb. revert b. induction a as [|x a IH]; intros [|y b]; cbn; try discriminate; auto.
  intros H. apply andb_true_iff in H as [Hx Hr]. apply Z.eqb_eq in Hx. subst. f_equal. auto.
Qed.

(* ---------- Matches ---------- *)
Section Matching.
Variable u : uni.

(* the body of [matches] after stripping, as a function of the stripped masks *)
Definition matches_core (k : key) (r m km : Z) : bool :=
  let ukm := nonshift km in
  let um := nonshift m in
  ((k_code k =? r) && (m =? km))
  || (zlist_eqb (k_text k) [rune_fix r] && (m =? km))
  || ((k_shifted k =? r) && (m =? ukm))
  || ((k_base k =? r) && (m =? km))
  || (negb (u_letter u r) && u_graphic u r &&
      (((k_code k =? r) && (ukm =? um)) || ((k_shifted k =? r) && (ukm =? um))))
  || (negb (Z.land m 1 =? 0) && u_lower u r &&
      zlist_eqb (k_text k) [rune_fix (u_toupper u r)] && (um =? ukm)).

Lemma matches_core_eq k r mods :
  matches u k r mods = matches_core k r (strip_locks mods) (strip_locks (k_mods k)).
Proof. unfold matches, matches_core. rewrite !strip2_eq. reflexivity. Qed.

(* locks never matter: only the stripped masks are looked at *)
Lemma locks_irrelevant k r m1 m2 km1 km2 :
  strip_locks m1 = strip_locks m2 -> strip_locks km1 = strip_locks km2 ->
  matches u (with_mods k km1) r m1 = matches u (with_mods k km2) r m2.
Proof.
  intros H1 H2. rewrite !matches_core_eq. cbn [with_mods k_mods]. rewrite H1, H2.
  reflexivity.
Qed.

Lemma locks_toggle k r mods l1 l2 :
  Z.ldiff l1 192 = 0 -> Z.ldiff l2 192 = 0 ->
  matches u (with_mods k (Z.lxor (k_mods k) l1)) r (Z.lxor mods l2) = matches u k r mods.
Proof.
  intros H1 H2. rewrite !matches_core_eq. cbn [with_mods k_mods].
  rewrite !strip_locks_lxor by assumption. reflexivity.
Qed.

Lemma matches_sound k r mods :
  matches u k r mods = true ->
  nonshift (strip_locks mods) = nonshift (strip_locks (k_mods k)).
Proof.
  rewrite matches_core_eq. unfold matches_core.
  set (m := strip_locks mods). set (km := strip_locks (k_mods k)).
  intros H. repeat (apply orb_true_iff in H; destruct H as [H|H]).
  - apply andb_true_iff in H as [_ H]. apply Z.eqb_eq in H. now rewrite H.
  - apply andb_true_iff in H as [_ H]. apply Z.eqb_eq in H. now rewrite H.
  - apply andb_true_iff in H as [_ H]. apply Z.eqb_eq in H. rewrite H. apply nonshift_idem.
  - apply andb_true_iff in H as [_ H]. apply Z.eqb_eq in H. now rewrite H.
  - apply andb_true_iff in H as [_ H].
    apply orb_true_iff in H as [H|H]; apply andb_true_iff in H as [_ H]; apply Z.eqb_eq in H; now rewrite H.
  - apply andb_true_iff in H as [_ H]. apply Z.eqb_eq in H. exact H.
Qed.

(* every modifier bit other than Shift (0), Caps Lock (6), Num Lock (7) is identical *)
Lemma matches_sound_bits k r mods :
  matches u k r mods = true ->
  forall n, 0 <= n -> n <> 0 -> n <> 6 -> n <> 7 -> Z.testbit mods n = Z.testbit (k_mods k) n.
Proof.
  intros H n Hn H0 H6 H7. apply matches_sound in H.
  rewrite <- (strip_locks_bit mods n), <- (strip_locks_bit (k_mods k) n) by assumption.
  rewrite <- (nonshift_bit (strip_locks mods) n), <- (nonshift_bit (strip_locks (k_mods k)) n) by assumption.
  now rewrite H.
Qed.

Lemma shift_forgiven_only k r mods :
  matches u k r mods = true -> shift_of mods <> shift_of (k_mods k) ->
  shift_forgiven u k r mods = true.
Proof.
  rewrite matches_core_eq. unfold matches_core, shift_forgiven.
  rewrite <- (shift_of_strip mods), <- (shift_of_strip (k_mods k)).
  set (m := strip_locks mods). set (km := strip_locks (k_mods k)).
  intros H Hs.
  assert (Hne : m <> km) by (intros E; apply Hs; now rewrite E).
  repeat (apply orb_true_iff in H; destruct H as [H|H]).
  - apply andb_true_iff in H as [_ H]. apply Z.eqb_eq in H. contradiction.
  - apply andb_true_iff in H as [_ H]. apply Z.eqb_eq in H. contradiction.
  - apply andb_true_iff in H as [Hc H]. apply Z.eqb_eq in H.
    rewrite Hc. rewrite H, shift_of_nonshift. reflexivity.
  - apply andb_true_iff in H as [_ H]. apply Z.eqb_eq in H. contradiction.
  - apply andb_true_iff in H as [Hg H]. rewrite Hg.
    assert (Hc : (k_code k =? r) || (k_shifted k =? r) = true).
    { apply orb_true_iff in H as [H|H]; apply andb_true_iff in H as [H _]; rewrite H; auto using orb_true_r. }
    rewrite Hc. cbn [andb]. rewrite orb_true_r. reflexivity.
  - apply andb_true_iff in H as [H _]. apply andb_true_iff in H as [H Ht]. apply andb_true_iff in H as [H Hl].
    rewrite land1_shift, negb_involutive in H. rewrite H, Hl, Ht. cbn [andb]. apply orb_true_r.
Qed.

Lemma shift_forgiven_only_prop k r mods :
  matches u k r mods = true -> Z.testbit mods 0 <> Z.testbit (k_mods k) 0 ->
  (k_shifted k = r /\ Z.testbit mods 0 = false)
  \/ (u_letter u r = false /\ u_graphic u r = true /\ (k_code k = r \/ k_shifted k = r))
  \/ (Z.testbit mods 0 = true /\ u_lower u r = true /\ k_text k = [rune_fix (u_toupper u r)]).
Proof.
  intros Hm Hs. pose proof (shift_forgiven_only k r mods Hm Hs) as H.
  unfold shift_forgiven, shift_of in H.
  apply orb_true_iff in H as [H|H]; [apply orb_true_iff in H as [H|H]|].
  - left. apply andb_true_iff in H as [H1 H2]. apply Z.eqb_eq in H1. apply negb_true_iff in H2. auto.
  - right; left. apply andb_true_iff in H as [H H3]. apply andb_true_iff in H as [H1 H2].
    apply negb_true_iff in H1. split; [exact H1|]. split; [exact H2|].
    apply orb_true_iff in H3 as [H3|H3]; apply Z.eqb_eq in H3; auto.
  - right; right. apply andb_true_iff in H as [H H3]. apply andb_true_iff in H as [H1 H2].
    apply zlist_eqb_eq in H3. auto.
Qed.

Lemma self_match k l1 l2 :
  Z.ldiff l1 192 = 0 -> Z.ldiff l2 192 = 0 ->
  matches u (with_mods k (Z.lxor (k_mods k) l1)) (k_code k) (Z.lxor (k_mods k) l2) = true.
Proof.
  intros H1 H2. rewrite matches_core_eq. cbn [with_mods k_mods k_code].
  rewrite !strip_locks_lxor by assumption. unfold matches_core. cbn [k_code].
  rewrite !Z.eqb_refl. reflexivity.
Qed.

Lemma self_match_plain k : matches u k (k_code k) (k_mods k) = true.
Proof.
  rewrite matches_core_eq. unfold matches_core. rewrite !Z.eqb_refl. reflexivity.
Qed.

(* the model satisfies the per-observation predicate of the match stream *)
Lemma match_obs_ok_model k r mods : match_obs_ok u k r mods (matches u k r mods) = true.
Proof.
  unfold match_obs_ok.
  destruct (matches u k r mods) eqn:E; cbn [negb orb andb].
  - rewrite (matches_sound _ _ _ E), Z.eqb_refl. cbn [andb].
    destruct (Bool.eqb (shift_of mods) (shift_of (k_mods k))) eqn:Es; cbn [orb].
    + now rewrite orb_true_r.
    + rewrite shift_forgiven_only; [now rewrite orb_true_r|exact E|].
      intros Heq. rewrite Heq, Bool.eqb_reflx in Es. discriminate.
  - rewrite orb_false_r.
    destruct ((r =? k_code k) && (strip_locks mods =? strip_locks (k_mods k))) eqn:Ec; [|reflexivity].
    apply andb_true_iff in Ec as [Hr Hm]. apply Z.eqb_eq in Hr, Hm. subst r.
    rewrite matches_core_eq in E. unfold matches_core in E.
    rewrite Hm, !Z.eqb_refl in E. discriminate.
Qed.

End Matching.

(* ---------- tables ---------- *)
Lemma lookup2_in t a b : lookup2 t a b = None \/ exists k, In ((a, b), k) t /\ lookup2 t a b = Some k.
Proof.
  unfold lookup2. destruct (find _ t) as [[[x y] k]|] eqn:E; [right|left; reflexivity].
  apply find_some in E as [Hin Hk]. cbn in Hk. apply andb_true_iff in Hk as [Hx Hy].
  apply Z.eqb_eq in Hx, Hy. subst. eauto.
Qed.

Lemma lookup2_not_in t a b : (forall e, In e t -> fst e <> (a, b)) -> lookup2 t a b = None.
Proof.
  intros H. destruct (lookup2_in t a b) as [E|[k [Hin _]]]; [exact E|].
  exfalso. exact (H _ Hin eq_refl).
Qed.

Definition opt_eqb := option_eqb Z.eqb.

Lemma opt_eqb_eq a b : opt_eqb a b = true -> a = b.
Proof. destruct a, b; cbn; try discriminate; auto. intros H; apply Z.eqb_eq in H; now subst. Qed.

(* two association lists define the same finite map when they agree on each other's keys *)
Lemma lookup2_ext A B :
  forallb (fun e => opt_eqb (lookup2 A (fst (fst e)) (snd (fst e))) (lookup2 B (fst (fst e)) (snd (fst e)))) (A ++ B) = true ->
  forall a b, lookup2 A a b = lookup2 B a b.
Proof.
  intros H a b. rewrite forallb_forall in H.
  destruct (lookup2_in A a b) as [EA|[k [Hin _]]].
  - destruct (lookup2_in B a b) as [EB|[k [Hin _]]]; [congruence|].
    apply opt_eqb_eq. apply (H ((a, b), k)). apply in_or_app; auto.
  - apply opt_eqb_eq. apply (H ((a, b), k)). apply in_or_app; auto.
Qed.

Lemma special_code_exact n fin : special_code n fin = spec_code n fin.
Proof.
  unfold special_code, spec_code.
  rewrite (lookup2_ext specialsKeys spec_table); [reflexivity|]. vm_compute. reflexivity.
Qed.

Lemma ss3_table_exact : ss3Keys = ss3_spec.
Proof. reflexivity. Qed.

(* the built-in ASCII oracle satisfies the hypotheses of the decode theorems *)
Lemma ascii_uni_hyps :
  u_upper ascii_uni 127 = false /\ (forall r, u_upper ascii_uni r = true -> u_tolower ascii_uni r <> 127).
Proof.
  split; [reflexivity|]. intros r. unfold ascii_uni, uni_of. cbn [u_upper u_tolower]. unfold info_of.
  destruct (in_range r 0 127) eqn:Ea; cbn [find]; [|cbn; discriminate].
  unfold ascii_info. destruct (in_range r 65 90) eqn:Eu.
  - intros _. unfold in_range in Eu. lia.
  - destruct (in_range r 97 122); destruct (in_range r 32 126); cbn; discriminate.
Qed.

(* ---------- decodeKey ---------- *)
Lemma i32_small v : small v = true -> i32 v = v.
Proof.
  unfold small, i32. intros H. apply andb_true_iff in H as [H1 H2].
  apply Z.leb_le in H1. apply Z.ltb_lt in H2.
  rewrite Z.mod_small by lia. destruct (v <? 2147483648) eqn:E; [reflexivity|lia].
Qed.

Lemma i64_small v : -1 <= v < 2147483648 -> i64 v = v.
Proof.
  intros H. unfold i64.
  destruct (Z.eq_dec v (-1)) as [->|Hn]; [reflexivity|].
  rewrite Z.mod_small by lia. destruct (v <? 9223372036854775808) eqn:E; [reflexivity|lia].
Qed.

Lemma clamp_max v : (if v <? 0 then 0 else v) = Z.max 0 v.
Proof. destruct (v <? 0) eqn:E; lia. Qed.

Lemma shape_ok_inv x : shape_ok x = true ->
  small (sh_n x) = true /\ small (sh_s x) = true /\ small (sh_b x) = true /\ small (sh_m x) = true /\ small (sh_e x) = true /\
  (sh_n0 x = 0 \/ sh_n0 x = 1 \/ sh_n0 x = 2) /\ (sh_n1 x = 0 \/ sh_n1 x = 1 \/ sh_n1 x = 2) /\
  (forall tx, sh_tx x = Some tx -> forallb small tx = true) /\
  (forall t tx, sh_tx x = Some (t :: tx) -> (sh_n x =? 27) && (sh_fin x =? 126) = false) /\
  ((sh_n x =? 1) && (sh_fin x =? 90) = true -> (sh_n1 x = 0 -> sh_tx x = None) /\ (sh_n1 x <> 0 -> 1 <= sh_m x)).
Proof.
  unfold shape_ok. intros H.
  repeat match type of H with (_ && _ = true) => let H' := fresh "H" in apply andb_true_iff in H as [H H'] end.
  do 5 (split; [assumption|]).
  split; [unfold in_range in H4; lia|]. split; [unfold in_range in H3; lia|].
  split; [intros tx E; rewrite E in H2; exact H2|].
  split; [intros t tx E; rewrite E in H1; apply negb_true_iff in H1; rewrite andb_true_r in H1; exact H1|].
  intros Hbt. rewrite Hbt in H0. cbn [andb] in H0. apply negb_true_iff in H0.
  split.
  - intros E0. rewrite E0 in H0. cbn in H0. destruct (sh_tx x); [discriminate|reflexivity].
  - intros E0. apply Z.eqb_neq in E0. rewrite E0 in H0. unfold small in H6. lia.
Qed.

Section Decode.
Variable u : uni.

Lemma finish_spec k : decode_finish u k = spec_finish u k.
Proof.
  unfold decode_finish, spec_finish. destruct (k_text k); [|reflexivity].
  change lock_mask with 192. change ModShift with 1. cbn [andb]. reflexivity.
Qed.

Lemma decode_c0_roundtrip b : 0 <= b < 32 -> decode_key u (SC0 b) = c0_spec b.
Proof.
  intros Hb. unfold decode_key. cbn [decode_pre]. unfold decode_c0, c0_spec.
  assert (Hi : forall d, 0 <= d < 200 -> i32 d = d) by (intros d Hd; apply i32_small; unfold small; lia).
  destruct (b =? 8); [reflexivity|]. destruct (b =? 9); [reflexivity|].
  destruct (b =? 13); [reflexivity|]. destruct (b =? 27); [reflexivity|].
  destruct (b =? 0); [reflexivity|].
  destruct (b <=? 26) eqn:E1; [rewrite Hi by lia; reflexivity|].
  destruct (b <? 32) eqn:E2; [rewrite Hi by lia; reflexivity|lia].
Qed.

Lemma decode_esc_roundtrip i c : decode_key u (SESC i c) = mkKey [] c 0 0 ModAlt 0.
Proof. reflexivity. Qed.

Lemma decode_ss3_roundtrip c k :
  lookup1 ss3_spec c = Some k -> decode_key u (SSS3 c) = mkKey [] k 0 0 0 0.
Proof.
  intros H. unfold decode_key. cbn [decode_pre]. rewrite ss3_table_exact, H. reflexivity.
Qed.

Lemma decode_print_roundtrip r rest :
  u_upper u 127 = false -> (u_upper u r = true -> u_tolower u r <> 127) ->
  decode_key u (SPrint (r :: rest)) = print_spec u (r :: rest).
Proof.
  intros H127 Hlow. unfold decode_key. cbn [decode_pre]. unfold decode_print, print_spec.
  change KeyBackspace with 127. change ModShift with 1.
  destruct (r =? 127) eqn:Er.
  - apply Z.eqb_eq in Er. subst r. rewrite H127. cbn. reflexivity.
  - destruct (u_upper u r) eqn:Eu; cbn [k_code].
    + destruct (u_tolower u r =? 127) eqn:El; [apply Z.eqb_eq in El; exfalso; now apply Hlow|].
      reflexivity.
    + rewrite Er. reflexivity.
Qed.

Lemma bs_norm_mk t c s b m e : bs_norm (mkKey t c s b m e) = mkKey t (spec_bs c) s b m e.
Proof. unfold bs_norm, spec_bs. cbn [k_code k_text k_shifted k_base k_mods k_event]. destruct (c =? 8); reflexivity. Qed.

Lemma decode_other_keys_roundtrip m k :
  small m = true -> small k = true -> decode_key u (other_keys_seq m k) = other_keys_spec u m k.
Proof.
  intros Hm Hk. unfold decode_key, other_keys_seq, other_keys_spec. rewrite finish_spec. f_equal.
  cbn [decode_pre]. unfold decode_csi. rewrite <- bs_norm_mk. f_equal. unfold decode_csi_raw. cbn [nth_error].
  unfold csi_p0. cbn [nth_error]. change (i32 27) with 27.
  change ((27 =? 1) && (126 =? 90)) with false. cbv iota.
  change (special_code 27 126) with 27.
  unfold csi_p1. cbn [nth_error k_mods k_text k_code k_shifted k_base k_event key0].
  unfold csi_p2. cbn [k_code k_text k_shifted k_base k_mods k_event].
  change ((27 =? 27) && (126 =? 126)) with true. cbv iota.
  rewrite (i32_small k Hk). rewrite Z.lor_0_l.
  assert (Hs : -1 <= m - 1 < 2147483648) by (unfold small in Hm; lia).
  rewrite (i64_small _ Hs), clamp_max. reflexivity.
Qed.

Lemma map_fix_small l : forallb small l = true -> map (fun p => rune_fix (i32 p)) l = map rune_fix l.
Proof. intros Hl. apply map_ext_in. intros a Ha. rewrite forallb_forall in Hl. now rewrite i32_small by auto. Qed.

Lemma special_27_tilde n : special_code n 126 = 27 -> n = 27.
Proof.
  unfold special_code. destruct (lookup2_in specialsKeys n 126) as [En|[k [Hin En]]]; rewrite En; [auto|].
  intros ->. exfalso. revert Hin. clear. intros Hin. vm_compute in Hin.
  repeat (destruct Hin as [Hin|Hin]; [discriminate|]). contradiction.
Qed.

Lemma p0_small k n alts fin : small n = true ->
  csi_p0 k (n :: alts) fin =
  let k1 := if (n =? 1) && (fin =? 90)
            then mkKey (k_text k) KeyTab (k_shifted k) (k_base k) ModShift (k_event k)
            else mkKey (k_text k) (special_code n fin) (k_shifted k) (k_base k) (k_mods k) (k_event k) in
  let k2 := match alts with s :: _ => mkKey (k_text k1) (k_code k1) (i32 s) (k_base k1) (k_mods k1) (k_event k1) | [] => k1 end in
  match alts with _ :: b :: _ => mkKey (k_text k2) (k_code k2) (k_shifted k2) (i32 b) (k_mods k2) (k_event k2) | _ => k2 end.
Proof.
  intros Hn. unfold csi_p0. rewrite (i32_small n Hn). destruct alts as [|s [|b t]]; reflexivity.
Qed.

Lemma p1_small k m rest : small m = true ->
  csi_p1 k (m :: rest) =
  let k1 := mkKey (k_text k) (k_code k) (k_shifted k) (k_base k) (Z.max 0 (Z.lor (k_mods k) (m - 1))) (k_event k) in
  match rest with
  | e :: _ => mkKey (k_text k1) (k_code k1) (k_shifted k1) (k_base k1) (k_mods k1) (Z.max 0 (i64 (e - 1)))
  | [] => k1
  end.
Proof.
  intros Hm. unfold csi_p1. rewrite i64_small by (unfold small in Hm; lia). rewrite clamp_max.
  destruct rest; cbn [nth_error]; [reflexivity|]. rewrite clamp_max. reflexivity.
Qed.

Lemma p2_text k tx fin : forallb small tx = true ->
  (forall t tx', tx = t :: tx' -> (k_code k =? 27) && (fin =? 126) = false) ->
  csi_p2 k tx fin = mkKey (k_text k ++ map rune_fix tx) (k_code k) (k_shifted k) (k_base k) (k_mods k) (k_event k).
Proof.
  intros Hs H. unfold csi_p2. destruct tx as [|t tx'].
  - cbn [map]. rewrite app_nil_r. destruct k; reflexivity.
  - rewrite (H t tx' eq_refl). rewrite map_fix_small by exact Hs. reflexivity.
Qed.

Lemma decode_shape_roundtrip x :
  shape_ok x = true -> decode_key u (shape_seq x) = shape_spec u x.
Proof.
  intros Hok. apply shape_ok_inv in Hok.
  destruct x as [n s b n0 m e n1 tx fin]. cbn [sh_n sh_s sh_b sh_n0 sh_m sh_e sh_n1 sh_tx sh_fin] in Hok.
  destruct Hok as (Hn & Hs & Hb & Hm & He & C0 & C1 & Htx & H27 & Hbt).
  unfold decode_key, shape_seq, shape_spec. rewrite finish_spec. f_equal.
  cbn [sh_n sh_s sh_b sh_n0 sh_m sh_e sh_n1 sh_tx sh_fin decode_pre].
  unfold decode_csi. rewrite <- bs_norm_mk. f_equal.
  unfold shape_params. cbn [sh_n sh_s sh_b sh_n0 sh_m sh_e sh_n1 sh_tx sh_fin].
  assert (Hms : -1 <= m - 1 < 2147483648) by (unfold small in Hm; lia).
  assert (Hes : -1 <= e - 1 < 2147483648) by (unfold small in He; lia).
  assert (H0s : small 0 = true) by reflexivity.
  assert (Hmax1 : 1 <= m -> Z.max 0 (m - 1) = m - 1) by (clear; lia).
  assert (Hmax2 : 1 <= m -> Z.max 0 (Z.lor 1 (m - 1)) = Z.lor 1 (m - 1)).
  { clear. intros H. assert (0 <= Z.lor 1 (m - 1)) by (apply Z.lor_nonneg; lia). lia. }
  rewrite <- special_code_exact.
  destruct C0 as [-> | [-> | ->]]; destruct C1 as [-> | [-> | ->]]; destruct tx as [tx|];
    cbn [Z.eqb Pos.eqb Z.leb Z.compare Pos.compare Pos.compare_cont];
    unfold decode_csi_raw; cbn [nth_error];
    rewrite (p0_small _ n _ fin Hn); rewrite ?(p1_small _ m _ Hm), ?(p1_small _ 0 _ H0s);
    rewrite ?(i32_small s Hs), ?(i32_small b Hb), ?(i64_small _ Hes);
    cbv zeta; cbn [k_mods k_text k_code k_shifted k_base k_event key0].
  all: destruct ((n =? 1) && (fin =? 90)) eqn:Ebt; cbn [k_mods k_text k_code k_shifted k_base k_event key0].
  all: try (destruct (Hbt eq_refl) as [Hb0 Hb1]).
  all: try (specialize (Hb0 eq_refl); discriminate).
  all: try (assert (Hm1 : 1 <= m) by (apply Hb1; clear; lia)).
  all: try rewrite p2_text;
       cbn [k_mods k_text k_code k_shifted k_base k_event app];
       try (apply Htx; reflexivity).
  all: change ModShift with 1; change KeyTab with 9; rewrite ?Z.lor_0_l; change (Z.lor 1 0) with 1.
  all: try (intros t tx' E; subst tx; try reflexivity;
            destruct ((special_code n fin =? 27) && (fin =? 126)) eqn:E27; [|reflexivity];
            apply andb_true_iff in E27 as [Ec Ef]; apply Z.eqb_eq in Ec, Ef; subst fin;
            apply special_27_tilde in Ec; subst n; specialize (H27 _ _ eq_refl); discriminate).
  all: try (rewrite (Hmax1 Hm1), (Hmax2 Hm1)).
  all: try reflexivity.
Qed.

(* every encoding of the decode stream decodes to what it specifies *)
Lemma enc_roundtrip e k :
  u_upper u 127 = false -> (forall r, u_upper u r = true -> u_tolower u r <> 127) ->
  enc_spec u e = Some k -> decode_key u (enc_seq e) = k.
Proof.
  intros H127 Hlow. destruct e as [g|b|c|c|x|m kk]; cbn [enc_spec enc_seq].
  - destruct g as [|r rest]; [discriminate|]. intros [= <-]. apply decode_print_roundtrip; auto.
  - destruct (in_range b 0 31) eqn:Eb; [|discriminate]. intros [= <-].
    apply decode_c0_roundtrip. unfold in_range in Eb. lia.
  - intros [= <-]. reflexivity.
  - destruct (lookup1 ss3_spec c) as [kk|] eqn:El; [|discriminate]. intros [= <-].
    now apply decode_ss3_roundtrip.
  - destruct (shape_ok x) eqn:Eo; [|discriminate]. intros [= <-]. now apply decode_shape_roundtrip.
  - destruct (small m && small kk) eqn:Es; [|discriminate]. intros [= <-].
    apply andb_true_iff in Es as [Hm Hk]. now apply decode_other_keys_roundtrip.
Qed.

End Decode.


(* ---------- cross-protocol ---------- *)
Definition ascii_like (u : uni) : Prop :=
  forall r, in_dom r = true ->
    u_upper u r = u_upper ascii_uni r /\ u_tolower u r = u_tolower ascii_uni r /\
    u_print u r = u_print ascii_uni r /\ u_toupper u r = u_toupper ascii_uni r.

(* ToUpper of a lower-case rune is never an ASCII character other than A-Z *)
Definition upper_hyp (u : uni) : Prop :=
  forall r, u_lower u r = true -> printable_nonupper (u_toupper u r) = false.

Lemma zlist_eqb_refl l : zlist_eqb l l = true.
Proof. unfold zlist_eqb. induction l; cbn; [reflexivity|]. now rewrite Z.eqb_refl. Qed.

Lemma kstr_equiv_sound a b : kstr_equivb a b = true -> forall u, key_string u a = key_string u b.
Proof.
  unfold kstr_equivb. intros H u.
  apply andb_true_iff in H as [H Hcaps]. apply andb_true_iff in H as [Hc Hp].
  apply Z.eqb_eq in Hc. apply zlist_eqb_eq in Hp.
  unfold key_string. rewrite <- Hc, <- Hp.
  destruct ((k_code a =? KeyTab) || (k_code a =? KeySpace) || (k_code a =? KeyEsc) || (k_code a =? KeyBackspace) || (k_code a =? KeyEnter)) eqn:E5; [reflexivity|].
  destruct (k_code a =? 8); [reflexivity|]. destruct (k_code a <? 0); [reflexivity|].
  destruct (k_code a <? 32) eqn:E32; [reflexivity|].
  destruct (k_code a <=? MaxRune) eqn:Emax; [|reflexivity].
  repeat (apply orb_true_iff in Hcaps; destruct Hcaps as [Hcaps|Hcaps]).
  - apply eqb_prop in Hcaps. now rewrite Hcaps.
  - unfold MaxRune in *. lia.
  - lia.
  - rewrite Hcaps in E5. rewrite !orb_true_r in E5. discriminate.
  - rewrite Hcaps in E5. rewrite !orb_true_r in E5. discriminate.
Qed.

Lemma safe_fix c x : printable_nonupper c = true -> (c =? rune_fix x) = (c =? x).
Proof.
  unfold printable_nonupper, in_range, rune_fix, rune_valid, MaxRune, RuneError. intros H.
  destruct ((0 <=? x) && (x <=? 1114111) && negb ((55296 <=? x) && (x <=? 57343))) eqn:E; [reflexivity|].
  lia.
Qed.

Definition norm_key (k : key) : key :=
  mkKey (if safe_text_code (k_code k) && (zlist_eqb (k_text k) [] || zlist_eqb (k_text k) [k_code k]) then [] else k_text k)
        (k_code k) (k_shifted k)
        (if (k_base k =? 0) || (k_base k =? k_code k) then 0 else k_base k) 0 0.

Lemma cross_all_ok_true : forallb cross_chord_ok both_expressible = true.
Proof. vm_compute. reflexivity. Qed.

Lemma existsb_In {A} (eqb : A -> A -> bool) (x : A) l :
  (forall y, eqb x y = true -> x = y) -> existsb (eqb x) l = true -> In x l.
Proof.
  intros He H. apply existsb_exists in H as [y [Hin Hy]]. apply He in Hy. now subst.
Qed.

Lemma chord_eqb_eq a b : chord_eqb a b = true -> a = b.
Proof.
  destruct a, b. unfold chord_eqb. cbn. intros H. apply andb_true_iff in H as [H1 H2].
  apply Z.eqb_eq in H1, H2. now subst.
Qed.

Lemma zlist_list_eqb_eq a b : zlist_list_eqb a b = true -> a = b.
Proof.
  revert b. induction a as [|x a IH]; intros [|y b]; cbn; try discriminate; auto.
  intros H. apply andb_true_iff in H as [Hx Hr]. apply zlist_eqb_eq in Hx. subst. f_equal. auto.
Qed.

Lemma kseq_eqb_eq a b : kseq_eqb a b = true -> a = b.
Proof.
  destruct a, b; cbn; try discriminate; intros H;
    repeat (apply andb_true_iff in H; destruct H as [H ?H]);
    repeat match goal with
           | H : zlist_eqb _ _ = true |- _ => apply zlist_eqb_eq in H
           | H : zlist_list_eqb _ _ = true |- _ => apply zlist_list_eqb_eq in H
           | H : (_ =? _) = true |- _ => apply Z.eqb_eq in H
           end; subst; reflexivity.
Qed.

Local Opaque both_expressible.

Section Cross.
Variable u : uni.
Hypothesis Hup : upper_hyp u.

Lemma norm_matches k r m km : r <> 0 ->
  matches_core u k r m km = matches_core u (norm_key k) r m km.
Proof.
  intros Hr. unfold matches_core, norm_key. cbn [k_code k_text k_shifted k_base].
  set (R1 := (k_code k =? r) && (m =? km)).
  (* base *)
  assert (HB : R1 || ((k_base k =? r) && (m =? km)) =
               R1 || (((if (k_base k =? 0) || (k_base k =? k_code k) then 0 else k_base k) =? r) && (m =? km))).
  { destruct ((k_base k =? 0) || (k_base k =? k_code k)) eqn:Eb; [|reflexivity].
    apply orb_true_iff in Eb as [Eb|Eb]; apply Z.eqb_eq in Eb; rewrite Eb.
    - reflexivity.
    - fold R1. destruct R1; cbn [orb]; [reflexivity|]. destruct (0 =? r) eqn:E0; [lia|reflexivity]. }
  (* text *)
  destruct (safe_text_code (k_code k) && (zlist_eqb (k_text k) [] || zlist_eqb (k_text k) [k_code k])) eqn:Et.
  - apply andb_true_iff in Et as [Hsafe Et]. unfold safe_text_code in Hsafe.
    apply orb_true_iff in Et as [Et|Et]; apply zlist_eqb_eq in Et; rewrite Et.
    + fold R1. destruct R1; cbn [orb andb]; [reflexivity|]. cbn [orb] in HB.
      change (zlist_eqb [] [rune_fix r]) with false. change (zlist_eqb [] [rune_fix (u_toupper u r)]) with false.
      cbn [andb orb]. rewrite !andb_false_r. cbn [orb].
      destruct ((k_shifted k =? r) && (m =? nonshift km)); cbn [orb]; [reflexivity|]. now rewrite HB.
    + assert (E2 : zlist_eqb [k_code k] [rune_fix r] = (k_code k =? r)).
      { unfold zlist_eqb. cbn. rewrite andb_true_r. now apply safe_fix. }
      assert (E6 : u_lower u r && zlist_eqb [k_code k] [rune_fix (u_toupper u r)] = false).
      { destruct (u_lower u r) eqn:El; [|reflexivity]. cbn [andb].
        unfold zlist_eqb. cbn. rewrite andb_true_r. rewrite safe_fix by exact Hsafe.
        specialize (Hup r El). destruct (k_code k =? u_toupper u r) eqn:E; [|reflexivity].
        apply Z.eqb_eq in E. rewrite <- E in Hup. congruence. }
      rewrite E2. fold R1.
      change (zlist_eqb [] [rune_fix r]) with false. change (zlist_eqb [] [rune_fix (u_toupper u r)]) with false.
      rewrite <- !andb_assoc. rewrite (andb_assoc (u_lower u r)), E6.
      cbn [andb]. rewrite !andb_false_r.
      destruct R1; cbn [orb]; [reflexivity|]. cbn [orb] in HB.
      destruct ((k_shifted k =? r) && (m =? nonshift km)); cbn [orb]; [reflexivity|]. now rewrite HB.
  - destruct (R1 || zlist_eqb (k_text k) [rune_fix r] && (m =? km)) eqn:E12.
    + reflexivity.
    + apply orb_false_iff in E12 as [E1 E2]. rewrite E1 in HB. cbn [orb] in *.
      destruct ((k_shifted k =? r) && (m =? nonshift km)); cbn [orb]; [reflexivity|]. now rewrite HB.
Qed.

Lemma norm_equiv a b : kmatch_equivb a b = true -> norm_key a = norm_key b.
Proof.
  unfold kmatch_equivb, norm_key. intros H.
  apply andb_true_iff in H as [H Ht]. apply andb_true_iff in H as [H Hb].
  apply andb_true_iff in H as [H _]. apply andb_true_iff in H as [Hc Hs].
  apply Z.eqb_eq in Hc, Hs. rewrite <- Hc, <- Hs in *. f_equal.
  - apply orb_true_iff in Ht as [Ht|Ht].
    + apply zlist_eqb_eq in Ht. now rewrite Ht.
    + apply andb_true_iff in Ht as [Ht Htb]. apply andb_true_iff in Ht as [Hsafe Hta].
      rewrite Hsafe, Hta, Htb. reflexivity.
  - apply orb_true_iff in Hb as [Hb|Hb].
    + apply Z.eqb_eq in Hb. now rewrite Hb.
    + apply andb_true_iff in Hb as [Hba Hbb]. rewrite Hba, Hbb. reflexivity.
Qed.

Lemma matches_core_norm_fields a b r m km :
  norm_key a = norm_key b -> r <> 0 -> matches_core u a r m km = matches_core u b r m km.
Proof. intros E Hr. rewrite (norm_matches a), (norm_matches b) by exact Hr. now rewrite E. Qed.

Lemma kmatch_equiv_sound a b : kmatch_equivb a b = true ->
  forall r mods, r <> 0 -> matches u a r mods = matches u b r mods.
Proof.
  intros H r mods Hr. rewrite !matches_core_eq.
  assert (Hm : strip_locks (k_mods a) = strip_locks (k_mods b)).
  { unfold kmatch_equivb in H. repeat (apply andb_true_iff in H; destruct H as [H ?]). now apply Z.eqb_eq. }
  rewrite Hm. apply matches_core_norm_fields; [now apply norm_equiv|exact Hr].
Qed.

Hypothesis Hascii : ascii_like u.

Lemma decode_ext s : seq_dom_ok s = true -> decode_key u s = decode_key ascii_uni s.
Proof.
  unfold seq_dom_ok. intros H. apply andb_true_iff in H as [H1 H2].
  assert (Hpre : decode_pre u s = decode_pre ascii_uni s).
  { destruct s; try reflexivity. cbn [decode_pre]. unfold decode_print.
    cbn [seq_first_rune] in H1.
    assert (Hr : in_dom (match g with r :: _ => r | [] => 0 end) = true) by (destruct g; [reflexivity|exact H1]).
    destruct (Hascii _ Hr) as (Eu & El & _ & _). now rewrite Eu, El. }
  unfold decode_key. rewrite Hpre. unfold decode_finish.
  destruct (Hascii _ H2) as (_ & _ & Ep & Et). now rewrite Ep, Et.
Qed.

Lemma cross_protocol c sl sk :
  In c both_expressible -> In sl (legacy_encs c) -> In sk (kitty_encs c) -> cross_guard c sk = true ->
  key_string u (decode_key u sl) = key_string u (decode_key u sk) /\
  forall r mods, r <> 0 -> matches u (decode_key u sl) r mods = matches u (decode_key u sk) r mods.
Proof.
  intros Hc Hl Hk Hg.
  assert (H : cross_pair_ok c sl sk = true).
  { pose proof (proj1 (forallb_forall cross_chord_ok both_expressible) cross_all_ok_true c Hc) as H1.
    unfold cross_chord_ok in H1.
    pose proof (proj1 (forallb_forall _ _) H1 sl Hl) as H2. cbv beta in H2.
    exact (proj1 (forallb_forall _ _) H2 sk Hk). }
  unfold cross_pair_ok in H. rewrite Hg in H. cbn [negb orb] in H.
  apply andb_true_iff in H as [Hd H]. apply andb_true_iff in Hd as [Hdl Hdk].
  apply andb_true_iff in H as [Hs Hm].
  rewrite (decode_ext sl Hdl), (decode_ext sk Hdk). split.
  - now apply kstr_equiv_sound.
  - now apply kmatch_equiv_sound.
Qed.

End Cross.

Lemma ascii_uni_like : ascii_like ascii_uni.
Proof. intros r _. repeat split. Qed.

Lemma ascii_uni_upper_hyp : upper_hyp ascii_uni.
Proof.
  intros r. unfold ascii_uni, uni_of. cbn [u_lower u_toupper]. unfold info_of.
  destruct (in_range r 0 127) eqn:Ea; cbn [find]; [|cbn; discriminate].
  unfold ascii_info. destruct (in_range r 97 122) eqn:El.
  - intros _. unfold printable_nonupper, in_range in *. lia.
  - destruct (in_range r 65 90); destruct (in_range r 32 126); cbn; discriminate.
Qed.


(* the two recorded findings are real: witnesses inside both_expressible *)
Lemma cross_esc_upper_refuted :
  let c := mkChord 97 3 in let sl := SESC [] 65 in let sk := SCSI [] [[97; 65]; [4]] 117 in
  In c both_expressible /\ In sl (legacy_encs c) /\ In sk (kitty_encs c) /\ guard_esc_upper c = true /\
  key_string ascii_uni (decode_key ascii_uni sl) = [65; 108; 116; 43; 65] /\
  key_string ascii_uni (decode_key ascii_uni sk) = [65; 108; 116; 43; 83; 104; 105; 102; 116; 43; 97] /\
  matches ascii_uni (decode_key ascii_uni sl) 97 3 = false /\
  matches ascii_uni (decode_key ascii_uni sk) 97 3 = true.
Proof.
  cbv zeta. split; [|split; [|split]].
  - apply (existsb_In chord_eqb); [apply chord_eqb_eq|]. vm_compute. reflexivity.
  - apply (existsb_In kseq_eqb); [apply kseq_eqb_eq|]. vm_compute. reflexivity.
  - apply (existsb_In kseq_eqb); [apply kseq_eqb_eq|]. vm_compute. reflexivity.
  - vm_compute. repeat split; reflexivity.
Qed.

Lemma cross_shift_noalt_refuted :
  let c := mkChord 97 1 in let sl := SPrint [65] in let sk := SCSI [] [[97]; [2]] 117 in
  In c both_expressible /\ In sl (legacy_encs c) /\ In sk (kitty_encs c) /\ guard_shift_noalt c sk = true /\
  matches ascii_uni (decode_key ascii_uni sl) 65 0 = true /\
  matches ascii_uni (decode_key ascii_uni sk) 65 0 = false.
Proof.
  cbv zeta. split; [|split; [|split]].
  - apply (existsb_In chord_eqb); [apply chord_eqb_eq|]. vm_compute. reflexivity.
  - apply (existsb_In kseq_eqb); [apply kseq_eqb_eq|]. vm_compute. reflexivity.
  - apply (existsb_In kseq_eqb); [apply kseq_eqb_eq|]. vm_compute. reflexivity.
  - vm_compute. repeat split; reflexivity.
Qed.

(* ---------- Key.String / Key.MatchString ---------- *)
Definition lower_hyp (u : uni) : Prop :=
  forall c, 0 <= c <= 127 -> u_tolower u c = if in_range c 65 90 then c + 32 else c.
(* SimpleFold on ASCII letters and digits/punctuation used in key names: folding equals ASCII case folding *)
Definition fold_hyp (u : uni) : Prop :=
  forall a b, 0 <= a <= 127 -> 0 <= b <= 127 ->
    (u_fold u a =? u_fold u b) = (u_fold ascii_uni a =? u_fold ascii_uni b).

Definition noplus (l : list Z) : bool := forallb (fun c => negb (c =? 43)) l.

Lemma split_plus_noplus cur a : noplus a = true -> split_plus cur a = [rev cur ++ a].
Proof.
  revert cur. induction a as [|c a IH]; intros cur H; cbn.
  - now rewrite app_nil_r.
  - cbn in H. apply andb_true_iff in H as [Hc Ha]. apply negb_true_iff in Hc. rewrite Hc.
    rewrite IH by exact Ha. cbn. now rewrite <- app_assoc.
Qed.

Definition pre_b (b5 b4 b3 b2 b1 b0 : bool) : list Z :=
  (if b5 then [77; 101; 116; 97; 43] else []) ++ (if b4 then [72; 121; 112; 101; 114; 43] else []) ++
  (if b3 then [83; 117; 112; 101; 114; 43] else []) ++ (if b2 then [67; 116; 114; 108; 43] else []) ++
  (if b1 then [65; 108; 116; 43] else []) ++ (if b0 then [83; 104; 105; 102; 116; 43] else []).
Definition mask_b (b5 b4 b3 b2 b1 b0 : bool) : Z :=
  (if b5 then 32 else 0) + (if b4 then 16 else 0) + (if b3 then 8 else 0) + (if b2 then 4 else 0) + (if b1 then 2 else 0) + (if b0 then 1 else 0).

(* what MatchString does with the key-name part *)
Definition name_target (u : uni) (name : list Z) : Z :=
  match name with
  | [] => RuneError
  | [r] => r
  | r :: _ => match find (fun kn => equal_fold u (snd kn) name) keyNames with
              | Some kn => fst kn
              | None => r
              end
  end.

Section Str.
Variable u : uni.
Hypothesis Hlow : lower_hyp u.

Lemma match_string_printed_b k b5 b4 b3 b2 b1 b0 name :
  noplus name = true -> name <> [] ->
  match_string u k (pre_b b5 b4 b3 b2 b1 b0 ++ name) = matches u k (name_target u name) (mask_b b5 b4 b3 b2 b1 b0).
Proof.
  intros Hn Hne.
  assert (L : forall c, 0 <= c <= 127 -> u_tolower u c = if in_range c 65 90 then c + 32 else c) by exact Hlow.
  destruct b5, b4, b3, b2, b1, b0; unfold pre_b, mask_b; cbn [app Z.add Pos.add Pos.succ]; unfold match_string, name_target.
  64: { destruct name as [|r [|r2 t]]; [contradiction|reflexivity|].
        rewrite (split_plus_noplus [] _ Hn). cbn [rev app last removelast fold_left].
        match goal with |- context [find ?f keyNames] => generalize (find f keyNames) end; intros [kn|]; reflexivity. }
  all: cbn [split_plus Z.eqb Pos.eqb rev app]; rewrite (split_plus_noplus [] name Hn);
       cbn [rev app last removelast fold_left map];
       rewrite !L by lia;
       match goal with |- context [matches _ _ RuneError ?M] => set (MM := M) end;
       vm_compute in MM; subst MM;
       destruct name as [|r [|r2 t]]; [contradiction|reflexivity|];
       match goal with |- context [find ?f keyNames] => generalize (find f keyNames) end; intros [kn|]; reflexivity.
Qed.

Lemma mods_prefix_b k : (k_event k =? EventRelease) = false ->
  mods_prefix k = pre_b (has_bit (k_mods k) ModMeta) (has_bit (k_mods k) ModHyper) (has_bit (k_mods k) ModSuper)
                        (has_bit (k_mods k) ModCtrl) (has_bit (k_mods k) ModAlt) (has_bit (k_mods k) ModShift).
Proof. intros H. unfold mods_prefix. rewrite H. reflexivity. Qed.

Hypothesis Hfold : fold_hyp u.

Lemma equal_fold_ascii a b :
  forallb (fun c => in_range c 0 127) a = true -> forallb (fun c => in_range c 0 127) b = true ->
  equal_fold u a b = equal_fold ascii_uni a b.
Proof.
  unfold equal_fold. revert b. induction a as [|x a IH]; intros [|y b] Ha Hb; cbn; try reflexivity.
  cbn in Ha, Hb. apply andb_true_iff in Ha as [Hx Ha]. apply andb_true_iff in Hb as [Hy Hb].
  rewrite Hfold by (unfold in_range in *; lia). now rewrite IH.
Qed.

End Str.

(* facts about the translated keyNames table *)
Definition ascii_list (l : list Z) : bool := forallb (fun c => in_range c 0 127) l.
Definition name_unique (c : Z) : bool :=
  match find (fun kn => equal_fold ascii_uni (snd kn) (key_name c)) keyNames with
  | Some kn => fst kn =? c
  | None => false
  end.

Lemma keyNames_facts :
  forallb (fun kn => ascii_list (snd kn) && noplus (snd kn) && (2 <=? zlen (snd kn))
                     && ((MaxRune <? fst kn) || existsb (Z.eqb (fst kn)) [9; 13; 27; 32; 127])) keyNames = true.
Proof. vm_compute. reflexivity. Qed.

Lemma key_name_in c : key_name c = [] \/ exists kn, In kn keyNames /\ fst kn = c /\ snd kn = key_name c.
Proof.
  unfold key_name. destruct (find (fun kn => fst kn =? c) keyNames) as [kn|] eqn:E; [right|left; reflexivity].
  apply find_some in E as [Hin Hc]. apply Z.eqb_eq in Hc. eauto.
Qed.

Lemma key_name_facts c : key_name c <> [] ->
  ascii_list (key_name c) = true /\ noplus (key_name c) = true /\ 2 <= zlen (key_name c) /\
  (MaxRune < c \/ In c [9; 13; 27; 32; 127]).
Proof.
  intros Hne. destruct (key_name_in c) as [E|[kn [Hin [Hc Hs]]]]; [contradiction|].
  pose proof keyNames_facts as F. rewrite forallb_forall in F. specialize (F kn Hin).
  rewrite Hs, Hc in F. repeat (apply andb_true_iff in F; destruct F as [F ?H]).
  repeat split; try assumption; try lia.
  apply orb_true_iff in H as [H|H]; [left; lia|right].
  apply existsb_exists in H as [x [Hx He]]. apply Z.eqb_eq in He. now subst.
Qed.

Lemma zrange_In a n x : a <= x < a + Z.of_nat n -> In x (zrange a n).
Proof.
  revert a. induction n as [|n IH]; intros a H; [lia|]. cbn [zrange].
  destruct (Z.eq_dec a x); [left; assumption|right; apply IH; lia].
Qed.

Lemma mask_b_strip_all :
  forallb (fun m => has_bit m ModCapsLock ||
     (strip_locks (mask_b (has_bit m ModMeta) (has_bit m ModHyper) (has_bit m ModSuper) (has_bit m ModCtrl) (has_bit m ModAlt) (has_bit m ModShift))
      =? strip_locks m)) (zrange 0 256) = true.
Proof. vm_compute. reflexivity. Qed.

Lemma mask_b_strip m : 0 <= m <= 255 -> has_bit m ModCapsLock = false ->
  strip_locks (mask_b (has_bit m ModMeta) (has_bit m ModHyper) (has_bit m ModSuper) (has_bit m ModCtrl) (has_bit m ModAlt) (has_bit m ModShift))
  = strip_locks m.
Proof.
  intros Hm Hc. pose proof mask_b_strip_all as F. rewrite forallb_forall in F.
  specialize (F m (zrange_In 0 256 m ltac:(lia))). rewrite Hc in F. cbn [orb] in F. now apply Z.eqb_eq.
Qed.

(* the keys whose String() is a binding string that MatchString parses back to the key *)
Definition sm_scope (k : key) : bool :=
  negb (k_event k =? EventRelease) && negb (has_bit (k_mods k) ModCapsLock) && in_range (k_mods k) 0 255 &&
  ((in_range (k_code k) 33 MaxRune && rune_valid (k_code k) && negb (k_code k =? 43) && negb (k_code k =? 127))
   || (negb (match key_name (k_code k) with [] => true | _ => false end) && name_unique (k_code k))).

Lemma name_target_long u name : 2 <= zlen name ->
  name_target u name = match find (fun kn => equal_fold u (snd kn) name) keyNames with Some kn => fst kn | None => hd 0 name end.
Proof.
  unfold zlen. destruct name as [|r [|r2 t]]; cbn [length]; try lia. intros _. reflexivity.
Qed.

Section SelfString.
Variable u : uni.
Hypothesis Hlow : lower_hyp u.
Hypothesis Hfold : fold_hyp u.

Lemma string_self_match k : sm_scope k = true -> match_string u k (key_string u k) = true.
Proof.
  unfold sm_scope. intros H.
  apply andb_true_iff in H as [H Hcode]. apply andb_true_iff in H as [H Hm].
  apply andb_true_iff in H as [Hev Hcaps]. apply negb_true_iff in Hev, Hcaps.
  assert (Hm' : 0 <= k_mods k <= 255) by (unfold in_range in Hm; lia).
  assert (Hfin : forall body, noplus body = true -> body <> [] -> name_target u body = k_code k ->
                 match_string u k (mods_prefix k ++ body) = true).
  { intros body Hn Hne Ht. rewrite (mods_prefix_b k Hev), (match_string_printed_b u Hlow) by assumption.
    rewrite Ht, matches_core_eq, (mask_b_strip _ Hm' Hcaps). unfold matches_core. now rewrite !Z.eqb_refl. }
  apply orb_true_iff in Hcode as [Hr|Hn].
  - (* a rune *)
    repeat (apply andb_true_iff in Hr; destruct Hr as [Hr ?H]).
    apply negb_true_iff in H, H0. apply Z.eqb_neq in H, H0.
    assert (Hc : 33 <= k_code k <= MaxRune) by (unfold in_range in Hr; lia).
    assert (Hname : key_name (k_code k) = []).
    { destruct (key_name (k_code k)) eqn:E; [reflexivity|].
      destruct (key_name_facts (k_code k)) as (_ & _ & _ & Hk); [rewrite E; discriminate|].
      destruct Hk as [Hk|Hk]; [lia|]. cbn in Hk. lia. }
    unfold key_string.
    change KeyTab with 9. change KeySpace with 32. change KeyEsc with 27. change KeyBackspace with 127. change KeyEnter with 13.
    replace ((k_code k =? 9) || (k_code k =? 32) || (k_code k =? 27) || (k_code k =? 127) || (k_code k =? 13)) with false by lia.
    replace (k_code k =? 8) with false by lia. replace (k_code k <? 0) with false by lia.
    replace (k_code k <? 32) with false by lia. replace (k_code k <=? MaxRune) with true by lia.
    rewrite Hcaps, Hname, app_nil_r. unfold rune_fix. rewrite H1.
    apply Hfin; [cbn; now rewrite (proj2 (Z.eqb_neq _ _) H0)|discriminate|reflexivity].
  - (* a named key *)
    apply andb_true_iff in Hn as [Hne Hu]. apply negb_true_iff in Hne.
    assert (Hne' : key_name (k_code k) <> []) by (intros E; rewrite E in Hne; discriminate).
    destruct (key_name_facts _ Hne') as (Ha & Hnp & Hlen & Hk).
    assert (Hstr : key_string u k = mods_prefix k ++ key_name (k_code k)).
    { unfold key_string.
      change KeyTab with 9. change KeySpace with 32. change KeyEsc with 27. change KeyBackspace with 127. change KeyEnter with 13.
      destruct Hk as [Hk|Hk].
      - unfold MaxRune in Hk.
        replace ((k_code k =? 9) || (k_code k =? 32) || (k_code k =? 27) || (k_code k =? 127) || (k_code k =? 13)) with false by lia.
        replace (k_code k =? 8) with false by lia. replace (k_code k <? 0) with false by lia.
        replace (k_code k <? 32) with false by lia. replace (k_code k <=? MaxRune) with false by (unfold MaxRune; lia).
        reflexivity.
      - replace ((k_code k =? 9) || (k_code k =? 32) || (k_code k =? 27) || (k_code k =? 127) || (k_code k =? 13)) with true by (cbn in Hk; lia).
        reflexivity. }
    rewrite Hstr. apply Hfin; [exact Hnp|exact Hne'|].
    rewrite (name_target_long u _ Hlen).
    assert (Hfind : find (fun kn => equal_fold u (snd kn) (key_name (k_code k))) keyNames
                  = find (fun kn => equal_fold ascii_uni (snd kn) (key_name (k_code k))) keyNames).
    { pose proof keyNames_facts as F. rewrite forallb_forall in F.
      clear -F Ha Hfold. induction keyNames as [|kn l IH]; [reflexivity|]. cbn [find].
      assert (Hkn : ascii_list (snd kn) = true).
      { specialize (F kn (or_introl eq_refl)). repeat (apply andb_true_iff in F; destruct F as [F ?H]). exact F. }
      rewrite (equal_fold_ascii u Hfold _ _ Hkn Ha). destruct (equal_fold ascii_uni (snd kn) (key_name (k_code k))); [reflexivity|].
      apply IH. intros x Hx. apply F. now right. }
    rewrite Hfind. unfold name_unique in Hu.
    destruct (find (fun kn => equal_fold ascii_uni (snd kn) (key_name (k_code k))) keyNames) as [kn|]; [|discriminate].
    now apply Z.eqb_eq.
Qed.

End SelfString.

Lemma ascii_uni_lower_hyp : lower_hyp ascii_uni.
Proof.
  intros c Hc. unfold ascii_uni, uni_of. cbn [u_tolower]. unfold info_of.
  replace (in_range c 0 127) with true by (unfold in_range; lia). reflexivity.
Qed.

Lemma ascii_uni_fold_hyp : fold_hyp ascii_uni.
Proof. intros a b _ _. reflexivity. Qed.

(* the named keys whose name does not lead back to them, and the decodable keys without a name *)
Lemma name_unique_failures :
  map fst (filter (fun kn => negb (name_unique (fst kn))) keyNames) = [KeyPrintScreen].
Proof. vm_compute. reflexivity. Qed.

(* ---------- the description (String()) of a chord under every encoding ---------- *)
(* String() does not distinguish key events that are the same key (BS = DEL = Backspace) with the same
   Shift/Alt/Ctrl/Super/Hyper/Meta prefix and, where it matters, the same Caps Lock state: for ALL keys *)
Lemma kdesc_equiv_sound a b : kdesc_equivb a b = true -> forall u, key_string u a = key_string u b.
Proof.
  unfold kdesc_equivb. intros H u.
  apply andb_true_iff in H as [H Hcaps]. apply andb_true_iff in H as [Hc Hp].
  apply Z.eqb_eq in Hc. apply zlist_eqb_eq in Hp.
  unfold key_string. cbv zeta. rewrite <- Hp.
  unfold desc_code in Hc. unfold caps_blind in Hcaps.
  change KeyTab with 9 in *. change KeySpace with 32 in *. change KeyEsc with 27 in *.
  change KeyBackspace with 127 in *. change KeyEnter with 13 in *. unfold MaxRune in *.
  destruct (k_code a =? 8) eqn:Ea8; destruct (k_code b =? 8) eqn:Eb8.
  - apply Z.eqb_eq in Ea8, Eb8. rewrite Ea8, Eb8. reflexivity.
  - apply Z.eqb_eq in Ea8. rewrite Ea8, <- Hc. reflexivity.
  - apply Z.eqb_eq in Eb8. rewrite Eb8, Hc. reflexivity.
  - rewrite <- Hc.
    destruct ((k_code a =? 9) || (k_code a =? 32) || (k_code a =? 27) || (k_code a =? 127) || (k_code a =? 13)) eqn:E5; [reflexivity|].
    destruct (k_code a <? 0); [reflexivity|].
    destruct (k_code a <? 32) eqn:E32; [reflexivity|].
    destruct (k_code a <=? 1114111) eqn:Emax; [|reflexivity].
    apply orb_true_iff in Hcaps as [Hcaps|Hcaps].
    + apply eqb_prop in Hcaps. now rewrite Hcaps.
    + apply andb_true_iff in Hcaps as [Hcaps _].
      repeat (apply orb_false_iff in E5; destruct E5 as [E5 ?E]).
      lia.
Qed.

Lemma desc_all_ok_true : forallb desc_chord_ok desc_chords = true.
Proof. vm_compute. reflexivity. Qed.

Lemma desc_chord_in c : desc_chord c = true -> In c desc_chords.
Proof.
  destruct c as [k m]. unfold desc_chord, desc_chords. cbn [ch_code ch_mods]. intros H.
  apply andb_true_iff in H as [Hk Hm].
  apply in_flat_map. exists k. split.
  - unfold desc_keys. apply in_or_app. apply orb_true_iff in Hk as [Hk|Hk].
    + left. apply filter_In. split; [|exact Hk].
      apply zrange_In. unfold printable_nonupper, in_range in Hk. lia.
    + right. unfold special4 in Hk. cbn [In].
      repeat (apply orb_true_iff in Hk; destruct Hk as [Hk|Hk]); apply Z.eqb_eq in Hk; subst; tauto.
  - apply in_map. apply zrange_In. unfold in_range in Hm. lia.
Qed.

Local Opaque desc_chords.

Section Desc.
Variable u : uni.
Hypothesis Hascii : ascii_like u.

Lemma description_of_encoding c s :
  desc_chord c = true -> In s (all_encs c) -> guard_esc_upper_seq c s = false ->
  key_string u (decode_key u s) = key_string u (chord_key c).
Proof.
  intros Hc Hs Hg. apply desc_chord_in in Hc.
  pose proof (proj1 (forallb_forall desc_chord_ok desc_chords) desc_all_ok_true c Hc) as H1.
  unfold desc_chord_ok in H1.
  pose proof (proj1 (forallb_forall _ _) H1 s Hs) as H2.
  unfold desc_enc_ok in H2. rewrite Hg in H2. cbn [orb] in H2.
  apply andb_true_iff in H2 as [Hd He].
  rewrite (decode_ext u Hascii s Hd). now apply kdesc_equiv_sound.
Qed.

Lemma description_encoding_independent c s1 s2 :
  desc_chord c = true -> In s1 (all_encs c) -> In s2 (all_encs c) ->
  guard_esc_upper_seq c s1 = false -> guard_esc_upper_seq c s2 = false ->
  key_string u (decode_key u s1) = key_string u (decode_key u s2).
Proof.
  intros Hc H1 H2 G1 G2.
  rewrite (description_of_encoding c s1 Hc H1 G1), (description_of_encoding c s2 Hc H2 G2). reflexivity.
Qed.

Lemma desc_obs_ok_model c s1 s2 :
  desc_chord c = true -> In s1 (all_encs c) -> In s2 (all_encs c) ->
  desc_obs_ok c s1 s2 (key_string u (chord_key c)) (key_string u (decode_key u s1)) (key_string u (decode_key u s2)) = true.
Proof.
  intros Hc H1 H2. unfold desc_obs_ok.
  destruct (guard_esc_upper_seq c s1) eqn:G1; destruct (guard_esc_upper_seq c s2) eqn:G2; cbn [orb andb];
    repeat rewrite (description_of_encoding c s1 Hc H1 G1);
    repeat rewrite (description_of_encoding c s2 Hc H2 G2);
    rewrite ?zlist_eqb_refl; reflexivity.
Qed.
End Desc.


(* ---------- the chord matches its own binding under every encoding ---------- *)
Section OwnString.
Variable u : uni.
Hypothesis Hlow : lower_hyp u.
Hypothesis Hfold : fold_hyp u.

(* MatchString of a printed binding: for every event k and every printed key k0 in scope *)
Lemma string_binding_parse k0 k : sm_scope k0 = true ->
  match_string u k (key_string u k0) = matches u k (k_code k0) (k_mods k0).
Proof.
  unfold sm_scope. intros H.
  apply andb_true_iff in H as [H Hcode]. apply andb_true_iff in H as [H Hm].
  apply andb_true_iff in H as [Hev Hcaps]. apply negb_true_iff in Hev, Hcaps.
  assert (Hm' : 0 <= k_mods k0 <= 255) by (unfold in_range in Hm; lia).
  assert (Hfin : forall body, noplus body = true -> body <> [] -> name_target u body = k_code k0 ->
                 match_string u k (mods_prefix k0 ++ body) = matches u k (k_code k0) (k_mods k0)).
  { intros body Hn Hne Ht. rewrite (mods_prefix_b k0 Hev), (match_string_printed_b u Hlow) by assumption.
    rewrite Ht, !matches_core_eq, (mask_b_strip _ Hm' Hcaps). reflexivity. }
  apply orb_true_iff in Hcode as [Hr|Hn].
  - repeat (apply andb_true_iff in Hr; destruct Hr as [Hr ?H]).
    apply negb_true_iff in H, H0. apply Z.eqb_neq in H, H0.
    assert (Hc : 33 <= k_code k0 <= MaxRune) by (unfold in_range in Hr; lia).
    assert (Hname : key_name (k_code k0) = []).
    { destruct (key_name (k_code k0)) eqn:E; [reflexivity|].
      destruct (key_name_facts (k_code k0)) as (_ & _ & _ & Hk); [rewrite E; discriminate|].
      destruct Hk as [Hk|Hk]; [lia|]. cbn in Hk. lia. }
    unfold key_string.
    change KeyTab with 9. change KeySpace with 32. change KeyEsc with 27. change KeyBackspace with 127. change KeyEnter with 13.
    replace ((k_code k0 =? 9) || (k_code k0 =? 32) || (k_code k0 =? 27) || (k_code k0 =? 127) || (k_code k0 =? 13)) with false by lia.
    replace (k_code k0 =? 8) with false by lia. replace (k_code k0 <? 0) with false by lia.
    replace (k_code k0 <? 32) with false by lia. replace (k_code k0 <=? MaxRune) with true by lia.
    rewrite Hcaps, Hname, app_nil_r. unfold rune_fix. rewrite H1.
    apply Hfin; [cbn; now rewrite (proj2 (Z.eqb_neq _ _) H0)|discriminate|reflexivity].
  - apply andb_true_iff in Hn as [Hne Hu]. apply negb_true_iff in Hne.
    assert (Hne' : key_name (k_code k0) <> []) by (intros E; rewrite E in Hne; discriminate).
    destruct (key_name_facts _ Hne') as (Ha & Hnp & Hlen & Hk).
    assert (Hstr : key_string u k0 = mods_prefix k0 ++ key_name (k_code k0)).
    { unfold key_string.
      change KeyTab with 9. change KeySpace with 32. change KeyEsc with 27. change KeyBackspace with 127. change KeyEnter with 13.
      destruct Hk as [Hk|Hk].
      - unfold MaxRune in Hk.
        replace ((k_code k0 =? 9) || (k_code k0 =? 32) || (k_code k0 =? 27) || (k_code k0 =? 127) || (k_code k0 =? 13)) with false by lia.
        replace (k_code k0 =? 8) with false by lia. replace (k_code k0 <? 0) with false by lia.
        replace (k_code k0 <? 32) with false by lia. replace (k_code k0 <=? MaxRune) with false by (unfold MaxRune; lia).
        reflexivity.
      - replace ((k_code k0 =? 9) || (k_code k0 =? 32) || (k_code k0 =? 27) || (k_code k0 =? 127) || (k_code k0 =? 13)) with true by (cbn in Hk; lia).
        reflexivity. }
    rewrite Hstr. apply Hfin; [exact Hnp|exact Hne'|].
    rewrite (name_target_long u _ Hlen).
    assert (Hfind : find (fun kn => equal_fold u (snd kn) (key_name (k_code k0))) keyNames
                  = find (fun kn => equal_fold ascii_uni (snd kn) (key_name (k_code k0))) keyNames).
    { pose proof keyNames_facts as F. rewrite forallb_forall in F.
      clear -F Ha Hfold. induction keyNames as [|kn l IH]; [reflexivity|]. cbn [find].
      assert (Hkn : ascii_list (snd kn) = true).
      { specialize (F kn (or_introl eq_refl)). repeat (apply andb_true_iff in F; destruct F as [F ?H]). exact F. }
      rewrite (equal_fold_ascii u Hfold _ _ Hkn Ha). destruct (equal_fold ascii_uni (snd kn) (key_name (k_code k0))); [reflexivity|].
      apply IH. intros x Hx. apply F. now right. }
    rewrite Hfind. unfold name_unique in Hu.
    destruct (find (fun kn => equal_fold ascii_uni (snd kn) (key_name (k_code k0))) keyNames) as [kn|]; [|discriminate].
    now apply Z.eqb_eq.
Qed.
End OwnString.

Lemma rule1_matches k r mods : rule1 k r mods = true -> forall u, matches u k r mods = true.
Proof. unfold rule1, matches. intros H u. cbv zeta. rewrite H. reflexivity. Qed.

Lemma own_all_ok_true : forallb own_chord_ok desc_chords = true.
Proof. vm_compute. reflexivity. Qed.

Lemma own_scope_true :
  forallb (fun c => (ch_code c =? 43) || sm_scope (chord_key c)) desc_chords = true.
Proof. vm_compute. reflexivity. Qed.

Local Opaque desc_chords.

Section Own.
Variable u : uni.
Hypothesis Hascii : ascii_like u.

Lemma own_binding_matches c s :
  desc_chord c = true -> In s (all_encs c) -> guard_esc_upper_seq c s = false ->
  matches u (decode_key u s) (ch_code c) (ch_mods c) = true.
Proof.
  intros Hc Hs Hg. apply desc_chord_in in Hc.
  pose proof (proj1 (forallb_forall own_chord_ok desc_chords) own_all_ok_true c Hc) as H1.
  unfold own_chord_ok in H1.
  pose proof (proj1 (forallb_forall _ _) H1 s Hs) as H2.
  unfold own_enc_ok in H2. rewrite Hg in H2. cbn [orb] in H2.
  apply andb_true_iff in H2 as [Hd He].
  rewrite (decode_ext u Hascii s Hd). now apply rule1_matches.
Qed.

Hypothesis Hlow : lower_hyp u.
Hypothesis Hfold : fold_hyp u.

Lemma own_binding_string c s :
  desc_chord c = true -> In s (all_encs c) -> guard_esc_upper_seq c s = false ->
  guard_plus_binding c = false ->
  match_string u (decode_key u s) (key_string u (decode_key u s)) = true.
Proof.
  intros Hc Hs Hg Hp.
  rewrite (description_of_encoding u Hascii c s Hc Hs Hg).
  pose proof (own_binding_matches c s Hc Hs Hg) as Hm.
  pose proof (proj1 (forallb_forall _ desc_chords) own_scope_true c (desc_chord_in c Hc)) as Hsc.
  cbv beta in Hsc. apply orb_true_iff in Hsc as [H43|Hsc].
  - (* the bare '+' key: String() is "+", a single rune *)
    unfold guard_plus_binding in Hp. rewrite H43 in Hp. cbn [andb] in Hp. apply negb_false_iff in Hp.
    apply Z.eqb_eq in H43, Hp. destruct c as [k m]. cbn [ch_code ch_mods] in *. subst k m.
    exact Hm.
  - rewrite (string_binding_parse u Hlow Hfold _ _ Hsc). exact Hm.
Qed.

Lemma own_obs_ok_model c s :
  desc_chord c = true -> In s (all_encs c) ->
  own_obs_ok c s (matches u (decode_key u s) (ch_code c) (ch_mods c))
                 (match_string u (decode_key u s) (key_string u (decode_key u s))) = true.
Proof.
  intros Hc Hs. unfold own_obs_ok.
  destruct (guard_esc_upper_seq c s) eqn:G; [reflexivity|]. cbn [orb].
  rewrite (own_binding_matches c s Hc Hs G). cbn [andb].
  destruct (guard_plus_binding c) eqn:P; [reflexivity|]. cbn [orb].
  exact (own_binding_string c s Hc Hs G P).
Qed.

(* the instance the fix bc2c33a makes true: Backspace with any modifiers under every encoding *)
Lemma backspace_own_binding m s : 0 <= m <= 63 -> In s (all_encs (mkChord KeyBackspace m)) ->
  matches u (decode_key u s) KeyBackspace m = true /\
  match_string u (decode_key u s) (key_string u (decode_key u s)) = true.
Proof.
  intros Hm Hs.
  assert (Hc : desc_chord (mkChord KeyBackspace m) = true).
  { unfold desc_chord. cbn [ch_code ch_mods]. unfold in_range. change (special4 KeyBackspace) with true. rewrite orb_true_r. lia. }
  split.
  - exact (own_binding_matches _ s Hc Hs eq_refl).
  - exact (own_binding_string _ s Hc Hs eq_refl eq_refl).
Qed.
End Own.

(* before the fix the theorem was false *)
Lemma own_binding_unfixed_refuted :
  let c := mkChord KeyBackspace 4 in let s := SCSI [] [[27]; [5]; [8]] 126 in
  desc_chord c = true /\ existsb (kseq_eqb s) (all_encs c) = true /\ guard_esc_upper_seq c s = false /\
  guard_plus_binding c = false /\
  k_code (decode_key_unfixed ascii_uni s) = 8 /\
  matches ascii_uni (decode_key_unfixed ascii_uni s) KeyBackspace 4 = false /\
  match_string ascii_uni (decode_key_unfixed ascii_uni s) (key_string ascii_uni (decode_key_unfixed ascii_uni s)) = false /\
  matches ascii_uni (decode_key ascii_uni s) KeyBackspace 4 = true.
Proof. vm_compute. repeat split; reflexivity. Qed.
