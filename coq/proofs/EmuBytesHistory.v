(* C12 - from BYTES: the emulator model fed the bytes of every frame of every history (through
   the parser model of C02 and uniseg as an oracle) shows the application's screen.
   Composition of proofs/EmuHistory.v (the history induction) with proofs/EmuWireParse.v (the
   bytes of a frame are read as [enc_tok] of its tokens) and proofs/RenderBytesWf.v (the
   renderer's output is in the vocabulary the serialisation covers when the content is
   printable). *)
From Vx Require Import base.Prelude base.ListX model.Colour model.RenderTypes model.Render model.RefTerm
  model.RenderSpec model.RenderCheck model.Gate model.EmuSpec model.EmuBridge model.EmuWire model.RenderBytes
  model.EmuBytes.
From Vx Require Import proofs.RenderDelta proofs.RenderRow proofs.RenderFrame proofs.RenderHistory
  proofs.RenderBytesWf proofs.EmuRefine proofs.EmuToksOk proofs.EmuResize proofs.EmuHistory proofs.EmuWireParse.
Require Import ZifyBool Lia.
Local Open Scope Z_scope.

Lemma emu_feed_other t l : emu_feed t (l ++ [T.TOther]) = emu_feed t l.
Proof. rewrite emu_feed_app. destruct (emu_feed t l); reflexivity. Qed.

(* the emulator fed the bytes of a token list = the emulator fed the encoded tokens *)
Theorem emu_bytes_toks tw seg t ks :
  forallb tok_wire_ok ks = true -> seg_agrees tw seg ks = true ->
  emu_bytes seg t (ser_bytes ks) = emu_toks tw t ks.
Proof.
  intros Hw Hs. unfold emu_bytes, emu_toks. rewrite (wire_exact tw seg ks Hw Hs). apply emu_feed_other.
Qed.

(* the side condition of the simulation and the vocabulary of the serialisation together are
   the vocabulary of the wire theorem *)
Lemma toks_wire_ok tw : forall ks r, toks_ok tw r ks -> toks_wfb ks = true -> forallb tok_wire_ok ks = true.
Proof.
  induction ks as [|k ks IH]; intros r Hok Hwf; [reflexivity|].
  destruct Hok as [(Ha & Ho & _) Hrest].
  unfold toks_wfb in Hwf. cbn [forallb] in Hwf. apply andb_prop in Hwf as [Hw Hu].
  apply andb_prop in Hw as [Hw1 Hw2]. apply andb_prop in Hu as [Hu1 Hu2].
  cbn [forallb]. unfold tok_wire_ok at 1. rewrite Ha, Ho, Hw1, Hu1. cbn [andb].
  apply (IH (interp1 tw r k) Hrest). unfold toks_wfb. now rewrite Hw2, Hu2.
Qed.

(* every frame (drawing calls, then Render or Refresh): Vaxis writes the bytes [ser_bytes o] of
   its tokens; the emulator parses them.  Hypotheses per frame, all on content: C01's
   [content_ok], [wire_ok], printable content [content_wf] (graphemes, hyperlinks and pointer
   shape free of C0 controls and surrogates), and the oracle hypothesis [seg_agrees] on the
   frame's text.  A size change: T.resize, under [hyp] *)
Fixpoint emu_history_bytes (hyp : T.term -> Prop) (tw measure : list Z -> Z) (seg : segm) (s : vstate) (rows cols : Z)
    (t : T.term) (fs : list frame) : Prop :=
  match fs with
  | [] => True
  | (ops, e) :: rest =>
      let s1 := fold_left apply_op ops s in
      match e with
      | FResize rows2 cols2 =>
          1 <= rows2 -> 1 <= cols2 -> size_ok rows2 cols2 -> hyp t ->
          exists t2, T.resize t cols2 rows2 = T.TOk t2 /\
            emu_history_bytes hyp tw measure seg (do_resize s1 rows2 cols2) rows2 cols2 t2 rest
      | _ =>
          content_ok tw measure term_caps s1 -> wire_ok s1 = true -> content_wf s1 ->
          let '(s', o) := do_frame s ops e in
          seg_agrees tw seg o = true ->
          exists t', emu_bytes seg t (ser_bytes o) = T.TOk t' /\
            grid_shows term_caps (v_next s1) (grid_of t') = true /\
            cursor_shows rows cols (v_cnext s1) (ecursor_of t') = true /\
            emu_history_bytes hyp tw measure seg s' rows cols t' rest
      end
  end.

Definition bytes_fhyp (tw : list Z -> Z) (seg : segm) (s1 : vstate) (o : list tok) : Prop :=
  toks_wfb o = true /\ seg_agrees tw seg o = true.

Lemma bytes_feed_ok tw seg : forall t r o s1, toks_ok tw r o -> bytes_fhyp tw seg s1 o ->
  emu_bytes seg t (ser_bytes o) = emu_toks tw t o.
Proof.
  intros t r o s1 Hok [Hwf Hs]. apply emu_bytes_toks; [|exact Hs]. exact (toks_wire_ok tw o r Hok Hwf).
Qed.

Lemma hist_gen_bytes hyp tw measure seg : forall fs s rows cols t,
  hist_gen hyp (fun t o => emu_bytes seg t (ser_bytes o)) (bytes_fhyp tw seg) tw measure s rows cols t fs ->
  emu_history_bytes hyp tw measure seg s rows cols t fs.
Proof.
  induction fs as [|[ops fe] rest IH]; intros s rows cols t H; [exact I|].
  cbn [hist_gen emu_history_bytes] in *. cbv zeta in *.
  destruct fe as [| |rows2 cols2].
  - intros Hok Hw Hwf. specialize (H Hok Hw).
    pose proof (frame_ok_wf s ops FRender Hwf) as Hf.
    destruct (do_frame s ops FRender) as [s' o]. cbn [snd] in Hf. intros Hs.
    destruct (H (conj Hf Hs)) as (t' & A & B & C & D). exists t'. auto.
  - intros Hok Hw Hwf. specialize (H Hok Hw).
    pose proof (frame_ok_wf s ops FRefresh Hwf) as Hf.
    destruct (do_frame s ops FRefresh) as [s' o]. cbn [snd] in Hf. intros Hs.
    destruct (H (conj Hf Hs)) as (t' & A & B & C & D). exists t'. auto.
  - intros H1 H2 H3 H4. destruct (H H1 H2 H3 H4) as (t2 & A & B). exists t2. auto.
Qed.

Theorem emu_history_bytes_alt tw measure seg fs s r t e w h :
  v_caps s = term_caps -> settled s r -> (v_refresh s = false -> in_sync measure term_caps s r) ->
  size_ok (tm_rows r) (tm_cols r) ->
  TP.WFs0 e w h t -> vaxis_modes t = true -> emu_rel t r -> alt_plain t ->
  emu_history_bytes (fun _ => True) tw measure seg s (tm_rows r) (tm_cols r) t fs.
Proof.
  intros. apply hist_gen_bytes.
  apply (hist_gen_correct (fun _ => True) alt_plain) with (e := e) (w := w) (h := h); auto.
  - exact alt_plain_keeps.
  - exact inv_resize_alt.
  - apply bytes_feed_ok.
Qed.

Theorem emu_history_bytes_correct tw measure seg fs s r t e w h :
  v_caps s = term_caps -> settled s r -> (v_refresh s = false -> in_sync measure term_caps s r) ->
  size_ok (tm_rows r) (tm_cols r) ->
  TP.WFs0 e w h t -> vaxis_modes t = true -> emu_rel t r ->
  emu_history_bytes (fun _ => True) tw measure seg s (tm_rows r) (tm_cols r) t fs.
Proof.
  intros. apply hist_gen_bytes.
  apply (hist_gen_correct (fun _ => True) (fun _ => True)) with (e := e) (w := w) (h := h); auto.
  - exact inv_resize_pen.
  - apply bytes_feed_ok.
Qed.

(* from start states, without a reference terminal *)
Theorem app_in_term_bytes tw measure seg rows cols t0 e fs :
  1 <= rows -> 1 <= cols -> size_ok rows cols ->
  TP.WFs0 e cols rows t0 -> vaxis_modes t0 = true -> start_ok t0 = true -> alt_plainb t0 = true ->
  emu_history_bytes (fun _ => True) tw measure seg (vinit term_caps rows cols) rows cols t0 fs.
Proof.
  intros Hr Hc Hsz W M S A.
  destruct (start_rel e cols rows t0 W S) as (R & Q1 & Q2 & Q3 & Q4 & Q5 & Q6).
  assert (H : emu_history_bytes (fun _ => True) tw measure seg (vinit term_caps rows cols)
                (tm_rows (ref_start t0)) (tm_cols (ref_start t0)) t0 fs).
  { apply (emu_history_bytes_alt tw measure seg fs _ (ref_start t0) t0 e cols rows); auto.
    - now apply vinit_settled.
    - intros Hf; discriminate.
    - rewrite Q1, Q2. exact Hsz.
    - now apply alt_plainb_ok. }
  rewrite Q1, Q2 in H. exact H.
Qed.

Theorem app_in_term_bytes_any tw measure seg rows cols t0 e fs :
  1 <= rows -> 1 <= cols -> size_ok rows cols ->
  TP.WFs0 e cols rows t0 -> vaxis_modes t0 = true -> start_ok t0 = true ->
  emu_history_bytes (fun _ => True) tw measure seg (vinit term_caps rows cols) rows cols t0 fs.
Proof.
  intros Hr Hc Hsz W M S.
  destruct (start_rel e cols rows t0 W S) as (R & Q1 & Q2 & Q3 & Q4 & Q5 & Q6).
  assert (H : emu_history_bytes (fun _ => True) tw measure seg (vinit term_caps rows cols)
                (tm_rows (ref_start t0)) (tm_cols (ref_start t0)) t0 fs).
  { apply (emu_history_bytes_correct tw measure seg fs _ (ref_start t0) t0 e cols rows); auto.
    - now apply vinit_settled.
    - intros Hf; discriminate.
    - rewrite Q1, Q2. exact Hsz. }
  rewrite Q1, Q2 in H. exact H.
Qed.
