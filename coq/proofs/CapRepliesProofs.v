(* C07: for EVERY list of DECRPM replies (any modes, any values, malformed or missing values,
   repeated or unsolicited reports, any order) the capabilities that the model of
   handleSequence + New's start-up loop (model/Input.v) reports are exactly the advertised ones
   (model/CapReplies.v rpm_advertises). *)
From Vx Require Import base.Prelude base.ListX model.Parser model.Gate.
From Vx Require Import model.CapReplies.
From Vx Require model.Input.
Import Input.

(* ---- New's loop learns exactly the capability events that precede the DA1 reply (the same
   fact as C03_startup_collects_exactly; proved here so that this file depends on the model
   only) ---- *)
Definition is_da1 (e : event) : bool := match e with EDA1 => true | _ => false end.
Fixpoint before_da1 (evs : list event) : list event :=
  match evs with [] => [] | e :: t => if is_da1 e then [] else e :: before_da1 t end.
Fixpoint after_da1 (evs : list event) : list event :=
  match evs with [] => [] | e :: t => if is_da1 e then t else after_da1 t end.
Definition capev_eqb (a b : capev) : bool := capev_code a =? capev_code b.
Definition is_cap (c : capev) (e : event) : bool := match e with ECap c' => capev_eqb c c' | _ => false end.

Lemma caps_get_set cp c c' : caps_get (caps_set cp c) c' = capev_eqb c' c || caps_get cp c'.
Proof. destruct c, c'; reflexivity. Qed.

Lemma caps_get_osc176 cp c : caps_get (set_osc176 cp) c = caps_get cp c.
Proof. destruct c; reflexivity. Qed.

Lemma startup_event_caps su e :
  snd (startup_event false su e) = is_da1 e /\
  forall c, caps_get (su_caps (fst (startup_event false su e))) c = caps_get (su_caps su) c || is_cap c e.
Proof.
  destruct e; cbn [startup_event is_da1 is_cap fst snd]; try (split; [reflexivity|]; intros c0; rewrite ?orb_false_r; reflexivity).
  all: try (split; [reflexivity|]; intros c0; cbn [su_caps]; rewrite caps_get_osc176, orb_false_r; reflexivity).
  split; [destruct c; reflexivity|]. intros c0. destruct c; cbn [fst su_caps]; rewrite caps_get_set; apply orb_comm.
Qed.

Lemma collect_caps_exact evs : forall su,
  let '(su', rest, got) := collect_caps false su evs in
  rest = after_da1 evs /\ got = existsb is_da1 evs /\
  forall c, caps_get (su_caps su') c = caps_get (su_caps su) c || existsb (is_cap c) (before_da1 evs).
Proof.
  induction evs as [|e t IH]; intros su.
  - cbn. repeat split. intros c. rewrite orb_false_r. reflexivity.
  - cbn [collect_caps before_da1 after_da1 existsb].
    destruct (startup_event_caps su e) as [Hstop Hcaps].
    destruct (startup_event false su e) as [su1 stop]. cbn [fst snd] in *. subst stop.
    destruct (is_da1 e) eqn:Ed.
    + cbn. repeat split. intros c. rewrite Hcaps. destruct e; try discriminate. reflexivity.
    + specialize (IH su1). destruct (collect_caps false su1 t) as [[su' rest] got].
      destruct IH as (H1 & H2 & H3). cbn [orb]. repeat split; try assumption.
      intros c. rewrite H3, Hcaps. cbn [existsb]. now rewrite orb_assoc.
Qed.

Definition mode_cap (m : Z) : option capev :=
  if m =? 2026 then Some CSync else if m =? 2027 then Some CUnicode else if m =? 2031 then Some CTheme else None.

Definition rpm_events (mr : Z * rpm) : list emit :=
  match mode_cap (fst mr) with
  | Some c => if rpm_advertises (fst mr) (snd mr) then [Ev (ECap c)] else []
  | None => []
  end.

Section Run.
Variable dec : item -> ikey.
Variable b64 : list Z -> option (list Z).

Lemma post_free e s : q_stalled s = None -> post e s = Ok s [Ev e].
Proof. intros H. unfold post. now rewrite H. Qed.

Lemma par_0 m t : Mouse.par ([m] :: t) 0 = Some m.
Proof. reflexivity. Qed.
Lemma par_1 a v t : Mouse.par (a :: [v] :: t) 1 = Some v.
Proof. reflexivity. Qed.

(* handleSequence on a DECRPM report with parameters ps *)
Lemma handle_decrpm s ps : handle dec b64 s (ICsi [63; 36] ps 121) =
  if zlen ps <? 1 then ret s
  else need (Mouse.par ps 0) (fun a =>
         if a =? 2026 then decrpm ps CSync s
         else if a =? 2027 then decrpm_gen true ps CUnicode s
         else if a =? 2031 then decrpm ps CTheme s
         else ret s).
Proof. reflexivity. Qed.

Lemma bind_ret s o : bind (ret s) o = o s.
Proof. unfold ret. cbn [bind]. destruct (o s); reflexivity. Qed.

Lemma bind_post e s o : q_stalled s = None ->
  bind (post e s) o = bind (Ok s [Ev e]) o.
Proof. intros H. now rewrite post_free. Qed.

(* one delivered DECRPM report: the state is unchanged and at most its own capability is posted *)
Lemma run_rpm_items mr s : q_stalled s = None ->
  forall rest, run dec b64 s (rpm_items mr ++ rest) =
               bind (Ok s (rpm_events mr)) (fun s' => run dec b64 s' rest).
Proof.
  intros Hq rest. destruct mr as [m r]. unfold rpm_events, mode_cap. cbn [fst snd].
  assert (Hnil : bind (Ok s []) (fun s' => run dec b64 s' rest) = run dec b64 s rest) by apply (bind_ret s).
  destruct r as [| | |v]; cbn [rpm_items app rpm_advertises].
  - destruct (m =? 2026); [|destruct (m =? 2027); [|destruct (m =? 2031)]]; cbv beta iota; now rewrite Hnil.
  - cbn [run]. rewrite handle_decrpm. change (zlen [[m]] <? 1) with false. cbv iota. rewrite par_0. cbn [need].
    unfold decrpm, decrpm_gen. change (zlen [[m]] <? 2) with true. cbv iota.
    destruct (m =? 2026); [|destruct (m =? 2027); [|destruct (m =? 2031)]]; cbv beta iota; now rewrite bind_ret, Hnil.
  - cbn [run]. rewrite handle_decrpm. change (zlen [[m]; [0]] <? 1) with false. cbv iota. rewrite par_0. cbn [need].
    unfold decrpm, decrpm_gen. change (zlen [[m]; [0]] <? 2) with false. cbv iota. rewrite par_1. cbn [need].
    change (0 =? 1) with false. change (0 =? 2) with false. change (0 =? 3) with false. cbn [orb andb]. rewrite ?andb_false_r. cbv iota.
    destruct (m =? 2026); [|destruct (m =? 2027); [|destruct (m =? 2031)]]; cbv beta iota; now rewrite bind_ret, Hnil.
  - cbn [run]. rewrite handle_decrpm. change (zlen [[m]; [v]] <? 1) with false. cbv iota. rewrite par_0. cbn [need].
    unfold decrpm, decrpm_gen. change (zlen [[m]; [v]] <? 2) with false. cbv iota. rewrite par_1. cbn [need andb].
    rewrite ?orb_false_r.
    destruct (Z.eqb_spec m 2026) as [->|N1]; [|destruct (Z.eqb_spec m 2027) as [->|N2]; [|destruct (Z.eqb_spec m 2031) as [->|N3]]];
      cbn [Z.eqb Pos.eqb andb]; rewrite ?orb_false_r.
    + destruct ((v =? 1) || (v =? 2)); cbv beta iota; [now rewrite bind_post|now rewrite bind_ret, Hnil].
    + destruct ((v =? 1) || (v =? 2) || (v =? 3)); cbv beta iota; [now rewrite bind_post|now rewrite bind_ret, Hnil].
    + destruct ((v =? 1) || (v =? 2)); cbv beta iota; [now rewrite bind_post|now rewrite bind_ret, Hnil].
    + cbv beta iota. now rewrite bind_ret, Hnil.
Qed.

Lemma run_da1 s : q_stalled s = None -> run dec b64 s [da1_item] = Ok s [Ev EDA1].
Proof.
  intros Hq. unfold da1_item. cbn [run]. unfold handle, handle_csi. cbn. rewrite !post_free by assumption. reflexivity.
Qed.

Lemma run_replies rs : forall s, q_stalled s = None ->
  run dec b64 s (flat_map rpm_items rs ++ [da1_item]) = Ok s (flat_map rpm_events rs ++ [Ev EDA1]).
Proof.
  induction rs as [|mr t IH]; intros s Hq; cbn [flat_map app].
  - now apply run_da1.
  - rewrite <- app_assoc. rewrite run_rpm_items by assumption. cbn [bind]. rewrite IH by assumption.
    now rewrite app_assoc.
Qed.
End Run.

Lemma events_of_app a b : events_of (a ++ b) = events_of a ++ events_of b.
Proof. unfold events_of. apply flat_map_app. Qed.

Lemma rpm_events_no_da1 rs : existsb is_da1 (events_of (flat_map rpm_events rs)) = false.
Proof.
  induction rs as [|mr t IH]; [reflexivity|]. cbn [flat_map]. rewrite events_of_app, existsb_app, IH.
  unfold rpm_events. destruct (mode_cap (fst mr)); [|reflexivity]. destruct (rpm_advertises _ _); reflexivity.
Qed.

Lemma before_da1_app a : existsb is_da1 a = false ->
  before_da1 (a ++ [EDA1]) = a.
Proof.
  induction a as [|e t IH]; intros H; [reflexivity|]. cbn [app before_da1 existsb] in *.
  apply Bool.orb_false_elim in H as [H1 H2]. rewrite H1. now rewrite IH.
Qed.

Lemma after_da1_app a : existsb is_da1 a = false ->
  after_da1 (a ++ [EDA1]) = [].
Proof.
  induction a as [|e t IH]; intros H; [reflexivity|]. cbn [app after_da1 existsb] in *.
  apply Bool.orb_false_elim in H as [H1 H2]. rewrite H1. now apply IH.
Qed.

Lemma cap_events_spec rs c :
  existsb (is_cap c) (events_of (flat_map rpm_events rs)) = cap_spec rs c.
Proof.
  induction rs as [|[m r] t IH].
  - destruct c; reflexivity.
  - cbn [flat_map]. rewrite events_of_app, existsb_app, IH. clear IH.
    unfold rpm_events, mode_cap. cbn [fst snd].
    destruct (Z.eqb_spec m 2026) as [->|N1]; [|destruct (Z.eqb_spec m 2027) as [->|N2]; [|destruct (Z.eqb_spec m 2031) as [->|N3]]].
    + destruct (rpm_advertises 2026 r) eqn:A; destruct c; cbn; rewrite ?A; reflexivity.
    + destruct (rpm_advertises 2027 r) eqn:A; destruct c; cbn; rewrite ?A; reflexivity.
    + destruct (rpm_advertises 2031 r) eqn:A; destruct c; cbn; rewrite ?A; reflexivity.
    + destruct c; cbn; try reflexivity.
      * replace (m =? 2026) with false by (symmetry; now apply Z.eqb_neq). reflexivity.
      * replace (m =? 2027) with false by (symmetry; now apply Z.eqb_neq). reflexivity.
      * replace (m =? 2031) with false by (symmetry; now apply Z.eqb_neq). reflexivity.
Qed.

(* the general statement: any key decoder, any base64 decoder *)
Theorem reported_exact dec b64 rs :
  exists s es su rest,
    run dec b64 vx0 (flat_map rpm_items rs ++ [da1_item]) = Ok s es /\
    collect_caps false startup0 (events_of es) = (su, rest, true) /\ rest = [] /\
    forall c, caps_get (su_caps su) c = cap_spec rs c.
Proof.
  rewrite run_replies by reflexivity.
  pose proof (collect_caps_exact (events_of (flat_map rpm_events rs ++ [Ev EDA1])) startup0) as H.
  destruct (collect_caps false startup0 (events_of (flat_map rpm_events rs ++ [Ev EDA1]))) as [[su rest] got] eqn:Ec.
  destruct H as (H1 & H2 & H3).
  rewrite events_of_app in H1, H2, H3. change (events_of [Ev EDA1]) with [EDA1] in *.
  exists vx0, (flat_map rpm_events rs ++ [Ev EDA1]), su, rest.
  split; [reflexivity|]. split.
  - rewrite Ec, H2, existsb_app. cbn [existsb is_da1]. now rewrite orb_true_r.
  - split.
    + rewrite H1. apply after_da1_app, rpm_events_no_da1.
    + intros c. rewrite H3. rewrite before_da1_app by apply rpm_events_no_da1.
      rewrite cap_events_spec. destruct c; reflexivity.
Qed.

(* the statement of props/C07.v: for every list of replies the capabilities the code model
   reports are the advertised ones - nothing else is set, nothing advertised is missing *)
Theorem decrpm_reported_exactly_advertised (rs : list (Z * rpm)) :
  exists cp, reported_caps rs = Some cp /\
    c_sync cp = mode_advertised 2026 rs /\
    c_unicode cp = mode_advertised 2027 rs /\
    c_theme cp = mode_advertised 2031 rs /\
    forall c, caps_get cp c = cap_spec rs c.
Proof.
  destruct (reported_exact no_key no_b64 rs) as (s & es & su & rest & Hrun & Hcol & _ & Hget).
  exists (su_caps su). unfold reported_caps. rewrite Hrun, Hcol.
  split; [reflexivity|].
  split; [exact (Hget CSync)|]. split; [exact (Hget CUnicode)|]. split; [exact (Hget CTheme)|]. exact Hget.
Qed.

Theorem decrpm_value_meaning m v :
  rpm_advertises m (RpmVal v) = true <-> (v = 1 \/ v = 2 \/ (m = 2027 /\ v = 3)).
Proof.
  cbn [rpm_advertises].
  destruct (Z.eqb_spec v 1); destruct (Z.eqb_spec v 2); destruct (Z.eqb_spec m 2027); destruct (Z.eqb_spec v 3);
    cbn; split; intros H; try discriminate; try reflexivity; try lia; auto.
Qed.
