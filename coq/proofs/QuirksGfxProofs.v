From Vx Require Import base.Prelude model.QuirksGfx.

Theorem gfx_model_is_spec i : gfx_model i = gfx_spec i.
Proof.
  destruct i as [sx ki asc g px]. unfold gfx_model, gfx_run, gfx_steps, gfx_spec.
  cbn [fold_left gstep_run gi_sixel gi_kitty gi_asciinema gi_graphics gi_pixels].
  destruct px; cbn [negb]; [|reflexivity].
  destruct (g =? 1); [reflexivity|]. destruct (g =? 2); [reflexivity|]. destruct (g =? 3); [reflexivity|].
  destruct (g =? 4); [reflexivity|]. destruct (g =? 5); [reflexivity|].
  destruct sx, ki, asc; reflexivity.
Qed.

Lemma bad_from_ext {A} (f g : A -> bool) : (forall x, f x = g x) -> forall l i, bad_from f i l = bad_from g i l.
Proof. intros H l. induction l as [|x t IH]; intros i; [reflexivity|]. cbn [bad_from]. now rewrite H, !IH. Qed.

(* model = specification on every case list: the two correspondence functions coincide *)
Theorem gfx_agree_implies_ok cases : c07_gfx_mismatches cases = c07_gfx_violations cases.
Proof.
  unfold c07_gfx_mismatches, c07_gfx_violations, bad_indices. apply bad_from_ext.
  intros c. now rewrite gfx_model_is_spec.
Qed.

(* the order matters: with the quirks after the VAXIS_GRAPHICS switch an explicit choice is lost
   under asciinema *)
Theorem gfx_quirks_last_refuted :
  let i := mkGin false true true 5 true in
  gfx_run [GLoop; GEnvSwitch; GQuirks; GWinsize] i = 2 /\ gfx_spec i = 4.
Proof. split; reflexivity. Qed.
