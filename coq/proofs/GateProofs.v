(* Every token the renderer model writes is allowed by the capability set it runs under. *)
From Vx Require Import base.Prelude base.ListX model.Colour model.RenderTypes model.Render model.Gate
  proofs.ColourProofs.
Require Import ZifyBool.

Lemma is_indexed_index n : 0 <= n < 256 -> is_indexed (index_color n) = true.
Proof.
  intros H. unfold is_indexed, index_color, tag_indexed.
  replace ((n + 16777216) / 16777216) with 1; [reflexivity|].
  apply Z.div_unique with (r := n); lia.
Qed.

Lemma color_params_len c : zlen (color_params c) = 0 \/ zlen (color_params c) = 1 \/ zlen (color_params c) = 3.
Proof. unfold color_params. destruct (is_indexed c); [right; left; reflexivity|]. destruct (is_rgb c); auto. Qed.

(* without RGB support at most one parameter: a palette index *)
Lemma fallback_params_len c : zlen (color_params (as_index c)) <= 1.
Proof.
  pose proof (nearest_ok_spec colorIndex3 c (as_index c) (as_index_nearest c)) as H.
  destruct (is_rgb c) eqn:E.
  - destruct H as [n [best [Hr [Hn _]]]]. rewrite Hr. unfold color_params.
    rewrite is_indexed_index by lia. cbv; discriminate.
  - rewrite H. unfold color_params. destruct (is_indexed c); [cbv; discriminate|]. rewrite E. cbv; discriminate.
Qed.

Lemma col_params_ok cp c : cap_rgb cp || (zlen (col_params cp c) <=? 1) = true.
Proof.
  unfold col_params. destruct (cap_rgb cp); [reflexivity|]. cbn [orb].
  pose proof (fallback_params_len c). lia.
Qed.

Lemma attr_codes_allowed cp a b : forallb (allowed cp) (map KSgr (attr_codes a b)) = true.
Proof.
  unfold attr_codes. destruct (a =? b); [reflexivity|].
  rewrite !map_app, !forallb_app. unfold whenz.
  repeat (apply andb_true_intro; split);
    repeat match goal with |- context [if ?c then _ else _] => destruct c end; reflexivity.
Qed.

Lemma emit_delta_allowed cp pen n : forallb (allowed cp) (emit_delta cp pen n) = true.
Proof.
  unfold emit_delta, emit_fg, emit_bg, emit_ul, emit_attr, emit_uls, emit_link.
  rewrite !forallb_app. repeat (apply andb_true_intro; split).
  - destruct (s_fg pen =? s_fg n); [reflexivity|]. cbn. now rewrite col_params_ok.
  - destruct (s_bg pen =? s_bg n); [reflexivity|]. cbn. now rewrite col_params_ok.
  - destruct (cap_styled_ul cp) eqn:E; [|reflexivity].
    destruct (s_ul pen =? s_ul n); [reflexivity|]. cbn. now rewrite E, col_params_ok.
  - apply attr_codes_allowed.
  - destruct (s_uls pen =? s_uls n); [reflexivity|].
    destruct (cap_styled_ul cp) eqn:E; [cbn; now rewrite E|].
    destruct (s_uls n =? 0); reflexivity.
  - destruct (_ || _); reflexivity.
Qed.

Lemma cell_text_allowed cp c : allowed cp (cell_text cp c) = true.
Proof.
  unfold cell_text. destruct (eff_width c =? 0); [reflexivity|].
  destruct ((1 <? eff_width c) && cap_explicit_width cp) eqn:E; [|reflexivity].
  cbn. apply andb_prop in E as [_ E]. exact E.
Qed.

Lemma render_cells_allowed cp refresh row ns : forall ls col skip repos pen,
  let '(o, _, _) := render_cells cp refresh row ns ls col skip repos pen in
  forallb (allowed cp) o = true.
Proof.
  induction ns as [|n ns IH]; intros ls col skip repos pen; [reflexivity|].
  destruct ls as [|l ls]; [reflexivity|]. cbn [render_cells].
  destruct (0 <? skip).
  { specialize (IH ls (col + 1) (skip - 1) repos pen). destruct (render_cells _ _ _ ns ls _ _ _ _) as [[o l'] p]. exact IH. }
  destruct (c_sixel n).
  { specialize (IH ls (col + 1) 0 true pen). destruct (render_cells _ _ _ ns ls _ _ _ _) as [[o l'] p]. exact IH. }
  destruct (cell_eqb n l && negb refresh).
  { specialize (IH ls (col + 1) (span n - 1) true pen). destruct (render_cells _ _ _ ns ls _ _ _ _) as [[o l'] p]. exact IH. }
  specialize (IH ls (col + 1) (span n - 1) false (c_st n)).
  destruct (render_cells _ _ _ ns ls _ _ _ _) as [[o l'] p].
  rewrite !forallb_app. rewrite IH, emit_delta_allowed. cbn [forallb]. rewrite cell_text_allowed.
  destruct repos; cbn [when andb]; [destruct (nonempty (s_link pen))|]; reflexivity.
Qed.

Lemma render_rows_allowed cp refresh nss : forall lss row pen,
  let '(o, _, _) := render_rows cp refresh row nss lss pen in
  forallb (allowed cp) o = true.
Proof.
  induction nss as [|ns nss IH]; intros lss row pen; [reflexivity|].
  destruct lss as [|ls lss]; [reflexivity|]. cbn [render_rows].
  pose proof (render_cells_allowed cp refresh row ns ls 0 0 true pen) as H1.
  destruct (render_cells cp refresh row ns ls 0 0 true pen) as [[o1 l1] p1].
  specialize (IH lss (row + 1) p1). destruct (render_rows cp refresh (row + 1) nss lss p1) as [[o2 l2] p2].
  rewrite forallb_app. now rewrite H1, IH.
Qed.

Theorem render_allowed s : frame_allowed (v_caps s) (snd (do_render s)) = true.
Proof.
  unfold do_render, render_body, frame_allowed.
  pose proof (render_rows_allowed (v_caps s) (v_refresh s) (v_next s) (v_last s) 0 style0) as H.
  destruct (render_rows (v_caps s) (v_refresh s) 0 (v_next s) (v_last s) style0) as [[o l] pen].
  cbn [snd]. unfold flush.
  set (body := _ ++ o ++ _ ++ _).
  assert (Hb : forallb (allowed (v_caps s)) body = true).
  { unfold body. rewrite !forallb_app. rewrite H. unfold when, show_cursor.
    repeat match goal with |- context [if ?c then _ else _] => destruct c end; reflexivity. }
  destruct body eqn:Eb.
  - unfold show_cursor. repeat match goal with |- context [if ?c then _ else _] => destruct c end; reflexivity.
  - rewrite <- Eb in *. rewrite !forallb_app, Hb. unfold when, show_cursor.
    destruct (cap_sync (v_caps s)) eqn:Es;
      repeat match goal with |- context [if ?c then _ else _] => destruct c end;
      cbn; rewrite ?Es; reflexivity.
Qed.

Lemma ops_caps ops : forall s, v_caps (fold_left apply_op ops s) = v_caps s.
Proof. induction ops as [|o ops IH]; intros s; cbn [fold_left]; [reflexivity|]. rewrite IH. destruct o; reflexivity. Qed.

(* every frame of every history writes only allowed tokens *)
Theorem frame_tokens_allowed s ops e : frame_allowed (v_caps s) (snd (do_frame s ops e)) = true.
Proof.
  unfold do_frame. destruct e.
  - rewrite <- (ops_caps ops s). apply render_allowed.
  - unfold do_refresh. rewrite <- (ops_caps ops s). apply (render_allowed (set_refresh (fold_left apply_op ops s))).
  - reflexivity.
Qed.
