(* Proofs for property C13, part 2: the mode state as the child's output produces it
   (model/TermMouse.v mode_params / child_csi / child_esc, model/TermKeys.v child_items) against the
   specification reading "the child's last word on each mode" (last_word / asked). *)
From Coq Require Import ZifyBool.
From Vx Require Import base.Prelude gen.GenKeys gen.GenTermKeys model.Keys model.ParserTypes model.Parser
  model.TermMouse model.TermKeys proofs.TermKeysProofs.
Local Open Scope Z_scope.

(* ---------- one parameter ---------- *)
Lemma dec_mode_fields md n b :
  m_deckpam (dec_mode md n b) = m_deckpam md /\
  m_decckm (dec_mode md n b) = (if existsb (Z.eqb n) [1] then b else m_decckm md) /\
  m_paste (dec_mode md n b) = (if existsb (Z.eqb n) [2004] then b else m_paste md) /\
  m_buttons (dec_mode md n b) = (if existsb (Z.eqb n) [1000] then b else m_buttons md) /\
  m_drag (dec_mode md n b) = (if existsb (Z.eqb n) [1002] then b else m_drag md) /\
  m_motion (dec_mode md n b) = (if existsb (Z.eqb n) [1003] then b else m_motion md) /\
  m_sgr (dec_mode md n b) = (if existsb (Z.eqb n) [1006] then b else m_sgr md) /\
  m_altscroll (dec_mode md n b) = (if existsb (Z.eqb n) [1007; 1049] then b else m_altscroll md) /\
  m_smcup (dec_mode md n b) = (if existsb (Z.eqb n) [1049] then b else m_smcup md).
Proof.
  unfold dec_mode. cbn [existsb].
  destruct (Z.eqb_spec n 1) as [->|H1]; [cbn; repeat split; reflexivity|].
  destruct (Z.eqb_spec n 1000) as [->|H2]; [cbn; repeat split; reflexivity|].
  destruct (Z.eqb_spec n 1002) as [->|H3]; [cbn; repeat split; reflexivity|].
  destruct (Z.eqb_spec n 1003) as [->|H4]; [cbn; repeat split; reflexivity|].
  destruct (Z.eqb_spec n 1006) as [->|H5]; [cbn; repeat split; reflexivity|].
  destruct (Z.eqb_spec n 1007) as [->|H6]; [cbn; repeat split; reflexivity|].
  destruct (Z.eqb_spec n 1049) as [->|H7]; [cbn; repeat split; reflexivity|].
  destruct (Z.eqb_spec n 2004) as [->|H8]; [cbn; repeat split; reflexivity|].
  cbn. repeat split; reflexivity.
Qed.

(* ---------- the whole parameter list: a field that one parameter switches exactly when it is one of
              [w] ends up switched exactly when some parameter names one of [w] ---------- *)
Lemma mode_params_field (f : tmodes -> bool) (w : list Z) :
  (forall md n b, f (dec_mode md n b) = if existsb (Z.eqb n) w then b else f md) ->
  forall b ps md md', mode_params b ps md = Some md' ->
  f md' = if names w (heads ps) then b else f md.
Proof.
  intros Hf b ps. induction ps as [|p rest IH]; intros md md' H; cbn [mode_params] in H.
  - injection H as <-. reflexivity.
  - destruct p as [|n p']; [discriminate|].
    apply IH in H. rewrite H, Hf. cbn [heads map hd names existsb].
    fold (heads rest). fold (names w (heads rest)).
    destruct (names w (heads rest)), (existsb (Z.eqb n) w); reflexivity.
Qed.

Lemma names_nil l : names [] l = false.
Proof. unfold names. induction l as [|x l IHl]; [reflexivity|]. cbn. exact IHl. Qed.

Lemma mode_params_fields b ps md md' : mode_params b ps md = Some md' ->
  m_deckpam md' = m_deckpam md /\
  m_decckm md' = (if names [1] (heads ps) then b else m_decckm md) /\
  m_paste md' = (if names [2004] (heads ps) then b else m_paste md) /\
  m_buttons md' = (if names [1000] (heads ps) then b else m_buttons md) /\
  m_drag md' = (if names [1002] (heads ps) then b else m_drag md) /\
  m_motion md' = (if names [1003] (heads ps) then b else m_motion md) /\
  m_sgr md' = (if names [1006] (heads ps) then b else m_sgr md) /\
  m_altscroll md' = (if names [1007; 1049] (heads ps) then b else m_altscroll md) /\
  m_smcup md' = (if names [1049] (heads ps) then b else m_smcup md).
Proof.
  intros H.
  assert (K : m_deckpam md' = if names [] (heads ps) then b else m_deckpam md).
  { apply (mode_params_field m_deckpam []) with (md := md); [|exact H].
    intros m n c. apply (dec_mode_fields m n c). }
  rewrite names_nil in K.
  repeat split; [exact K|..];
    match goal with |- ?fld md' = if names ?w _ then _ else _ =>
      apply (mode_params_field fld w) with (md := md); [|exact H];
      intros m n c; apply (dec_mode_fields m n c)
    end.
Qed.

(* decset / decrst of a parameter list never panic on what the parser delivers: non-empty parameters *)
Lemma mode_params_total b : forall ps md, Forall (fun p => p <> []) ps -> exists md', mode_params b ps md = Some md'.
Proof.
  induction ps as [|p rest IH]; intros md H; cbn [mode_params]; [eauto|].
  inversion H as [|? ? Hp Hr]; subst. destruct p as [|n p']; [congruence|]. apply IH, Hr.
Qed.

(* a list of parameters = the same parameters one control function each (what the single-parameter
   streams exercise): the model of decset/decrst is a fold *)
Lemma mode_params_singletons b : forall ns md,
  mode_params b (map (fun n => [n]) ns) md = Some (fold_left (fun m n => dec_mode m n b) ns md).
Proof. induction ns as [|n t IH]; intros md; cbn; [reflexivity|apply IH]. Qed.

Lemma mode_params_app b : forall p1 p2 md,
  mode_params b (p1 ++ p2) md = match mode_params b p1 md with Some m => mode_params b p2 m | None => None end.
Proof.
  induction p1 as [|p t IH]; intros p2 md; cbn [app mode_params]; [reflexivity|].
  destruct p; [reflexivity|apply IH].
Qed.

(* ---------- one item of the child's output against its request ---------- *)
Lemma asked_from_id md : asked_from md [] = md.
Proof. destruct md; reflexivity. Qed.

Lemma child_item_step md it md1 : child_item md it = Some md1 ->
  match item_req it with
  | None => md1 = md
  | Some r => forall rs, asked_from md (r :: rs) = asked_from md1 rs
  end.
Proof.
  destruct it as [rs|c|i f|c|i ps f|pl|f i ps d|d| | |]; cbn [child_item item_req]; intros H;
    try (injection H as <-; reflexivity).
  - (* ESC *)
    injection H as <-. unfold child_esc. destruct i as [|x i']; [|reflexivity].
    destruct (f =? 61); [intros rs; destruct md; reflexivity|].
    destruct (f =? 62); [intros rs; destruct md; reflexivity|].
    destruct (f =? 99); [intros rs; reflexivity|reflexivity].
  - (* CSI *)
    unfold child_csi in H.
    destruct (is_decpriv i && (f =? 104)).
    + intros rs. destruct (mode_params_fields _ _ _ _ H) as (A & B & C & D & E & F & G & I & J).
      unfold asked_from. cbn [last_word last_keypad].
      rewrite A, B, C, D, E, F, G, I, J. reflexivity.
    + destruct (is_decpriv i && (f =? 108)).
      * intros rs. destruct (mode_params_fields _ _ _ _ H) as (A & B & C & D & E & F & G & I & J).
        unfold asked_from. cbn [last_word last_keypad].
        rewrite A, B, C, D, E, F, G, I, J. reflexivity.
      * injection H as <-. reflexivity.
Qed.

(* ---------- the whole output ---------- *)
Theorem child_items_asked : forall its md md', child_items its md = Some md' -> md' = asked_from md (reqs_of its).
Proof.
  induction its as [|it t IH]; intros md md' H; cbn [child_items reqs_of] in *.
  - injection H as <-. symmetry. apply asked_from_id.
  - destruct (child_item md it) as [md1|] eqn:E; [|discriminate].
    apply child_item_step in E. apply IH in H.
    destruct (item_req it) as [r|]; [rewrite E; exact H|subst md1; exact H].
Qed.

Lemma child_items_app : forall a b md,
  child_items (a ++ b) md = match child_items a md with Some m => child_items b m | None => None end.
Proof.
  induction a as [|x t IH]; intros b md; cbn [app child_items]; [reflexivity|].
  destruct (child_item md x); [apply IH|reflexivity].
Qed.

Definition params_ok (it : item) : Prop :=
  match it with ICsi _ ps _ => Forall (fun p => p <> []) ps | _ => True end.

Theorem child_items_total : forall its md, Forall params_ok its -> exists md', child_items its md = Some md'.
Proof.
  induction its as [|it t IH]; intros md H; cbn [child_items]; [eauto|].
  inversion H as [|? ? Hi Ht]; subst.
  assert (exists m, child_item md it = Some m) as [m ->].
  { destruct it; cbn [child_item]; eauto. cbn [params_ok] in Hi. unfold child_csi.
    destruct (_ && _); [apply mode_params_total, Hi|].
    destruct (_ && _); [apply mode_params_total, Hi|eauto]. }
  apply IH, Ht.
Qed.

(* ---------- the clause of the property: a DECRST switches off everything it names, whatever else it
              names and in whatever order ---------- *)
Lemma last_decrst its params md :
  child_items (its ++ [ICsi [63] params 108]) modes0 = Some md ->
  exists md0, mode_params false params md0 = Some md.
Proof.
  rewrite child_items_app. destruct (child_items its modes0) as [md0|]; [|discriminate].
  cbn [child_items child_item]. unfold child_csi. change (is_decpriv [63] && (108 =? 104)) with false.
  change (is_decpriv [63] && (108 =? 108)) with true. cbn iota.
  destruct (mode_params false params md0) as [m|] eqn:E; [|discriminate].
  intros H; injection H as <-. eauto.
Qed.

Lemma last_decset its params md :
  child_items (its ++ [ICsi [63] params 104]) modes0 = Some md ->
  exists md0, mode_params true params md0 = Some md.
Proof.
  rewrite child_items_app. destruct (child_items its modes0) as [md0|]; [|discriminate].
  cbn [child_items child_item]. unfold child_csi. change (is_decpriv [63] && (104 =? 104)) with true. cbn iota.
  destruct (mode_params true params md0) as [m|] eqn:E; [|discriminate].
  intros H; injection H as <-. eauto.
Qed.

Lemma names_alt l : names [1049] l || names [1007] l = true -> names [1007; 1049] l = true.
Proof.
  unfold names. induction l as [|y l IHl]; [discriminate|]. cbn [existsb].
  destruct (y =? 1049), (y =? 1007); cbn [orb]; try reflexivity.
  exact IHl.
Qed.

Theorem child_decrst_disables (u : uni) its params md :
  child_items (its ++ [ICsi [63] params 108]) modes0 = Some md ->
  (listed 2004 params = true -> term_update u md TPasteStart = [] /\ term_update u md TPasteEnd = []) /\
  (listed 1000 params = true -> listed 1002 params = true -> listed 1003 params = true ->
     forall m, is_click m || (ms_type m =? EventMotion) = true ->
       handle_mouse md m =
         if altscroll_applies md m
         then (if ms_button m =? MouseWheelUp then ss3_up ++ ss3_up ++ ss3_up else ss3_down ++ ss3_down ++ ss3_down)
         else []) /\
  (listed 1000 params = true -> listed 1002 params = true -> listed 1003 params = true ->
     listed 1049 params || listed 1007 params = true ->
     forall m, is_click m || (ms_type m =? EventMotion) = true -> handle_mouse md m = []) /\
  (listed 1 params = true ->
     forall k x, xterm_mods (k_mods k) = 0 -> lookup1 cursor_finals (k_code k) = Some x ->
       term_update u md (TKey k) = [27; 91; x]).
Proof.
  intros H. destruct (last_decrst _ _ _ H) as [md0 H0].
  destruct (mode_params_fields _ _ _ _ H0) as (A & B & C & D & E & F & G & I & J).
  unfold listed.
  assert (Hen : names [1000] (heads params) = true -> names [1002] (heads params) = true ->
                names [1003] (heads params) = true -> forall m, mouse_enabled md m = false).
  { intros L1 L2 L3 m. rewrite L1 in D. rewrite L2 in E. rewrite L3 in F.
    unfold mouse_enabled, tracking. rewrite D, E, F.
    destruct (is_click m), (is_drag m), (is_plain_motion m); reflexivity. }
  split; [|split; [|split]].
  - intros L. rewrite L in C. cbn [term_update]. now rewrite C.
  - intros L1 L2 L3 m Hm. apply nothing_unless_enabled; [exact Hm|apply Hen; assumption].
  - intros L1 L2 L3 L4 m Hm.
    rewrite nothing_unless_enabled; [|exact Hm|apply Hen; assumption].
    assert (Hal : m_altscroll md = false).
    { rewrite I, (names_alt _ L4). reflexivity. }
    unfold altscroll_applies. rewrite Hal. now rewrite !andb_false_r.
  - intros L k x Hx Hl. rewrite L in B. cbn [term_update]. rewrite B.
    apply (cursor_mode_selects u k (m_deckpam md) x Hx Hl).
Qed.

(* ... and a DECSET switches on everything it names *)
Theorem child_decset_enables (u : uni) (seg : list Z -> list (list Z)) its params md :
  child_items (its ++ [ICsi [63] params 104]) modes0 = Some md ->
  (listed 2004 params = true -> forward u seg md TPasteStart = [HPasteStart] /\ forward u seg md TPasteEnd = [HPasteEnd]) /\
  (listed 1006 params = true -> listed 1000 params || listed 1002 params || listed 1003 params = true ->
     forall m, is_click m = true -> button_ok (ms_button m) = true -> in_i63 (ms_col m) = true -> in_i63 (ms_row m) = true ->
       forward u seg md (TMouse m) = [HMouse (mkMouse (ms_button m) (ms_row m) (ms_col m) (ms_type m) 0)]) /\
  (listed 1 params = true ->
     forall k x, xterm_mods (k_mods k) = 0 -> lookup1 cursor_finals (k_code k) = Some x ->
       term_update u md (TKey k) = [27; 79; x]).
Proof.
  intros H. destruct (last_decset _ _ _ H) as [md0 H0].
  destruct (mode_params_fields _ _ _ _ H0) as (A & B & C & D & E & F & G & I & J).
  unfold listed. split; [|split].
  - intros L. rewrite L in C. apply (paste_forward u seg md); exact C.
  - intros L6 Lt m Hc Hb Hcol Hrow. rewrite L6 in G.
    apply mouse_forward_roundtrip; try assumption.
    unfold mouse_enabled, tracking. rewrite Hc, D, E, F. cbn [andb].
    destruct (names [1000] (heads params)), (names [1002] (heads params)), (names [1003] (heads params));
      cbn in Lt |- *; try discriminate; rewrite ?orb_true_r; reflexivity.
  - intros L k x Hx Hl. rewrite L in B. cbn [term_update]. rewrite B.
    apply (cursor_mode_selects u k (m_deckpam md) x Hx Hl).
Qed.

(* the single-operation model of the other streams is the one-parameter instance *)
Lemma apply_op_child md op :
  Some (apply_op md op) =
  match op with
  | OpSet n => child_csi md [63] [[n]] 104
  | OpReset n => child_csi md [63] [[n]] 108
  | OpKpam => Some (child_esc md [] 61)
  | OpKpnm => Some (child_esc md [] 62)
  end.
Proof. destruct op; reflexivity. Qed.
