(* C05 - the decidable statement of the property on one observed history ([hist_holds],
   model/TermCheck.v) is sound for the model: on a history from New() on which model and
   implementation agree step by step ([hist_model_ok]), every observation satisfies [obs_wf]
   (cursor inside the screen, margins ordered and inside, every row of both grids of the
   terminal's width, at most two events pending) - or the history is exactly the recorded
   finding event-stall ([stall_only]).  So "no mismatch" implies "no violation", and the
   predicate cannot raise an alarm on code the model describes. *)
From Vx Require Import base.Prelude base.ListX model.Colour model.Sgr model.Term model.TermCheck
  proofs.SgrProofs proofs.TermProofs proofs.TermSafe.
Require Import ZifyBool Lia.

Local Open Scope Z_scope.

Lemma zlist_eqb_true_eq a b : zlist_eqb a b = true -> a = b.
Proof.
  revert b; induction a as [|x a IH]; intros [|y b] H; cbn in H; try discriminate; auto.
  apply andb_true_iff in H; destruct H as [Hx Hr]. apply Z.eqb_eq in Hx; subst y.
  f_equal; now apply IH.
Qed.

Lemma zlist_eqb_same a : zlist_eqb a a = true.
Proof. induction a as [|x a IH]; cbn; auto. rewrite Z.eqb_refl; exact IH. Qed.

Lemma map_zlen_grid w h g : grid_ok w h g -> map zlen g = zrepeat w h.
Proof.
  intros [Hl HF]. unfold zrepeat. replace (Z.to_nat h) with (length g) by (unfold zlen in Hl; lia).
  clear Hl. induction HF as [|r g [Hr _] _ IH]; cbn; [reflexivity|]. now rewrite Hr, IH.
Qed.

(* an observation that matches a state satisfying the invariant satisfies the predicate *)
Lemma obs_matches_wf e w h t o :
  WFs0 e w h t -> o_out o = 0 -> obs_matches t o = true -> obs_wf o = true.
Proof.
  intros W Ho M.
  pose proof (WFs_height _ _ _ _ W) as Hh. pose proof (WFs_width _ _ _ _ W) as Hw.
  unfold obs_matches in M. repeat (apply andb_true_iff in M; destruct M as [M ?]).
  destruct W as [? ? Wp Wa ? ? ? ? ? ? ? ? ? ? [Ee Hr]].
  apply zlist_eqb_true_eq in H0, H1.
  rewrite (map_zlen_grid _ _ _ Wp) in H1. rewrite (map_zlen_grid _ _ _ Wa) in H0.
  assert (Er : o_rows o = h) by lia. assert (Ec : o_cols o = w) by lia.
  unfold obs_wf. rewrite H0, H1, Er, Ec, !zlist_eqb_same.
  repeat (apply andb_true_iff; split); try reflexivity; lia.
Qed.

Lemma obs_matches_ev t o : obs_matches t o = true -> o_ev o = t_ev t.
Proof.
  unfold obs_matches; intros M. repeat (apply andb_true_iff in M; destruct M as [M ?]). lia.
Qed.

(* the verdict on a history replayed from a state satisfying the invariant *)
Lemma steps_verdict : forall (l : hist_case) e w h t,
  WFs0 e w h t -> Forall hstep_ok (map fst l) -> check_steps t l = true ->
  match pending e (map fst l) with
  | Some _ => hist_holds l = true
  | None => stall_only e l = true
  end.
Proof.
  induction l as [|[s o] rest IH]; intros e w h t W Hok C; [reflexivity|].
  cbn [map fst] in Hok. inversion Hok as [|? ? Hs Hrest]; subst.
  cbn [map fst pending check_steps] in *.
  assert (Step : forall e1 w1 h1 t1, hstep_run t s = TOk t1 -> WFs0 e1 w1 h1 t1 ->
            match pending e1 (map fst rest) with
            | Some _ => hist_holds ((s, o) :: rest) = true
            | None => obs_wf o && stall_only (o_ev o) rest = true
            end).
  { intros e1 w1 h1 t1 E1 W1. rewrite E1 in C.
    apply andb_true_iff in C; destruct C as [C C3]. apply andb_true_iff in C; destruct C as [C1 C2].
    assert (Hwf : obs_wf o = true) by (apply (obs_matches_wf e1 w1 h1 t1); auto; lia).
    pose proof (obs_matches_ev _ _ C2) as Hev.
    assert (Ee : t_ev t1 = e1) by (destruct W1 as [? ? ? ? ? ? ? ? ? ? ? ? ? ? [Ee _]]; exact Ee).
    specialize (IH e1 w1 h1 t1 W1 Hrest C3).
    destruct (pending e1 (map fst rest)).
    - unfold hist_holds in *; cbn [forallb snd]. now rewrite Hwf, IH.
    - now rewrite Hwf, Hev, Ee, IH. }
  destruct s as [d it|w' h']; cbn [hstep_run hstep_ok] in *.
  - set (e1 := if d then (if 0 <? e then e - 1 else e) else e) in *.
    assert (H1 : WFs0 e1 w h (if d then drain t else t)).
    { unfold e1; destruct d; [now apply drain_ok | assumption]. }
    assert (He : 0 <= e <= 2) by (destruct W as [? ? ? ? ? ? ? ? ? ? ? ? ? ? [_ ?]]; assumption).
    assert (He1 : 0 <= e1 <= 2) by (destruct H1 as [? ? ? ? ? ? ? ? ? ? ? ? ? ? [_ ?]]; assumption).
    destruct (raises_event it) eqn:R.
    + destruct (e1 >=? 2) eqn:E2.
      * (* the stall: d = false, e = 2, last step *)
        assert (e1 = 2) by lia.
        assert (Hd : d = false).
        { destruct d; [exfalso|reflexivity]. unfold e1 in H. cbn iota in H. destruct (0 <? e) eqn:Z0; lia. }
        subst d. unfold e1 in *. cbn [hstep_run] in C.
        rewrite (update_event _ _ R) in C. rewrite H in H1. rewrite (post_event_stall _ _ _ H1) in C.
        apply andb_true_iff in C; destruct C as [C1 C2]. destruct rest; [|discriminate].
        cbn [stall_only]. rewrite C1, R. subst e. reflexivity.
      * pose proof (update_event (if d then drain t else t) _ R) as Eu.
        destruct (post_event_ok e1 w h _ H1 ltac:(lia)) as [t1 [E1 W1]].
        rewrite <- Eu in E1. specialize (Step _ _ _ _ E1 W1).
        destruct (pending (e1 + 1) (map fst rest)) eqn:P; [exact Step|].
        destruct rest as [|p rest']; [discriminate P|].
        destruct d; cbn [stall_only]; exact Step.
    + destruct (update_quiet e1 w h _ it H1 Hs R) as [t1 [E1 W1]].
      specialize (Step _ _ _ _ E1 W1).
      destruct (pending e1 (map fst rest)) eqn:P; [exact Step|].
      destruct rest as [|p rest']; [discriminate P|].
      destruct d; cbn [stall_only]; exact Step.
  - destruct Hs as [Hw Hh].
    destruct (resize_ok e t w' h' (WFs_resizable e w h t W) Hw Hh) as [t1 [E1 W1]].
    specialize (Step _ _ _ _ E1 W1).
    destruct (pending e (map fst rest)); exact Step.
Qed.

(* from New(): the first step of every history is the resize to the initial size *)
Theorem hist_match_verdict w h o0 (rest : hist_case) :
  1 <= w -> 1 <= h -> Forall hstep_ok (map fst rest) ->
  hist_model_ok ((HResize w h, o0) :: rest) = true ->
  if stall_free (map fst rest) then hist_holds ((HResize w h, o0) :: rest) = true
  else stall_only 0 ((HResize w h, o0) :: rest) = true.
Proof.
  intros Hw Hh Hok C. unfold hist_model_ok in C. cbn [check_steps hstep_run] in C.
  destruct (start_ok w h Hw Hh) as [t0 [E0 W0]]. unfold term_start in E0. rewrite E0 in C.
  apply andb_true_iff in C; destruct C as [C C3]. apply andb_true_iff in C; destruct C as [C1 C2].
  assert (Hwf : obs_wf o0 = true) by (apply (obs_matches_wf 0 w h t0); auto; lia).
  pose proof (obs_matches_ev _ _ C2) as Hev.
  assert (Ee : t_ev t0 = 0) by (destruct W0 as [? ? ? ? ? ? ? ? ? ? ? ? ? ? [Ee _]]; exact Ee).
  pose proof (steps_verdict rest 0 w h t0 W0 Hok C3) as V.
  unfold stall_free. destruct (pending 0 (map fst rest)).
  - unfold hist_holds in *; cbn [forallb snd]. now rewrite Hwf, V.
  - cbn [stall_only]. now rewrite Hwf, Hev, Ee, V.
Qed.

Corollary hist_match_holds w h o0 (rest : hist_case) :
  1 <= w -> 1 <= h -> Forall hstep_ok (map fst rest) -> stall_free (map fst rest) = true ->
  hist_model_ok ((HResize w h, o0) :: rest) = true ->
  hist_holds ((HResize w h, o0) :: rest) = true.
Proof.
  intros Hw Hh Hok Hsf C. pose proof (hist_match_verdict w h o0 rest Hw Hh Hok C) as V.
  now rewrite Hsf in V.
Qed.
